(* ReviewP5.v — the run-level clauses of C10 ("panics are contained") that had no statement:
   A. "nothing is printed while the run is in progress": every attempt label (and every scenario event) happens
      while the process panic hook is replaced;
   C. "the run still ends with run-Finished", whatever the failed flags: the complete contract and the final
      run-Finished of every ended run; the runner alone drains ended attempts into Done; and for EVERY assignment of
      failed flags to the attempts (all panicking included) the run can be driven to Done, in a bounded number of turns;
   B. "other scenarios are unaffected": non-interference of the failed flag — one step and whole streams.
   An attempt that panicked is `LAttEnd k true` in the scheduler model (Model/Sched.v).
   Nothing existing is changed. *)
From CV Require Import Model.Base Model.Events Model.Contract Model.Sched Proofs.BaseP Proofs.SchedP Proofs.SchedP13.
From CV Require Proofs.SchedP2 Proofs.SchedP3 Proofs.SchedP4 Proofs.SchedP7 Proofs.SchedP8 Proofs.SchedP10 Proofs.SchedP12
  Proofs.ReviewP Proofs.ReviewP3 Proofs.FramingP.
From Coq Require Import Lia Arith Wf_nat.

(* ===================================================================================================== *)
(* shared                                                                                                *)
(* ===================================================================================================== *)

Definition att_key (l : label) : option akey :=
  match l with LAttStart k | LAttEv k _ | LAttEnd k _ => Some k | _ => None end.
Definition is_att_label (l : label) : bool := is_some (att_key l).

Lemma exec_from_cons_inv c s l t s' tr : exec_from c s (l :: t) = Some (s', tr) ->
  exists s1 o1 o2, step c s l = Some (s1, o1) /\ exec_from c s1 t = Some (s', o2) /\ tr = o1 ++ o2.
Proof.
  cbn [exec_from]. intros H. destruct (step c s l) as [[s1 o1]|]; [|discriminate].
  destruct (exec_from c s1 t) as [[s2 o2]|] eqn:E; [|discriminate]. inversion H; subst.
  exists s1, o1, o2. repeat split; [exact E].
Qed.

Lemma exec_from_one c s l s1 o : step c s l = Some (s1, o) -> exec_from c s [l] = Some (s1, o).
Proof. intros H. cbn [exec_from]. rewrite H. rewrite app_nil_r. reflexivity. Qed.

(* a prefix of an accepted label list is accepted, and the label after it is enabled *)
Lemma exec_cut c l1 l l2 s tr s1 tr1 :
  exec c (l1 ++ l :: l2) = Some (s, tr) -> exec c l1 = Some (s1, tr1) ->
  exists s2 o tr2, step c s1 l = Some (s2, o) /\ exec c (l1 ++ [l]) = Some (s2, tr1 ++ o) /\
                   exec_from c s2 l2 = Some (s, tr2) /\ tr = tr1 ++ o ++ tr2.
Proof.
  unfold exec. intros H H1.
  destruct (SchedP12.exec_from_app c _ _ _ _ _ H) as (sa & oa & ob & E1 & E2 & ->).
  rewrite H1 in E1. inversion E1; subst sa oa. clear E1.
  destruct (exec_from_cons_inv _ _ _ _ _ _ E2) as (s2 & o & tr2 & ST & E3 & ->).
  exists s2, o, tr2. split; [exact ST|]. split; [|split; [exact E3|reflexivity]].
  exact (ReviewP3.exec_from_app_fwd _ _ _ _ _ _ _ _ H1 (exec_from_one _ _ _ _ _ ST)).
Qed.

(* an attempt label is enabled only while something is running *)
Lemma att_label_needs_running c s l s' o :
  is_att_label l = true -> step c s l = Some (s', o) -> running s <> [].
Proof.
  intros A H E. destruct l; try discriminate A; cbn [step] in H; rewrite E in H; cbn in H;
    try discriminate. destruct (is_middle x); discriminate.
Qed.

Lemma reach_inv c ls s tr : exec c ls = Some (s, tr) -> Inv (cf_concurrency c) s.
Proof. intros H. exact (exec_from_inv _ c ls _ _ _ (init_inv c) H). Qed.

Lemma reach_awaiting c ls s tr : exec c ls = Some (s, tr) -> running s <> [] -> pc s = Awaiting.
Proof.
  intros H NE. destruct (reach_inv _ _ _ _ H) as (_ & _ & _ & PC). unfold pc_ok in PC.
  destruct (pc s); try reflexivity; contradiction.
Qed.

Lemma awaiting_hook c ls s tr : exec c ls = Some (s, tr) -> pc s = Awaiting -> hook_suppressed s = true.
Proof. intros H P. apply (ReviewP.hook_suppressed_iff_loop_active c ls s tr H). left. exact P. Qed.

(* ===================================================================================================== *)
(* A. nothing is printed while the run is in progress                                                    *)
(* ===================================================================================================== *)

(* state form: in a reachable state, an enabled attempt label finds the hook replaced and leaves it replaced *)
Theorem attempt_label_only_while_hook_replaced_step c ls s tr l s' o :
  exec c ls = Some (s, tr) -> is_att_label l = true -> step c s l = Some (s', o) ->
  (pc s = Awaiting /\ hook_suppressed s = true) /\ (pc s' = Awaiting /\ hook_suppressed s' = true).
Proof.
  intros H A ST.
  assert (P : pc s = Awaiting) by (eapply reach_awaiting; [exact H|eapply att_label_needs_running; eauto]).
  assert (P' : pc s' = Awaiting).
  { rewrite <- P. eapply ReviewP.step_pc_not_top; [|exact ST]. intros ->. discriminate A. }
  assert (H' : exec c (ls ++ [l]) = Some (s', tr ++ o)).
  { unfold exec in *. exact (ReviewP3.exec_from_app_fwd _ _ _ _ _ _ _ _ H (exec_from_one _ _ _ _ _ ST)). }
  split; (split; [assumption|]); eapply awaiting_hook; eauto.
Qed.

(* THE GENERAL FORM (label lists): wherever an attempt label — the start, a middle event or the end of an attempt,
   `LAttEnd _ true` (a panic) included — stands in an accepted label list, the hook is replaced in the state it is
   taken from, and still in the state it leads to *)
Theorem attempt_labels_only_while_hook_replaced c l1 l l2 s tr s1 tr1 :
  exec c (l1 ++ l :: l2) = Some (s, tr) -> is_att_label l = true -> exec c l1 = Some (s1, tr1) ->
  hook_suppressed s1 = true /\
  exists s2 o, step c s1 l = Some (s2, o) /\ exec c (l1 ++ [l]) = Some (s2, tr1 ++ o) /\ hook_suppressed s2 = true.
Proof.
  intros H A H1. destruct (exec_cut _ _ _ _ _ _ _ _ H H1) as (s2 & o & tr2 & ST & E2 & _ & _).
  destruct (attempt_label_only_while_hook_replaced_step _ _ _ _ _ _ _ H1 A ST) as [[_ K1] [_ K2]].
  split; [exact K1|]. exists s2, o. auto.
Qed.

(* the reviewer's corollary *)
Corollary attempt_ends_only_while_hook_replaced c l1 k b l2 s tr s1 tr1 :
  exec c (l1 ++ LAttEnd k b :: l2) = Some (s, tr) -> exec c l1 = Some (s1, tr1) -> hook_suppressed s1 = true.
Proof. intros H H1. exact (proj1 (attempt_labels_only_while_hook_replaced _ _ _ _ _ _ _ _ H eq_refl H1)). Qed.

(* on the emitted stream: whatever label emits a scenario event, it does so while the hook is replaced *)
Theorem scenario_events_only_while_hook_replaced c ls s tr l s' o f r sc rt x :
  exec c ls = Some (s, tr) -> step c s l = Some (s', o) -> In (EvScen f r sc rt x) o ->
  hook_suppressed s = true /\ hook_suppressed s' = true.
Proof.
  intros H ST I.
  assert (A : is_att_label l = true).
  { destruct (SchedP2.step_scen_events _ _ _ _ _ ST) as [NS|(e & p & IN & EM)].
    - specialize (NS _ I). contradiction.
    - destruct l; try reflexivity; exfalso.
      + cbn [step] in ST. destruct (perrs s); [discriminate|]. inversion ST; subst. exact I.
      + cbn [step] in ST. destruct (perrs s); [discriminate|]. destruct (pf s) as [[[[a b] c0] d] e0].
        inversion ST; subst. destruct I as [I|[]]; discriminate.
      + cbn [step] in ST. destruct (pdone s); [discriminate|]. destruct (pf s) as [[[[a b] c0] d] e0].
        inversion ST; subst. destruct I as [I|[]]; discriminate.
      + pose proof (SchedP2.loop_top_brk) as LB.
        destruct (SchedP10.step_top_cases _ _ _ _ ST) as (s1 & o2 & LT & CS).
        specialize (LB s1). rewrite LT in LB. cbn [snd] in LB. unfold SchedP2.all_brk in LB. rewrite Forall_forall in LB.
        destruct CS as [(P & ->)|[(P & ->)|(P & r0 & o1 & fl & fc & rc & RE & DR & ->)]].
        * cbn [step] in ST. rewrite P in ST. fold (SchedP10.nb_st s) in ST.
          replace (mk_st (qS s) (qC s) (pdone s) (perrs s) (flow s) (running s) (msgs s) (fcount s) (rcount s) (pf s)
                         (now s) NotBegun true) with (SchedP10.nb_st s) in ST by (unfold SchedP10.nb_st; rewrite P; reflexivity).
          rewrite LT in ST. inversion ST; subst. destruct I as [I|I]; [discriminate|]. specialize (LB _ I). discriminate.
        * cbn [step] in ST. rewrite P, LT in ST. inversion ST; subst. specialize (LB _ I). discriminate.
        * cbn [step] in ST. rewrite P, RE, DR, LT in ST. inversion ST; subst.
          apply in_app_or in I as [I|I]; [|specialize (LB _ I); discriminate].
          pose proof (SchedP2.drain_brk (cf_fail_fast c) (msgs s) (add_slot (flow s)) (fcount s) (rcount s)) as DB.
          rewrite DR in DB. cbn [fst] in DB. unfold SchedP2.all_brk in DB. rewrite Forall_forall in DB.
          specialize (DB _ I). discriminate.
      + cbn [step] in ST. inversion ST; subst. exact I. }
  destruct (attempt_label_only_while_hook_replaced_step _ _ _ _ _ _ _ H A ST) as [[_ K1] [_ K2]]. auto.
Qed.

(* ===================================================================================================== *)
(* C. the run still ends with run-Finished, whatever the failed flags                                    *)
(* ===================================================================================================== *)

(* ---------- C.1 every ended run: the complete contract, run-Finished last and only once, hook restored.
   No hypothesis on the flags of the `LAttEnd` labels in `ls`. ---------- *)
Theorem ended_run_is_complete_whatever_the_flags cf ls s tr :
  exec cf ls = Some (s, tr) -> pc s = Done ->
  NoDup (SchedP7.feature_ids ls) -> NoDup (SchedP4.inserted_ids ls) ->
  contract tr = true /\
  (exists p, tr = p ++ [EvFinished] /\ ~ In EvFinished p) /\
  hook_suppressed s = false.
Proof.
  intros H D N1 N2. split; [exact (proj2 (SchedP7.exec_satisfies_contract cf ls s tr H N1 N2) D)|].
  split; [|exact (ReviewP.hook_restored_after_the_loop _ _ _ _ H D)].
  destruct (FramingP.run_complete_shape _ _ _ _ H D) as (p & q & SH).
  destruct (FramingP.counts_of ls) as [[[[a b] c0] d] e]. destruct SH as (E & A & B & _).
  exists (p ++ EvParsingFinished a b c0 d e :: q). split.
  - rewrite E, <- app_assoc. reflexivity.
  - intros I. apply in_app_or in I as [I|[I|I]]; [exact (proj2 (A _ I) eq_refl)|discriminate|exact (proj2 (B _ I) eq_refl)].
Qed.

(* the final run-Finished needs no hypothesis on the input at all *)
Theorem ended_run_ends_with_finished c ls s tr :
  exec c ls = Some (s, tr) -> pc s = Done -> exists p, tr = p ++ [EvFinished] /\ ~ In EvFinished p.
Proof.
  intros H D. destruct (FramingP.run_complete_shape _ _ _ _ H D) as (p & q & SH).
  destruct (FramingP.counts_of ls) as [[[[a b] c0] d] e]. destruct SH as (E & A & B & _).
  exists (p ++ EvParsingFinished a b c0 d e :: q). split.
  - rewrite E, <- app_assoc. reflexivity.
  - intros I. apply in_app_or in I as [I|[I|I]]; [exact (proj2 (A _ I) eq_refl)|discriminate|exact (proj2 (B _ I) eq_refl)].
Qed.

(* ---------- C.2 the runner alone drains ended attempts into Done ---------- *)
(* all started attempts have ended: no entry of `running` is in a phase before Ended *)
Definition all_ended (s : st) : Prop := forall e p, In (e, p) (running s) -> p = Ended.
(* nothing is left to dispatch: the queues are empty, or the flow is broken (fail-fast tripped) *)
Definition nothing_to_dispatch (s : st) : Prop := (qS s = [] /\ qC s = []) \/ flow s = Break.

Lemma get_nothing s : nothing_to_dispatch s -> exists qs qc md, get (SchedP10.slots_of s) s = ([], qs, qc, md).
Proof.
  intros [[A B]|F].
  - rewrite (SchedP4.get_nil_queues _ s A B). eauto.
  - unfold SchedP10.slots_of. rewrite F. cbn [get]. eauto.
Qed.

Lemma fin_cond_nothing s : pdone s = true -> nothing_to_dispatch s -> SchedP10.fin_cond s = true.
Proof.
  intros PD [[A B]|F]; unfold SchedP10.fin_cond; rewrite PD; [rewrite A, B|rewrite F]; cbn; [apply orb_true_r|reflexivity].
Qed.

Lemma remove_ended_all l : l <> [] -> (forall e p, In (e, p) l -> p = Ended) ->
  exists r, remove_ended l = Some r /\ S (length r) = length l /\ (forall x, In x r -> In x l).
Proof.
  intros NE AE. destruct l as [|[e p] t]; [congruence|].
  rewrite (AE e p (or_introl eq_refl)). cbn [remove_ended]. exists t. split; [reflexivity|].
  split; [reflexivity|]. intros x I. right. exact I.
Qed.

(* one loop turn from such a state: Done, or one ended attempt less and the same situation *)
Lemma top_step_nothing c s : pc_ok s -> SchedP10.aw_ok s -> pc s <> Done ->
  pdone s = true -> all_ended s -> nothing_to_dispatch s ->
  exists s' o, step c s LTop = Some (s', o) /\ pdone s' = true /\ nothing_to_dispatch s' /\
    ( (pc s' = Done /\ (length (running s) <= 1)%nat) \/
      (pc s' = Awaiting /\ S (length (running s')) = length (running s) /\ running s' <> [] /\ all_ended s') ).
Proof.
  intros PC AW ND PD AE NTD.
  assert (EN : exists s' o, step c s LTop = Some (s', o)).
  { cbn [step]. destruct (pc s) eqn:P.
    - destruct (loop_top _) as [s' o]. eauto.
    - destruct (remove_ended_all (running s) (AW P) AE) as (r & RE & _). rewrite RE.
      destruct (drain _ _ _ _ _) as [[[o1 fl] fc] rc]. destruct (loop_top _) as [s' o]. eauto.
    - destruct (loop_top s) as [s' o]. eauto.
    - congruence. }
  destruct EN as (s' & o & ST). exists s', o. split; [exact ST|].
  destruct (SchedP10.step_top_cases _ _ _ _ ST) as (s1 & o2 & LT & CS).
  assert (X : pdone s1 = true /\ nothing_to_dispatch s1 /\
              ((running s1 = [] /\ (length (running s) <= 1)%nat) \/
               (S (length (running s1)) = length (running s) /\ forall x, In x (running s1) -> In x (running s)))).
  { destruct CS as [(P & ->)|[(P & ->)|(P & r & o1 & fl & fc & rc & RE & DR & ->)]].
    - unfold pc_ok in PC. rewrite P in PC. unfold SchedP10.nb_st. cbn [pdone running]. split; [exact PD|].
      split; [exact NTD|]. left. rewrite PC. cbn. split; [reflexivity|lia].
    - unfold pc_ok in PC. rewrite P in PC. split; [exact PD|]. split; [exact NTD|]. left. rewrite PC. cbn. split; [reflexivity|lia].
    - cbn [upd pdone running]. split; [exact PD|]. split.
      + destruct NTD as [QE|F]; [left; exact QE|right]. cbn [upd flow].
        pose proof (drain_flow (cf_fail_fast c) (msgs s) (add_slot (flow s)) (fcount s) (rcount s)) as DF.
        rewrite DR in DF. rewrite F in DF. cbn in DF. destruct DF; assumption.
      + destruct (SchedP.remove_ended_shape _ _ RE) as [L I]. destruct r as [|x r].
        * left. split; [reflexivity|]. cbn in L. lia.
        * right. split; [exact L|exact I]. }
  destruct X as (PD1 & NTD1 & RUN).
  destruct (SchedP10.loop_top_cases _ _ _ LT) as (batch & qs & qc & md & G & Q1 & Q2 & PD' & _ & CS2).
  destruct (get_nothing s1 NTD1) as (qs0 & qc0 & md0 & G0). rewrite G0 in G. inversion G; subst batch qs0 qc0 md0. clear G.
  split; [congruence|]. split.
  { destruct NTD1 as [[A B]|F].
    - left. rewrite (SchedP4.get_nil_queues _ s1 A B) in G0. inversion G0; subst. auto.
    - right. destruct (SchedP2.loop_top_break s1 F) as (_ & FB & _). rewrite LT in FB. exact FB. }
  destruct CS2 as [(R0 & _ & _ & PD2 & _)|[(_ & _ & FC & _)|(NE & PA & RUN2 & _)]].
  - left. split; [exact PD2|]. destruct RUN as [[_ L]|[L _]]; [exact L|]. rewrite R0 in L. cbn in L. lia.
  - rewrite (fin_cond_nothing s1 PD1 NTD1) in FC. discriminate.
  - right. cbn [map] in RUN2. rewrite app_nil_r in RUN2. destruct NE as [NE|NE]; [|congruence].
    destruct RUN as [[R0 _]|[L I]]; [congruence|]. rewrite RUN2.
    split; [exact PA|]. split; [exact L|]. split; [exact NE|].
    intros e p IN. unfold all_ended in AE. rewrite RUN2 in IN. exact (AE e p (I _ IN)).
Qed.

Definition only_tops (n : nat) : list label := repeat LTop n.
Lemma tops_only_tops n : SchedP10.tops (only_tops n) = n.
Proof. induction n as [|n IH]; [reflexivity|]. unfold only_tops in *. cbn [repeat]. rewrite SchedP10.tops_cons, IH. reflexivity. Qed.

Lemma drain_to_done c : forall n s, (length (running s) <= n)%nat ->
  pc_ok s -> SchedP10.aw_ok s -> pc s <> Done -> pdone s = true -> all_ended s -> nothing_to_dispatch s ->
  exists s' tr, exec_from c s (only_tops (Nat.max 1 (length (running s)))) = Some (s', tr) /\ pc s' = Done.
Proof.
  induction n as [|n IH]; intros s LN PC AW ND PD AE NTD;
    destruct (top_step_nothing c s PC AW ND PD AE NTD) as (s1 & o & ST & PD1 & NTD1 & [(D & L)|(PA & L & NE & AE1)]).
  - exists s1, o. replace (Nat.max 1 (length (running s))) with 1%nat by lia. split; [exact (exec_from_one _ _ _ _ _ ST)|exact D].
  - lia.
  - exists s1, o. replace (Nat.max 1 (length (running s))) with 1%nat by lia. split; [exact (exec_from_one _ _ _ _ _ ST)|exact D].
  - assert (PC1 : pc_ok s1) by (unfold pc_ok; rewrite PA; exact I).
    assert (AW1 : SchedP10.aw_ok s1) by (intros _; exact NE).
    assert (ND1 : pc s1 <> Done) by congruence.
    destruct (IH s1 ltac:(lia) PC1 AW1 ND1 PD1 AE1 NTD1) as (s2 & tr2 & E2 & D2). exists s2, (o ++ tr2). split; [|exact D2].
    assert (LR : (1 <= length (running s1))%nat) by (destruct (running s1); [congruence|cbn; lia]).
    replace (Nat.max 1 (length (running s))) with (S (Nat.max 1 (length (running s1)))) by lia.
    unfold only_tops in *. cbn [repeat exec_from]. rewrite ST, E2. reflexivity.
Qed.

(* THE RUNNER ALONE: from every reachable state in which the parser has ended, every started attempt has ended —
   panicked (`LAttEnd _ true` in `ls0`) or not — and nothing is left to dispatch, loop turns alone (no attempt label, no
   clock tick, no parser label) reach Done: exactly one turn per ended attempt (one turn if none); the run then is
   complete and ends with run-Finished *)
Theorem runner_alone_reaches_done c ls0 s0 tr0 :
  exec c ls0 = Some (s0, tr0) -> pdone s0 = true -> all_ended s0 -> nothing_to_dispatch s0 -> pc s0 <> Done ->
  let n := Nat.max 1 (length (running s0)) in
  exists s tr, exec c (ls0 ++ only_tops n) = Some (s, tr0 ++ tr) /\ pc s = Done /\ SchedP10.tops (only_tops n) = n /\
               (exists p, tr0 ++ tr = p ++ [EvFinished] /\ ~ In EvFinished p) /\ hook_suppressed s = false.
Proof.
  intros H PD AE NTD ND n.
  destruct (reach_inv _ _ _ _ H) as (_ & _ & _ & PC).
  pose proof (SchedP10.exec_from_aw c ls0 _ _ _ (SchedP10.init_aw c) H) as AW.
  destruct (drain_to_done c _ s0 (le_n _) PC AW ND PD AE NTD) as (s & tr & E & D).
  assert (E' : exec c (ls0 ++ only_tops n) = Some (s, tr0 ++ tr)).
  { unfold exec in *. exact (ReviewP3.exec_from_app_fwd _ _ _ _ _ _ _ _ H E). }
  exists s, tr. split; [exact E'|]. split; [exact D|]. split; [apply tops_only_tops|].
  split; [exact (ended_run_ends_with_finished _ _ _ _ E' D)|exact (ReviewP.hook_restored_after_the_loop _ _ _ _ E' D)].
Qed.

(* the hypothesis `nothing_to_dispatch` cannot be dropped from the statement about the runner ALONE: when a
   scenario is still queued (another scenario, or the retry of a panicked attempt) the next turn dispatches it, and
   until the user code of that attempt runs (`LAttStart`, `LAttEnd`) no loop turn is enabled and clock ticks change
   nothing *)
Definition runner_only (l : label) : Prop := l = LTop \/ exists d, l = LTick d.

Lemma runner_alone_waits_for_user_code c : forall ls s s' tr,
  pc s = Awaiting -> remove_ended (running s) = None -> Forall runner_only ls ->
  exec_from c s ls = Some (s', tr) -> pc s' = Awaiting /\ running s' = running s.
Proof.
  induction ls as [|l t IH]; intros s s' tr P RE F H.
  - cbn [exec_from] in H. inversion H; subst. auto.
  - destruct (exec_from_cons_inv _ _ _ _ _ _ H) as (s1 & o1 & o2 & ST & E2 & _).
    inversion F as [|x y RO F']; subst. destruct RO as [->|[d ->]].
    + cbn [step] in ST. rewrite P, RE in ST. discriminate.
    + cbn [step] in ST. inversion ST; subst s1 o1.
      set (s1 := upd s (qS s) (qC s) (flow s) (running s) (msgs s) (fcount s) (rcount s) (now s + d) (pc s)) in *.
      destruct (IH s1 _ _ P RE F' E2) as [A B]. split; [exact A|exact B].
Qed.

Definition endedb (x : entry * phase) : bool := match snd x with Ended => true | _ => false end.
Example exC_queue_not_empty_runner_alone_is_stuck :
  let c := mk_cfg (Some 1%nat) false in
  let f := mk_sfeature 1 [mk_sscen 11 None false (Some (1, None)); mk_sscen 12 None false None] 0 2 in
  match exec c [LFeature f; LParserEnd; LTop; LAttStart (11, 0); LAttEnd (11, 0) true] with
  | Some (s0, _) =>
    match step c s0 LTop with
    | Some (s1, _) => (pdone s0, forallb endedb (running s0), length (qC s0),
                       match pc s1 with Awaiting => true | _ => false end, remove_ended (running s1))
    | None => (false, false, 0%nat, false, None)
    end
  | None => (false, false, 0%nat, false, None)
  end = (true, true, 2%nat, true, None).
Proof. vm_compute. reflexivity. Qed.

(* ---------- C.3 the general form: WHATEVER the failed flags, the run can be driven to Done ----------
   `fl` assigns a failed flag to every attempt (`fun _ => true`: every attempt panics). From every reachable state
   after the parser's end (limit not 0) there is a continuation made of loop turns, attempt starts and attempt ends
   carrying exactly the flags `fl` prescribes — no help from the clock or the parser — that reaches Done; every
   continuation, this one included, takes a bounded number of turns (SchedP10.turns_bounded).
   The two hypotheses cannot be dropped: before the parser's end the loop idles for as long as it is polled
   (ReviewP3.spin_while_the_parser_is_silent), and so it does with a limit of 0 (ReviewP3.spin_with_limit_zero). *)
Definition drive_ok (fl : akey -> bool) (l : label) : Prop :=
  match l with LTop | LAttStart _ => True | LAttEnd k b => b = fl k | _ => False end.

Definition wph (p : phase) : nat := match p with Dispatched => 2 | Opened => 1 | Ended => 0 end.
Definition work (l : list (entry * phase)) : nat := fold_right (fun x a => (wph (snd x) + a)%nat) 0%nat l.

Lemma enabled_driven c fl s : SchedP10.aw_ok s -> pc s <> Done ->
  exists l s' o, drive_ok fl l /\ step c s l = Some (s', o) /\
    (l = LTop \/ (SchedP10.is_top l = false /\ S (work (running s')) = work (running s))).
Proof.
  intros A ND. destruct (pc s) eqn:P.
  - exists LTop. cbn [step]. rewrite P. destruct (loop_top _) as [s' o]. exists s', (EvStarted :: o). cbn. auto.
  - destruct (remove_ended (running s)) as [r|] eqn:RE.
    + exists LTop. cbn [step]. rewrite P, RE.
      destruct (drain _ _ _ _ _) as [[[o1 fl0] fc] rc]. destruct (loop_top _) as [s' o]. exists s', (o1 ++ o). cbn. auto.
    + specialize (A P). destruct (running s) as [|[e p] t] eqn:RUN; [congruence|].
      destruct p.
      * exists (LAttStart (key_of e)). cbn [step]. rewrite RUN. cbn [set_phase]. rewrite SchedP10.akey_eqb_refl.
        eexists _, _. split; [exact I|]. split; [reflexivity|]. right. split; [reflexivity|]. cbn. reflexivity.
      * exists (LAttEnd (key_of e) (fl (key_of e))). cbn [step]. rewrite RUN. cbn [set_phase]. rewrite SchedP10.akey_eqb_refl.
        destruct (match next_try e (fl (key_of e)) (now s) with
                  | Some e' => if e_serial e' then (e' :: qS s, qC s) else (qS s, e' :: qC s)
                  | None => (qS s, qC s) end) as [qs qc].
        eexists _, _. split; [reflexivity|]. split; [reflexivity|]. right. split; [reflexivity|]. cbn. reflexivity.
      * cbn [remove_ended] in RE. discriminate.
  - exists LTop. cbn [step]. rewrite P. destruct (loop_top s) as [s' o]. exists s', o. cbn. auto.
  - congruence.
Qed.

Definition reaches_done (c : cfg) (fl : akey -> bool) (s : st) : Prop :=
  exists ls s' tr, Forall (drive_ok fl) ls /\ exec_from c s ls = Some (s', tr) /\ pc s' = Done.

Lemma reaches_done_step c fl s l s1 o : drive_ok fl l -> step c s l = Some (s1, o) -> reaches_done c fl s1 -> reaches_done c fl s.
Proof.
  intros DR ST (ls & s' & tr & F & E & D). exists (l :: ls), s', (o ++ tr). split; [constructor; assumption|].
  split; [|exact D]. cbn [exec_from]. rewrite ST, E. reflexivity.
Qed.

Lemma drive_inner c fl (NZ : cf_concurrency c <> Some 0%nat) (P : nat)
  (HTop : forall s1, SchedP10.Good c s1 -> SchedP10.aw_ok s1 -> (N.to_nat (SchedP10.Phi s1) < P)%nat -> reaches_done c fl s1) :
  forall w s, (N.to_nat (SchedP10.Phi s) <= P)%nat -> (work (running s) <= w)%nat ->
    SchedP10.Good c s -> SchedP10.aw_ok s -> reaches_done c fl s.
Proof.
  induction w as [|w IH]; intros s HP HW G AW;
    (assert (DD : pc s = Done \/ pc s <> Done) by (destruct (pc s); auto; right; discriminate));
    (destruct DD as [D|ND]; [exists [], s, []; split; [constructor|split; [reflexivity|exact D]]|]);
    destruct (enabled_driven c fl s AW ND) as (l & s1 & o & DR & ST & [->|[NT WK]]);
    pose proof (SchedP10.step_phi _ _ _ _ _ NZ G ST) as PH;
    pose proof (SchedP10.step_good _ _ _ _ _ G ST) as G1;
    pose proof (SchedP10.step_aw _ _ _ _ _ AW ST) as AW1.
  - cbn [SchedP10.is_top] in PH. apply (reaches_done_step _ _ _ _ _ _ DR ST). apply HTop; [exact G1|exact AW1|lia].
  - lia.
  - cbn [SchedP10.is_top] in PH. apply (reaches_done_step _ _ _ _ _ _ DR ST). apply HTop; [exact G1|exact AW1|lia].
  - rewrite NT in PH. apply (reaches_done_step _ _ _ _ _ _ DR ST). apply IH; [lia|lia|exact G1|exact AW1].
Qed.

Lemma drive_outer c fl (NZ : cf_concurrency c <> Some 0%nat) : forall P s, (N.to_nat (SchedP10.Phi s) <= P)%nat ->
  SchedP10.Good c s -> SchedP10.aw_ok s -> reaches_done c fl s.
Proof.
  induction P as [P IH] using lt_wf_ind. intros s HP G AW.
  apply (drive_inner c fl NZ P) with (w := work (running s)); [|exact HP|apply le_n|exact G|exact AW].
  intros s1 G1 AW1 L. exact (IH _ L s1 (le_n _) G1 AW1).
Qed.

Theorem run_can_be_driven_to_done_whatever_the_flags c fl ls0 s0 tr0 :
  exec c ls0 = Some (s0, tr0) -> pdone s0 = true -> cf_concurrency c <> Some 0%nat ->
  exists ls s tr,
    Forall (drive_ok fl) ls /\ exec c (ls0 ++ ls) = Some (s, tr0 ++ tr) /\ pc s = Done /\
    N.of_nat (SchedP10.tops ls) <= 3 * SchedP8.pot (fun _ => true) s0 + N.of_nat (length (running s0)) + 3 /\
    (exists p, tr0 ++ tr = p ++ [EvFinished] /\ ~ In EvFinished p) /\ hook_suppressed s = false.
Proof.
  intros H PD NZ.
  pose proof (SchedP10.exec_from_aw c ls0 _ _ _ (SchedP10.init_aw c) H) as AW.
  destruct (drive_outer c fl NZ _ s0 (le_n _) (SchedP10.exec_good _ _ _ _ H PD) AW) as (ls & s & tr & F & E & D).
  assert (E' : exec c (ls0 ++ ls) = Some (s, tr0 ++ tr)).
  { unfold exec in *. exact (ReviewP3.exec_from_app_fwd _ _ _ _ _ _ _ _ H E). }
  exists ls, s, tr. split; [exact F|]. split; [exact E'|]. split; [exact D|].
  split; [exact (SchedP10.turns_bounded _ _ _ _ _ _ _ H PD NZ E)|].
  split; [exact (ended_run_ends_with_finished _ _ _ _ E' D)|exact (ReviewP.hook_restored_after_the_loop _ _ _ _ E' D)].
Qed.

(* every attempt panics: still Done, still run-Finished, still the complete contract *)
Corollary run_ends_even_if_every_attempt_panics c ls0 s0 tr0 :
  exec c ls0 = Some (s0, tr0) -> pdone s0 = true -> cf_concurrency c <> Some 0%nat ->
  NoDup (SchedP7.feature_ids ls0) -> NoDup (SchedP4.inserted_ids ls0) ->
  exists ls s tr,
    Forall (drive_ok (fun _ => true)) ls /\ exec c (ls0 ++ ls) = Some (s, tr0 ++ tr) /\ pc s = Done /\
    contract (tr0 ++ tr) = true /\ (exists p, tr0 ++ tr = p ++ [EvFinished] /\ ~ In EvFinished p).
Proof.
  intros H PD NZ N1 N2.
  destruct (run_can_be_driven_to_done_whatever_the_flags c (fun _ => true) _ _ _ H PD NZ) as (ls & s & tr & F & E & D & _ & FIN & _).
  exists ls, s, tr. split; [exact F|]. split; [exact E|]. split; [exact D|]. split; [|exact FIN].
  assert (NF : SchedP7.feature_ids (ls0 ++ ls) = SchedP7.feature_ids ls0 /\ SchedP4.inserted_ids (ls0 ++ ls) = SchedP4.inserted_ids ls0).
  { clear -F. induction ls0 as [|x t IH].
    - cbn [app]. induction F as [|l ls DL F IH]; [auto|].
      destruct l; try contradiction DL; cbn in *; exact IH.
    - destruct IH as [A B]. unfold SchedP7.feature_ids, SchedP4.inserted_ids in *. cbn [app flat_map]. rewrite A, B. auto. }
  destruct NF as [A B].
  refine (proj2 (SchedP7.exec_satisfies_contract c _ s _ E _ _) D); [rewrite A; exact N1|rewrite B; exact N2].
Qed.

(* ---------- C.4 non-vacuity: the run of ReviewP part B — three panicking attempts (two retries), one passing ---------- *)
Definition is_panic_end (l : label) : bool := match l with LAttEnd _ true => true | _ => false end.

Example exC_three_panics_complete_run :
  match exec ReviewP.exB_c ReviewP.exB_ls with
  | Some (s, tr) => (match pc s with Done => true | _ => false end, contract tr, last tr EvStarted,
                     length (filter is_panic_end ReviewP.exB_ls), hook_suppressed s)
  | None => (false, false, EvStarted, 0%nat, true)
  end = (true, true, EvFinished, 3%nat, false) /\
  NoDup (SchedP7.feature_ids ReviewP.exB_ls) /\ NoDup (SchedP4.inserted_ids ReviewP.exB_ls).
Proof. split; [vm_compute; reflexivity|]. split; cbn; repeat constructor; cbn; intuition discriminate. Qed.

(* the premises of `runner_alone_reaches_done` hold before the last turn of that run (after three panics) *)
Example exC_runner_alone_premises :
  let ls0 := firstn 14 ReviewP.exB_ls in
  match exec ReviewP.exB_c ls0 with
  | Some (s0, _) => pdone s0 = true /\ all_ended s0 /\ nothing_to_dispatch s0 /\ pc s0 <> Done /\
                    Nat.max 1 (length (running s0)) = 1%nat /\ length (filter is_panic_end ls0) = 3%nat
  | None => False
  end.
Proof.
  vm_compute. split; [reflexivity|]. split.
  - intros e p [E|[]]. inversion E. reflexivity.
  - split; [left; split; reflexivity|]. split; [discriminate|]. split; reflexivity.
Qed.

(* EVERY attempt panics (the passing scenario 12 too): the driven run of `run_can_be_driven_to_done_whatever_the_flags` *)
Definition exC_all_panic : list label :=
  [LTop; LAttStart (11, 0); LAttEnd (11, 0) true; LTop; LAttStart (11, 1); LAttEnd (11, 1) true; LTop;
   LAttStart (11, 2); LAttEnd (11, 2) true; LTop; LAttStart (12, 0); LAttEnd (12, 0) true; LTop].
Example exC_all_attempts_panic :
  Forall (drive_ok (fun _ => true)) exC_all_panic /\
  match exec ReviewP.exB_c (firstn 2 ReviewP.exB_ls) with
  | Some (s0, _) =>
    pdone s0 = true /\
    match exec ReviewP.exB_c (firstn 2 ReviewP.exB_ls ++ exC_all_panic) with
    | Some (s, tr) => pc s = Done /\ contract tr = true /\ last tr EvStarted = EvFinished /\
                      SchedP10.tops exC_all_panic = 5%nat /\
                      3 * SchedP8.pot (fun _ => true) s0 + N.of_nat (length (running s0)) + 3 = 15
    | None => False
    end
  | None => False
  end.
Proof. split; [repeat constructor|]. vm_compute. repeat split. Qed.

(* ===================================================================================================== *)
(* B. other scenarios are unaffected: non-interference of the failed flag                                *)
(* ===================================================================================================== *)

(* the running entry of an attempt: the first entry of `running` with its key — the one every label of that
   attempt acts on (`set_phase`, `find_open`) *)
Fixpoint find_key (k : akey) (l : list (entry * phase)) : option (entry * phase) :=
  match l with
  | [] => None
  | (e, p) :: t => if akey_eqb (key_of e) k then Some (e, p) else find_key k t
  end.

Lemma akey_eqb_false a b : a <> b -> akey_eqb a b = false.
Proof. intros N. destruct (akey_eqb a b) eqn:E; [|reflexivity]. apply akey_eqb_true in E. contradiction. Qed.

Lemma set_phase_find k a b l e r : set_phase k a b l = Some (e, r) ->
  find_key k l = Some (e, a) /\ find_key k r = Some (e, b) /\ (forall k', k' <> k -> find_key k' r = find_key k' l).
Proof.
  revert r. induction l as [|[e1 p1] t IH]; intros r H; cbn [set_phase] in H; [discriminate|].
  destruct (akey_eqb (key_of e1) k) eqn:K.
  - assert (KE : key_of e1 = k) by (apply akey_eqb_true; exact K).
    destruct p1, a; try discriminate; inversion H; subst e r; cbn [find_key]; rewrite K;
      (split; [reflexivity|split; [reflexivity|]]); intros k' NE; rewrite KE, (akey_eqb_false k k') by congruence; reflexivity.
  - destruct (set_phase k a b t) as [[e' r']|] eqn:E; [|discriminate]. inversion H; subst e' r.
    destruct (IH r' eq_refl) as (A & B & C). cbn [find_key]. rewrite K. split; [exact A|split; [exact B|]].
    intros k' NE. rewrite (C k' NE). reflexivity.
Qed.

Lemma find_set_phase k a b l e : find_key k l = Some (e, a) -> a <> Ended -> exists r, set_phase k a b l = Some (e, r).
Proof.
  intros H NE. induction l as [|[e1 p1] t IH]; cbn [find_key] in H; [discriminate|]. cbn [set_phase].
  destruct (akey_eqb (key_of e1) k) eqn:K.
  - inversion H; subst e1 p1. destruct a; [eexists; reflexivity|eexists; reflexivity|contradiction].
  - destruct (IH H) as (r & ->). eexists; reflexivity.
Qed.

Lemma find_open_find k l e : find_open k l = Some e <-> find_key k l = Some (e, Opened).
Proof.
  induction l as [|[e1 p1] t IH]; cbn [find_open find_key]; [split; discriminate|].
  destruct (akey_eqb (key_of e1) k); [|exact IH].
  destruct p1; split; intros H; inversion H; subst; reflexivity.
Qed.

Lemma remove_ended_find l : forall r k e p, remove_ended l = Some r -> find_key k l = Some (e, p) -> p <> Ended ->
  find_key k r = Some (e, p).
Proof.
  induction l as [|[e1 p1] t IH]; intros r k e p H F NE; cbn [remove_ended] in H; [discriminate|].
  cbn [find_key] in F. destruct p1.
  - destruct (remove_ended t) as [r'|] eqn:RE; [|discriminate]. inversion H; subst r. cbn [find_key].
    destruct (akey_eqb (key_of e1) k); [exact F|]. exact (IH _ _ _ _ eq_refl F NE).
  - destruct (remove_ended t) as [r'|] eqn:RE; [|discriminate]. inversion H; subst r. cbn [find_key].
    destruct (akey_eqb (key_of e1) k); [exact F|]. exact (IH _ _ _ _ eq_refl F NE).
  - inversion H; subst r. destruct (akey_eqb (key_of e1) k); [|exact F]. inversion F; subst. contradiction.
Qed.

Lemma find_key_app k l l' x : find_key k l = Some x -> find_key k (l ++ l') = Some x.
Proof.
  induction l as [|[e1 p1] t IH]; cbn [find_key app]; [discriminate|].
  destruct (akey_eqb (key_of e1) k); [auto|exact IH].
Qed.

(* ---------- B.1 one step ---------- *)
(* the end of attempt k — panicked or not — leaves the running entry of every other attempt untouched: its fields
   (the whole `entry`) and its phase *)
Theorem att_end_leaves_other_entries_untouched c s k b s' o k' :
  step c s (LAttEnd k b) = Some (s', o) -> k' <> k -> find_key k' (running s') = find_key k' (running s).
Proof.
  intros H NE. cbn [step] in H. destruct (set_phase k Opened Ended (running s)) as [[e r]|] eqn:SP; [|discriminate].
  destruct (set_phase_find _ _ _ _ _ _ SP) as (_ & _ & C).
  destruct (next_try e b (now s)) as [e'|]; [destruct (e_serial e')|]; inversion H; subst; cbn [upd running]; exact (C k' NE).
Qed.

(* the same, list-wise: exactly one position of `running` changes — the entry of k goes from Opened to Ended — for
   either flag; every other entry (other keys, and later duplicates of k) stays in place *)
Theorem att_end_changes_exactly_one_entry c s k b s' o :
  step c s (LAttEnd k b) = Some (s', o) ->
  exists l1 e l2, running s = l1 ++ (e, Opened) :: l2 /\ running s' = l1 ++ (e, Ended) :: l2 /\ key_of e = k /\
                  o = [scen_ev e ScFinished].
Proof.
  intros H. cbn [step] in H. destruct (set_phase k Opened Ended (running s)) as [[e r]|] eqn:SP; [|discriminate].
  destruct (SchedP7.set_phase_shape _ _ _ _ _ _ SP) as (l1 & l2 & E1 & E2 & KE & _). exists l1, e, l2.
  destruct (next_try e b (now s)) as [e'|]; [destruct (e_serial e')|]; inversion H; subst s' o; cbn [upd running]; auto.
Qed.

(* what the flag changes, and what it does not: the step is enabled for both flags, emits the same event, and
   leaves the same `running` list, counters, clock, program counter, flow and hook; only the finished-message and
   the queues (the retry) differ *)
Theorem att_end_flag_only_changes_message_and_queue c s k b s1 o :
  step c s (LAttEnd k b) = Some (s1, o) ->
  forall b', exists s2, step c s (LAttEnd k b') = Some (s2, o) /\
    running s2 = running s1 /\ fcount s2 = fcount s1 /\ rcount s2 = rcount s1 /\ now s2 = now s1 /\ pc s2 = pc s1 /\
    flow s2 = flow s1 /\ hook_suppressed s2 = hook_suppressed s1 /\ pdone s2 = pdone s1 /\ perrs s2 = perrs s1 /\ pf s2 = pf s1.
Proof.
  intros H b'. cbn [step] in *. destruct (set_phase k Opened Ended (running s)) as [[e r]|] eqn:SP; [|discriminate].
  destruct (next_try e b (now s)) as [e1|]; [destruct (e_serial e1)|];
    (destruct (next_try e b' (now s)) as [e2|]; [destruct (e_serial e2)|]); inversion H; subst;
    eexists; (split; [reflexivity|]); cbn; repeat split; reflexivity.
Qed.

(* a label of another attempt k' that is enabled before `LAttEnd k b` is still enabled after it, with the same
   emitted events — `b` is universally quantified: for b = true exactly as for b = false *)
Theorem att_end_keeps_other_attempts_enabled c s k b s1 o l k' s2 o2 :
  step c s (LAttEnd k b) = Some (s1, o) -> att_key l = Some k' -> k' <> k ->
  step c s l = Some (s2, o2) -> exists s3, step c s1 l = Some (s3, o2).
Proof.
  intros H AK NE ST. pose proof (att_end_leaves_other_entries_untouched _ _ _ _ _ _ k' H NE) as FK.
  destruct l as [| | | |k0|k0 x|k0 b0|]; try discriminate AK; cbn [att_key] in AK; inversion AK; subst k0; cbn [step] in *.
  - destruct (set_phase k' Dispatched Opened (running s)) as [[e r]|] eqn:SP; [|discriminate]. inversion ST; subst.
    destruct (set_phase_find _ _ _ _ _ _ SP) as (A & _ & _). rewrite <- FK in A.
    destruct (find_set_phase k' Dispatched Opened _ _ A ltac:(discriminate)) as (r' & ->). eexists; reflexivity.
  - destruct (is_middle x); [|discriminate]. destruct (find_open k' (running s)) as [e|] eqn:FO; [|discriminate].
    inversion ST; subst. apply find_open_find in FO. rewrite <- FK in FO. apply find_open_find in FO. rewrite FO.
    eexists; reflexivity.
  - destruct (set_phase k' Opened Ended (running s)) as [[e r]|] eqn:SP; [|discriminate].
    destruct (set_phase_find _ _ _ _ _ _ SP) as (A & _ & _). rewrite <- FK in A.
    destruct (find_set_phase k' Opened Ended _ _ A ltac:(discriminate)) as (r' & ->).
    assert (O2 : o2 = [scen_ev e ScFinished]).
    { destruct (next_try e b0 (now s)) as [e1|]; [destruct (e_serial e1)|]; inversion ST; reflexivity. }
    subst o2. destruct (next_try e b0 (now s1)) as [e1|]; [destruct (e_serial e1)|]; eexists; reflexivity.
Qed.

(* ---------- B.2 whole runs ----------
   `live` is a set of attempts in flight (dispatched or opened, not ended). `agree live s t`: the two states hold
   the same running entry — same fields, same phase — for every attempt of `live`. *)
Definition agree (live : akey -> bool) (s t : st) : Prop :=
  forall k, live k = true -> exists e p, p <> Ended /\ find_key k (running s) = Some (e, p) /\ find_key k (running t) = Some (e, p).

Definition drop (live : akey -> bool) (k : akey) : akey -> bool := fun x => live x && negb (akey_eqb x k).
(* the labels of the attempts of `live`, each up to its own end *)
Definition keeps (live : akey -> bool) (l : label) : bool := match att_key l with Some k => live k | None => false end.
Definition live_after (live : akey -> bool) (l : label) : akey -> bool :=
  match l with LAttEnd k _ => drop live k | _ => live end.
Fixpoint proj (live : akey -> bool) (ls : list label) : list label :=
  match ls with
  | [] => []
  | l :: t => if keeps live l then l :: proj (live_after live l) t else proj live t
  end.
Fixpoint projh (live : akey -> bool) (h : hist) : hist :=
  match h with
  | [] => []
  | (l, o) :: t => if keeps live (l) then (l, o) :: projh (live_after live l) t else projh live t
  end.
Fixpoint live_end (live : akey -> bool) (ls : list label) : akey -> bool :=
  match ls with
  | [] => live
  | l :: t => if keeps live l then live_end (live_after live l) t else live_end live t
  end.

Lemma live_end_proj : forall ls live, live_end live (proj live ls) = live_end live ls.
Proof.
  induction ls as [|l t IH]; intros live; cbn [proj live_end]; [reflexivity|].
  destruct (keeps live l) eqn:K; [|apply IH]. cbn [live_end]. rewrite K. apply IH.
Qed.

Lemma projh_labels : forall h live, map fst (projh live h) = proj live (map fst h).
Proof.
  induction h as [|[l o] t IH]; intros live; cbn [projh proj map fst]; [reflexivity|].
  destruct (keeps live l); [cbn [map fst]; rewrite IH; reflexivity|apply IH].
Qed.

Lemma agree_sym live s t : agree live s t -> agree live t s.
Proof. intros A k L. destruct (A k L) as (e & p & NE & X & Y). exists e, p. auto. Qed.
Lemma agree_trans live s t u : agree live s t -> agree live t u -> agree live s u.
Proof.
  intros A B k L. destruct (A k L) as (e & p & NE & X & Y). destruct (B k L) as (e' & p' & _ & X' & Y').
  exists e, p. split; [exact NE|split; [exact X|]]. congruence.
Qed.
Lemma agree_drop live k s t : agree live s t -> agree (drop live k) s t.
Proof. intros A k' L. unfold drop in L. apply andb_prop in L as [L _]. exact (A k' L). Qed.
Lemma agree_running live s s' t : running s' = running s -> agree live s t -> agree live s' t.
Proof. intros R A k L. rewrite R. exact (A k L). Qed.

(* a label that is not one of `live`'s — a loop turn, the parser, the clock, a label of any other attempt, in
   particular `LAttEnd k b` of another attempt for EITHER value of b — leaves the entries of `live` as they are *)
Lemma other_step_preserves c live s t l s2 o :
  agree live s t -> step c s l = Some (s2, o) -> keeps live l = false -> agree live s2 t.
Proof.
  intros A ST K. destruct l as [F|id| | |k|k x|k b|d]; cbn [step] in ST.
  - destruct (perrs s); [discriminate|]. inversion ST; subst.
    exact (agree_running _ _ _ _ (proj1 (SchedP7.insert_feature_frame F s)) A).
  - destruct (perrs s); [discriminate|]. destruct (pf s) as [[[[a b] c0] d] e]. inversion ST; subst.
    exact (agree_running _ _ _ _ eq_refl A).
  - destruct (pdone s); [discriminate|]. destruct (pf s) as [[[[a b] c0] d] e]. inversion ST; subst.
    exact (agree_running _ _ _ _ eq_refl A).
  - assert (ST' : step c s LTop = Some (s2, o)) by exact ST. clear ST.
    destruct (SchedP10.step_top_cases _ _ _ _ ST') as (s1 & o2 & LT & CS).
    assert (A1 : agree live s1 t).
    { destruct CS as [(P & ->)|[(P & ->)|(P & r & o1 & fl & fc & rc & RE & DR & ->)]].
      - exact (agree_running _ _ _ _ eq_refl A).
      - exact A.
      - intros k L. destruct (A k L) as (e & p & NE & X & Y). exists e, p. split; [exact NE|]. split; [|exact Y].
        cbn [upd running]. exact (remove_ended_find _ _ _ _ _ RE X NE). }
    destruct (SchedP10.loop_top_cases _ _ _ LT) as (batch & qs & qc & md & _ & _ & _ & _ & _ & CS2).
    assert (R2 : exists X, running s2 = running s1 ++ X).
    { destruct CS2 as [(R0 & _ & _ & _ & R2 & _)|[(R0 & _ & _ & _ & R2 & _)|(_ & _ & R2 & _)]].
      - exists []. rewrite R0, R2. reflexivity.
      - exists []. rewrite R0, R2. reflexivity.
      - eexists. exact R2. }
    destruct R2 as (X & R2). intros k L. destruct (A1 k L) as (e & p & NE & X1 & Y). exists e, p.
    split; [exact NE|]. split; [|exact Y]. rewrite R2. apply find_key_app. exact X1.
  - destruct (set_phase k Dispatched Opened (running s)) as [[e r]|] eqn:SP; [|discriminate]. inversion ST; subst.
    destruct (set_phase_find _ _ _ _ _ _ SP) as (_ & _ & C). cbn [keeps att_key] in K.
    intros k' L. destruct (A k' L) as (e' & p & NE & X & Y). exists e', p. split; [exact NE|]. split; [|exact Y].
    cbn [upd running]. rewrite C; [exact X|]. intros ->. congruence.
  - destruct (is_middle x); [|discriminate]. destruct (find_open k (running s)); [|discriminate]. inversion ST; subst. exact A.
  - destruct (set_phase k Opened Ended (running s)) as [[e r]|] eqn:SP; [|discriminate].
    destruct (set_phase_find _ _ _ _ _ _ SP) as (_ & _ & C). cbn [keeps att_key] in K.
    assert (R : running s2 = r).
    { destruct (next_try e b (now s)) as [e1|]; [destruct (e_serial e1)|]; inversion ST; reflexivity. }
    intros k' L. destruct (A k' L) as (e' & p & NE & X & Y). exists e', p. split; [exact NE|]. split; [|exact Y].
    rewrite R, C; [exact X|]. intros ->. congruence.
  - inversion ST; subst. exact (agree_running _ _ _ _ eq_refl A).
Qed.

(* a label of an attempt of `live` does the same in two states that agree on `live`: enabled in both, the same
   events, and the states agree afterwards (on `live` without that attempt, if this was its end) *)
Lemma live_step_simulated c live s t l s2 o :
  agree live s t -> step c s l = Some (s2, o) -> keeps live l = true ->
  exists t2, step c t l = Some (t2, o) /\ agree (live_after live l) s2 t2.
Proof.
  intros A ST K. destruct l as [F|id| | |k|k x|k b|d]; try discriminate K; cbn [keeps att_key] in K; cbn [step live_after] in *.
  - destruct (set_phase k Dispatched Opened (running s)) as [[e r]|] eqn:SP; [|discriminate]. inversion ST; subst s2 o.
    destruct (set_phase_find _ _ _ _ _ _ SP) as (F1 & F2 & C).
    destruct (A k K) as (e' & p & NE & X & Y). rewrite F1 in X. inversion X; subst e' p.
    destruct (find_set_phase k Dispatched Opened _ _ Y NE) as (r' & SP'). rewrite SP'.
    destruct (set_phase_find _ _ _ _ _ _ SP') as (_ & F2' & C').
    eexists. split; [reflexivity|]. intros k' L. cbn [upd running].
    destruct (akey_eqb k' k) eqn:KK.
    + apply akey_eqb_true in KK. subst k'. exists e, Opened. split; [discriminate|]. auto.
    + assert (NK : k' <> k) by (intros ->; rewrite SchedP10.akey_eqb_refl in KK; discriminate).
      destruct (A k' L) as (e2 & p2 & NE2 & X2 & Y2). exists e2, p2. rewrite (C _ NK), (C' _ NK). auto.
  - destruct (is_middle x); [|discriminate]. destruct (find_open k (running s)) as [e|] eqn:FO; [|discriminate].
    inversion ST; subst s2 o. apply find_open_find in FO.
    destruct (A k K) as (e' & p & NE & X & Y). rewrite FO in X. inversion X; subst e' p.
    apply find_open_find in Y. rewrite Y. eexists. split; [reflexivity|exact A].
  - destruct (set_phase k Opened Ended (running s)) as [[e r]|] eqn:SP; [|discriminate].
    destruct (set_phase_find _ _ _ _ _ _ SP) as (F1 & F2 & C).
    destruct (A k K) as (e' & p & NE & X & Y). rewrite F1 in X. inversion X; subst e' p.
    destruct (find_set_phase k Opened Ended _ _ Y NE) as (r' & SP'). rewrite SP'.
    destruct (set_phase_find _ _ _ _ _ _ SP') as (_ & F2' & C').
    assert (R : running s2 = r /\ o = [scen_ev e ScFinished]).
    { destruct (next_try e b (now s)) as [e1|]; [destruct (e_serial e1)|]; inversion ST; auto. }
    destruct R as [R ->].
    assert (EX : exists t2, (let '(qs, qc) := match next_try e b (now t) with
                       | Some e' => if e_serial e' then (e' :: qS t, qC t) else (qS t, e' :: qC t)
                       | None => (qS t, qC t)
                       end in
                 Some (upd t qs qc (flow t) r' (msgs t ++ [mk_msg (e_f e) (e_r e) (e_nf e) (e_nr e) b (is_some (next_try e b (now t)))])
                           (fcount t) (rcount t) (now t) (pc t), [scen_ev e ScFinished])) = Some (t2, [scen_ev e ScFinished]) /\
                 running t2 = r').
    { destruct (next_try e b (now t)) as [e1|]; [destruct (e_serial e1)|]; eexists; split; reflexivity. }
    destruct EX as (t2 & E2 & R'). exists t2. split; [exact E2|].
    intros k' L. unfold drop in L. apply andb_prop in L as [L NK]. apply negb_true_iff in NK.
    assert (NK' : k' <> k) by (intros ->; rewrite SchedP10.akey_eqb_refl in NK; discriminate).
    destruct (A k' L) as (e2 & p2 & NE2 & X2 & Y2). exists e2, p2. rewrite R, R', (C _ NK'), (C' _ NK'). auto.
Qed.

(* THE UNWINDING THEOREM: along any accepted label list `la` from s, the labels of the attempts of `live` — on
   their own, without anything else `la` contains — are accepted from any state t that agrees with s on `live`, and
   each of them emits exactly what it emitted in the run from s *)
Theorem live_attempts_run_on_their_own c : forall la live s t s' h,
  agree live s t -> run_from c s la = Some (s', h) ->
  exists t', run_from c t (proj live la) = Some (t', projh live h) /\ agree (live_end live la) s' t'.
Proof.
  induction la as [|l la IH]; intros live s t s' h A R; cbn [run_from] in R.
  - inversion R; subst. exists t. split; [reflexivity|exact A].
  - destruct (step c s l) as [[s1 o1]|] eqn:ST; [|discriminate].
    destruct (run_from c s1 la) as [[s2 h2]|] eqn:R2; [|discriminate]. inversion R; subst s' h. clear R.
    cbn [proj projh live_end]. destruct (keeps live l) eqn:K.
    + destruct (live_step_simulated _ _ _ _ _ _ _ A ST K) as (t1 & ST' & A1).
      destruct (IH _ _ _ _ _ A1 R2) as (t' & R' & A'). exists t'. split; [|exact A'].
      cbn [run_from]. rewrite ST', R'. reflexivity.
    + exact (IH _ _ _ _ _ (other_step_preserves _ _ _ _ _ _ _ A ST K) R2).
Qed.

(* NON-INTERFERENCE ON STREAMS: two accepted runs from states that agree on `live` — whatever else they contain:
   different failed flags of other attempts, retries, a fail-fast trip, other dispatches, other loop turns — in which
   the attempts of `live` take the same labels (the user code of those attempts does the same) emit the same events
   for those attempts, label by label, up to each one's own Finished *)
Theorem others_unaffected c live s t la lb sa ha tb hb :
  agree live s t -> run_from c s la = Some (sa, ha) -> run_from c t lb = Some (tb, hb) ->
  proj live la = proj live lb ->
  projh live ha = projh live hb /\ agree (live_end live la) sa tb.
Proof.
  intros A RA RB E.
  destruct (live_attempts_run_on_their_own c la live s t _ _ A RA) as (t1 & R1 & A1).
  assert (AT : agree live t t).
  { intros k L. destruct (A k L) as (e & p & NE & _ & Y). exists e, p. auto. }
  destruct (live_attempts_run_on_their_own c lb live t t _ _ AT RB) as (t2 & R2 & A2).
  rewrite E in R1. rewrite R1 in R2. injection R2 as E1 E2. subst t2. split; [exact E2|].
  rewrite <- (live_end_proj la), E, (live_end_proj lb). rewrite <- (live_end_proj la), E, (live_end_proj lb) in A1.
  exact (agree_trans _ _ _ _ A1 (agree_sym _ _ _ A2)).
Qed.

(* ... and they keep being accepted: at any point of the second run, a label of an attempt of `live` (one that has
   not ended yet) that the first run takes next is enabled in the second, with the same events *)
Theorem others_keep_being_accepted c live s t la lb sa ha tb hb l sa2 o :
  agree live s t -> run_from c s la = Some (sa, ha) -> run_from c t lb = Some (tb, hb) ->
  proj live la = proj live lb ->
  keeps (live_end live la) l = true -> step c sa l = Some (sa2, o) ->
  exists tb2, step c tb l = Some (tb2, o).
Proof.
  intros A RA RB E K ST. destruct (others_unaffected _ _ _ _ _ _ _ _ _ _ A RA RB E) as [_ AG].
  destruct (live_step_simulated _ _ _ _ _ _ _ AG ST K) as (tb2 & ST' & _). exists tb2. exact ST'.
Qed.

(* ---------- B.3 flipping the failed flag of ONE attempt's end ---------- *)
(* the other attempts in flight (dispatched or started, not ended) in state s: every attempt but k whose running
   entry is in a phase before Ended *)
Definition others_in_flight (s : st) (k : akey) : akey -> bool :=
  fun k' => negb (akey_eqb k' k) &&
            match find_key k' (running s) with Some (_, Ended) | None => false | Some _ => true end.

Lemma others_in_flight_agree s k : agree (others_in_flight s k) s s.
Proof.
  intros k' L. unfold others_in_flight in L. apply andb_prop in L as [_ L].
  destruct (find_key k' (running s)) as [[e p]|]; [|discriminate]. exists e, p.
  split; [intros ->; discriminate|auto].
Qed.

Lemma others_in_flight_not_k s k b : keeps (others_in_flight s k) (LAttEnd k b) = false.
Proof. cbn [keeps att_key]. unfold others_in_flight. rewrite SchedP10.akey_eqb_refl. reflexivity. Qed.

(* State form. s1 is any state in which `LAttEnd k b` is enabled; `l2` any accepted continuation. Flip the flag:
   (1) the end of k is accepted with the other flag and emits the same Finished event;
   (2) after it, the labels that the other in-flight attempts take in `l2`, each up to its own end, are accepted, and
       each emits exactly the events it emitted in the original run — up to and including its own Finished;
   (3) whatever the flipped run really does after the flip (`l2'`: it may retry k, trip fail-fast, dispatch other
       scenarios, take other turns): as long as those attempts take the same labels, they emit the same events.
   What is NOT guaranteed is everything dispatched after the flip: see the two examples below. *)
Theorem flipping_one_failed_flag c s1 k b s2 o l2 s h2 :
  step c s1 (LAttEnd k b) = Some (s2, o) -> run_from c s2 l2 = Some (s, h2) ->
  let live := others_in_flight s1 k in
  forall b',
    exists s2', step c s1 (LAttEnd k b') = Some (s2', o) /\
      (exists s', run_from c s2' (proj live l2) = Some (s', projh live h2)) /\
      (forall l2' s' h2', run_from c s2' l2' = Some (s', h2') -> proj live l2' = proj live l2 ->
         projh live h2' = projh live h2 /\ agree (live_end live l2) s s').
Proof.
  intros ST R live b'.
  destruct (att_end_flag_only_changes_message_and_queue _ _ _ _ _ _ ST b') as (s2' & ST' & _).
  exists s2'. split; [exact ST'|].
  pose proof (others_in_flight_agree s1 k) as A0. fold live in A0.
  pose proof (others_in_flight_not_k s1 k b) as K. pose proof (others_in_flight_not_k s1 k b') as K'. fold live in K, K'.
  assert (A2 : agree live s2 s2').
  { apply (other_step_preserves c live s1 s2' (LAttEnd k b) s2 o); [|exact ST|exact K].
    apply agree_sym. exact (other_step_preserves c live s1 s1 (LAttEnd k b') s2' o A0 ST' K'). }
  split.
  - destruct (live_attempts_run_on_their_own c l2 live s2 s2' _ _ A2 R) as (t' & R' & _). exists t'. exact R'.
  - intros l2' s' h2' R' E.
    destruct (others_unaffected c live s2 s2' l2 l2' _ _ _ _ A2 R R' (eq_sym E)) as [X Y]. split; [symmetry; exact X|exact Y].
Qed.

(* Label-list form: two accepted label lists that differ in the flag of one attempt's end and — possibly — in
   everything after it. If the other attempts in flight at that point take the same labels, the two annotated runs
   coincide up to the flipped end (which emits the same Finished event) and, after it, on every label of those
   attempts with the events it emitted. *)
Theorem flip_failed_flag_others_unaffected c l1 k b b' l2 l2' s1 h1 s h s' h' :
  run c l1 = Some (s1, h1) ->
  run c (l1 ++ LAttEnd k b :: l2) = Some (s, h) -> run c (l1 ++ LAttEnd k b' :: l2') = Some (s', h') ->
  let live := others_in_flight s1 k in
  proj live l2 = proj live l2' ->
  exists o h2 h2', h = h1 ++ (LAttEnd k b, o) :: h2 /\ h' = h1 ++ (LAttEnd k b', o) :: h2' /\
                   projh live h2 = projh live h2' /\ out_of (projh live h2) = out_of (projh live h2').
Proof.
  intros R1 R R' live E. unfold run in *. rewrite run_from_app, R1 in R, R'. cbn [run_from] in R, R'.
  destruct (step c s1 (LAttEnd k b)) as [[s2 o]|] eqn:ST; [|discriminate].
  destruct (run_from c s2 l2) as [[s3 h2]|] eqn:R2; [|discriminate].
  destruct (step c s1 (LAttEnd k b')) as [[s2' o']|] eqn:ST'; [|discriminate].
  destruct (run_from c s2' l2') as [[s3' h2']|] eqn:R2'; [|discriminate].
  inversion R; subst s h. inversion R'; subst s' h'. clear R R'.
  destruct (flipping_one_failed_flag _ _ _ _ _ _ _ _ _ ST R2 b') as (s2'' & ST'' & _ & U).
  rewrite ST' in ST''. inversion ST''; subst s2'' o'.
  destruct (U _ _ _ R2' (eq_sym E)) as [X _]. exists o, h2, h2'.
  split; [reflexivity|]. split; [reflexivity|]. split; [symmetry; exact X|]. f_equal. symmetry. exact X.
Qed.

(* the hypothesis is met by the flipped run that simply lets the other attempts go on: `l2' := proj live l2` *)
Corollary flipped_run_exists c l1 k b l2 s1 h1 s h b' :
  run c l1 = Some (s1, h1) -> run c (l1 ++ LAttEnd k b :: l2) = Some (s, h) ->
  let live := others_in_flight s1 k in
  exists s' h', run c (l1 ++ LAttEnd k b' :: proj live l2) = Some (s', h').
Proof.
  intros R1 R live. subst live. unfold run in *. rewrite run_from_app, R1 in R. cbn [run_from] in R.
  destruct (step c s1 (LAttEnd k b)) as [[s2 o]|] eqn:ST; [|discriminate].
  destruct (run_from c s2 l2) as [[s3 h2]|] eqn:R2; [|discriminate].
  destruct (flipping_one_failed_flag _ _ _ _ _ _ _ _ _ ST R2 b') as (s2' & ST' & (s' & R') & _).
  rewrite run_from_app, R1. cbn [run_from]. rewrite ST', R'. eauto.
Qed.

(* ---------- B.4 what is NOT preserved: later dispatches ----------
   (a) a retry. Limit 2, scenario 11 (one retry) and 12 are in flight. With `LAttEnd (11,0) false` the same
   continuation ends the run; with `true` the retry (11,1) is dispatched: the run is not over, `LAttStart (11,1)` is
   enabled in the flipped run only. The events of attempt (12,0) are the same in both. *)
Definition exB5_c : cfg := mk_cfg (Some 2%nat) false.
Definition exB5_l1 : list label :=
  [LFeature (mk_sfeature 1 [mk_sscen 11 None false (Some (1, None)); mk_sscen 12 None false None] 0 2); LParserEnd; LTop;
   LAttStart (11, 0); LAttStart (12, 0); LAttEv (12, 0) (ScLog 7)].
Definition exB5_l2 : list label := [LAttEv (12, 0) (ScLog 8); LTop; LAttEnd (12, 0) false; LTop].
Definition is_done (p : pcT) : bool := match p with Done => true | _ => false end.

Example exB5_flip_dispatches_a_retry :
  match run exB5_c exB5_l1 with
  | Some (s1, h1) =>
    let live := others_in_flight s1 (11, 0) in
    match run exB5_c (exB5_l1 ++ LAttEnd (11, 0) false :: exB5_l2), run exB5_c (exB5_l1 ++ LAttEnd (11, 0) true :: exB5_l2) with
    | Some (s, h), Some (s', h') =>
      proj live exB5_l2 = [LAttEv (12, 0) (ScLog 8); LAttEnd (12, 0) false] /\
      projh live (skipn 7 h) = projh live (skipn 7 h') /\
      projh live (skipn 7 h) = [(LAttEv (12, 0) (ScLog 8), [EvScen 1 None 12 None (ScLog 8)]);
                               (LAttEnd (12, 0) false, [EvScen 1 None 12 None ScFinished])] /\
      (is_done (pc s), is_done (pc s')) = (true, false) /\
      (is_some (step exB5_c s (LAttStart (11, 1))), is_some (step exB5_c s' (LAttStart (11, 1)))) = (false, true) /\
      (last (out_of h) EvStarted, last (out_of h') EvStarted) = (EvFinished, EvScen 1 None 12 None ScFinished)
    | _, _ => False
    end
  | None => False
  end.
Proof. vm_compute. repeat split. Qed.

(* (b) fail-fast. Limit 2, scenarios 11 and 12 in flight, 13 queued. With `LAttEnd (11,0) false` the next turn
   dispatches 13; with `true` the flow breaks: 13 is never dispatched and the same continuation ends the run. The events
   of attempt (12,0) are the same in both. *)
Definition exB6_c : cfg := mk_cfg (Some 2%nat) true.
Definition exB6_l1 : list label :=
  [LFeature (mk_sfeature 1 [mk_sscen 11 None false None; mk_sscen 12 None false None; mk_sscen 13 None false None] 0 3);
   LParserEnd; LTop; LAttStart (11, 0); LAttStart (12, 0)].
Definition exB6_l2 : list label := [LTop; LAttEv (12, 0) (ScLog 8); LAttEnd (12, 0) false; LTop].

Example exB6_flip_trips_fail_fast :
  match run exB6_c exB6_l1 with
  | Some (s1, h1) =>
    let live := others_in_flight s1 (11, 0) in
    match run exB6_c (exB6_l1 ++ LAttEnd (11, 0) false :: exB6_l2), run exB6_c (exB6_l1 ++ LAttEnd (11, 0) true :: exB6_l2) with
    | Some (s, h), Some (s', h') =>
      projh live (skipn 6 h) = projh live (skipn 6 h') /\
      projh live (skipn 6 h) = [(LAttEv (12, 0) (ScLog 8), [EvScen 1 None 12 None (ScLog 8)]);
                               (LAttEnd (12, 0) false, [EvScen 1 None 12 None ScFinished])] /\
      (is_done (pc s), is_done (pc s')) = (false, true) /\
      (is_some (step exB6_c s (LAttStart (13, 0))), is_some (step exB6_c s' (LAttStart (13, 0)))) = (true, false) /\
      (is_break (flow s), is_break (flow s')) = (false, true)
    | _, _ => False
    end
  | None => False
  end.
Proof. vm_compute. repeat split. Qed.

Print Assumptions attempt_labels_only_while_hook_replaced.
Print Assumptions scenario_events_only_while_hook_replaced.
Print Assumptions ended_run_is_complete_whatever_the_flags.
Print Assumptions runner_alone_reaches_done.
Print Assumptions runner_alone_waits_for_user_code.
Print Assumptions run_can_be_driven_to_done_whatever_the_flags.
Print Assumptions run_ends_even_if_every_attempt_panics.
Print Assumptions att_end_leaves_other_entries_untouched.
Print Assumptions att_end_changes_exactly_one_entry.
Print Assumptions att_end_flag_only_changes_message_and_queue.
Print Assumptions att_end_keeps_other_attempts_enabled.
Print Assumptions live_attempts_run_on_their_own.
Print Assumptions others_unaffected.
Print Assumptions others_keep_being_accepted.
Print Assumptions flipping_one_failed_flag.
Print Assumptions flip_failed_flag_others_unaffected.
Print Assumptions flipped_run_exists.
