(* StepMatchP.v — C17: keyword scoping, exact ambiguity, order independence. *)
From CV Require Import Model.Base Model.StepMatch Proofs.BaseP Proofs.OrderP.
From Coq Require Import Lia Permutation.

Section P.
  Variable rx : str -> str -> option (list (option str)).
  Variable rx_names : str -> list (option str).
  Notation cands := (cands rx).
  Notation find := (find rx rx_names).

  Definition matching (ty : N) (text : str) (e : entry) (g : list (option str)) : Prop :=
    e_ty e = ty /\ rx (fst (e_key e)) text = Some g.

  Lemma cands_spec c ty text e g :
    In (e, g) (cands c ty text) <-> In e c /\ matching ty text e g.
  Proof.
    unfold StepMatch.cands, matching. rewrite in_flat_map. split.
    - intros (x & Hx & H). destruct (N.eqb_spec (e_ty x) ty) as [E|E]; [|destruct H].
      destruct (rx (fst (e_key x)) text) as [g'|] eqn:R; [|destruct H].
      destruct H as [H|[]]. inversion H; subst. auto.
    - intros (Hin & E & R). exists e. split; auto. rewrite E, N.eqb_refl, R. left; auto.
  Qed.

  Theorem find_none c ty text :
    find c ty text = FNone <-> forall e g, In e c -> ~ matching ty text e g.
  Proof.
    unfold StepMatch.find. split.
    - intros H e g Hin Hm.
      assert (In (e, g) (cands c ty text)) as Hc by (apply cands_spec; auto).
      destruct (cands c ty text) as [|[e1 g1] [|p l]]; try discriminate. destruct Hc.
    - intros H. destruct (cands c ty text) as [|[e1 g1] l] eqn:E; auto.
      exfalso. apply (H e1 g1); apply (cands_spec c ty text e1 g1); rewrite E; left; auto.
  Qed.

  Theorem find_unique c ty text e g :
    cands c ty text = [(e, g)] ->
    find c ty text = FFound (e_fn e) (snd (e_key e)) (matches_of (rx_names (fst (e_key e))) g).
  Proof. unfold StepMatch.find. intros ->. reflexivity. Qed.

  (* names and texts, in group order; "" for groups that did not participate *)
  Theorem matches_shape names groups :
    length names = length groups ->
    map fst (matches_of names groups) = names /\
    map snd (matches_of names groups) = map (fun g => unwrap_or g []) groups.
  Proof.
    unfold matches_of. revert groups. induction names as [|n names IH]; intros [|g groups]; cbn;
      try discriminate; auto.
    intros H. inversion H as [H']. destruct (IH groups H') as [-> ->]. auto.
  Qed.

  Theorem find_ambiguous c ty text :
    (2 <= length (cands c ty text))%nat ->
    exists ks, find c ty text = FAmbiguous ks /\
               sorted key_leb ks /\
               Permutation ks (map (fun eg => e_key (fst eg)) (cands c ty text)).
  Proof.
    unfold StepMatch.find. intros H.
    destruct (cands c ty text) as [|[e1 g1] [|p l]] eqn:E; cbn in H; try lia.
    eexists. split; [reflexivity|]. rewrite sort_keys_is_isort. split.
    - apply isort_sorted, key_leb_order.
    - apply Permutation_sym, isort_perm.
  Qed.

  Theorem find_keyword_scoped c ty text :
    find c ty text = find (filter (fun e => e_ty e =? ty) c) ty text.
  Proof.
    unfold StepMatch.find.
    assert (cands c ty text = cands (filter (fun e => e_ty e =? ty) c) ty text) as <-; auto.
    unfold StepMatch.cands. induction c as [|e c IH]; cbn; auto.
    destruct (e_ty e =? ty) eqn:E; cbn; rewrite ?E; rewrite IH; auto.
  Qed.

  Lemma cands_perm c c' ty text :
    Permutation c c' -> Permutation (cands c ty text) (cands c' ty text).
  Proof. intros P. unfold StepMatch.cands. apply Permutation_flat_map; auto. Qed.

  Theorem find_perm c c' ty text : Permutation c c' -> find c ty text = find c' ty text.
  Proof.
    intros P. pose proof (cands_perm c c' ty text P) as PC. unfold StepMatch.find.
    destruct (cands c ty text) as [|[e1 g1] [|p l]] eqn:E.
    - apply Permutation_nil in PC. rewrite PC. auto.
    - apply Permutation_length_1_inv in PC. rewrite PC. auto.
    - pose proof (Permutation_length PC) as HL. cbn in HL.
      destruct (cands c' ty text) as [|[e1' g1'] [|p' l']] eqn:E'; cbn in HL; try lia.
      f_equal. rewrite !sort_keys_is_isort. apply isort_perm_invariant; [apply key_leb_order|].
      apply Permutation_map. auto.
  Qed.
End P.

(* ---- registration ---- *)
Definition ekey (e : entry) := (e_ty e, e_key e).

Lemma loc_eqb_eq a b : loc_eqb a b = true <-> a = b.
Proof.
  unfold loc_eqb. rewrite !andb_true_iff, str_eqb_eq, !N.eqb_eq. destruct a, b; cbn.
  split; [intros [[-> ->] ->]; auto | intros H; inversion H; auto].
Qed.

Lemma key_eqb_eq a b : key_eqb a b = true <-> a = b.
Proof.
  unfold key_eqb. rewrite andb_true_iff, str_eqb_eq, (option_eqb_spec _ loc_eqb_eq).
  destruct a, b; cbn. split; [intros [-> ->]; auto | intros H; inversion H; auto].
Qed.

Lemma insert_fresh c e : ~ In (ekey e) (map ekey c) -> insert c e = c ++ [e].
Proof.
  induction c as [|d c IH]; cbn; auto. intros H.
  destruct ((e_ty d =? e_ty e) && key_eqb (e_key d) (e_key e)) eqn:E.
  - apply andb_true_iff in E as [E1 E2]. apply N.eqb_eq in E1. apply key_eqb_eq in E2.
    exfalso. apply H. left. unfold ekey. congruence.
  - f_equal. apply IH. tauto.
Qed.

Lemma build_app_fresh regs : forall acc,
  NoDup (map ekey (acc ++ regs)) -> fold_left insert regs acc = acc ++ regs.
Proof.
  induction regs as [|e regs IH]; intros acc H; cbn.
  - rewrite app_nil_r; auto.
  - rewrite insert_fresh.
    + rewrite IH; rewrite <- app_assoc; auto.
    + rewrite map_app in H. cbn in H. apply NoDup_remove_2 in H.
      intros Hin. apply H. apply in_or_app. left; auto.
Qed.

(* with pairwise distinct (keyword, regex, location) the collection is the registration list *)
Theorem build_nodup regs : NoDup (map ekey regs) -> build regs = regs.
Proof. intros H. unfold build. rewrite build_app_fresh; auto. Qed.

(* registering the same (keyword, regex text, location) again replaces the function and adds nothing *)
Theorem insert_existing c1 d c2 e :
  ekey d = ekey e -> ~ In (ekey e) (map ekey c1) ->
  insert (c1 ++ d :: c2) e = c1 ++ mk_entry (e_ty d) (e_key d) (e_fn e) :: c2.
Proof.
  intros K. induction c1 as [|x c1 IH]; cbn; intros H.
  - unfold ekey in K. inversion K as [[K1 K2]]. rewrite K1, K2, N.eqb_refl.
    assert (key_eqb (e_key e) (e_key e) = true) as -> by (apply key_eqb_eq; auto). reflexivity.
  - destruct ((e_ty x =? e_ty e) && key_eqb (e_key x) (e_key e)) eqn:E.
    + apply andb_true_iff in E as [E1 E2]. apply N.eqb_eq in E1. apply key_eqb_eq in E2.
      exfalso. apply H. left. unfold ekey. congruence.
    + f_equal. apply IH. tauto.
Qed.

Theorem find_registration_order_independent rx rx_names regs regs' ty text :
  NoDup (map ekey regs) -> Permutation regs regs' ->
  find rx rx_names (build regs) ty text = find rx rx_names (build regs') ty text.
Proof.
  intros N P. rewrite !build_nodup; auto.
  - apply find_perm; auto.
  - eapply Permutation_NoDup; [apply Permutation_map; exact P|auto].
Qed.
