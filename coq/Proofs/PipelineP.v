(* PipelineP.v — the run verdict (C01) through the pipeline grammar: whatever sits below a Summarize, and under
   Repeat / FailOnSkipped / Tee above it. *)
From CV Require Import Model.Base Model.Events Model.Combinators Model.Normalize Model.Stats Model.StatsSpec Model.Pipeline
  Proofs.BaseP Proofs.StatsP.
From Coq Require Import Lia.

Section P.
  Variable tags_of : N -> option N -> N -> list str.
  Variable last_own : N -> option N.

  (* the Summarize on top of a pipeline sees the stream itself: its state does not depend on what is below *)
  Definition summ_of (s : qstate) : summ := match s with TSumm sm _ => sm | _ => summ_init end.

  Lemma qhandle_summ q sm sq e :
    exists sq', fst (qhandle tags_of last_own (QSumm q) (TSumm sm sq) e) = TSumm (fst (sm_handle last_own sm e)) sq'.
  Proof.
    cbn [qhandle]. destruct (sm_handle last_own sm e) as [sm' ops]. cbn [fst].
    destruct (fold_left _ ops (sq, [])) as [sq' out]. exists sq'. reflexivity.
  Qed.

  Lemma qfinal_summ q : forall es sm sq,
    exists sq', qfinal_from tags_of last_own (QSumm q) (TSumm sm sq) es =
                TSumm (fold_left (fun s e => fst (sm_handle last_own s e)) es sm) sq'.
  Proof.
    induction es as [|e t IH]; intros sm sq; cbn [qfinal_from fold_left]; [exists sq; reflexivity|].
    destruct (qhandle_summ q sm sq e) as (sq1 & ->). apply IH.
  Qed.

  (* C01 for Summarize over ANY pipeline (Normalize, Tee, further Summarizes, leaves ...) and ANY event list *)
  Theorem verdict_summarize_over_anything q es :
    k_hook_in_retried (before_finished (map snd es)) = false ->
    qfailed (QSumm q) (qfinal tags_of last_own (QSumm q) es) = spec_failed (map snd es).
  Proof.
    intros K. unfold qfinal. cbn [qinit]. destruct (qfinal_summ q es summ_init (qinit q)) as (sq' & ->).
    cbn [qfailed qgetters]. exact (sm_verdict last_own es K).
  Qed.

  (* the verdict is always the default rule on the getters the pipeline reports *)
  Lemma qfailed_getters : forall p s, qfailed p s = g_has_failed (qgetters p s).
  Proof.
    induction p as [id|q IH| |q IH|k q IH|k q IH|l IHl r IHr|m l IHl r IHr]; intros s; destruct s; cbn [qfailed qgetters]; auto.
  Qed.

  (* Tee: failed iff one of the two sides failed *)
  Lemma has_failed_max a b : g_has_failed (gmap2 N.max a b) = g_has_failed a || g_has_failed b.
  Proof.
    unfold g_has_failed, gmap2. cbn [g_failed g_parsing g_hooks].
    assert (M : forall x y, (0 <? N.max x y) = (0 <? x) || (0 <? y)).
    { intros x y. destruct (N.ltb_spec 0 x), (N.ltb_spec 0 y), (N.ltb_spec 0 (N.max x y)); try reflexivity; lia. }
    rewrite !M. destruct (0 <? g_failed a), (0 <? g_failed b), (0 <? g_parsing a), (0 <? g_parsing b),
      (0 <? g_hooks a), (0 <? g_hooks b); reflexivity.
  Qed.
  Theorem verdict_tee l r sl sr :
    qfailed (QTee l r) (TTwo sl sr) = qfailed l sl || qfailed r sr.
  Proof. cbn [qfailed qgetters]. rewrite has_failed_max, !qfailed_getters. reflexivity. Qed.

  (* ---- Repeat above a Summarize: the re-delivered events come after run-Finished, where Summarize is inert ---- *)
  Lemma sm_after_finished sm e : is_finished (snd e) = true ->
    sm_state (fst (sm_handle last_own sm e)) = FinishedAndOutput.
  Proof.
    destruct e as [m ev0]. cbn [snd]. destruct ev0; try discriminate. intros _. unfold sm_handle. cbn [snd].
    destruct (sm_state sm) eqn:ST; cbn [sm_count set_state sm_state fst]; rewrite ?ST; cbn [fst sm_state]; rewrite ?ST; reflexivity.
  Qed.

  Lemma feed_summ_inert q : forall buf sm sq (o : list (N * qop)), sm_state sm = FinishedAndOutput ->
    exists sq', fst (fold_left (fun acc x => let '(s2, o2) := qhandle tags_of last_own (QSumm q) (fst acc) x in (s2, snd acc ++ o2))
                               buf (TSumm sm sq, o)) = TSumm sm sq'.
  Proof.
    induction buf as [|x buf IH]; intros sm sq o ST.
    - exists sq. reflexivity.
    - cbn [fold_left fst snd]. destruct (qhandle_summ q sm sq x) as (sq1 & E).
      destruct (qhandle tags_of last_own (QSumm q) (TSumm sm sq) x) as [s2 o2]. cbn [fst] in E. subst s2.
      rewrite (sm_handle_inert last_own sm x ST). cbn [fst]. apply IH. exact ST.
  Qed.

  Lemma qfinal_repeat_summ k q : forall es buf sm sq,
    exists buf' sq', qfinal_from tags_of last_own (QRepeat k (QSumm q)) (TRep buf (TSumm sm sq)) es =
                     TRep buf' (TSumm (fold_left (fun s e => fst (sm_handle last_own s e)) es sm) sq').
  Proof.
    induction es as [|e t IH]; intros buf sm sq; cbn [qfinal_from fold_left]; [exists buf, sq; reflexivity|].
    assert (ST : exists buf1 sq1, fst (qhandle tags_of last_own (QRepeat k (QSumm q)) (TRep buf (TSumm sm sq)) e) =
                                  TRep buf1 (TSumm (fst (sm_handle last_own sm e)) sq1)).
    { cbn [qhandle]. destruct (qhandle_summ q sm sq e) as (sq1 & E).
      change (let '(sm', ops) := sm_handle last_own sm e in _) with (qhandle tags_of last_own (QSumm q) (TSumm sm sq) e).
      destruct (qhandle tags_of last_own (QSumm q) (TSumm sm sq) e) as [s1 out1]. cbn [fst] in E. subst s1.
      destruct (is_finished (snd e)) eqn:IF.
      - destruct (feed_summ_inert q (if flt k e then buf ++ [e] else buf) _ sq1 [] (sm_after_finished sm e IF)) as (sq2 & F).
        destruct (fold_left _ _ (TSumm (fst (sm_handle last_own sm e)) sq1, [])) as [s2 out2]. cbn [fst] in F. subst s2.
        exists [], sq2. reflexivity.
      - eexists _, sq1. reflexivity. }
    destruct ST as (buf1 & sq1 & ->). apply IH.
  Qed.

  Theorem verdict_repeat_over_summarize k q es :
    k_hook_in_retried (before_finished (map snd es)) = false ->
    qfailed (QRepeat k (QSumm q)) (qfinal tags_of last_own (QRepeat k (QSumm q)) es) = spec_failed (map snd es).
  Proof.
    intros K. unfold qfinal. cbn [qinit]. destruct (qfinal_repeat_summ k q es [] summ_init (qinit q)) as (buf' & sq' & ->).
    cbn [qfailed qgetters]. exact (sm_verdict last_own es K).
  Qed.

  (* ---- FailOnSkipped above a Summarize: the verdict of the rewritten stream ---- *)
  Lemma qfinal_fos_summ k q : forall es sm sq,
    exists sq', qfinal_from tags_of last_own (QFos k (QSumm q)) (TOne (TSumm sm sq)) es =
                TOne (TSumm (fold_left (fun s e => fst (sm_handle last_own s e))
                                       (map (fun e => (fst e, fos_ev (should_fail tags_of k) (snd e))) es) sm) sq').
  Proof.
    induction es as [|e t IH]; intros sm sq; cbn [qfinal_from fold_left map]; [exists sq; reflexivity|].
    cbn [qhandle]. set (e' := (fst e, fos_ev (should_fail tags_of k) (snd e))).
    destruct (qhandle_summ q sm sq e') as (sq1 & E).
    change (let '(sm', ops) := sm_handle last_own sm e' in _) with (qhandle tags_of last_own (QSumm q) (TSumm sm sq) e').
    destruct (qhandle tags_of last_own (QSumm q) (TSumm sm sq) e') as [s1 out1]. cbn [fst] in *. subst s1. apply IH.
  Qed.

  Theorem verdict_fos_over_summarize k q es :
    let es' := map (fun e => (fst e, fos_ev (should_fail tags_of k) (snd e))) es in
    k_hook_in_retried (before_finished (map snd es')) = false ->
    qfailed (QFos k (QSumm q)) (qfinal tags_of last_own (QFos k (QSumm q)) es) = spec_failed (map snd es').
  Proof.
    intros es' K. unfold qfinal. cbn [qinit]. destruct (qfinal_fos_summ k q es summ_init (qinit q)) as (sq' & ->).
    cbn [qfailed qgetters]. exact (sm_verdict last_own es' K).
  Qed.
End P.
