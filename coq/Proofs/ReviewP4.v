(* ReviewP4.v — head-liveness must also cover the CLOSING brackets of the head (second review of C11).

   ReviewP2.RA defines the head from (input prefix, output so far): head feature = first started feature whose
   Feature-Finished is not in `out`, and so on downwards.  `head_ok` demands that the head's Started events and all events
   of the head attempt are in `out`.  A writer that WITHHOLDS a closing bracket of the head (`EvFeatF f`, `EvRuleF f r`)
   keeps the head where it is; then `head_item = None` / `head_ratt = None`, `head_attempt = None`, and `head_ok` asks
   for nothing more: the stalling writer `stall_out'` below passes `head_ok` after every call.

   Here: `head_ok2 es out` = `head_ok es out` AND the closing obligations
     (F) head feature f:  NOT (EvFeatF f received in `es`  and  every item of f started in `es` is finished in `out`)
     (R) head rule f/r:   NOT (EvRuleF f r received in `es` and  every attempt of r started in `es` is finished in `out`)
     (T) nothing open in `out` (no head feature) and run-Finished received  ->  run-Finished is in `out`
   (an attempt's own ScFinished is already covered by the projection equality of `head_ok`).
   The model satisfies `head_ok2` on every contract-abiding prefix, hence after every call; the stalling writers
   of the review are rejected. *)
From CV Require Import Proofs.SchedP5.
From CV Require Import Model.Base Model.Events Model.Contract Model.Normalize
  Proofs.BaseP Proofs.NormalizeP Proofs.NormalizeP2 Proofs.NormalizeP3 Proofs.NormalizeP4 Proofs.NormalizeP4b
  Proofs.NormalizeP4c Proofs.NormalizeP4d Proofs.NormalizeP4e Proofs.NormalizeP4f Proofs.NormalizeP4g Proofs.NormalizeP4h
  Proofs.NormalizeP6 Proofs.NormalizeP7 Proofs.ReviewP2.
From Coq Require Import Lia Permutation.
Import ReviewP2.RA.

Module RA2.

(* ====================================================================================================== *)
(* 1. the executable strengthening                                                                          *)
(* ====================================================================================================== *)
Definition is_none {A} (o : option A) : bool := match o with None => true | Some _ => false end.

(* `emitted es e` on the INPUT prefix reads: the event `e` has been received (under any metadata tag) *)

(* (F) the head feature's Finished has been received and all its started items are closed in `out`: impossible,
       because then the Feature-Finished itself must be in `out`, and the feature would not be the head *)
Definition feat_close_ok (es out : list mev) : bool :=
  match head_feat es out with
  | Some f => negb (emitted es (EvFeatF f) && is_none (head_item f es out))
  | None => true
  end.
(* (R) the same for the head rule *)
Definition rule_close_ok (es out : list mev) : bool :=
  match head_feat es out with
  | Some f =>
    match head_item f es out with
    | Some (KRule r) => negb (emitted es (EvRuleF f r) && is_none (head_ratt f r es out))
    | _ => true
    end
  | None => true
  end.
(* (T) the outermost bracket: every started feature is closed in `out`, run-Finished received => run-Finished forwarded *)
Definition run_close_ok (es out : list mev) : bool :=
  match head_feat es out with
  | Some _ => true
  | None => implb (emitted es EvFinished) (emitted out EvFinished)
  end.

Definition head_ok2 (es out : list mev) : bool :=
  head_ok es out && feat_close_ok es out && rule_close_ok es out && run_close_ok es out.

(* ---------- what the executable check says, in plain words (for ANY `out`) ---------- *)
Lemma emitted_map (l : list mev) e : emitted l e = true <-> In e (map snd l).
Proof.
  rewrite emitted_in, in_map_iff. split.
  - intros (m & Hin). exists (m, e). auto.
  - intros ([m e'] & E & Hin). cbn [snd] in E. subst e'. eauto.
Qed.
Lemma emitted_map_false (l : list mev) e : emitted l e = false <-> ~ In e (map snd l).
Proof.
  rewrite <- emitted_map. split.
  - intros H X. rewrite H in X. discriminate X.
  - intros H. destruct (emitted l e); [exfalso; apply H; reflexivity|reflexivity].
Qed.

Lemma find_none_iff {A} (p : A -> bool) l : find p l = None <-> forall x, In x l -> p x = false.
Proof.
  split; [apply find_none|]. intros H. destruct (find p l) as [x|] eqn:E; [|reflexivity].
  apply find_some in E as [Hin Px]. rewrite (H x Hin) in Px. discriminate Px.
Qed.

Lemma head_feat_some es out f : head_feat es out = Some f -> In f (feat_starts es) /\ emitted out (EvFeatF f) = false.
Proof. unfold head_feat. intros H. apply find_some in H as [Hin P]. apply negb_true_iff in P. auto. Qed.
Lemma head_item_some f es out k : head_item f es out = Some k -> In k (item_starts f es) /\ emitted out (item_fin f k) = false.
Proof. unfold head_item. intros H. apply find_some in H as [Hin P]. apply negb_true_iff in P. auto. Qed.
Lemma head_ratt_some f r es out a : head_ratt f r es out = Some a -> In a (att_starts f r es) /\ emitted out (att_fin f r a) = false.
Proof. unfold head_ratt. intros H. apply find_some in H as [Hin P]. apply negb_true_iff in P. auto. Qed.

(* `head_item f es out = None`: every item of f started in `es` has its Finished in `out` *)
Lemma head_item_none f es out :
  head_item f es out = None <-> forall k, In k (item_starts f es) -> exists m, In (m, item_fin f k) out.
Proof.
  unfold head_item. rewrite find_none_iff. split; intros H k Hk.
  - apply emitted_in. specialize (H k Hk). apply negb_false_iff in H. exact H.
  - apply negb_false_iff. apply emitted_in. exact (H k Hk).
Qed.
Lemma head_ratt_none f r es out :
  head_ratt f r es out = None <-> forall a, In a (att_starts f r es) -> exists m, In (m, att_fin f r a) out.
Proof.
  unfold head_ratt. rewrite find_none_iff. split; intros H a Ha.
  - apply emitted_in. specialize (H a Ha). apply negb_false_iff in H. exact H.
  - apply negb_false_iff. apply emitted_in. exact (H a Ha).
Qed.
Lemma head_feat_none es out :
  head_feat es out = None <-> forall f, In f (feat_starts es) -> exists m, In (m, EvFeatF f) out.
Proof.
  unfold head_feat. rewrite find_none_iff. split; intros H f Hf.
  - apply emitted_in. specialize (H f Hf). apply negb_false_iff in H. exact H.
  - apply negb_false_iff. apply emitted_in. exact (H f Hf).
Qed.

Lemma is_none_true {A} (o : option A) : is_none o = true <-> o = None.
Proof. destruct o; cbn; split; congruence. Qed.

(* the three closing obligations as propositions about an arbitrary (input prefix, output) pair *)
Definition feat_close_P (es out : list mev) : Prop :=
  forall f, head_feat es out = Some f ->
    ~ (In (EvFeatF f) (map snd es) /\ forall k, In k (item_starts f es) -> exists m, In (m, item_fin f k) out).
Definition rule_close_P (es out : list mev) : Prop :=
  forall f r, head_feat es out = Some f -> head_item f es out = Some (KRule r) ->
    ~ (In (EvRuleF f r) (map snd es) /\ forall a, In a (att_starts f r es) -> exists m, In (m, att_fin f r a) out).
Definition run_close_P (es out : list mev) : Prop :=
  head_feat es out = None -> In EvFinished (map snd es) -> exists m, In (m, EvFinished) out.

Lemma feat_close_ok_spec es out : feat_close_ok es out = true <-> feat_close_P es out.
Proof.
  unfold feat_close_ok, feat_close_P. split.
  - intros H f HF (RC & ALL). rewrite HF in H. apply negb_true_iff in H.
    apply emitted_map in RC. apply head_item_none in ALL. rewrite RC, ALL in H. discriminate H.
  - intros H. destruct (head_feat es out) as [f|] eqn:HF; [|reflexivity]. apply negb_true_iff.
    destruct (emitted es (EvFeatF f) && is_none (head_item f es out)) eqn:E; [|reflexivity]. exfalso.
    apply andb_prop in E as [E1 E2]. apply (H f eq_refl). split; [apply emitted_map; exact E1|].
    apply head_item_none. apply is_none_true. exact E2.
Qed.
Lemma rule_close_ok_spec es out : rule_close_ok es out = true <-> rule_close_P es out.
Proof.
  unfold rule_close_ok, rule_close_P. split.
  - intros H f r HF HIt (RC & ALL). rewrite HF, HIt in H. apply negb_true_iff in H.
    apply emitted_map in RC. apply head_ratt_none in ALL. rewrite RC, ALL in H. discriminate H.
  - intros H. destruct (head_feat es out) as [f|] eqn:HF; [|reflexivity].
    destruct (head_item f es out) as [[r|a]|] eqn:HIt; try reflexivity. apply negb_true_iff.
    destruct (emitted es (EvRuleF f r) && is_none (head_ratt f r es out)) eqn:E; [|reflexivity]. exfalso.
    apply andb_prop in E as [E1 E2]. apply (H f r eq_refl HIt). split; [apply emitted_map; exact E1|].
    apply head_ratt_none. apply is_none_true. exact E2.
Qed.
Lemma run_close_ok_spec es out : run_close_ok es out = true <-> run_close_P es out.
Proof.
  unfold run_close_ok, run_close_P. split.
  - intros H HF RC. rewrite HF in H. apply emitted_map in RC. rewrite RC in H. cbn [implb] in H. apply emitted_in. exact H.
  - intros H. destruct (head_feat es out) as [f|] eqn:HF; [reflexivity|].
    destruct (emitted es EvFinished) eqn:E; [|reflexivity]. cbn [implb]. apply emitted_in. apply (H eq_refl). apply emitted_map. exact E.
Qed.

Theorem head_ok2_spec es out :
  head_ok2 es out = true <-> head_ok es out = true /\ feat_close_P es out /\ rule_close_P es out /\ run_close_P es out.
Proof.
  unfold head_ok2. rewrite !andb_true_iff, feat_close_ok_spec, rule_close_ok_spec, run_close_ok_spec. tauto.
Qed.

(* the same obligations read positively: a closing bracket of the head that has been received may be missing from `out`
   ONLY because something inside the bracket, started in `es`, is not yet closed in `out` *)
Lemma feat_close_positive es out f : feat_close_P es out -> head_feat es out = Some f -> In (EvFeatF f) (map snd es) ->
  exists k, In k (item_starts f es) /\ forall m, ~ In (m, item_fin f k) out.
Proof.
  intros H HF RC. destruct (head_item f es out) as [k|] eqn:HIt.
  - apply head_item_some in HIt as [Hin E]. exists k. split; [exact Hin|]. apply emitted_false. exact E.
  - exfalso. apply (H f HF). split; [exact RC|]. apply head_item_none. exact HIt.
Qed.
Lemma rule_close_positive es out f r : rule_close_P es out -> head_feat es out = Some f -> head_item f es out = Some (KRule r) ->
  In (EvRuleF f r) (map snd es) -> exists a, In a (att_starts f r es) /\ forall m, ~ In (m, att_fin f r a) out.
Proof.
  intros H HF HIt RC. destruct (head_ratt f r es out) as [a|] eqn:HA.
  - apply head_ratt_some in HA as [Hin E]. exists a. split; [exact Hin|]. apply emitted_false. exact E.
  - exfalso. apply (H f r HF HIt). split; [exact RC|]. apply head_ratt_none. exact HA.
Qed.

(* ====================================================================================================== *)
(* 2. the model: a closing bracket of the head is never buffered                                            *)
(* ====================================================================================================== *)
Section Heads2.
  Variables (ins outs : list mev) (c_in : cstate) (s : nstate).
  Hypothesis HI : HInv ins outs c_in s.

  (* the head feature's Finished is not buffered: the head queue is at rest, its state is not `FinNotEmitted` *)
  Lemma head_featF_not_buffered f m : head_feat ins outs = Some f -> ~ In (m, EvFeatF f) (feats_evs (ns_feats s)).
  Proof.
    rewrite (head_feat_eq ins outs c_in s HI). destruct (ns_feats s) as [|[f0 q] t] eqn:L; [discriminate|].
    intros X Y. inversion X; subst f0.
    destruct HI as [_ (ND & _ & _) RS]. rewrite L in *.
    apply pend_featF in Y as (q' & Hq' & ST). rewrite <- (nodup_keys_unique _ _ _ _ ND (or_introl eq_refl) Hq') in ST.
    cbn [rest_feats] in RS. destruct RS as (_ & FP & _). rewrite ST in FP. discriminate FP.
  Qed.

  (* if the head item is a rule, its Finished is not buffered *)
  Lemma head_ruleF_not_buffered f r m : head_feat ins outs = Some f -> head_item f ins outs = Some (KRule r) ->
    ~ In (m, EvRuleF f r) (feats_evs (ns_feats s)).
  Proof.
    rewrite (head_feat_eq ins outs c_in s HI). destruct (ns_feats s) as [|[f0 q] t] eqn:L; [discriminate|].
    intros X. inversion X; subst f0.
    rewrite (head_item_eq ins outs c_in s HI f q t L). destruct (fq_items q) as [|[k it] t2] eqn:LI; [discriminate|].
    intros Y. inversion Y; subst k.
    intros Z. destruct HI as [_ (ND & _ & FT) RS]. rewrite L in *.
    destruct (FT f q (or_introl eq_refl)) as (NDI & _ & _).
    apply pend_ruleF in Z as (q' & rq' & Hq' & Hrq' & ST). rewrite <- (nodup_keys_unique _ _ _ _ ND (or_introl eq_refl) Hq') in Hrq'.
    cbn [rest_feats] in RS. destruct RS as (_ & _ & RI).
    rewrite LI in *. pose proof (nodup_keys_unique _ _ _ _ NDI (or_introl eq_refl) Hrq') as E. subst it.
    cbn [rest_items] in RI. destruct RI as (_ & FP & _). rewrite ST in FP. discriminate FP.
  Qed.
End Heads2.

Lemma in_finished_existsb (es : list mev) : In EvFinished (map snd es) -> existsb (fun e => is_finished (snd e)) es = true.
Proof.
  intros H. apply in_map_iff in H as ([m e] & E & Hin). cbn [snd] in E. subst e.
  apply existsb_exists. exists (m, EvFinished). split; [exact Hin|reflexivity].
Qed.

(* out ++ (what is buffered) is a permutation of the input prefix; no closing bracket of the head is buffered;
   after run-Finished nothing at all is buffered *)
Lemma head_closing_facts (es : list mev) : contract_prefix (map snd es) = true ->
  let out := concat (nrun es) in let buf := pending (nfinal ninit es) in
  Permutation (out ++ buf) es /\
  (forall f m, head_feat es out = Some f -> ~ In (m, EvFeatF f) buf) /\
  (forall f r m, head_feat es out = Some f -> head_item f es out = Some (KRule r) -> ~ In (m, EvRuleF f r) buf) /\
  (In EvFinished (map snd es) -> buf = []).
Proof.
  intros CP. cbn zeta. destruct (head_facts es CP) as (P & _). cbn zeta in P. split; [exact P|].
  destruct (existsb (fun e => is_finished (snd e)) es) eqn:F.
  - rewrite (finished_nothing_pending es CP F). repeat split; intros; intros [].
  - destruct (prefix_accepts_crun es CP) as (c_fin & CR).
    pose proof (HInv_run es [] [] cinit ninit c_fin HInv_init CR F) as HI. cbn [app] in HI. fold (nrun es) in HI.
    destruct (hv_basic _ _ _ _ HI) as (_ & _ & NS & _). rewrite (pending_resting _ NS).
    split; [|split].
    + intros f m. exact (head_featF_not_buffered _ _ _ _ HI f m).
    + intros f r m. exact (head_ruleF_not_buffered _ _ _ _ HI f r m).
    + intros H. apply in_finished_existsb in H. rewrite H in F. discriminate F.
Qed.

(* ====================================================================================================== *)
(* THE THEOREM, strong form.  For every input prefix `es` accepted by the Runner contract, with `out` = everything
   handed to the inner writer while handling `es`:
   (1) the Finished of the head feature has NOT been received yet (if it had, it would be in `out`, and the feature would
       not be the head) — the model never sits on a closing bracket of the head feature;
   (2) if the head item of the head feature is a rule, the rule's Finished has not been received yet;
   (3) once run-Finished has been received, EVERY received event is in `out`.                                 *)
(* ====================================================================================================== *)
Theorem head_closing_bracket_not_yet_received (es : list mev) : contract_prefix (map snd es) = true ->
  let out := concat (nrun es) in
  (forall f, head_feat es out = Some f -> ~ In (EvFeatF f) (map snd es)) /\
  (forall f r, head_feat es out = Some f -> head_item f es out = Some (KRule r) -> ~ In (EvRuleF f r) (map snd es)) /\
  (In EvFinished (map snd es) -> forall x, In x es -> In x out).
Proof.
  intros CP. destruct (head_closing_facts es CP) as (P & H1 & H2 & H3). cbn zeta in *.
  assert (SPLIT : forall x, In x es -> In x (concat (nrun es)) \/ In x (pending (nfinal ninit es))).
  { intros x Hx. apply (Permutation_in _ (Permutation_sym P)) in Hx. apply in_app_or in Hx. exact Hx. }
  split; [|split].
  - intros f HF RC. apply in_map_iff in RC as ([m e] & E & Hin). cbn [snd] in E. subst e.
    destruct (SPLIT _ Hin) as [X|X]; [|exact (H1 f m HF X)].
    apply head_feat_some in HF as [_ NE]. rewrite emitted_false in NE. exact (NE m X).
  - intros f r HF HIt RC. apply in_map_iff in RC as ([m e] & E & Hin). cbn [snd] in E. subst e.
    destruct (SPLIT _ Hin) as [X|X]; [|exact (H2 f r m HF HIt X)].
    apply head_item_some in HIt as [_ NE]. rewrite emitted_false in NE. exact (NE m X).
  - intros RC x Hx. destruct (SPLIT _ Hx) as [X|X]; [exact X|]. rewrite (H3 RC) in X. destruct X.
Qed.

(* ====================================================================================================== *)
(* THE THEOREM, in the plain words of the review.  For a contract-abiding prefix, with `out := concat (nrun es)`:
   (F) if f is the head feature, then NOT (Feature-Finished of f received  AND  every rule / top-level attempt of f
       that started in `es` has its Finished in `out`);
   (R) if r is the head rule of the head feature f, then NOT (Rule-Finished of r received  AND  every attempt of r
       that started in `es` has its Finished in `out`);
   (T) if no started feature is open in `out` and run-Finished has been received, run-Finished is in `out`.   *)
(* ====================================================================================================== *)
Theorem head_closing_brackets_are_never_held_back (es : list mev) : contract_prefix (map snd es) = true ->
  let out := concat (nrun es) in
  (forall f, head_feat es out = Some f ->
     ~ (In (EvFeatF f) (map snd es) /\ forall k, In k (item_starts f es) -> exists m, In (m, item_fin f k) out)) /\
  (forall f r, head_feat es out = Some f -> head_item f es out = Some (KRule r) ->
     ~ (In (EvRuleF f r) (map snd es) /\ forall a, In a (att_starts f r es) -> exists m, In (m, att_fin f r a) out)) /\
  (head_feat es out = None -> In EvFinished (map snd es) -> exists m, In (m, EvFinished) out).
Proof.
  intros CP. destruct (head_closing_bracket_not_yet_received es CP) as (H1 & H2 & H3). cbn zeta in *.
  split; [|split].
  - intros f HF (RC & _). exact (H1 f HF RC).
  - intros f r HF HIt (RC & _). exact (H2 f r HF HIt RC).
  - intros _ RC. pose proof RC as RC'. apply in_map_iff in RC' as ([m e] & E & Hin). cbn [snd] in E. subst e.
    exists m. exact (H3 RC _ Hin).
Qed.

(* consequently: a received closing bracket of the head feature / head rule that is not in `out` is explained by an
   item / attempt inside it, started in `es`, whose Finished is not in `out` — for the model this case never arises
   (strong form above), for an arbitrary writer it is exactly what `head_ok2` demands (`feat_close_positive`) *)

(* ---------- the executable form holds for the model ---------- *)
Theorem head_ok2_holds (es : list mev) : contract_prefix (map snd es) = true -> head_ok2 es (concat (nrun es)) = true.
Proof.
  intros CP. apply head_ok2_spec. destruct (head_closing_brackets_are_never_held_back es CP) as (H1 & H2 & H3). cbn zeta in *.
  split; [exact (head_ok_holds es CP)|]. split; [exact H1|]. split; [exact H2|exact H3].
Qed.

(* ... hence after EVERY call of a run on a complete contract-abiding stream: the first n calls have handled the prefix
   `firstn n es` and produced `concat (firstn n (nrun es))` *)
Corollary head_ok2_after_every_call (es : list mev) n : contract (map snd es) = true ->
  head_ok2 (firstn n es) (concat (firstn n (nrun es))) = true.
Proof.
  intros C. unfold nrun. rewrite nrun_firstn. apply head_ok2_holds. apply contract_prefix_firstn. exact C.
Qed.

(* head_ok2 is a strengthening of head_ok *)
Lemma head_ok2_implies_head_ok es out : head_ok2 es out = true -> head_ok es out = true.
Proof. intros H. apply head_ok2_spec in H. tauto. Qed.

(* ====================================================================================================== *)
(* 3. Examples: the reviewer's stalling writers are rejected, the model is accepted                         *)
(* ====================================================================================================== *)
(* the reviewer's "stalling" normalizer (witness a1.v): behaves like the model until the first Feature::Finished would be
   forwarded; that event and everything behind it is held until run-Finished (pass-through events forwarded at once) *)
Fixpoint upto_first_featF (l : list mev) : list mev :=
  match l with [] => [] | x :: t => match snd x with EvFeatF _ => [] | _ => x :: upto_first_featF t end end.
Definition stall_out (es : list mev) : list mev :=
  let out := concat (nrun es) in
  if existsb (fun e => is_finished (snd e)) out then out
  else upto_first_featF (filter (fun e => negb (is_pass (snd e))) out).
Definition stall_out' (es : list mev) : list mev :=
  let out := concat (nrun es) in
  if existsb (fun e => is_finished (snd e)) out then out
  else filter (fun e => is_pass (snd e)) out ++ stall_out es.

(* three features; feature 1 finishes early; features 2 and 3 then run for a long time *)
Definition esB : list mev :=
  [ (1, EvStarted); (2, EvFeatS 1); (3, EvFeatS 2); (4, EvScen 1 None 5 None ScStarted); (5, EvScen 1 None 5 None ScFinished);
    (6, EvFeatF 1);
    (7, EvScen 2 None 7 (Some (0,1)) ScStarted); (8, EvScen 2 None 7 (Some (0,1)) (ScStep 9 StStarted));
    (9, EvScen 2 None 7 (Some (0,1)) (ScStep 9 (StFailed (EPanic 3)))); (10, EvScen 2 None 7 (Some (0,1)) ScFinished);
    (11, EvFeatS 3); (12, EvScen 3 None 8 None ScStarted);
    (13, EvScen 2 None 7 (Some (1,0)) ScStarted); (14, EvScen 2 None 7 (Some (1,0)) ScFinished); (15, EvFeatF 2);
    (16, EvScen 3 None 8 None ScFinished); (17, EvFeatF 3); (18, EvFinished) ].

Example esB_contract : contract (map snd esB) = true.
Proof. vm_compute. reflexivity. Qed.

(* the finding, replayed: the stalling writer passes `head_ok` after EVERY call ... *)
Example stall_passes_head_ok_at_every_prefix :
  forallb (fun n => head_ok (firstn n esB) (stall_out' (firstn n esB))) (seq 0 19) = true.
Proof. vm_compute. reflexivity. Qed.
(* ... although after call 17 it holds 13 events, among them Feature 1's Finished, received at call 6 *)
Example stall_holds :
  map fst (stall_out' (firstn 17 esB)) = [1; 2; 4; 5] /\
  map fst (held (firstn 17 esB) (stall_out' (firstn 17 esB))) = [3; 6; 7; 8; 9; 10; 11; 12; 13; 14; 15; 16; 17] /\
  head_feat (firstn 17 esB) (stall_out' (firstn 17 esB)) = Some 1 /\
  head_item 1 (firstn 17 esB) (stall_out' (firstn 17 esB)) = None /\
  head_attempt (firstn 17 esB) (stall_out' (firstn 17 esB)) = None.
Proof. vm_compute. repeat split; reflexivity. Qed.

(* THE FIX: `head_ok2` rejects the stalling writer at every prefix at which it stalls — from call 6 (Feature 1's Finished
   received, all of its items closed in the output, the Finished itself withheld) up to call 17; before (calls 0..5)
   and at the end (call 18, everything released) it coincides with the model *)
Example stall_is_rejected_by_head_ok2 :
  map (fun n => head_ok2 (firstn n esB) (stall_out' (firstn n esB))) (seq 0 19) =
  [true; true; true; true; true; true;
   false; false; false; false; false; false; false; false; false; false; false; false;
   true] /\
  forallb (fun n => head_ok2 (firstn n esB) (stall_out' (firstn n esB))) (seq 0 19) = false /\
  (* the conjunct that rejects is (F) *)
  feat_close_ok (firstn 17 esB) (stall_out' (firstn 17 esB)) = false /\
  feat_close_ok (firstn 6 esB) (stall_out' (firstn 6 esB)) = false.
Proof. vm_compute. repeat split; reflexivity. Qed.

(* the model is accepted after every call on the same stream *)
Example model_is_accepted_on_esB :
  forallb (fun n => head_ok2 (firstn n esB) (concat (firstn n (nrun esB)))) (seq 0 19) = true /\
  forallb (fun n => head_ok2 (firstn n esB) (concat (nrun (firstn n esB)))) (seq 0 19) = true.
Proof. vm_compute. split; reflexivity. Qed.

(* the same one level down: Rule::Finished of the head rule withheld *)
Definition esR : list mev :=
  [ (1, EvStarted); (2, EvFeatS 1); (3, EvRuleS 1 4); (4, EvScen 1 (Some 4) 6 None ScStarted); (5, EvScen 1 (Some 4) 6 None ScFinished);
    (6, EvRuleF 1 4); (7, EvScen 1 None 9 None ScStarted); (8, EvScen 1 None 9 None (ScStep 2 StStarted)); (9, EvScen 1 None 9 None ScFinished) ].
Definition outR : list mev := firstn 5 esR.   (* RuleF 1 4 and everything after it held *)

Example esR_ok :
  contract_prefix (map snd esR) = true /\ head_ok esR outR = true /\
  map fst (concat (nrun esR)) = [1; 2; 3; 4; 5; 6; 7; 8; 9].
Proof. vm_compute. repeat split; reflexivity. Qed.
Example rule_stall_is_rejected_by_head_ok2 :
  head_feat esR outR = Some 1 /\ head_item 1 esR outR = Some (KRule 4) /\ head_ratt 1 4 esR outR = None /\
  rule_close_ok esR outR = false /\ head_ok2 esR outR = false /\
  (* at every prefix from the call that received the Rule-Finished on *)
  map (fun n => head_ok2 (firstn n esR) outR) [6; 7; 8; 9]%nat = [false; false; false; false] /\
  (* the model is accepted after every call *)
  forallb (fun n => head_ok2 (firstn n esR) (concat (nrun (firstn n esR)))) (seq 0 10) = true.
Proof. vm_compute. repeat split; reflexivity. Qed.

(* the minimal form of witness a3.v: exA, its head attempt finished, then Feature 1's Finished — withheld *)
Definition esD : list mev := exA ++ [(8, EvScen 1 None 5 None ScFinished)].
Definition esE : list mev := esD ++ [(9, EvFeatF 1)].
Example hold_featF_is_rejected_by_head_ok2 :
  contract_prefix (map snd esE) = true /\
  map fst (concat (nrun esE)) = [1; 2; 5; 6; 8; 9; 3; 4; 7] /\
  head_ok esE (concat (nrun esD)) = true /\            (* the finding *)
  head_ok2 esE (concat (nrun esD)) = false /\          (* the fix *)
  head_ok2 esE (concat (nrun esE)) = true /\ head_ok2 esD (concat (nrun esD)) = true.
Proof. vm_compute. repeat split; reflexivity. Qed.

(* the outermost bracket: everything forwarded except run-Finished — no head is left, `head_ok` is silent *)
Example hold_run_finished_is_rejected_by_head_ok2 :
  head_feat esB (removelast (concat (nrun esB))) = None /\
  head_ok esB (removelast (concat (nrun esB))) = true /\
  run_close_ok esB (removelast (concat (nrun esB))) = false /\
  head_ok2 esB (removelast (concat (nrun esB))) = false /\
  head_ok2 esB (concat (nrun esB)) = true.
Proof. vm_compute. repeat split; reflexivity. Qed.

(* the lazy variant of ReviewP2.RA is still rejected, the model accepted on exA and exA2 (at every prefix) *)
Example lazy_variant_still_rejected :
  head_ok2 exA (lazy_out exA) = false /\ head_ok2 exA2 (lazy_out exA2) = false /\
  head_ok2 exA (concat (nrun exA)) = true /\ head_ok2 exA2 (concat (nrun exA2)) = true /\
  forallb (fun n => head_ok2 (firstn n exA) (concat (firstn n (nrun exA)))) (seq 0 8) = true /\
  forallb (fun n => head_ok2 (firstn n exA2) (concat (firstn n (nrun exA2)))) (seq 0 12) = true.
Proof. vm_compute. repeat split; reflexivity. Qed.

End RA2.

Print Assumptions RA2.head_ok2_spec.
Print Assumptions RA2.head_closing_bracket_not_yet_received.
Print Assumptions RA2.head_closing_brackets_are_never_held_back.
Print Assumptions RA2.head_ok2_holds.
Print Assumptions RA2.head_ok2_after_every_call.
