(* NormalizeP2.v — C11 "lossless": the emission loops of Normalize only ever move a PREFIX of what is
   buffered (nothing is dropped, duplicated or reordered inside the buffer), for queues that are
   well-formed (`nwf`): a Finished is the last buffered event of its attempt, and a bracket is marked
   finished only when everything inside it is. *)
From CV Require Import Model.Base Model.Events Model.Normalize Proofs.BaseP.
From Coq Require Import Lia Permutation.

Definition has_fin (es : list aev) : bool := existsb (fun e => is_sc_finished (snd e)) es.
Fixpoint fin_last (es : list aev) : bool :=
  match es with
  | [] => true
  | [e] => true
  | e :: t => negb (is_sc_finished (snd e)) && fin_last t
  end.
Definition fin_pending (st : fstate) : bool := match st with FinNotEmitted _ => true | _ => false end.

Lemma fin_last_cons e t : fin_last (e :: t) = true -> fin_last t = true.
Proof. destruct t as [|x t]; [reflexivity|]. cbn. intros H. apply andb_prop in H as [_ H]. exact H. Qed.

Lemma fin_last_head e x t : fin_last (e :: x :: t) = true -> is_sc_finished (snd e) = false.
Proof. cbn. intros H. apply andb_prop in H as [H _]. apply negb_true_iff in H. exact H. Qed.

(* ---------- level 1: one attempt ---------- *)
Lemma emit_att_wf f r k es : fin_last es = true ->
  emit_att f r k es = (att_evs f r (k, es), [], has_fin es).
Proof.
  induction es as [|e t IH]; intros W; cbn [emit_att]; [reflexivity|].
  destruct t as [|x t].
  - unfold att_evs, has_fin; cbn. destruct (is_sc_finished (snd e)); reflexivity.
  - rewrite (fin_last_head _ _ _ W). rewrite (IH (fin_last_cons _ _ W)).
    unfold att_evs, has_fin. cbn [snd fst map existsb]. rewrite (fin_last_head _ _ _ W). reflexivity.
Qed.

(* ---------- level 2: the attempts of a rule ---------- *)
Definition atts_wf (l : list (akey * list aev)) : bool := forallb (fun ka => fin_last (snd ka)) l.
Definition atts_done (l : list (akey * list aev)) : bool := forallb (fun ka => has_fin (snd ka)) l.
Definition atts_evs f r (l : list (akey * list aev)) : list mev := flat_map (att_evs f (Some r)) l.

Lemma emit_atts_wf f r l : atts_wf l = true ->
  let '(o, l') := emit_atts f r l in
  o ++ atts_evs f r l' = atts_evs f r l /\ atts_wf l' = true /\ (atts_done l = true -> l' = []).
Proof.
  induction l as [|[k es] t IH]; intros W; cbn [emit_atts].
  - repeat split; auto.
  - unfold atts_wf in W. cbn [forallb snd] in W. apply andb_prop in W as [W1 W2]. rewrite (emit_att_wf f (Some r) k es W1).
    destruct (has_fin es) eqn:HF.
    + specialize (IH W2). destruct (emit_atts f r t) as [o2 l2]. destruct IH as (E & W' & D).
      split; [|split].
      * unfold atts_evs in *. cbn [flat_map]. rewrite <- app_assoc, E. reflexivity.
      * exact W'.
      * intros DN. unfold atts_done in DN. cbn [forallb snd] in DN. apply andb_prop in DN as [_ DN]. exact (D DN).
    + split; [|split].
      * unfold atts_evs. cbn [flat_map]. unfold att_evs at 2. cbn. reflexivity.
      * cbn. exact W2.
      * intros DN. unfold atts_done in DN. cbn [forallb snd] in DN. rewrite HF in DN. discriminate.
Qed.

(* ---------- level 3: a rule ---------- *)
Definition rule_wf (rq : rqueue) : bool :=
  atts_wf (rq_atts rq) && (negb (fin_pending (rq_state rq)) || atts_done (rq_atts rq)).

Lemma emit_rule_wf f r rq : rule_wf rq = true ->
  let '(o, rq', b) := emit_rule f r rq in
  b = fin_pending (rq_state rq) /\
  (if b then o = item_evs f (KRule r, IRule rq)
   else o ++ item_evs f (KRule r, IRule rq') = item_evs f (KRule r, IRule rq) /\ rule_wf rq' = true
        /\ rq_state rq' = rq_state rq).
Proof.
  unfold rule_wf. intros W. apply andb_prop in W as [W D]. unfold emit_rule.
  pose proof (emit_atts_wf f r (rq_atts rq) W) as A. destruct (emit_atts f r (rq_atts rq)) as [o2 atts].
  destruct A as (E & W' & DN). fold (atts_evs f r (rq_atts rq)) in *.
  cbn [item_evs]. fold (atts_evs f r (rq_atts rq)).
  destruct (rq_state rq) as [|m|] eqn:ST; cbn [take_fin fin_pending] in *.
  - split; [reflexivity|]. cbn [item_evs rq_init rq_atts rq_state fin_evs init_evs app]. split; [|split].
    + rewrite !app_nil_r. rewrite <- app_assoc. fold (atts_evs f r atts). rewrite E. reflexivity.
    + cbn. rewrite W'. reflexivity.
    + reflexivity.
  - split; [reflexivity|]. cbn in D. rewrite (DN D) in E. rewrite app_nil_r in E. subst o2.
    cbn [fin_evs]. reflexivity.
  - split; [reflexivity|]. cbn [item_evs rq_init rq_atts rq_state fin_evs init_evs app]. split; [|split].
    + rewrite !app_nil_r. rewrite <- app_assoc. fold (atts_evs f r atts). rewrite E. reflexivity.
    + cbn. rewrite W'. reflexivity.
    + reflexivity.
Qed.

(* ---------- level 4: the items (rules and top-level attempts) of a feature ---------- *)
Definition item_wf (ki : ikey * item) : bool :=
  match ki with
  | (KRule _, IRule rq) => rule_wf rq
  | (KScen _, IScen es) => fin_last es
  | _ => false
  end.
Definition item_done (ki : ikey * item) : bool :=
  match ki with
  | (KRule _, IRule rq) => fin_pending (rq_state rq)
  | (KScen _, IScen es) => has_fin es
  | _ => false
  end.
Definition items_wf (l : list (ikey * item)) : bool := forallb item_wf l.
Definition items_done (l : list (ikey * item)) : bool := forallb item_done l.
Definition items_evs f (l : list (ikey * item)) : list mev := flat_map (item_evs f) l.

Lemma emit_items_wf f l : items_wf l = true ->
  let '(o, l') := emit_items f l in
  o ++ items_evs f l' = items_evs f l /\ items_wf l' = true /\ (items_done l = true -> l' = []).
Proof.
  induction l as [|[k it] t IH]; intros W; cbn [emit_items].
  - repeat split; auto.
  - unfold items_wf in W. cbn [forallb] in W. apply andb_prop in W as [W1 W2]. specialize (IH W2).
    destruct k as [r|k]; destruct it as [rq|es]; cbn [item_wf] in W1; try discriminate.
    + pose proof (emit_rule_wf f r rq W1) as R. destruct (emit_rule f r rq) as [[o rq'] b].
      destruct R as (B & R). destruct b.
      * destruct (emit_items f t) as [o2 l2]. destruct IH as (E & W' & D). subst o. split; [|split].
        -- unfold items_evs in *. cbn [flat_map]. rewrite <- app_assoc, E. reflexivity.
        -- exact W'.
        -- intros DN. unfold items_done in DN. cbn [forallb] in DN. apply andb_prop in DN as [_ DN]. exact (D DN).
      * destruct R as (E1 & W1' & ST). split; [|split].
        -- unfold items_evs. cbn [flat_map]. rewrite app_assoc, E1. reflexivity.
        -- unfold items_wf. cbn [forallb item_wf]. rewrite W1'. exact W2.
        -- intros DN. unfold items_done in DN. cbn [forallb item_done] in DN. rewrite <- B in DN. discriminate.
    + rewrite (emit_att_wf f None k es W1). destruct (has_fin es) eqn:HF.
      * destruct (emit_items f t) as [o2 l2]. destruct IH as (E & W' & D). split; [|split].
        -- unfold items_evs in *. cbn [flat_map item_evs]. rewrite <- app_assoc, E. reflexivity.
        -- exact W'.
        -- intros DN. unfold items_done in DN. cbn [forallb] in DN. apply andb_prop in DN as [_ DN]. exact (D DN).
      * split; [|split].
        -- unfold items_evs. cbn [flat_map item_evs]. unfold att_evs at 2. cbn. reflexivity.
        -- unfold items_wf. cbn [forallb item_wf fin_last]. exact W2.
        -- intros DN. unfold items_done in DN. cbn [forallb item_done] in DN. rewrite HF in DN. discriminate.
Qed.

(* ---------- level 5: a feature ---------- *)
Definition feat_wf (q : fqueue) : bool :=
  items_wf (fq_items q) && (negb (fin_pending (fq_state q)) || items_done (fq_items q)).

Lemma emit_feat_wf f q : feat_wf q = true ->
  let '(o, q', b) := emit_feat f q in
  b = fin_pending (fq_state q) /\
  (if b then o = feat_evs (f, q)
   else o ++ feat_evs (f, q') = feat_evs (f, q) /\ feat_wf q' = true /\ fq_state q' = fq_state q).
Proof.
  unfold feat_wf. intros W. apply andb_prop in W as [W D]. unfold emit_feat.
  pose proof (emit_items_wf f (fq_items q) W) as A. destruct (emit_items f (fq_items q)) as [o2 items].
  destruct A as (E & W' & DN). unfold feat_evs. cbn [fst snd]. fold (items_evs f (fq_items q)) in *.
  destruct (fq_state q) as [|m|] eqn:ST; cbn [take_fin fin_pending] in *.
  - split; [reflexivity|]. cbn [fq_init fq_items fq_state fin_evs init_evs app]. split; [|split].
    + rewrite !app_nil_r. rewrite <- app_assoc. fold (items_evs f items). rewrite E. reflexivity.
    + cbn. rewrite W'. reflexivity.
    + reflexivity.
  - split; [reflexivity|]. cbn in D. rewrite (DN D) in E. rewrite app_nil_r in E. subst o2.
    cbn [fin_evs]. reflexivity.
  - split; [reflexivity|]. cbn [fq_init fq_items fq_state fin_evs init_evs app]. split; [|split].
    + rewrite !app_nil_r. rewrite <- app_assoc. fold (items_evs f items). rewrite E. reflexivity.
    + cbn. rewrite W'. reflexivity.
    + reflexivity.
Qed.

(* ---------- level 6: the features ---------- *)
Definition feats_wf (l : list (N * fqueue)) : bool := forallb (fun fq => feat_wf (snd fq)) l.
Definition feats_done (l : list (N * fqueue)) : bool := forallb (fun fq => fin_pending (fq_state (snd fq))) l.
Definition feats_evs (l : list (N * fqueue)) : list mev := flat_map feat_evs l.

Lemma emit_feats_wf l : feats_wf l = true ->
  let '(o, l') := emit_feats l in
  o ++ feats_evs l' = feats_evs l /\ feats_wf l' = true /\ (feats_done l = true -> l' = []).
Proof.
  induction l as [|[f q] t IH]; intros W; cbn [emit_feats].
  - repeat split; auto.
  - unfold feats_wf in W. cbn [forallb snd] in W. apply andb_prop in W as [W1 W2]. specialize (IH W2).
    pose proof (emit_feat_wf f q W1) as R. destruct (emit_feat f q) as [[o q'] b]. destruct R as (B & R).
    destruct b.
    + destruct (emit_feats t) as [o2 l2]. destruct IH as (E & W' & D). subst o. split; [|split].
      * unfold feats_evs in *. cbn [flat_map]. rewrite <- app_assoc, E. reflexivity.
      * exact W'.
      * intros DN. unfold feats_done in DN. cbn [forallb] in DN. apply andb_prop in DN as [_ DN]. exact (D DN).
    + destruct R as (E1 & W1' & ST). split; [|split].
      * unfold feats_evs. cbn [flat_map]. rewrite app_assoc, E1. reflexivity.
      * unfold feats_wf. cbn [forallb snd]. rewrite W1'. exact W2.
      * intros DN. unfold feats_done in DN. cbn [forallb snd] in DN. rewrite <- B in DN. discriminate.
Qed.

(* ---------- the whole state ---------- *)
Definition nwf (s : nstate) : bool :=
  feats_wf (ns_feats s) && (negb (fin_pending (ns_state s)) || feats_done (ns_feats s)).

(* the emission part of one handle_event call (after the event has been queued): what is handed to the inner
   writer followed by what stays buffered is EXACTLY what was buffered *)
Theorem emit_moves_a_prefix s1 :
  nwf s1 = true ->
  let '(o1, fs) := emit_feats (ns_feats s1) in
  let '(fin, st) := take_fin (ns_state s1) in
  let s' := mk_ns fs st in
  let out := o1 ++ match fin with Some m => [(m, EvFinished)] | None => [] end in
  out ++ pending s' = pending s1 /\ nwf s' = true /\ (fin_pending (ns_state s1) = true -> pending s' = []).
Proof.
  unfold nwf. intros W. apply andb_prop in W as [W D].
  pose proof (emit_feats_wf (ns_feats s1) W) as A. destruct (emit_feats (ns_feats s1)) as [o1 fs].
  destruct A as (E & W' & DN). unfold pending. fold (feats_evs (ns_feats s1)) in *.
  destruct (ns_state s1) as [|m|] eqn:ST; cbn [take_fin fin_pending ns_feats ns_state fin_evs] in *.
  - rewrite !app_nil_r. fold (feats_evs fs). split; [exact E|]. split; [rewrite W'; reflexivity|discriminate].
  - cbn in D. rewrite (DN D) in *. rewrite app_nil_r in E. subst o1. cbn. rewrite app_nil_r. auto.
  - rewrite !app_nil_r. fold (feats_evs fs). split; [exact E|]. split; [rewrite W'; reflexivity|discriminate].
Qed.

(* ====================================================================================== *)
(* queueing an event: it is added exactly once, at the end of its entity's block           *)
(* ====================================================================================== *)
Fixpoint afind {K V} (eqb : K -> K -> bool) (k : K) (l : list (K * V)) : option (K * V) :=
  match l with
  | [] => None
  | (k', v) :: t => if eqb k k' then Some (k', v) else afind eqb k t
  end.

Lemma amodify_split {K V} (eqb : K -> K -> bool) k g (l : list (K * V)) k' v :
  afind eqb k l = Some (k', v) ->
  exists pre post, l = pre ++ (k', v) :: post /\ amodify eqb k g l = pre ++ (k', g v) :: post /\ eqb k k' = true.
Proof.
  induction l as [|[a b] t IH]; cbn; [discriminate|]. destruct (eqb k a) eqn:E.
  - intros H. inversion H; subst. exists [], t. auto.
  - intros H. destruct (IH H) as (pre & post & E1 & E2 & E3). exists ((a, b) :: pre), post. cbn [app].
    split; [f_equal; exact E1 | split; [f_equal; exact E2 | exact E3]].
Qed.
Lemma amodify_none {K V} (eqb : K -> K -> bool) k g (l : list (K * V)) :
  afind eqb k l = None -> amodify eqb k g l = l.
Proof.
  induction l as [|[a b] t IH]; cbn; auto. destruct (eqb k a); [discriminate|]. intros H. rewrite (IH H). reflexivity.
Qed.
Lemma aupsert_split {K V} (eqb : K -> K -> bool) k g (l : list (K * V)) :
  match afind eqb k l with
  | Some (k', v) => exists pre post, l = pre ++ (k', v) :: post /\ aupsert eqb k g l = pre ++ (k', g (Some v)) :: post
  | None => aupsert eqb k g l = l ++ [(k, g None)]
  end.
Proof.
  induction l as [|[a b] t IH]; cbn; auto. destruct (eqb k a) eqn:E.
  - exists [], t. auto.
  - destruct (afind eqb k t) as [[k' v]|].
    + destruct IH as (pre & post & E1 & E2). exists ((a, b) :: pre), post. cbn [app].
      split; [f_equal; exact E1 | f_equal; exact E2].
    + rewrite IH. reflexivity.
Qed.
Lemma aremove_none {K V} (eqb : K -> K -> bool) k (l : list (K * V)) :
  afind eqb k l = None -> aremove eqb k l = l.
Proof.
  induction l as [|[a b] t IH]; cbn; auto. destruct (eqb k a); [discriminate|]. intros H. rewrite (IH H). reflexivity.
Qed.

Lemma fin_last_snoc es x : fin_last es = true -> has_fin es = false -> fin_last (es ++ [x]) = true.
Proof.
  induction es as [|e t IH]; intros W H; [reflexivity|].
  unfold has_fin in H. cbn [existsb] in H. apply orb_false_iff in H as [H1 H2].
  destruct t as [|y t]; cbn [app fin_last].
  - rewrite H1. reflexivity.
  - rewrite H1. cbn [negb andb]. apply IH; [exact (fin_last_cons _ _ W) | exact H2].
Qed.

Lemma att_evs_snoc f r k es x : att_evs f r (k, es ++ [x]) = att_evs f r (k, es) ++ [mk_scen f r k x].
Proof. unfold att_evs. cbn [fst snd]. rewrite map_app. reflexivity. Qed.

(* what may be queued, given what is buffered (the Runner contract guarantees it; see C11Check) *)
Definition not_pending (st : fstate) : bool := match st with NotFinished => true | _ => false end.

Definition accept_att (o : option (akey * list aev)) : bool :=
  match o with Some (_, es) => negb (has_fin es) | None => true end.

Definition naccept (s : nstate) (e : ev) : bool :=
  if is_pass e then true else
  not_pending (ns_state s) &&
  match e with
  | EvFinished => feats_done (ns_feats s)
  | EvFeatS f => negb (is_some (afind N.eqb f (ns_feats s)))
  | EvFeatF f =>
    match afind N.eqb f (ns_feats s) with
    | Some (_, q) => not_pending (fq_state q) && items_done (fq_items q)
    | None => false
    end
  | EvRuleS f r =>
    match afind N.eqb f (ns_feats s) with
    | Some (_, q) => not_pending (fq_state q) && negb (is_some (afind ikey_eqb (KRule r) (fq_items q)))
    | None => false
    end
  | EvRuleF f r =>
    match afind N.eqb f (ns_feats s) with
    | Some (_, q) =>
      not_pending (fq_state q) &&
      match afind ikey_eqb (KRule r) (fq_items q) with
      | Some (_, IRule rq) => not_pending (rq_state rq) && atts_done (rq_atts rq)
      | _ => false
      end
    | None => false
    end
  | EvScen f None sc rt _ =>
    match afind N.eqb f (ns_feats s) with
    | Some (_, q) =>
      not_pending (fq_state q) &&
      match afind ikey_eqb (KScen (sc, rt)) (fq_items q) with
      | Some (_, IScen es) => negb (has_fin es)
      | Some (_, IRule _) => false
      | None => true
      end
    | None => false
    end
  | EvScen f (Some r) sc rt _ =>
    match afind N.eqb f (ns_feats s) with
    | Some (_, q) =>
      not_pending (fq_state q) &&
      match afind ikey_eqb (KRule r) (fq_items q) with
      | Some (_, IRule rq) => not_pending (rq_state rq) && accept_att (afind akey_eqb (sc, rt) (rq_atts rq))
      | _ => false
      end
    | None => false
    end
  | _ => true
  end.

(* ---------- reflection of the key equalities ---------- *)
Lemma retr_eqb_eq a b : retr_eqb a b = true -> a = b.
Proof.
  destruct a as [[a1 a2]|], b as [[b1 b2]|]; cbn; try discriminate; auto.
  unfold pair_eqb; cbn. intros H. apply andb_prop in H as [H1 H2].
  apply N.eqb_eq in H1, H2. subst. reflexivity.
Qed.
Lemma akey_eqb_eq a b : akey_eqb a b = true -> a = b.
Proof.
  destruct a as [a1 a2], b as [b1 b2]. unfold akey_eqb; cbn. intros H. apply andb_prop in H as [H1 H2].
  apply N.eqb_eq in H1. apply retr_eqb_eq in H2. subst. reflexivity.
Qed.
Lemma ikey_eqb_eq a b : ikey_eqb a b = true -> a = b.
Proof.
  destruct a, b; cbn; try discriminate.
  - intros H. apply N.eqb_eq in H. subst. reflexivity.
  - intros H. apply akey_eqb_eq in H. subst. reflexivity.
Qed.

(* ---------- generic list facts ---------- *)
Lemma flat_map_replace_perm {A B} (F : A -> list B) pre x x' post e :
  Permutation (F x') (F x ++ [e]) ->
  Permutation (flat_map F (pre ++ x' :: post)) (flat_map F (pre ++ x :: post) ++ [e]).
Proof.
  intros P. rewrite !flat_map_app. cbn [flat_map]. rewrite <- !app_assoc.
  apply Permutation_app_head. rewrite P. rewrite <- !app_assoc.
  apply Permutation_app_head. apply Permutation_app_comm.
Qed.
Lemma forallb_replace {A} (p : A -> bool) pre x x' post :
  forallb p (pre ++ x :: post) = true -> p x' = true -> forallb p (pre ++ x' :: post) = true.
Proof.
  rewrite !forallb_app. cbn [forallb]. intros H Hx. apply andb_prop in H as [H1 H2]. apply andb_prop in H2 as [_ H2].
  rewrite H1, Hx, H2. reflexivity.
Qed.
Lemma forallb_mid {A} (p : A -> bool) pre x post : forallb p (pre ++ x :: post) = true -> p x = true.
Proof. rewrite forallb_app. cbn [forallb]. intros H. apply andb_prop in H as [_ H]. apply andb_prop in H as [H _]. exact H. Qed.

Lemma perm_snoc_nil {A} (e : A) : Permutation [e] ([] ++ [e]).
Proof. reflexivity. Qed.

(* ---------- (A) an attempt event of a rule ---------- *)
Lemma atts_push f r sc rt x m atts :
  atts_wf atts = true -> accept_att (afind akey_eqb (sc, rt) atts) = true ->
  let atts' := aupsert akey_eqb (sc, rt) (push_ev (m, x)) atts in
  atts_wf atts' = true /\
  Permutation (atts_evs f r atts') (atts_evs f r atts ++ [(m, EvScen f (Some r) sc rt x)]).
Proof.
  intros W A. pose proof (aupsert_split akey_eqb (sc, rt) (push_ev (m, x)) atts) as S.
  destruct (afind akey_eqb (sc, rt) atts) as [[k' es]|] eqn:F.
  - destruct S as (pre & post & E1 & E2). cbn zeta. rewrite E2.
    assert (K : k' = (sc, rt)).
    { clear -F. induction atts as [|[a b] t IH]; cbn in F; [discriminate|]. destruct (akey_eqb (sc, rt) a) eqn:E.
      - inversion F; subst. symmetry. apply akey_eqb_eq. exact E.
      - apply IH. exact F. }
    subst k'. cbn [accept_att] in A. apply negb_true_iff in A. rewrite E1 in W.
    pose proof (forallb_mid _ _ _ _ W) as Wes. cbn [snd] in Wes. split.
    + unfold atts_wf. eapply forallb_replace; [exact W|]. cbn [snd push_ev]. apply fin_last_snoc; assumption.
    + rewrite E1. unfold atts_evs. apply flat_map_replace_perm. cbn [push_ev]. rewrite att_evs_snoc. reflexivity.
  - cbn zeta. rewrite S. split.
    + unfold atts_wf in *. rewrite forallb_app, W. reflexivity.
    + unfold atts_evs. rewrite flat_map_app. apply Permutation_app_head. cbn. reflexivity.
Qed.

(* ---------- (B) a top-level attempt event ---------- *)
Definition push_item (m : N) (x : scev) (o : option item) : item :=
  match o with Some (IScen es) => IScen (es ++ [(m, x)]) | _ => IScen [(m, x)] end.

Lemma afind_key {K V} (eqb : K -> K -> bool) (Heq : forall a b, eqb a b = true -> a = b) k (l : list (K * V)) k' v :
  afind eqb k l = Some (k', v) -> k' = k.
Proof.
  induction l as [|[a b] t IH]; cbn; [discriminate|]. destruct (eqb k a) eqn:E.
  - intros H. inversion H; subst. symmetry. apply Heq. exact E.
  - exact IH.
Qed.

Lemma items_push f sc rt x m items :
  items_wf items = true ->
  match afind ikey_eqb (KScen (sc, rt)) items with
  | Some (_, IScen es) => negb (has_fin es)
  | Some (_, IRule _) => false
  | None => true
  end = true ->
  let items' := aupsert ikey_eqb (KScen (sc, rt)) (push_item m x) items in
  items_wf items' = true /\
  Permutation (items_evs f items') (items_evs f items ++ [(m, EvScen f None sc rt x)]).
Proof.
  intros W A. pose proof (aupsert_split ikey_eqb (KScen (sc, rt)) (push_item m x) items) as S.
  destruct (afind ikey_eqb (KScen (sc, rt)) items) as [[k' it]|] eqn:F.
  - pose proof (afind_key ikey_eqb ikey_eqb_eq _ _ _ _ F) as K. subst k'.
    destruct S as (pre & post & E1 & E2). cbn zeta. rewrite E2. destruct it as [rq|es]; [discriminate|].
    apply negb_true_iff in A. rewrite E1 in W. pose proof (forallb_mid _ _ _ _ W) as Wes. cbn [item_wf] in Wes. split.
    + unfold items_wf. eapply forallb_replace; [exact W|]. cbn [item_wf push_item]. apply fin_last_snoc; assumption.
    + rewrite E1. unfold items_evs. apply flat_map_replace_perm. cbn [push_item item_evs]. rewrite att_evs_snoc. reflexivity.
  - cbn zeta. rewrite S. split.
    + unfold items_wf in *. rewrite forallb_app, W. reflexivity.
    + unfold items_evs. rewrite flat_map_app. apply Permutation_app_head. cbn. reflexivity.
Qed.

(* ---------- replacing one entry of a level ---------- *)
Lemma perm_middle {A} (a m m' b : list A) e :
  Permutation m' (m ++ [e]) -> Permutation (a ++ m' ++ b) ((a ++ m ++ b) ++ [e]).
Proof.
  intros P. rewrite <- !app_assoc. apply Permutation_app_head. rewrite P. rewrite <- !app_assoc.
  apply Permutation_app_head. apply Permutation_app_comm.
Qed.

Lemma feats_modify f g feats f' q e :
  afind N.eqb f feats = Some (f', q) -> feats_wf feats = true -> feat_wf (g q) = true ->
  Permutation (feat_evs (f', g q)) (feat_evs (f', q) ++ [e]) ->
  feats_wf (amodify N.eqb f g feats) = true /\
  Permutation (feats_evs (amodify N.eqb f g feats)) (feats_evs feats ++ [e]).
Proof.
  intros F W Wq P. destruct (amodify_split N.eqb f g feats f' q F) as (pre & post & E1 & E2 & _).
  rewrite E2. split.
  - rewrite E1 in W. unfold feats_wf in *. eapply forallb_replace; [exact W|exact Wq].
  - rewrite E1. unfold feats_evs. apply flat_map_replace_perm. exact P.
Qed.

Lemma items_modify f k g items k' it e :
  afind ikey_eqb k items = Some (k', it) -> items_wf items = true -> item_wf (k', g it) = true ->
  Permutation (item_evs f (k', g it)) (item_evs f (k', it) ++ [e]) ->
  items_wf (amodify ikey_eqb k g items) = true /\
  Permutation (items_evs f (amodify ikey_eqb k g items)) (items_evs f items ++ [e]).
Proof.
  intros F W Wq P. destruct (amodify_split ikey_eqb k g items k' it F) as (pre & post & E1 & E2 & _).
  rewrite E2. split.
  - rewrite E1 in W. unfold items_wf in *. eapply forallb_replace; [exact W|exact Wq].
  - rewrite E1. unfold items_evs. apply flat_map_replace_perm. exact P.
Qed.

Lemma afind_in {K V} (eqb : K -> K -> bool) k (l : list (K * V)) kv : afind eqb k l = Some kv -> In kv l.
Proof.
  induction l as [|[a b] t IH]; cbn; [discriminate|]. destruct (eqb k a).
  - intros H. inversion H. left. reflexivity.
  - intros H. right. apply IH. exact H.
Qed.
Lemma forallb_in {A} (p : A -> bool) l x : forallb p l = true -> In x l -> p x = true.
Proof. intros H Hx. rewrite forallb_forall in H. apply H. exact Hx. Qed.

Lemma not_pending_fin st : not_pending st = true -> fin_pending st = false /\ st = NotFinished.
Proof. destruct st; cbn; try discriminate; auto. Qed.

(* changing the items of a feature that is not marked finished *)
Lemma feat_items_change f' q items' e :
  not_pending (fq_state q) = true -> items_wf items' = true ->
  Permutation (items_evs f' items') (items_evs f' (fq_items q) ++ [e]) ->
  feat_wf (set_fq_items q items') = true /\
  Permutation (feat_evs (f', set_fq_items q items')) (feat_evs (f', q) ++ [e]).
Proof.
  intros NP W P. destruct (not_pending_fin _ NP) as [FP ST]. split.
  - unfold feat_wf. cbn [set_fq_items fq_items fq_state]. rewrite W, FP. reflexivity.
  - unfold feat_evs. cbn [fst snd set_fq_items fq_init fq_items fq_state].
    fold (items_evs f' items') (items_evs f' (fq_items q)). apply perm_middle. exact P.
Qed.

(* ---------- the theorem: queueing adds exactly the new event ---------- *)
Theorem enqueue_adds_one s e :
  nwf s = true -> is_pass (snd e) = false -> naccept s (snd e) = true ->
  nwf (enqueue s e) = true /\ Permutation (pending (enqueue s e)) (pending s ++ [e]).
Proof.
  intros W NPASS A. unfold naccept in A. rewrite NPASS in A. apply andb_prop in A as [NS A].
  destruct (not_pending_fin _ NS) as [FPS STS].
  unfold nwf in W. apply andb_prop in W as [W _].
  assert (PEND : pending s = feats_evs (ns_feats s)).
  { unfold pending. rewrite STS. cbn. rewrite app_nil_r. reflexivity. }
  destruct e as [m ev0]. cbn [snd fst] in *. unfold enqueue. cbn [fst snd].
  destruct ev0 as [| | | |f|f|f r|f r|f r sc rt x]; try discriminate.
  - (* Finished *)
    split.
    + unfold nwf. cbn [ns_feats ns_state fin_pending negb orb]. rewrite W, A. reflexivity.
    + unfold pending. cbn [ns_feats ns_state fin_evs]. rewrite STS. cbn [fin_evs]. rewrite app_nil_r. reflexivity.
  - (* Feature Started *)
    apply negb_true_iff in A. destruct (afind N.eqb f (ns_feats s)) eqn:F; [discriminate|].
    unfold ainsert. rewrite (aremove_none N.eqb f _ F). split.
    + unfold nwf, set_feats. cbn [ns_feats ns_state]. rewrite FPS. unfold feats_wf in *. rewrite forallb_app, W. reflexivity.
    + unfold pending, set_feats. cbn [ns_feats ns_state]. rewrite STS. cbn [fin_evs]. rewrite !app_nil_r.
      fold (feats_evs (ns_feats s ++ [(f, new_fq m)])) (feats_evs (ns_feats s)). unfold feats_evs. rewrite flat_map_app.
      apply Permutation_app_head. cbn. reflexivity.
  - (* Feature Finished *)
    destruct (afind N.eqb f (ns_feats s)) as [[f' q]|] eqn:F; [|discriminate].
    apply andb_prop in A as [NP D]. destruct (not_pending_fin _ NP) as [FP ST].
    pose proof (afind_key N.eqb (fun a b H => proj1 (N.eqb_eq a b) H) _ _ _ _ F) as K. subst f'.
    pose proof (forallb_in _ _ _ W (afind_in _ _ _ _ F)) as Wq. cbn [snd] in Wq. unfold feat_wf in Wq. apply andb_prop in Wq as [Wi _].
    destruct (feats_modify f (fun q => set_fq_state q (FinNotEmitted m)) (ns_feats s) f q (m, EvFeatF f) F W) as (W' & P).
    + unfold feat_wf. cbn [set_fq_state fq_items fq_state fin_pending negb orb]. rewrite Wi, D. reflexivity.
    + unfold feat_evs. cbn [fst snd set_fq_state fq_init fq_items fq_state fin_evs]. rewrite ST. cbn [fin_evs].
      rewrite app_nil_r, <- app_assoc. reflexivity.
    + split.
      * unfold nwf, set_feats. cbn [ns_feats ns_state]. rewrite FPS, W'. reflexivity.
      * unfold pending, set_feats. cbn [ns_feats ns_state]. rewrite STS. cbn [fin_evs]. rewrite !app_nil_r. exact P.
  - (* Rule Started *)
    destruct (afind N.eqb f (ns_feats s)) as [[f' q]|] eqn:F; [|discriminate].
    apply andb_prop in A as [NP FR]. apply negb_true_iff in FR.
    destruct (afind ikey_eqb (KRule r) (fq_items q)) eqn:FI; [discriminate|].
    pose proof (afind_key N.eqb (fun a b H => proj1 (N.eqb_eq a b) H) _ _ _ _ F) as K. subst f'.
    pose proof (forallb_in _ _ _ W (afind_in _ _ _ _ F)) as Wq. cbn [snd] in Wq. unfold feat_wf in Wq. apply andb_prop in Wq as [Wi _].
    set (g := fun q0 => set_fq_items q0 (ainsert ikey_eqb (KRule r) (IRule (new_rq m)) (fq_items q0))).
    assert (GI : fq_items (g q) = fq_items q ++ [(KRule r, IRule (new_rq m))]).
    { unfold g, ainsert. cbn [set_fq_items fq_items]. rewrite (aremove_none ikey_eqb _ _ FI). reflexivity. }
    destruct (feat_items_change f q (fq_items q ++ [(KRule r, IRule (new_rq m))]) (m, EvRuleS f r) NP) as (Wg & Pg).
    + unfold items_wf in *. rewrite forallb_app, Wi. reflexivity.
    + unfold items_evs. rewrite flat_map_app. apply Permutation_app_head. cbn. reflexivity.
    + destruct (feats_modify f g (ns_feats s) f q (m, EvRuleS f r) F W) as (W' & P).
      * unfold g. unfold ainsert. rewrite (aremove_none ikey_eqb _ _ FI). exact Wg.
      * unfold g. unfold ainsert. rewrite (aremove_none ikey_eqb _ _ FI). exact Pg.
      * split.
        -- unfold nwf, set_feats. cbn [ns_feats ns_state]. rewrite FPS. fold g. rewrite W'. reflexivity.
        -- unfold pending, set_feats. cbn [ns_feats ns_state]. rewrite STS. cbn [fin_evs]. rewrite !app_nil_r. fold g. exact P.
  - (* Rule Finished *)
    destruct (afind N.eqb f (ns_feats s)) as [[f' q]|] eqn:F; [|discriminate].
    apply andb_prop in A as [NPQ A].
    destruct (afind ikey_eqb (KRule r) (fq_items q)) as [[k' it]|] eqn:FI; [|discriminate].
    destruct it as [rq|es]; [|discriminate].
    apply andb_prop in A as [NPR D]. destruct (not_pending_fin _ NPR) as [FPR STR].
    pose proof (afind_key N.eqb (fun a b H => proj1 (N.eqb_eq a b) H) _ _ _ _ F) as K. subst f'.
    pose proof (afind_key ikey_eqb ikey_eqb_eq _ _ _ _ FI) as K2. subst k'.
    pose proof (forallb_in _ _ _ W (afind_in _ _ _ _ F)) as Wq. cbn [snd] in Wq. unfold feat_wf in Wq. apply andb_prop in Wq as [Wi Dq].
    pose proof (forallb_in _ _ _ Wi (afind_in _ _ _ _ FI)) as Wr. cbn [item_wf] in Wr. unfold rule_wf in Wr. apply andb_prop in Wr as [Wa _].
    set (gi := fun it0 => match it0 with IRule rq0 => IRule (set_rq_state rq0 (FinNotEmitted m)) | x => x end).
    destruct (items_modify f (KRule r) gi (fq_items q) (KRule r) (IRule rq) (m, EvRuleF f r) FI Wi) as (Wi' & Pi).
    + cbn [gi item_wf]. unfold rule_wf. cbn [set_rq_state rq_atts rq_state fin_pending negb orb]. rewrite Wa, D. reflexivity.
    + cbn [gi item_evs set_rq_state rq_init rq_atts rq_state fin_evs]. rewrite STR. cbn [fin_evs]. rewrite app_nil_r, <- !app_assoc. reflexivity.
    + destruct (feat_items_change f q _ (m, EvRuleF f r) NPQ Wi' Pi) as (Wg & Pg).
      set (g := fun q0 => set_fq_items q0 (amodify ikey_eqb (KRule r) gi (fq_items q0))).
      destruct (feats_modify f g (ns_feats s) f q (m, EvRuleF f r) F W Wg Pg) as (W' & P).
      split.
      * unfold nwf, set_feats. cbn [ns_feats ns_state]. rewrite FPS. fold gi g. rewrite W'. reflexivity.
      * unfold pending, set_feats. cbn [ns_feats ns_state]. rewrite STS. cbn [fin_evs]. rewrite !app_nil_r. fold gi g. exact P.
  - (* a scenario event *)
    destruct (afind N.eqb f (ns_feats s)) as [[f' q]|] eqn:F; [|destruct r; discriminate].
    pose proof (afind_key N.eqb (fun a b H => proj1 (N.eqb_eq a b) H) _ _ _ _ F) as K. subst f'.
    pose proof (forallb_in _ _ _ W (afind_in _ _ _ _ F)) as Wq. cbn [snd] in Wq. unfold feat_wf in Wq. apply andb_prop in Wq as [Wi Dq].
    destruct r as [r|].
    + (* inside a rule *)
      apply andb_prop in A as [NPQ A].
      destruct (afind ikey_eqb (KRule r) (fq_items q)) as [[k' it]|] eqn:FI; [|discriminate].
      destruct it as [rq|es]; [|discriminate].
      apply andb_prop in A as [NPR AA]. destruct (not_pending_fin _ NPR) as [FPR STR].
      pose proof (afind_key ikey_eqb ikey_eqb_eq _ _ _ _ FI) as K2. subst k'.
      pose proof (forallb_in _ _ _ Wi (afind_in _ _ _ _ FI)) as Wr. cbn [item_wf] in Wr. unfold rule_wf in Wr. apply andb_prop in Wr as [Wa _].
      destruct (atts_push f r sc rt x m (rq_atts rq) Wa AA) as (Wa' & Pa).
      set (gi := fun it0 => match it0 with
                            | IRule rq0 => IRule (set_rq_atts rq0 (aupsert akey_eqb (sc, rt) (push_ev (m, x)) (rq_atts rq0)))
                            | y => y end).
      destruct (items_modify f (KRule r) gi (fq_items q) (KRule r) (IRule rq) (m, EvScen f (Some r) sc rt x) FI Wi) as (Wi' & Pi).
      * cbn [gi item_wf]. unfold rule_wf. cbn [set_rq_atts rq_atts rq_state]. rewrite Wa', FPR. reflexivity.
      * cbn [gi item_evs set_rq_atts rq_init rq_atts rq_state]. rewrite STR. cbn [fin_evs]. rewrite !app_nil_r.
        fold (atts_evs f r (aupsert akey_eqb (sc, rt) (push_ev (m, x)) (rq_atts rq))) (atts_evs f r (rq_atts rq)).
        rewrite Pa. rewrite <- app_assoc. reflexivity.
      * destruct (feat_items_change f q _ (m, EvScen f (Some r) sc rt x) NPQ Wi' Pi) as (Wg & Pg).
        set (g := fun q0 => set_fq_items q0 (amodify ikey_eqb (KRule r) gi (fq_items q0))).
        destruct (feats_modify f g (ns_feats s) f q (m, EvScen f (Some r) sc rt x) F W Wg Pg) as (W' & P).
        split.
        -- unfold nwf, set_feats. cbn [ns_feats ns_state]. rewrite FPS. fold gi g. rewrite W'. reflexivity.
        -- unfold pending, set_feats. cbn [ns_feats ns_state]. rewrite STS. cbn [fin_evs]. rewrite !app_nil_r. fold gi g. exact P.
    + (* top level *)
      apply andb_prop in A as [NPQ AA].
      destruct (items_push f sc rt x m (fq_items q) Wi AA) as (Wi' & Pi).
      destruct (feat_items_change f q _ (m, EvScen f None sc rt x) NPQ Wi' Pi) as (Wg & Pg).
      set (g := fun q0 => set_fq_items q0 (aupsert ikey_eqb (KScen (sc, rt)) (push_item m x) (fq_items q0))).
      destruct (feats_modify f g (ns_feats s) f q (m, EvScen f None sc rt x) F W Wg Pg) as (W' & P).
      split.
      * unfold nwf, set_feats. cbn [ns_feats ns_state]. rewrite FPS. fold (push_item m x). fold g. rewrite W'. reflexivity.
      * unfold pending, set_feats. cbn [ns_feats ns_state]. rewrite STS. cbn [fin_evs]. rewrite !app_nil_r. fold (push_item m x). fold g. exact P.
Qed.

(* ====================================================================================== *)
(* one call, and a whole run                                                               *)
(* ====================================================================================== *)
Definition accepts (s : nstate) (e : ev) : bool := is_emitted (ns_state s) || naccept s e.
(* between two calls the run-Finished marker is never pending: it is emitted in the call that queues it *)
Definition resting (s : nstate) : bool := negb (fin_pending (ns_state s)).

Lemma enqueue_pass s e : is_pass (snd e) = true -> enqueue s e = s.
Proof. destruct e as [m ev0]. cbn [snd]. unfold enqueue. cbn [snd]. destruct ev0; try discriminate; reflexivity. Qed.

Lemma take_fin_resting st : negb (fin_pending (snd (take_fin st))) = true.
Proof. destruct st; reflexivity. Qed.

(* C11 "lossless", per call: what the inner writer receives during the call plus what stays buffered is a
   permutation of what was buffered plus the new event; after run-Finished nothing stays buffered *)
Theorem handle_lossless s e :
  nwf s = true -> resting s = true -> accepts s (snd e) = true ->
  nwf (fst (nhandle s e)) = true /\ resting (fst (nhandle s e)) = true /\
  Permutation (snd (nhandle s e) ++ pending (fst (nhandle s e))) (pending s ++ [e]) /\
  (is_emitted (ns_state s) = false -> snd e = EvFinished ->
   pending (fst (nhandle s e)) = [] /\ is_emitted (ns_state (fst (nhandle s e))) = true) /\
  (is_emitted (ns_state s) = false -> is_finished (snd e) = false ->
   is_emitted (ns_state (fst (nhandle s e))) = false).
Proof.
  intros W RS A. unfold nhandle. destruct (is_emitted (ns_state s)) eqn:EM.
  - cbn [fst snd]. split; [exact W|]. split; [exact RS|]. split; [|split; discriminate].
    cbn [app]. apply Permutation_cons_append.
  - unfold accepts in A. rewrite EM in A. cbn [orb] in A.
    assert (S0 : ns_state s = NotFinished).
    { unfold resting in RS. destruct (ns_state s); [reflexivity|discriminate|discriminate]. }
    destruct (is_pass (snd e)) eqn:PS.
    + rewrite (enqueue_pass s e PS).
      pose proof (emit_moves_a_prefix s W) as E. destruct (emit_feats (ns_feats s)) as [o1 fs].
      rewrite S0 in *. cbn [take_fin] in *. destruct E as (E & W' & _). cbn [fst snd].
      split; [exact W'|]. split; [reflexivity|]. split; [|split].
      * rewrite app_nil_r in E. rewrite <- app_assoc. cbn [app]. rewrite E. apply Permutation_cons_append.
      * intros _ F. destruct e as [m ev0]. cbn [snd] in *. subst ev0. discriminate.
      * intros _ _. reflexivity.
    + destruct (enqueue_adds_one s e W PS A) as (W1 & P1).
      pose proof (emit_moves_a_prefix (enqueue s e) W1) as E. destruct (emit_feats (ns_feats (enqueue s e))) as [o1 fs].
      destruct e as [m ev0]. cbn [snd fst] in *.
      destruct ev0 as [| | | |f|f|f r|f r|f r sc rt x]; try discriminate.
      * (* run-Finished: queued and emitted in the same call *)
        unfold enqueue in *. cbn [snd fst ns_state take_fin ns_feats] in *. destruct E as (E & W' & PE).
        cbn [fst snd]. split; [exact W'|]. split; [reflexivity|]. split; [|split].
        -- cbn [app]. rewrite E. exact P1.
        -- intros _ _. split; [apply PE; reflexivity|reflexivity].
        -- intros _ F. discriminate.
      * assert (ST : ns_state (enqueue s (m, EvFeatS f)) = NotFinished) by (unfold enqueue; cbn; exact S0).
        rewrite ST in *. cbn [take_fin] in *. destruct E as (E & W' & _). cbn [fst snd app].
        split; [exact W'|]. split; [reflexivity|]. split; [|split; [discriminate|reflexivity]].
        rewrite app_nil_r in E. rewrite E. exact P1.
      * assert (ST : ns_state (enqueue s (m, EvFeatF f)) = NotFinished) by (unfold enqueue; cbn; exact S0).
        rewrite ST in *. cbn [take_fin] in *. destruct E as (E & W' & _). cbn [fst snd app].
        split; [exact W'|]. split; [reflexivity|]. split; [|split; [discriminate|reflexivity]].
        rewrite app_nil_r in E. rewrite E. exact P1.
      * assert (ST : ns_state (enqueue s (m, EvRuleS f r)) = NotFinished) by (unfold enqueue; cbn; exact S0).
        rewrite ST in *. cbn [take_fin] in *. destruct E as (E & W' & _). cbn [fst snd app].
        split; [exact W'|]. split; [reflexivity|]. split; [|split; [discriminate|reflexivity]].
        rewrite app_nil_r in E. rewrite E. exact P1.
      * assert (ST : ns_state (enqueue s (m, EvRuleF f r)) = NotFinished) by (unfold enqueue; cbn; exact S0).
        rewrite ST in *. cbn [take_fin] in *. destruct E as (E & W' & _). cbn [fst snd app].
        split; [exact W'|]. split; [reflexivity|]. split; [|split; [discriminate|reflexivity]].
        rewrite app_nil_r in E. rewrite E. exact P1.
      * assert (ST : ns_state (enqueue s (m, EvScen f r sc rt x)) = NotFinished) by (unfold enqueue; destruct r; cbn; exact S0).
        rewrite ST in *. cbn [take_fin] in *. destruct E as (E & W' & _). cbn [fst snd app].
        split; [exact W'|]. split; [reflexivity|]. split; [|split; [discriminate|reflexivity]].
        rewrite app_nil_r in E. rewrite E. exact P1.
Qed.

Fixpoint accepts_run (s : nstate) (es : list mev) : bool :=
  match es with
  | [] => true
  | e :: t => accepts s (snd e) && accepts_run (fst (nhandle s e)) t
  end.
Fixpoint nfinal (s : nstate) (es : list mev) : nstate :=
  match es with [] => s | e :: t => nfinal (fst (nhandle s e)) t end.

Theorem run_lossless : forall es s,
  nwf s = true -> resting s = true -> accepts_run s es = true ->
  Permutation (concat (nrun_from s es) ++ pending (nfinal s es)) (pending s ++ es).
Proof.
  induction es as [|e t IH]; intros s W RS A; cbn [nrun_from nfinal concat].
  - cbn. rewrite app_nil_r. reflexivity.
  - cbn [accepts_run] in A. apply andb_prop in A as [A1 A2].
    destruct (handle_lossless s e W RS A1) as (W1 & RS1 & P1 & _).
    destruct (nhandle s e) as [s1 o] eqn:H. cbn [fst snd] in *.
    pose proof (IH s1 W1 RS1 A2) as P2.
    cbn [concat]. rewrite <- app_assoc. rewrite P2. rewrite app_assoc. rewrite P1.
    rewrite <- app_assoc. reflexivity.
Qed.

(* once run-Finished has been handled nothing is buffered any more, whatever follows *)
Lemma nfinal_emitted : forall es s, is_emitted (ns_state s) = true -> pending (nfinal s es) = pending s.
Proof.
  induction es as [|e t IH]; intros s H; cbn [nfinal]; [reflexivity|].
  assert (E : fst (nhandle s e) = s) by (unfold nhandle; rewrite H; reflexivity).
  rewrite E. apply IH. exact H.
Qed.

Lemma pending_after_finished : forall es s,
  nwf s = true -> resting s = true -> accepts_run s es = true -> is_emitted (ns_state s) = false ->
  existsb (fun e => is_finished (snd e)) es = true -> pending (nfinal s es) = [].
Proof.
  induction es as [|e t IH]; intros s W RS A EM F; [discriminate|].
  cbn [accepts_run] in A. apply andb_prop in A as [A1 A2]. cbn [existsb] in F. cbn [nfinal].
  destruct (handle_lossless s e W RS A1) as (W1 & RS1 & _ & PF & PN).
  destruct (is_finished (snd e)) eqn:FE.
  - assert (SE : snd e = EvFinished) by (destruct (snd e); try discriminate; reflexivity).
    destruct (PF EM SE) as (P0 & E1). rewrite (nfinal_emitted t _ E1). exact P0.
  - cbn [orb] in F. exact (IH _ W1 RS1 A2 (PN EM eq_refl) F).
Qed.

(* C11 "lossless": for a stream that contains run-Finished the inner writer receives, over the whole run, a
   permutation of the stream *)
Theorem run_lossless_complete es :
  accepts_run ninit es = true -> existsb (fun e => is_finished (snd e)) es = true ->
  Permutation (concat (nrun es)) es.
Proof.
  intros A F. pose proof (run_lossless es ninit eq_refl eq_refl A) as P.
  rewrite (pending_after_finished es ninit eq_refl eq_refl A eq_refl F), app_nil_r in P. exact P.
Qed.
