(* NormalizeP4d.v — C11 "sequential", part 4: one feature, and the list of features. *)
From CV Require Import Proofs.SchedP5.
From CV Require Import Model.Base Model.Events Model.Contract Model.Normalize
  Proofs.BaseP Proofs.NormalizeP Proofs.NormalizeP2 Proofs.NormalizeP3 Proofs.NormalizeP4 Proofs.NormalizeP4b Proofs.NormalizeP4c.
From Coq Require Import Lia Permutation.

Record feat_static (c : cstate) (f : N) (q : fqueue) : Prop := mk_feat_static {
  fs_items : items_static c f (fq_items q);
  fs_fresh : fq_init q <> None -> lookup N.eqb f (c_feats c) = None /\ pr_items (fq_items q);
  fs_head : fq_init q = None -> lookup N.eqb f (c_feats c) = Some Open }.

Record feats_static (c : cstate) (l : list (N * fqueue)) : Prop := mk_feats_static {
  fts_nodup : NoDup (keys l);
  fts_wf : feats_wf l = true;
  fts_feat : forall f q, In (f, q) l -> feat_static c f q;
  fts_tail : forall f q, In (f, q) (tl l) -> pr_feat q }.

Definition feats_open (c : cstate) (l : list (N * fqueue)) : Prop :=
  (forall f, lookup N.eqb f (c_feats c) = Some Open -> exists q, In (f, q) l /\ fq_init q = None) /\
  (forall k', lookup rkey_eqb k' (c_rules c) = Some Open -> exists f q, In (f, q) l /\ witR f (fq_items q) k') /\
  (forall k', lookup atkey_eqb k' (c_atts c) = Some Open -> exists f q, In (f, q) l /\ witA f (fq_items q) k').

Definition same_flags (c c' : cstate) : Prop :=
  c_finished c' = c_finished c /\ c_started c' = c_started c /\ c_pf c' = c_pf c.
Lemma same_flags_refl c : same_flags c c.
Proof. repeat split. Qed.
Lemma same_flags_trans a b c : same_flags a b -> same_flags b c -> same_flags a c.
Proof. intros (A1 & A2 & A3) (B1 & B2 & B3). repeat split; congruence. Qed.

(* transport: the automaton state changed, but not at the keys of feature f *)
Lemma items_static_agree c c' f l :
  (forall k, fst k = f -> lookup rkey_eqb k (c_rules c') = lookup rkey_eqb k (c_rules c)) ->
  (forall k, att_feat k = f -> lookup atkey_eqb k (c_atts c') = lookup atkey_eqb k (c_atts c)) ->
  items_static c f l -> items_static c' f l.
Proof.
  intros AR AA [ND WF SH RU TL FR HR FA HA PV]. constructor; auto.
  - intros r rq H. apply (atts_static_agree c c' f (Some r)); [|exact (RU r rq H)]. intros k E _. exact (AA k E).
  - intros r rq H NI. rewrite AR by reflexivity. exact (FR r rq H NI).
  - intros r rq H IN. rewrite AR by reflexivity. exact (HR r rq H IN).
  - intros k es H SS. rewrite AA by reflexivity. exact (FA k es H SS).
  - intros k es H SS. rewrite AA by reflexivity. exact (HA k es H SS).
  - intros k es H. specialize (PV k es H). unfold prev_ok in *. destruct (prev_key f None k) as [pk|] eqn:PK; [|exact I].
    rewrite AA by exact (proj1 (prev_key_shape _ _ _ _ PK)). exact PV.
Qed.

Lemma feat_static_agree c c' f q :
  lookup N.eqb f (c_feats c') = lookup N.eqb f (c_feats c) ->
  (forall k, fst k = f -> lookup rkey_eqb k (c_rules c') = lookup rkey_eqb k (c_rules c)) ->
  (forall k, att_feat k = f -> lookup atkey_eqb k (c_atts c') = lookup atkey_eqb k (c_atts c)) ->
  feat_static c f q -> feat_static c' f q.
Proof.
  intros AF AR AA [IT FR HD]. constructor.
  - exact (items_static_agree c c' f _ AR AA IT).
  - intros NI. rewrite AF. exact (FR NI).
  - intros IN. rewrite AF. exact (HD IN).
Qed.

Lemma pr_items_no_witR f its k' : pr_items its -> witR f its k' -> False.
Proof. intros P (r & rq & H & _ & IN). specialize (P _ H). cbn in P. destruct P as [X _]. exact (X IN). Qed.
Lemma pr_items_no_witA f its k' : pr_items its -> witA f its k' -> False.
Proof.
  intros P [(k & es & H & _ & SS)|(r & rq & k & es & H & Hes & _ & SS)]; specialize (P _ H); cbn in P.
  - congruence.
  - destruct P as [_ P]. exact (pr_atts_not _ _ _ P Hes SS).
Qed.

Lemma open_feats_all_false c : nodupk (c_feats c) ->
  (forall f, lookup N.eqb f (c_feats c) <> Some Open) -> any_open_feat c = false.
Proof.
  intros ND H. unfold any_open_feat. destruct (existsb _ _) eqn:E; [|reflexivity]. exfalso.
  apply existsb_exists in E as ([f st] & Hin & Hp). cbn [snd] in Hp. destruct st; [|discriminate].
  apply (H f). apply (nodupk_lookup N.eqb N.eqb_eq); assumption.
Qed.

(* level E: one feature *)
Lemma seq_feat f q c :
  feat_static c f q -> feat_wf q = true ->
  (forall f', lookup N.eqb f' (c_feats c) = Some Open -> f' = f /\ fq_init q = None) ->
  items_open c f (fq_items q) ->
  WFc c -> c_finished c = false -> c_started c = true ->
  exists c', crun true c (map snd (fst (fst (emit_feat f q)))) = Some c' /\ same_flags c c' /\ WFc c' /\
    (forall f', f' <> f -> lookup N.eqb f' (c_feats c') = lookup N.eqb f' (c_feats c)) /\
    (forall k, fst k <> f -> lookup rkey_eqb k (c_rules c') = lookup rkey_eqb k (c_rules c)) /\
    (forall k, att_feat k <> f -> lookup atkey_eqb k (c_atts c') = lookup atkey_eqb k (c_atts c)) /\
    (if snd (emit_feat f q)
     then lookup N.eqb f (c_feats c') = Some Closed /\
          (forall f', lookup N.eqb f' (c_feats c') <> Some Open) /\
          (forall k', lookup rkey_eqb k' (c_rules c') <> Some Open) /\
          (forall k', lookup atkey_eqb k' (c_atts c') <> Some Open)
     else feat_static c' f (snd (fst (emit_feat f q))) /\ fq_init (snd (fst (emit_feat f q))) = None /\
          items_open c' f (fq_items (snd (fst (emit_feat f q)))) /\
          (forall f', lookup N.eqb f' (c_feats c') = Some Open -> f' = f)).
Proof.
  intros [IT FR HD] FW OF OP W CF CS. unfold emit_feat.
  (* Feature::Started, if not yet emitted *)
  assert (S1 : exists c1, crun true c (map snd (init_evs (fq_init q) (EvFeatS f))) = Some c1 /\ same_flags c c1 /\ WFc c1 /\
                c_rules c1 = c_rules c /\ c_atts c1 = c_atts c /\
                lookup N.eqb f (c_feats c1) = Some Open /\
                (forall f', f' <> f -> lookup N.eqb f' (c_feats c1) = lookup N.eqb f' (c_feats c))).
  { destruct (fq_init q) as [m0|] eqn:FI.
    - destruct FR as [AB _]; [discriminate|]. cbn [init_evs map snd crun].
      assert (NOF : any_open_feat c = false).
      { apply open_feats_all_false; [exact (proj1 W)|]. intros f' L. destruct (OF f' L) as [_ X]. discriminate X. }
      unfold cstep. rewrite CF, CS, AB, NOF. cbn [andb negb orb is_absent guard]. eexists. split; [reflexivity|].
      split; [repeat split|]. split.
      { destruct W as (W1 & W2 & W3). split; [|split; assumption]. cbn [set_cfeats c_feats]. apply (nodupk_setk N.eqb N.eqb_eq). exact W1. }
      cbn [set_cfeats c_feats c_rules c_atts]. split; [reflexivity|]. split; [reflexivity|].
      split; [apply (lookup_setk_same N.eqb N.eqb_eq)|]. intros f' NE. apply (lookup_setk_other N.eqb N.eqb_eq). exact NE.
    - exists c. cbn [init_evs map crun]. split; [reflexivity|]. split; [apply same_flags_refl|]. split; [exact W|].
      split; [reflexivity|]. split; [reflexivity|]. split; [exact (HD eq_refl)|]. intros; reflexivity. }
  destruct S1 as (c1 & R0 & SF1 & W1 & E1r & E1a & FO1 & LF1).
  assert (IT1 : items_static c1 f (fq_items q)).
  { apply (items_static_agree c c1 f); [intros; rewrite E1r; reflexivity|intros; rewrite E1a; reflexivity|exact IT]. }
  assert (OP1 : items_open c1 f (fq_items q)).
  { destruct OP as [OA OR]. split; intros k' L; [apply OA; rewrite <- E1a; exact L|apply OR; rewrite <- E1r; exact L]. }
  assert (CF1 : c_finished c1 = false) by (destruct SF1 as (X & _); congruence).
  destruct (seq_items f (fq_items q) c1 IT1 OP1 W1 CF1 FO1) as (c2 & R2 & SB2 & W2 & IT2 & OP2 & LR2 & LA2).
  destruct SB2 as (E2f & E2fin & E2s & E2p).
  unfold feat_wf in FW. apply andb_prop in FW as [IW DONE].
  pose proof (emit_items_wf f (fq_items q) IW) as EW.
  destruct (emit_items f (fq_items q)) as [o2 items'] eqn:EI. cbn [fst snd] in *. destruct EW as (_ & _ & ALLDONE).
  assert (SF2 : same_flags c c2) by (destruct SF1 as (A & B & C); repeat split; congruence).
  assert (LF2 : forall f', f' <> f -> lookup N.eqb f' (c_feats c2) = lookup N.eqb f' (c_feats c)).
  { intros f' NE. rewrite E2f. exact (LF1 f' NE). }
  assert (LRc : forall k, fst k <> f -> lookup rkey_eqb k (c_rules c2) = lookup rkey_eqb k (c_rules c)).
  { intros k NE. rewrite (LR2 k NE), E1r. reflexivity. }
  assert (LAc : forall k, att_feat k <> f -> lookup atkey_eqb k (c_atts c2) = lookup atkey_eqb k (c_atts c)).
  { intros k NE. rewrite (LA2 k NE), E1a. reflexivity. }
  assert (FO2 : lookup N.eqb f (c_feats c2) = Some Open) by (rewrite E2f; exact FO1).
  assert (OF2 : forall f', lookup N.eqb f' (c_feats c2) = Some Open -> f' = f).
  { intros f' L. destruct (N.eq_dec f' f) as [E|NE]; [exact E|]. rewrite (LF2 f' NE) in L. exact (proj1 (OF f' L)). }
  assert (STAY : forall st, st = fq_state q -> fin_pending st = false ->
            exists c', crun true c (map snd (init_evs (fq_init q) (EvFeatS f) ++ o2)) = Some c' /\ same_flags c c' /\ WFc c' /\
              (forall f', f' <> f -> lookup N.eqb f' (c_feats c') = lookup N.eqb f' (c_feats c)) /\
              (forall k, fst k <> f -> lookup rkey_eqb k (c_rules c') = lookup rkey_eqb k (c_rules c)) /\
              (forall k, att_feat k <> f -> lookup atkey_eqb k (c_atts c') = lookup atkey_eqb k (c_atts c)) /\
              feat_static c' f (mk_fq None st items') /\ fq_init (mk_fq None st items') = None /\
              items_open c' f (fq_items (mk_fq None st items')) /\
              (forall f', lookup N.eqb f' (c_feats c') = Some Open -> f' = f)).
  { intros st _ _. exists c2. split; [rewrite map_app; eapply crun_app_intro; [exact R0|exact R2]|]. split; [exact SF2|].
    split; [exact W2|]. split; [exact LF2|]. split; [exact LRc|]. split; [exact LAc|]. cbn [fq_init fq_items].
    split; [|split; [reflexivity|split; [exact OP2|exact OF2]]].
    constructor; cbn [fq_init fq_items]; [exact IT2|intros X; contradiction|intros _; exact FO2]. }
  destruct (fq_state q) as [|m|] eqn:FS; cbn [take_fin fst snd].
  - exact (STAY NotFinished eq_refl eq_refl).
  - (* finished: every item has been emitted, Feature::Finished follows *)
    cbn [fin_pending negb orb] in DONE. rewrite (ALLDONE DONE) in *.
    destruct OP2 as [OA2 OR2].
    assert (NOA : forall k', lookup atkey_eqb k' (c_atts c2) <> Some Open).
    { intros k' L. destruct (OA2 k' L) as [(k & es & [] & _)|(r & rq & k & es & [] & _)]. }
    assert (NOR : forall k', lookup rkey_eqb k' (c_rules c2) <> Some Open).
    { intros k' L. destruct (OR2 k' L) as (r & rq & [] & _). }
    set (c3 := set_cfeats c2 (setk N.eqb f Closed (c_feats c2))).
    exists c3. split.
    { rewrite !map_app. eapply crun_app_intro; [exact R0|]. eapply crun_app_intro; [exact R2|].
      cbn [map snd crun]. unfold cstep. destruct SF2 as (X & _). rewrite X, CF, FO2.
      rewrite (open_rules_all_false c2 f (proj1 (proj2 W2)) NOR).
      rewrite (open_atts_none_any c2 _ (open_atts_all_false c2 (proj2 (proj2 W2)) NOA)). reflexivity. }
    split; [destruct SF2 as (A & B & C); repeat split; cbn [c3 set_cfeats c_finished c_started c_pf]; assumption|].
    split.
    { destruct W2 as (A & B & C). split; [|split; assumption]. cbn [c3 set_cfeats c_feats]. apply (nodupk_setk N.eqb N.eqb_eq). exact A. }
    cbn [c3 set_cfeats c_feats c_rules c_atts].
    split; [intros f' NE; rewrite (lookup_setk_other N.eqb N.eqb_eq) by exact NE; exact (LF2 f' NE)|].
    split; [exact LRc|]. split; [exact LAc|].
    split; [apply (lookup_setk_same N.eqb N.eqb_eq)|]. split; [|split; [exact NOR|exact NOA]].
    intros f' L. destruct (N.eq_dec f' f) as [->|NE].
    + rewrite (lookup_setk_same N.eqb N.eqb_eq) in L. discriminate.
    + rewrite (lookup_setk_other N.eqb N.eqb_eq) in L by exact NE. exact (NE (OF2 f' L)).
  - exact (STAY FinEmitted eq_refl eq_refl).
Qed.

(* level F: the emission loop over the features *)
Lemma seq_feats : forall l c,
  feats_static c l -> feats_open c l -> WFc c -> c_finished c = false -> (l <> [] -> c_started c = true) ->
  exists c', crun true c (map snd (fst (emit_feats l))) = Some c' /\ same_flags c c' /\ WFc c' /\
    feats_static c' (snd (emit_feats l)) /\ feats_open c' (snd (emit_feats l)).
Proof.
  induction l as [|[f q] t IH]; intros c ST OP W CF CS.
  - exists c. cbn [emit_feats fst snd map crun]. split; [reflexivity|]. split; [apply same_flags_refl|]. auto.
  - pose proof ST as [ND WF FT TL]. cbn [tl] in TL.
    unfold feats_wf in WF. cbn [forallb snd] in WF. apply andb_prop in WF as [W1 W2].
    inversion ND as [|? ? NI ND']; subst.
    destruct OP as (OF & OR & OA).
    assert (OF' : forall f', lookup N.eqb f' (c_feats c) = Some Open -> f' = f /\ fq_init q = None).
    { intros f' L. destruct (OF f' L) as (q' & [H|H] & IN); [inversion H; subst; auto|].
      exfalso. destruct (TL f' q' H) as [X _]. exact (X IN). }
    assert (OPI : items_open c f (fq_items q)).
    { split.
      - intros k' L. destruct (OA k' L) as (f' & q' & [H|H] & WI); [inversion H; subst; exact WI|].
        exfalso. exact (pr_items_no_witA _ _ _ (proj2 (TL f' q' H)) WI).
      - intros k' L. destruct (OR k' L) as (f' & q' & [H|H] & WI); [inversion H; subst; exact WI|].
        exfalso. exact (pr_items_no_witR _ _ _ (proj2 (TL f' q' H)) WI). }
    assert (CS1 : c_started c = true) by (apply CS; discriminate).
    destruct (seq_feat f q c (FT f q (or_introl eq_refl)) W1 OF' OPI W CF CS1) as (c1 & R1 & SF1 & Wc1 & LF1 & LR1 & LA1 & RES).
    pose proof (emit_feat_wf f q W1) as EFW.
    cbn [emit_feats]. destruct (emit_feat f q) as [[o q'] b] eqn:EF. cbn [fst snd] in *.
    assert (NF : forall f2 q2, In (f2, q2) t -> f2 <> f).
    { intros f2 q2 H ->. apply NI. exact (in_keys _ _ _ H). }
    assert (AGREE : forall f2 q2, In (f2, q2) t -> feat_static c1 f2 q2).
    { intros f2 q2 H. pose proof (NF f2 q2 H) as NE. apply (feat_static_agree c c1 f2 q2).
      - exact (LF1 f2 NE).
      - intros k E. apply LR1. rewrite E. exact NE.
      - intros k E. apply LA1. rewrite E. exact NE.
      - apply FT. right. exact H. }
    assert (CF1 : c_finished c1 = false) by (destruct SF1 as (X & _); congruence).
    assert (CS2 : c_started c1 = true) by (destruct SF1 as (_ & X & _); congruence).
    destruct b.
    + destruct RES as (_ & NOF & NOR & NOA).
      assert (ST1 : feats_static c1 t).
      { constructor; [exact ND'|exact W2|exact AGREE|]. intros f2 q2 H. apply (TL f2 q2). exact (in_tl _ _ H). }
      assert (OP1 : feats_open c1 t).
      { split; [|split]; intros k' L; exfalso; [exact (NOF k' L)|exact (NOR k' L)|exact (NOA k' L)]. }
      destruct (IH c1 ST1 OP1 Wc1 CF1 (fun _ => CS2)) as (c' & R' & SF' & W' & ST' & OP').
      destruct (emit_feats t) as [o2 l2]. cbn [fst snd] in *.
      exists c'. split; [rewrite map_app; eapply crun_app_intro; [exact R1|exact R']|].
      split; [exact (same_flags_trans _ _ _ SF1 SF')|]. auto.
    + cbn [fst snd]. destruct RES as (FS' & FI' & OP' & OF1). destruct EFW as (_ & _ & FW' & _).
      exists c1. split; [exact R1|]. split; [exact SF1|]. split; [exact Wc1|]. split.
      * constructor.
        -- exact ND.
        -- unfold feats_wf. cbn [forallb snd]. rewrite FW'. exact W2.
        -- intros f2 q2 [H|H]; [inversion H; subst; exact FS'|exact (AGREE f2 q2 H)].
        -- exact TL.
      * destruct OP' as [OA' OR']. split; [|split].
        -- intros f' L. rewrite (OF1 f' L). exists q'. split; [left; reflexivity|exact FI'].
        -- intros k' L. exists f, q'. split; [left; reflexivity|exact (OR' k' L)].
        -- intros k' L. exists f, q'. split; [left; reflexivity|exact (OA' k' L)].
Qed.
