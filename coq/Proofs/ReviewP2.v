(* ReviewP2.v — three statement gaps found by a review.
   A. C11 head-liveness in OBSERVABLE form (about the output produced so far, not about the model's own flush).
   B. C02 outcome -> event mapping of one attempt.
   C. C09 World instances in the callback log, and callbacks vs events. *)
From CV Require Import Proofs.SchedP5.
From CV Require Import Model.Base Model.Events Model.Contract Model.Normalize
  Proofs.BaseP Proofs.NormalizeP Proofs.NormalizeP2 Proofs.NormalizeP3 Proofs.NormalizeP4 Proofs.NormalizeP4b
  Proofs.NormalizeP4c Proofs.NormalizeP4d Proofs.NormalizeP4e Proofs.NormalizeP4f Proofs.NormalizeP4g Proofs.NormalizeP4h
  Proofs.NormalizeP6 Proofs.NormalizeP7.
From CV Require Model.Attempt Model.AttemptSpec Proofs.AttemptP Proofs.AttemptP2.
From Coq Require Import Lia Permutation.


(* ---------- decidable equality of events, reflected ---------- *)
Lemma errk_eqb_spec a b : errk_eqb a b = true <-> a = b.
Proof.
  destruct a, b; cbn; try (split; [discriminate|discriminate]); try (split; reflexivity).
  rewrite N.eqb_eq. split; [intros ->; reflexivity|intros X; inversion X; reflexivity].
Qed.
Lemma stepev_eqb_spec a b : stepev_eqb a b = true <-> a = b.
Proof.
  destruct a, b; cbn; try (split; [discriminate|discriminate]); try (split; reflexivity).
  rewrite errk_eqb_spec. split; [intros ->; reflexivity|intros X; inversion X; reflexivity].
Qed.
Lemma hookev_eqb_spec a b : hookev_eqb a b = true <-> a = b.
Proof.
  destruct a, b; cbn; try (split; [discriminate|discriminate]); try (split; reflexivity).
  rewrite N.eqb_eq. split; [intros ->; reflexivity|intros X; inversion X; reflexivity].
Qed.
Lemma scev_eqb_spec a b : scev_eqb a b = true <-> a = b.
Proof.
  destruct a, b; cbn; try (split; [discriminate|discriminate]); try (split; reflexivity).
  - rewrite andb_true_iff, hookev_eqb_spec. split.
    + intros [X ->]. apply Bool.eqb_prop in X. subst. reflexivity.
    + intros X; inversion X; subst. split; [apply Bool.eqb_reflx|reflexivity].
  - rewrite andb_true_iff, N.eqb_eq, stepev_eqb_spec. split; [intros [-> ->]; reflexivity|intros X; inversion X; auto].
  - rewrite andb_true_iff, N.eqb_eq, stepev_eqb_spec. split; [intros [-> ->]; reflexivity|intros X; inversion X; auto].
  - rewrite N.eqb_eq. split; [intros ->; reflexivity|intros X; inversion X; reflexivity].
Qed.
Lemma ev_eqb_spec a b : ev_eqb a b = true <-> a = b.
Proof.
  destruct a, b; cbn; try (split; [discriminate|discriminate]); try (split; reflexivity).
  - rewrite !andb_true_iff, !N.eqb_eq. split; [intros [[[[-> ->] ->] ->] ->]; reflexivity|intros X; inversion X; auto 10].
  - rewrite N.eqb_eq. split; [intros ->; reflexivity|intros X; inversion X; reflexivity].
  - rewrite N.eqb_eq. split; [intros ->; reflexivity|intros X; inversion X; reflexivity].
  - rewrite N.eqb_eq. split; [intros ->; reflexivity|intros X; inversion X; reflexivity].
  - rewrite andb_true_iff, !N.eqb_eq. split; [intros [-> ->]; reflexivity|intros X; inversion X; auto].
  - rewrite andb_true_iff, !N.eqb_eq. split; [intros [-> ->]; reflexivity|intros X; inversion X; auto].
  - rewrite !andb_true_iff, !N.eqb_eq, optN_eqb_spec, retr_eqb_spec, scev_eqb_spec.
    split; [intros [[[[-> ->] ->] ->] ->]; reflexivity|intros X; inversion X; auto 10].
Qed.
Lemma mev_eqb_spec a b : mev_eqb a b = true <-> a = b.
Proof. unfold mev_eqb. apply pair_eqb_spec; [apply N.eqb_eq|apply ev_eqb_spec]. Qed.

(* ====================================================================================================== *)
(* PART A — C11: the head of the output is never held back (observable form)                               *)
(* ====================================================================================================== *)
Module RA.

(* ---------- the observable vocabulary: what has started (in the input), what has been closed (in the output) ---------- *)
(* `emitted out e`: the inner writer has already been handed the event `e` (under any metadata tag) *)
Definition emitted (out : list mev) (e : ev) : bool := existsb (fun x => ev_eqb (snd x) e) out.

(* features, in the order of their Feature::Started in the input *)
Definition feat_start (e : ev) : list N := match e with EvFeatS f => [f] | _ => [] end.
Definition feat_starts (es : list mev) : list N := flat_map (fun x => feat_start (snd x)) es.

(* the items of feature f (rules and top-level scenario attempts), in the order of their Started in the input *)
Definition item_start (f : N) (e : ev) : list ikey :=
  match e with
  | EvRuleS f' r => if f' =? f then [KRule r] else []
  | EvScen f' None sc rt ScStarted => if f' =? f then [KScen (sc, rt)] else []
  | _ => []
  end.
Definition item_starts (f : N) (es : list mev) : list ikey := flat_map (fun x => item_start f (snd x)) es.
Definition item_fin (f : N) (k : ikey) : ev :=
  match k with KRule r => EvRuleF f r | KScen a => EvScen f None (fst a) (snd a) ScFinished end.

(* the scenario attempts of rule r of feature f, in the order of their Started in the input *)
Definition att_start (f r : N) (e : ev) : list akey :=
  match e with
  | EvScen f' (Some r') sc rt ScStarted => if (f' =? f) && (r' =? r) then [(sc, rt)] else []
  | _ => []
  end.
Definition att_starts (f r : N) (es : list mev) : list akey := flat_map (fun x => att_start f r (snd x)) es.
Definition att_fin (f r : N) (a : akey) : ev := EvScen f (Some r) (fst a) (snd a) ScFinished.

(* THE HEAD: the first started feature whose Finished has not been emitted; inside it the first started item (rule /
   top-level attempt) whose Finished has not been emitted; inside a head rule the first started attempt whose Finished has
   not been emitted.  All three are computed from the input prefix and the output produced so far only. *)
Definition head_feat (es out : list mev) : option N :=
  find (fun f => negb (emitted out (EvFeatF f))) (feat_starts es).
Definition head_item (f : N) (es out : list mev) : option ikey :=
  find (fun k => negb (emitted out (item_fin f k))) (item_starts f es).
Definition head_ratt (f r : N) (es out : list mev) : option akey :=
  find (fun a => negb (emitted out (att_fin f r a))) (att_starts f r es).
Definition head_attempt (es out : list mev) : option atkey :=
  match head_feat es out with
  | Some f =>
    match head_item f es out with
    | Some (KScen a) => Some (f, None, fst a, snd a)
    | Some (KRule r) =>
      match head_ratt f r es out with Some a => Some (f, Some r, fst a, snd a) | None => None end
    | None => None
    end
  | None => None
  end.

Lemma emitted_in out e : emitted out e = true <-> exists m, In (m, e) out.
Proof.
  unfold emitted. rewrite existsb_exists. split.
  - intros ([m e'] & Hin & E). apply ev_eqb_spec in E. cbn in E. subst. eauto.
  - intros (m & Hin). exists (m, e). split; [exact Hin|apply ev_eqb_spec; reflexivity].
Qed.
Lemma emitted_false out e : emitted out e = false <-> forall m, ~ In (m, e) out.
Proof.
  split.
  - intros E m Hin. assert (X : emitted out e = true) by (apply emitted_in; eauto). congruence.
  - intros H. destruct (emitted out e) eqn:E; [|reflexivity]. apply emitted_in in E as (m & Hin). destruct (H m Hin).
Qed.

Lemma in_feat_starts f es : In f (feat_starts es) <-> In (EvFeatS f) (map snd es).
Proof.
  unfold feat_starts. rewrite in_flat_map, in_map_iff. split.
  - intros ([m e] & Hin & H). exists (m, e). split; [|exact Hin]. cbn [snd] in *. destruct e; cbn in H; try contradiction. destruct H as [<-|[]]. reflexivity.
  - intros ([m e] & E & Hin). exists (m, e). split; [exact Hin|]. cbn [snd] in *. subst e. left. reflexivity.
Qed.
Lemma in_item_starts f k es : In k (item_starts f es) ->
  match k with
  | KRule r => In (EvRuleS f r) (map snd es)
  | KScen a => In (EvScen f None (fst a) (snd a) ScStarted) (map snd es)
  end.
Proof.
  unfold item_starts. rewrite in_flat_map. intros ([m e] & Hin & H). cbn [snd] in H.
  destruct e as [| | | |g|g|g r|g r|g [r|] sc rt x]; cbn in H; try destruct H.
  - destruct (g =? f) eqn:E; [|destruct H]. apply N.eqb_eq in E. subst g. destruct H as [<-|[]].
    apply in_map_iff. exists (m, EvRuleS f r). auto.
  - destruct x; try destruct H. destruct (g =? f) eqn:E; [|destruct H]. apply N.eqb_eq in E. subst g. destruct H as [<-|[]].
    apply in_map_iff. exists (m, EvScen f None sc rt ScStarted). auto.
Qed.
Lemma in_att_starts f r a es : In a (att_starts f r es) -> In (EvScen f (Some r) (fst a) (snd a) ScStarted) (map snd es).
Proof.
  unfold att_starts. rewrite in_flat_map. intros ([m e] & Hin & H). cbn [snd] in H.
  destruct e as [| | | |g|g|g r'|g r'|g [r'|] sc rt x]; cbn in H; try destruct H.
  destruct x; try destruct H. destruct ((g =? f) && (r' =? r)) eqn:E; [|destruct H]. apply andb_prop in E as [E1 E2].
  apply N.eqb_eq in E1, E2. subst g r'. destruct H as [<-|[]].
  apply in_map_iff. exists (m, EvScen f (Some r) sc rt ScStarted). auto.
Qed.

(* ---------- what is buffered, event by event ---------- *)
Lemma in_init_evs' x i e : In x (init_evs i e) <-> i = Some (fst x) /\ snd x = e.
Proof.
  destruct i as [m|]; cbn; [|split; [intros []|intros [X _]; discriminate]].
  split; [intros [<-|[]]; auto|]. intros [X <-]. inversion X. left. destruct x; reflexivity.
Qed.
Lemma in_fin_evs' x st e : In x (fin_evs st e) <-> st = FinNotEmitted (fst x) /\ snd x = e.
Proof.
  destruct st as [|m|]; cbn; try (split; [intros []|intros [X _]; discriminate]).
  split; [intros [<-|[]]; auto|]. intros [X <-]. inversion X. left. destruct x; reflexivity.
Qed.

Definition in_atts (f : N) (ro : option N) (atts : list (akey * list aev)) (x : mev) : Prop :=
  exists a evs y, In (a, evs) atts /\ In y evs /\ x = mk_scen f ro a y.
Definition in_item (f : N) (ki : ikey * item) (x : mev) : Prop :=
  match ki with
  | (KScen a, IScen evs) => exists y, In y evs /\ x = mk_scen f None a y
  | (KRule r, IRule rq) =>
    (rq_init rq = Some (fst x) /\ snd x = EvRuleS f r) \/ (rq_state rq = FinNotEmitted (fst x) /\ snd x = EvRuleF f r) \/
    in_atts f (Some r) (rq_atts rq) x
  | _ => False
  end.
Definition in_feat (f : N) (q : fqueue) (x : mev) : Prop :=
  (fq_init q = Some (fst x) /\ snd x = EvFeatS f) \/ (fq_state q = FinNotEmitted (fst x) /\ snd x = EvFeatF f) \/
  exists ki, In ki (fq_items q) /\ in_item f ki x.

Lemma in_item_evs f ki x : In x (item_evs f ki) <-> in_item f ki x.
Proof.
  destruct ki as [[r|a] [rq|evs]]; cbn [item_evs in_item]; try tauto.
  - rewrite !in_app_iff, in_init_evs', in_fin_evs', in_flat_map. unfold in_atts, att_evs.
    split.
    + intros [H|[([a evs] & Hin & H)|H]]; auto. right. right. cbn [fst snd] in H. apply in_map_iff in H as (y & <- & Hy). eauto 6.
    + intros [H|[H|(a & evs & y & Hin & Hy & ->)]]; auto. right. left. exists (a, evs). split; [exact Hin|]. cbn [fst snd].
      apply in_map. exact Hy.
  - unfold att_evs. cbn [fst snd]. rewrite in_map_iff. split; [intros (y & <- & Hy); eauto|intros (y & Hy & ->); eauto].
Qed.
Lemma in_feat_evs f q x : In x (feat_evs (f, q)) <-> in_feat f q x.
Proof.
  unfold feat_evs, in_feat. cbn [fst snd]. rewrite !in_app_iff, in_init_evs', in_fin_evs', in_flat_map.
  split.
  - intros [H|[(ki & Hin & H)|H]]; auto. right. right. exists ki. split; [exact Hin|]. apply in_item_evs. exact H.
  - intros [H|[H|(ki & Hin & H)]]; auto. right. left. exists ki. split; [exact Hin|]. apply in_item_evs. exact H.
Qed.
Lemma in_feats_evs l x : In x (feats_evs l) <-> exists f q, In (f, q) l /\ in_feat f q x.
Proof.
  unfold feats_evs. rewrite in_flat_map. split.
  - intros ([f q] & Hin & H). exists f, q. split; [exact Hin|]. apply in_feat_evs. exact H.
  - intros (f & q & Hin & H). exists (f, q). split; [exact Hin|]. apply in_feat_evs. exact H.
Qed.

(* ---------- what the four nested emission loops leave behind (structurally) ---------- *)
(* a prefix of finished entries is dropped; the first unfinished entry stays at the head, drained *)
Lemma emit_atts_drop f r l : atts_wf l = true ->
  exists d, Forall (fun ka => has_fin (snd ka) = true) d /\
    ((l = d /\ snd (emit_atts f r l) = []) \/
     exists k evs t, l = d ++ (k, evs) :: t /\ has_fin evs = false /\ snd (emit_atts f r l) = (k, []) :: t).
Proof.
  induction l as [|[k evs] t IH]; intros W; cbn [emit_atts].
  - exists []. split; [constructor|left; auto].
  - unfold atts_wf in W. cbn [forallb snd] in W. apply andb_prop in W as [W1 W2].
    rewrite (emit_att_wf f (Some r) k evs W1). destruct (has_fin evs) eqn:HF.
    + destruct (IH W2) as (d & FD & X). destruct (emit_atts f r t) as [o2 l2]. cbn [snd] in *.
      exists ((k, evs) :: d). split; [constructor; [exact HF|exact FD]|].
      destruct X as [(-> & ->)|(k' & evs' & t' & -> & HF' & ->)]; [left; auto|].
      right. exists k', evs', t'. auto.
    + exists []. split; [constructor|]. right. exists k, evs, t. auto.
Qed.

Lemma emit_rule_parts f r rq :
  emit_rule f r rq =
  (fst (fst (emit_rule f r rq)), mk_rq None (snd (take_fin (rq_state rq))) (snd (emit_atts f r (rq_atts rq))),
   fin_pending (rq_state rq)).
Proof.
  unfold emit_rule. destruct (emit_atts f r (rq_atts rq)) as [o2 atts]. destruct (rq_state rq); reflexivity.
Qed.

Definition item_drained (f : N) (k : ikey) (it it' : item) : Prop :=
  match k, it with
  | KScen _, IScen _ => it' = IScen []
  | KRule r, IRule rq => fin_pending (rq_state rq) = false /\
                         it' = IRule (mk_rq None (rq_state rq) (snd (emit_atts f r (rq_atts rq))))
  | _, _ => False
  end.

Lemma emit_items_drop f l : items_wf l = true ->
  exists d, Forall (fun ki => item_done ki = true) d /\
    ((l = d /\ snd (emit_items f l) = []) \/
     exists k it it' t, l = d ++ (k, it) :: t /\ item_done (k, it) = false /\ snd (emit_items f l) = (k, it') :: t /\
                        item_drained f k it it').
Proof.
  induction l as [|[k it] t IH]; intros W; cbn [emit_items].
  - exists []. split; [constructor|left; auto].
  - unfold items_wf in W. cbn [forallb] in W. apply andb_prop in W as [W1 W2]. specialize (IH W2).
    destruct k as [r|a]; destruct it as [rq|evs]; cbn [item_wf] in W1; try discriminate.
    + rewrite (emit_rule_parts f r rq). destruct (fin_pending (rq_state rq)) eqn:FP.
      * destruct IH as (d & FD & X). destruct (emit_items f t) as [o2 l2]. cbn [snd] in *.
        exists ((KRule r, IRule rq) :: d). split; [constructor; [exact FP|exact FD]|].
        destruct X as [(-> & ->)|(k' & it0 & it' & t' & -> & ND & -> & DR)]; [left; auto|].
        right. exists k', it0, it', t'. auto.
      * exists []. split; [constructor|]. right.
        exists (KRule r), (IRule rq), (IRule (mk_rq None (rq_state rq) (snd (emit_atts f r (rq_atts rq))))), t.
        cbn [snd app item_done item_drained]. split; [reflexivity|]. split; [exact FP|]. split; [|auto].
        destruct (rq_state rq); try discriminate FP; reflexivity.
    + rewrite (emit_att_wf f None a evs W1). destruct (has_fin evs) eqn:HF.
      * destruct IH as (d & FD & X). destruct (emit_items f t) as [o2 l2]. cbn [snd] in *.
        exists ((KScen a, IScen evs) :: d). split; [constructor; [exact HF|exact FD]|].
        destruct X as [(-> & ->)|(k' & it0 & it' & t' & -> & ND & -> & DR)]; [left; auto|].
        right. exists k', it0, it', t'. auto.
      * exists []. split; [constructor|]. right. exists (KScen a), (IScen evs), (IScen []), t.
        cbn [snd app item_done item_drained]. auto.
Qed.

Lemma emit_feat_parts f q :
  emit_feat f q =
  (fst (fst (emit_feat f q)), mk_fq None (snd (take_fin (fq_state q))) (snd (emit_items f (fq_items q))),
   fin_pending (fq_state q)).
Proof.
  unfold emit_feat. destruct (emit_items f (fq_items q)) as [o2 items]. destruct (fq_state q); reflexivity.
Qed.

Lemma emit_feats_drop l :
  exists d, Forall (fun fq => fin_pending (fq_state (snd fq)) = true) d /\
    ((l = d /\ snd (emit_feats l) = []) \/
     exists f q t, l = d ++ (f, q) :: t /\ fin_pending (fq_state q) = false /\
                   snd (emit_feats l) = (f, mk_fq None (fq_state q) (snd (emit_items f (fq_items q)))) :: t).
Proof.
  induction l as [|[f q] t IH]; cbn [emit_feats].
  - exists []. split; [constructor|left; auto].
  - rewrite (emit_feat_parts f q). destruct (fin_pending (fq_state q)) eqn:FP.
    + destruct IH as (d & FD & X). destruct (emit_feats t) as [o2 l2]. cbn [snd] in *.
      exists ((f, q) :: d). split; [constructor; [exact FP|exact FD]|].
      destruct X as [(-> & ->)|(f' & q' & t' & -> & ND & ->)]; [left; auto|].
      right. exists f', q', t'. auto.
    + exists []. split; [constructor|]. right. exists f, q, t. cbn [snd app]. split; [reflexivity|]. split; [exact FP|].
      destruct (fq_state q); try discriminate FP; reflexivity.
Qed.

(* ---------- the ORDER invariant: a queue holds the entities started in the input, minus a finished prefix ---------- *)
Definition split_ok {K} (starts ks : list K) (fin : K -> Prop) : Prop :=
  exists D, starts = D ++ ks /\ forall k, In k D -> fin k /\ ~ In k ks.

Lemma nodup_app_l {A} (a b : list A) : NoDup (a ++ b) -> NoDup a.
Proof. induction a as [|x a IH]; cbn; intros H; [constructor|]. inversion H; subst. constructor; [rewrite in_app_iff in *; tauto|auto]. Qed.
Lemma nodup_app_r {A} (a b : list A) : NoDup (a ++ b) -> NoDup b.
Proof. induction a as [|x a IH]; cbn; intros H; [exact H|]. inversion H; subst. auto. Qed.
Lemma nodup_app_disj {A} (a b : list A) x : NoDup (a ++ b) -> In x a -> ~ In x b.
Proof.
  induction a as [|y a IH]; cbn; intros H Hx Hb; [destruct Hx|]. destruct Hx as [->|Hx].
  - inversion H; subst. rewrite in_app_iff in *. tauto.
  - inversion H; subst. exact (IH H3 Hx Hb).
Qed.

Lemma split_ok_drop {K} (S kd ks : list K) (fin : K -> Prop) :
  split_ok S (kd ++ ks) fin -> (forall k, In k kd -> fin k) -> NoDup (kd ++ ks) -> split_ok S ks fin.
Proof.
  intros (D & E & HD) FK ND. exists (D ++ kd). split; [rewrite E, app_assoc; reflexivity|].
  intros k Hk. apply in_app_or in Hk as [Hk|Hk].
  - destruct (HD k Hk) as [F NI]. split; [exact F|]. intros X. apply NI. apply in_or_app. right. exact X.
  - split; [exact (FK k Hk)|]. exact (nodup_app_disj kd ks k ND Hk).
Qed.
Lemma split_ok_snoc {K} (S ks : list K) (fin : K -> Prop) k :
  split_ok S ks fin -> ~ In k S -> split_ok (S ++ [k]) (ks ++ [k]) fin.
Proof.
  intros (D & E & HD) NI. exists D. split; [rewrite E, app_assoc; reflexivity|].
  intros k' Hk. destruct (HD k' Hk) as [F NK]. split; [exact F|]. intros X. apply in_app_or in X as [X|[<-|[]]]; [exact (NK X)|].
  apply NI. rewrite E. apply in_or_app. left. exact Hk.
Qed.
Lemma split_ok_mono {K} (S ks : list K) (fin fin' : K -> Prop) :
  (forall k, fin k -> fin' k) -> split_ok S ks fin -> split_ok S ks fin'.
Proof. intros M (D & E & HD). exists D. split; [exact E|]. intros k Hk. destruct (HD k Hk). auto. Qed.

Definition fin1 (es : list mev) (f : N) : Prop := In (EvFeatF f) (map snd es).
Definition fin2 (es : list mev) (f : N) (k : ikey) : Prop := In (item_fin f k) (map snd es).
Definition fin3 (es : list mev) (f r : N) (a : akey) : Prop := In (att_fin f r a) (map snd es).

Definition ord_rule (es : list mev) (f r : N) (rq : rqueue) : Prop :=
  NoDup (keys (rq_atts rq)) /\ split_ok (att_starts f r es) (keys (rq_atts rq)) (fin3 es f r).
Definition ord_feat (es : list mev) (f : N) (q : fqueue) : Prop :=
  NoDup (keys (fq_items q)) /\ split_ok (item_starts f es) (keys (fq_items q)) (fin2 es f) /\
  forall r rq, In (KRule r, IRule rq) (fq_items q) -> ord_rule es f r rq.
Definition ord (es : list mev) (l : list (N * fqueue)) : Prop :=
  NoDup (keys l) /\ split_ok (feat_starts es) (keys l) (fin1 es) /\ forall f q, In (f, q) l -> ord_feat es f q.

(* ---------- AT REST: the head of each level has nothing buffered ---------- *)
Definition rest_atts (l : list (akey * list aev)) : Prop := match l with (_, evs) :: _ => evs = [] | [] => True end.
Definition rest_items (l : list (ikey * item)) : Prop :=
  match l with
  | [] => True
  | (KScen _, IScen evs) :: _ => evs = []
  | (KRule _, IRule rq) :: _ => rq_init rq = None /\ fin_pending (rq_state rq) = false /\ rest_atts (rq_atts rq)
  | _ => False
  end.
Definition rest_feats (l : list (N * fqueue)) : Prop :=
  match l with [] => True | (f, q) :: _ => fq_init q = None /\ fin_pending (fq_state q) = false /\ rest_items (fq_items q) end.

Lemma keys_app {K V} (a b : list (K * V)) : keys (a ++ b) = keys a ++ keys b.
Proof. unfold keys. apply map_app. Qed.

Lemma has_fin_event f ro a evs : has_fin evs = true ->
  exists y, In y evs /\ mk_scen f ro a y = (fst y, EvScen f ro (fst a) (snd a) ScFinished).
Proof.
  unfold has_fin. rewrite existsb_exists. intros (y & Hy & F). exists y. split; [exact Hy|].
  unfold mk_scen. destruct (snd y); try discriminate F. reflexivity.
Qed.

(* level 3 *)
Lemma ord_emit_atts f r (S : list akey) (fin : akey -> Prop) atts :
  atts_wf atts = true -> NoDup (keys atts) -> split_ok S (keys atts) fin ->
  (forall a evs, In (a, evs) atts -> has_fin evs = true -> fin a) ->
  let atts' := snd (emit_atts f r atts) in
  NoDup (keys atts') /\ split_ok S (keys atts') fin /\ rest_atts atts'.
Proof.
  intros W ND SP FK. destruct (emit_atts_drop f r atts W) as (d & FD & X). cbn zeta.
  assert (FD' : forall k, In k (keys d) -> (forall t, atts = d ++ t -> fin k)).
  { intros k Hk t E. apply in_map_iff in Hk as ([a evs] & <- & Hin). cbn [fst].
    apply (FK a evs); [rewrite E; apply in_or_app; left; exact Hin|].
    rewrite Forall_forall in FD. exact (FD _ Hin). }
  destruct X as [(E & ->)|(k & evs & t & E & HF & ->)].
  - split; [constructor|]. split; [|exact I]. cbn [keys map].
    apply (split_ok_drop S (keys d) [] fin); rewrite ?app_nil_r; [rewrite <- E; exact SP| |rewrite <- E; exact ND].
    intros k0 Hk. apply (FD' k0 Hk []). rewrite app_nil_r. exact E.
  - rewrite E, keys_app in ND, SP. cbn [keys map fst] in *. split; [exact (nodup_app_r _ _ ND)|]. split; [|reflexivity].
    apply (split_ok_drop S (keys d) _ fin SP); [|exact ND]. intros k0 Hk. exact (FD' k0 Hk _ E).
Qed.

(* level 2 *)
Lemma ord_emit_items es f q st :
  items_wf (fq_items q) = true -> ord_feat es f q -> (forall x, in_feat f q x -> In x es) ->
  let items' := snd (emit_items f (fq_items q)) in
  ord_feat es f (mk_fq None st items') /\ rest_items items'.
Proof.
  intros W (ND & SP & RL) SUB. destruct (emit_items_drop f (fq_items q) W) as (d & FD & X). cbn zeta.
  assert (INI : forall ki x, In ki (fq_items q) -> in_item f ki x -> In (snd x) (map snd es)).
  { intros ki x Hin H. apply in_map. apply SUB. right. right. exists ki. auto. }
  assert (DONE : forall k it, In (k, it) (fq_items q) -> item_done (k, it) = true -> fin2 es f k).
  { intros k it Hin DN. unfold fin2. destruct k as [r|a]; destruct it as [rq|evs]; cbn [item_done] in DN; try discriminate DN.
    - destruct (rq_state rq) as [|m|] eqn:RS; try discriminate DN.
      apply (INI _ (m, EvRuleF f r) Hin). cbn [in_item fst snd]. right. left. auto.
    - destruct (has_fin_event f None a evs DN) as (y & Hy & E).
      assert (X0 := INI _ (mk_scen f None a y) Hin). cbn [in_item] in X0. rewrite E in X0. cbn [snd] in X0.
      apply X0. exists y. auto. }
  assert (FD' : forall k, In k (keys d) -> (forall t, fq_items q = d ++ t -> fin2 es f k)).
  { intros k Hk t E. apply in_map_iff in Hk as ([k0 it] & <- & Hin). cbn [fst].
    apply (DONE k0 it); [rewrite E; apply in_or_app; left; exact Hin|].
    rewrite Forall_forall in FD. exact (FD _ Hin). }
  destruct X as [(E & ->)|(k & it & it' & t & E & NDN & -> & DR)].
  - split; [|exact I]. unfold ord_feat. cbn [fq_items keys map]. split; [constructor|]. split; [|intros r rq []].
    apply (split_ok_drop _ (keys d) [] _); rewrite ?app_nil_r; [rewrite <- E; exact SP| |rewrite <- E; exact ND].
    intros k0 Hk. apply (FD' k0 Hk []). rewrite app_nil_r. exact E.
  - assert (HIN : In (k, it) (fq_items q)) by (rewrite E; apply in_or_app; right; left; reflexivity).
    assert (KS : keys (fq_items q) = keys d ++ k :: keys t) by (rewrite E, keys_app; reflexivity).
    rewrite KS in ND, SP.
    assert (SP' : split_ok (item_starts f es) (k :: keys t) (fin2 es f)).
    { apply (split_ok_drop _ (keys d) _ _ SP); [|exact ND]. intros k0 Hk. exact (FD' k0 Hk _ E). }
    destruct k as [r|a]; destruct it as [rq|evs]; cbn [item_drained] in DR; try contradiction.
    + (* the head item is a rule *)
      destruct DR as [FP ->]. destruct (RL r rq HIN) as (NDA & SPA).
      assert (WA : atts_wf (rq_atts rq) = true).
      { unfold items_wf in W. pose proof (forallb_in _ _ _ W HIN) as X0. cbn [item_wf] in X0. unfold rule_wf in X0.
        apply andb_prop in X0 as [X0 _]. exact X0. }
      destruct (ord_emit_atts f r (att_starts f r es) (fin3 es f r) (rq_atts rq) WA NDA SPA) as (NDA' & SPA' & RA').
      { intros a evs Hin HF. destruct (has_fin_event f (Some r) a evs HF) as (y & Hy & Ey).
        assert (X0 := INI _ (mk_scen f (Some r) a y) HIN). cbn [in_item] in X0. rewrite Ey in X0. cbn [snd] in X0.
        apply X0. right. right. exists a, evs, y. auto. }
      split.
      * unfold ord_feat. cbn [fq_items keys map fst]. split; [exact (nodup_app_r _ _ ND)|]. split; [exact SP'|].
        intros r' rq' [H|H]; [inversion H; subst; split; assumption|].
        apply RL. rewrite E. apply in_or_app. right. right. exact H.
      * cbn [rest_items rq_init rq_state rq_atts]. auto.
    + (* the head item is a top-level attempt *)
      subst it'. split; [|reflexivity].
      unfold ord_feat. cbn [fq_items keys map fst]. split; [exact (nodup_app_r _ _ ND)|]. split; [exact SP'|].
      intros r' rq' [H|H]; [discriminate H|]. apply RL. rewrite E. apply in_or_app. right. right. exact H.
Qed.

(* level 1 *)
Lemma ord_emit es l :
  feats_wf l = true -> ord es l -> (forall x, In x (feats_evs l) -> In x es) ->
  ord es (snd (emit_feats l)) /\ rest_feats (snd (emit_feats l)).
Proof.
  intros W (ND & SP & FT) SUB. destruct (emit_feats_drop l) as (d & FD & X).
  assert (FD' : forall f, In f (keys d) -> (forall t, l = d ++ t -> fin1 es f)).
  { intros f Hf t E. apply in_map_iff in Hf as ([f0 q] & <- & Hin). cbn [fst].
    rewrite Forall_forall in FD. pose proof (FD _ Hin) as FP. cbn [snd] in FP.
    destruct (fq_state q) as [|m|] eqn:FS; try discriminate FP. unfold fin1.
    apply (in_map snd es (m, EvFeatF f0)). apply SUB. apply in_feats_evs. exists f0, q.
    split; [rewrite E; apply in_or_app; left; exact Hin|]. right. left. auto. }
  destruct X as [(E & ->)|(f & q & t & E & FP & ->)].
  - split; [|exact I]. unfold ord. cbn [keys map]. split; [constructor|]. split; [|intros f q []].
    apply (split_ok_drop _ (keys d) [] _); rewrite ?app_nil_r; [rewrite <- E; exact SP| |rewrite <- E; exact ND].
    intros f Hf. apply (FD' f Hf []). rewrite app_nil_r. exact E.
  - assert (HIN : In (f, q) l) by (rewrite E; apply in_or_app; right; left; reflexivity).
    assert (KS : keys l = keys d ++ f :: keys t) by (rewrite E, keys_app; reflexivity).
    rewrite KS in ND, SP.
    assert (WI : items_wf (fq_items q) = true).
    { unfold feats_wf in W. pose proof (forallb_in _ _ _ W HIN) as X0. cbn [snd] in X0. unfold feat_wf in X0.
      apply andb_prop in X0 as [X0 _]. exact X0. }
    destruct (ord_emit_items es f q (fq_state q) WI (FT f q HIN)) as (OF' & RI').
    { intros x Hx. apply SUB. apply in_feats_evs. exists f, q. auto. }
    split.
    + unfold ord. cbn [keys map fst]. split; [exact (nodup_app_r _ _ ND)|]. split.
      * apply (split_ok_drop _ (keys d) _ _ SP); [|exact ND]. intros f0 Hf. exact (FD' f0 Hf _ E).
      * intros f' q' [H|H]; [inversion H; subst; exact OF'|]. apply FT. rewrite E. apply in_or_app. right. right. exact H.
    + cbn [rest_feats fq_init fq_state fq_items]. auto.
Qed.

(* ---------- one more input event: how the vocabulary grows ---------- *)
Lemma feat_starts_snoc es x : feat_starts (es ++ [x]) = feat_starts es ++ feat_start (snd x).
Proof. unfold feat_starts. rewrite flat_map_app. cbn. rewrite app_nil_r. reflexivity. Qed.
Lemma item_starts_snoc f es x : item_starts f (es ++ [x]) = item_starts f es ++ item_start f (snd x).
Proof. unfold item_starts. rewrite flat_map_app. cbn. rewrite app_nil_r. reflexivity. Qed.
Lemma att_starts_snoc f r es x : att_starts f r (es ++ [x]) = att_starts f r es ++ att_start f r (snd x).
Proof. unfold att_starts. rewrite flat_map_app. cbn. rewrite app_nil_r. reflexivity. Qed.

Lemma in_snoc_ev (es : list mev) x e : In e (map snd es) -> In e (map snd (es ++ [x])).
Proof. rewrite map_app. intros H. apply in_or_app. left. exact H. Qed.

Lemma ord_rule_snoc es x f r rq : att_start f r (snd x) = [] -> ord_rule es f r rq -> ord_rule (es ++ [x]) f r rq.
Proof.
  intros E (ND & SP). split; [exact ND|]. rewrite att_starts_snoc, E, app_nil_r.
  eapply split_ok_mono; [|exact SP]. intros k. apply in_snoc_ev.
Qed.
Lemma ord_feat_snoc es x f q :
  item_start f (snd x) = [] -> (forall r, att_start f r (snd x) = []) -> ord_feat es f q -> ord_feat (es ++ [x]) f q.
Proof.
  intros E1 E2 (ND & SP & RL). split; [exact ND|]. split.
  - rewrite item_starts_snoc, E1, app_nil_r. eapply split_ok_mono; [|exact SP]. intros k. apply in_snoc_ev.
  - intros r rq Hin. apply ord_rule_snoc; [apply E2|exact (RL r rq Hin)].
Qed.
Lemma ord_feat_items es f q q' : fq_items q' = fq_items q -> ord_feat es f q -> ord_feat es f q'.
Proof. unfold ord_feat. intros ->. auto. Qed.
Lemma ord_rule_atts es f r rq rq' : rq_atts rq' = rq_atts rq -> ord_rule es f r rq -> ord_rule es f r rq'.
Proof. unfold ord_rule. intros ->. auto. Qed.

(* an event of feature f starts nothing in any other feature *)
Definition ev_of_feat (f : N) (e : ev) : Prop :=
  feat_start e = [] /\ forall f', f' <> f -> item_start f' e = [] /\ forall r, att_start f' r e = [].
Lemma neqb (a b : N) : a <> b -> (a =? b) = false.
Proof. apply N.eqb_neq. Qed.
Lemma ev_of_feat_featF f : ev_of_feat f (EvFeatF f).
Proof. split; [reflexivity|]. intros f' NE. split; reflexivity. Qed.
Lemma ev_of_feat_ruleS f r : ev_of_feat f (EvRuleS f r).
Proof. split; [reflexivity|]. intros f' NE. cbn. rewrite (neqb f f') by congruence. split; reflexivity. Qed.
Lemma ev_of_feat_ruleF f r : ev_of_feat f (EvRuleF f r).
Proof. split; [reflexivity|]. intros f' NE. split; reflexivity. Qed.
Lemma ev_of_feat_scen f ro sc rt x : ev_of_feat f (EvScen f ro sc rt x).
Proof.
  split; [reflexivity|]. intros f' NE. cbn. rewrite (neqb f f') by congruence. cbn [andb].
  destruct ro; destruct x; split; reflexivity.
Qed.

(* ---------- what the contract automaton remembers of the input ---------- *)
Section Trace.
  Variables (ins : list mev) (c_in : cstate).
  Hypothesis RIN : crun false cinit (map snd ins) = Some c_in.

  Lemma tr_featS f : In (EvFeatS f) (map snd ins) -> lookup N.eqb f (c_feats c_in) <> None.
  Proof. exact (crun_key_fwd N.eqb c_feats EvFeatS EvFeatF step_shape_feats step_start_feats false _ _ _ f RIN). Qed.
  Lemma tr_ruleS f r : In (EvRuleS f r) (map snd ins) -> lookup rkey_eqb (f, r) (c_rules c_in) <> None.
  Proof. exact (crun_key_fwd rkey_eqb c_rules ev_startR ev_finR step_shape_rules step_start_rules false _ _ _ (f, r) RIN). Qed.
  Lemma tr_attS f ro sc rt : In (EvScen f ro sc rt ScStarted) (map snd ins) -> lookup atkey_eqb (f, ro, sc, rt) (c_atts c_in) <> None.
  Proof. exact (crun_key_fwd atkey_eqb c_atts ev_startA ev_finA step_shape_atts step_start_atts false _ _ _ (f, ro, sc, rt) RIN). Qed.
  Lemma tr_attS_back f ro sc rt : lookup atkey_eqb (f, ro, sc, rt) (c_atts c_in) <> None -> In (EvScen f ro sc rt ScStarted) (map snd ins).
  Proof.
    intros L. destruct (crun_key_back atkey_eqb c_atts ev_startA ev_finA step_shape_atts false _ _ _ (f, ro, sc, rt) RIN L) as [X|X];
      [cbn in X; contradiction|exact X].
  Qed.
  Lemma tr_attF f ro sc rt : In (EvScen f ro sc rt ScFinished) (map snd ins) -> lookup atkey_eqb (f, ro, sc, rt) (c_atts c_in) = Some Closed.
  Proof. exact (crun_closed_fwd atkey_eqb c_atts ev_startA ev_finA step_shape_atts step_fin_atts false _ _ _ (f, ro, sc, rt) RIN). Qed.
  Lemma step_fin_rules : step_fin rkey_eqb c_rules ev_finR.
  Proof.
    intros seq c c' [f r]. unfold cstep, ev_finR. cbn [fst snd]. destruct (c_finished c); [discriminate|]. intros H.
    apply guard_some in H as [_ <-]. apply (lookup_setk_same rkey_eqb rkey_eqb_spec).
  Qed.
  Lemma step_fin_feats : step_fin N.eqb c_feats EvFeatF.
  Proof.
    intros seq c c' f. unfold cstep. destruct (c_finished c); [discriminate|]. intros H.
    apply guard_some in H as [_ <-]. apply (lookup_setk_same N.eqb N.eqb_eq).
  Qed.
  Lemma tr_ruleF f r : In (EvRuleF f r) (map snd ins) -> lookup rkey_eqb (f, r) (c_rules c_in) = Some Closed.
  Proof. exact (crun_closed_fwd rkey_eqb c_rules ev_startR ev_finR step_shape_rules step_fin_rules false _ _ _ (f, r) RIN). Qed.
  Lemma tr_featF f : In (EvFeatF f) (map snd ins) -> lookup N.eqb f (c_feats c_in) = Some Closed.
  Proof. exact (crun_closed_fwd N.eqb c_feats EvFeatS EvFeatF step_shape_feats step_fin_feats false _ _ _ f RIN). Qed.
End Trace.

(* an event inside feature f (rule f r) is only accepted when the feature (rule) is known *)
Lemma feat_known f : forall tr c0 c, crun false c0 tr = Some c ->
  (exists r, In (EvRuleS f r) tr) \/ (exists ro sc rt x, In (EvScen f ro sc rt x) tr) ->
  lookup N.eqb f (c_feats c) <> None.
Proof.
  induction tr as [|e l IH]; intros c0 c CR H; [destruct H as [(r & [])|(ro & sc & rt & x & [])]|].
  pose proof CR as CR'. cbn [crun] in CR'. destruct (cstep false c0 e) as [c1|] eqn:CS; [|discriminate].
  assert (HERE : lookup N.eqb f (c_feats c0) <> None -> lookup N.eqb f (c_feats c) <> None).
  { exact (crun_key_persist N.eqb c_feats EvFeatS EvFeatF step_shape_feats false _ _ _ f CR). }
  destruct H as [(r & [->|Hin])|(ro & sc & rt & x & [->|Hin])].
  - apply HERE. unfold cstep in CS. destruct (c_finished c0); [discriminate|]. apply guard_some in CS as [G _].
    apply andb_prop in G as [G _]. apply andb_prop in G as [G _]. apply is_open_some in G. rewrite G. discriminate.
  - apply (IH c1 c CR'). left. eauto.
  - apply HERE. destruct (cstep_scen_facts _ _ _ _ _ _ _ CS) as (G & _). rewrite G. discriminate.
  - apply (IH c1 c CR'). right. eauto 6.
Qed.
Lemma rule_known f r : forall tr c0 c, crun false c0 tr = Some c ->
  (exists sc rt x, In (EvScen f (Some r) sc rt x) tr) -> lookup rkey_eqb (f, r) (c_rules c) <> None.
Proof.
  induction tr as [|e l IH]; intros c0 c CR H; [destruct H as (sc & rt & x & [])|].
  pose proof CR as CR'. cbn [crun] in CR'. destruct (cstep false c0 e) as [c1|] eqn:CS; [|discriminate].
  destruct H as (sc & rt & x & [->|Hin]).
  - apply (crun_key_persist rkey_eqb c_rules ev_startR ev_finR step_shape_rules false _ _ _ (f, r) CR).
    destruct (cstep_scen_facts _ _ _ _ _ _ _ CS) as (_ & G & _). rewrite (G r eq_refl). discriminate.
  - apply (IH c1 c CR'). eauto.
Qed.

Lemma fresh_items ins c_in f : crun false cinit (map snd ins) = Some c_in ->
  lookup N.eqb f (c_feats c_in) = None -> item_starts f ins = [].
Proof.
  intros RIN L. destruct (item_starts f ins) as [|k t] eqn:E; [reflexivity|]. exfalso.
  assert (Hk : In k (item_starts f ins)) by (rewrite E; left; reflexivity).
  apply in_item_starts in Hk. apply (feat_known f _ _ _ RIN); [|exact L].
  destruct k as [r|a]; [left; eauto|right; eauto 6].
Qed.
Lemma fresh_atts ins c_in f r : crun false cinit (map snd ins) = Some c_in ->
  lookup rkey_eqb (f, r) (c_rules c_in) = None -> att_starts f r ins = [].
Proof.
  intros RIN L. destruct (att_starts f r ins) as [|k t] eqn:E; [reflexivity|]. exfalso.
  assert (Hk : In k (att_starts f r ins)) by (rewrite E; left; reflexivity).
  apply in_att_starts in Hk. apply (rule_known f r _ _ _ RIN); [|exact L]. eauto.
Qed.

Lemma in_item_starts_rule f r es : In (EvRuleS f r) (map snd es) -> In (KRule r) (item_starts f es).
Proof.
  intros H. apply in_map_iff in H as ([m e] & E & Hin). cbn [snd] in E. subst e.
  unfold item_starts. apply in_flat_map. exists (m, EvRuleS f r). split; [exact Hin|]. cbn. rewrite N.eqb_refl. left. reflexivity.
Qed.
Lemma in_item_starts_scen f sc rt es : In (EvScen f None sc rt ScStarted) (map snd es) -> In (KScen (sc, rt)) (item_starts f es).
Proof.
  intros H. apply in_map_iff in H as ([m e] & E & Hin). cbn [snd] in E. subst e.
  unfold item_starts. apply in_flat_map. exists (m, EvScen f None sc rt ScStarted). split; [exact Hin|]. cbn. rewrite N.eqb_refl. left. reflexivity.
Qed.
Lemma in_att_starts_conv f r sc rt es : In (EvScen f (Some r) sc rt ScStarted) (map snd es) -> In (sc, rt) (att_starts f r es).
Proof.
  intros H. apply in_map_iff in H as ([m e] & E & Hin). cbn [snd] in E. subst e.
  unfold att_starts. apply in_flat_map. exists (m, EvScen f (Some r) sc rt ScStarted). split; [exact Hin|]. cbn. rewrite !N.eqb_refl. left. reflexivity.
Qed.

Lemma split_ok_in_keys {K} (S ks : list K) (fin : K -> Prop) k : split_ok S ks fin -> In k S -> ~ fin k -> In k ks.
Proof. intros (D & -> & HD) Hin NF. apply in_app_or in Hin as [Hin|Hin]; [destruct (HD k Hin) as [F _]; contradiction|exact Hin]. Qed.
Lemma split_ok_keys_sub {K} (S ks : list K) (fin : K -> Prop) k : split_ok S ks fin -> In k ks -> In k S.
Proof. intros (D & -> & _) Hin. apply in_or_app. right. exact Hin. Qed.

Section Upsert.
  Context {K V : Type} (eqb : K -> K -> bool).
  Hypothesis eqb_spec : forall a b, eqb a b = true <-> a = b.
  Lemma keys_aupsert_in k g (l : list (K * V)) : In k (keys l) -> keys (aupsert eqb k g l) = keys l.
  Proof.
    intros H. rewrite keys_aupsert.
    assert (X : existsb (eqb k) (keys l) = true) by (apply existsb_exists; exists k; split; [exact H|apply eqb_spec; reflexivity]).
    rewrite X. reflexivity.
  Qed.
  Lemma keys_aupsert_notin k g (l : list (K * V)) : ~ In k (keys l) -> keys (aupsert eqb k g l) = keys l ++ [k].
  Proof.
    intros H. rewrite keys_aupsert. destruct (existsb (eqb k) (keys l)) eqn:X; [|reflexivity].
    apply existsb_exists in X as (k' & Hin & E). apply eqb_spec in E. subst k'. contradiction.
  Qed.
End Upsert.

Lemma ord_amodify es x f G l :
  ord es l -> ev_of_feat f (snd x) ->
  (forall q, In (f, q) l -> ord_feat es f q -> ord_feat (es ++ [x]) f (G q)) ->
  ord (es ++ [x]) (amodify N.eqb f G l).
Proof.
  intros (ND & SP & FT) (E1 & E2) HG. unfold ord. rewrite (keys_amodify N.eqb). split; [exact ND|]. split.
  - rewrite feat_starts_snoc, E1, app_nil_r. eapply split_ok_mono; [|exact SP]. intros k. apply in_snoc_ev.
  - intros f' q' Hin. apply (in_amodify N.eqb N.eqb_eq) in Hin as (q & Hq & ->); [|exact ND].
    destruct (N.eqb_spec f f') as [<-|NE].
    + exact (HG q Hq (FT f q Hq)).
    + destruct (E2 f' (not_eq_sym NE)) as [A B]. apply ord_feat_snoc; [exact A|exact B|exact (FT f' q Hq)].
Qed.

(* queueing one (non pass-through, non run-Finished) event keeps the order invariant *)
Lemma ord_enqueue ins c_in s m ev c_in' :
  crun false cinit (map snd ins) = Some c_in -> cstep false c_in ev = Some c_in' -> ev <> EvFinished ->
  ord ins (ns_feats s) -> ord (ins ++ [(m, ev)]) (ns_feats (enqueue s (m, ev))).
Proof.
  intros RIN CS NF OR. pose proof OR as (ND & SP & FT).
  pose proof CS as CS'. unfold cstep in CS'. rewrite (cstep_not_finished _ _ _ _ CS) in CS'.
  assert (PASS : feat_start ev = [] -> (forall f, item_start f ev = [] /\ forall r, att_start f r ev = []) ->
                 ord (ins ++ [(m, ev)]) (ns_feats s)).
  { intros E1 E2. split; [exact ND|]. split.
    - rewrite feat_starts_snoc. cbn [snd]. rewrite E1, app_nil_r. eapply split_ok_mono; [|exact SP]. intros k. apply in_snoc_ev.
    - intros f q Hin. destruct (E2 f) as [A B]. apply ord_feat_snoc; [exact A|exact B|exact (FT f q Hin)]. }
  destruct ev as [| | | |f|f|f r|f r|f ro sc rt x]; unfold enqueue; cbn [fst snd set_feats ns_feats].
  - apply PASS; [reflexivity|]. intros f. split; reflexivity.
  - apply PASS; [reflexivity|]. intros f0. split; reflexivity.
  - apply PASS; [reflexivity|]. intros f. split; reflexivity.
  - contradiction.
  - (* Feature::Started *)
    apply guard_some in CS' as [G _]. apply andb_prop in G as [G _]. apply andb_prop in G as [_ G]. apply is_absent_none in G.
    assert (NS : ~ In f (feat_starts ins)).
    { intros H. apply in_feat_starts in H. exact (tr_featS ins c_in RIN f H G). }
    assert (NK : ~ In f (keys (ns_feats s))) by (intros H; apply NS; exact (split_ok_keys_sub _ _ _ _ SP H)).
    unfold ainsert. rewrite (aremove_absent N.eqb N.eqb_eq f _ NK). unfold ord. rewrite keys_app. cbn [keys map fst].
    split; [apply NoDup_app_intro; [exact ND|constructor; [intros []|constructor]|]; intros y Hy [<-|[]]; exact (NK Hy)|].
    split.
    + rewrite feat_starts_snoc. cbn [snd feat_start]. apply split_ok_snoc; [|exact NS].
      eapply split_ok_mono; [|exact SP]. intros k. apply in_snoc_ev.
    + intros f' q Hin. apply in_app_or in Hin as [Hin|[Hin|[]]].
      * apply ord_feat_snoc; [reflexivity|intros r; reflexivity|exact (FT f' q Hin)].
      * inversion Hin; subst f' q. unfold ord_feat, new_fq. cbn [fq_items keys map]. split; [constructor|]. split; [|intros r rq []].
        rewrite item_starts_snoc. cbn [snd item_start]. rewrite (fresh_items ins c_in f RIN G). exists []. split; [reflexivity|intros k []].
  - (* Feature::Finished *)
    apply ord_amodify; [exact OR|apply ev_of_feat_featF|]. intros q Hq OF.
    apply (ord_feat_items _ _ q); [reflexivity|]. apply ord_feat_snoc; [reflexivity|intros r; reflexivity|exact OF].
  - (* Rule::Started *)
    apply guard_some in CS' as [G _]. apply andb_prop in G as [G _]. apply andb_prop in G as [_ G]. apply is_absent_none in G.
    apply ord_amodify; [exact OR|apply ev_of_feat_ruleS|]. intros q Hq (NDI & SPI & RL).
    assert (NS : ~ In (KRule r) (item_starts f ins)).
    { intros H. apply in_item_starts in H. exact (tr_ruleS ins c_in RIN f r H G). }
    assert (NK : ~ In (KRule r) (keys (fq_items q))) by (intros H; apply NS; exact (split_ok_keys_sub _ _ _ _ SPI H)).
    unfold ord_feat. cbn [set_fq_items fq_items]. unfold ainsert. rewrite (aremove_absent ikey_eqb ikey_eqb_spec _ _ NK).
    rewrite keys_app. cbn [keys map fst].
    split; [apply NoDup_app_intro; [exact NDI|constructor; [intros []|constructor]|]; intros y Hy [<-|[]]; exact (NK Hy)|].
    split.
    + rewrite item_starts_snoc. cbn [snd item_start]. rewrite N.eqb_refl. apply split_ok_snoc; [|exact NS].
      eapply split_ok_mono; [|exact SPI]. intros k. apply in_snoc_ev.
    + intros r' rq Hin. apply in_app_or in Hin as [Hin|[Hin|[]]].
      * apply ord_rule_snoc; [reflexivity|exact (RL r' rq Hin)].
      * inversion Hin; subst r' rq. unfold ord_rule, new_rq. cbn [rq_atts keys map]. split; [constructor|].
        rewrite att_starts_snoc. cbn [snd att_start]. rewrite (fresh_atts ins c_in f r RIN G). exists []. split; [reflexivity|intros k []].
  - (* Rule::Finished *)
    apply ord_amodify; [exact OR|apply ev_of_feat_ruleF|]. intros q Hq (NDI & SPI & RL).
    unfold ord_feat. cbn [set_fq_items fq_items]. rewrite (keys_amodify ikey_eqb). split; [exact NDI|]. split.
    + rewrite item_starts_snoc. cbn [snd item_start]. rewrite app_nil_r. eapply split_ok_mono; [|exact SPI]. intros k. apply in_snoc_ev.
    + intros r' rq' Hin. apply (in_amodify ikey_eqb ikey_eqb_spec) in Hin as (it & Hit & E); [|exact NDI].
      destruct it as [rq0|evs0]; [|destruct (ikey_eqb (KRule r) (KRule r')); discriminate E].
      apply ord_rule_snoc; [reflexivity|]. apply (ord_rule_atts _ _ _ rq0); [|exact (RL r' rq0 Hit)].
      destruct (ikey_eqb (KRule r) (KRule r')); inversion E; reflexivity.
  - (* attempt events *)
    destruct (cstep_scen_facts _ _ _ _ _ _ _ CS) as (_ & _ & FS & FO).
    destruct ro as [r|].
    + (* inside a rule *)
      apply ord_amodify; [exact OR|apply ev_of_feat_scen|]. intros q Hq (NDI & SPI & RL).
      unfold ord_feat. cbn [set_fq_items fq_items]. rewrite (keys_amodify ikey_eqb). split; [exact NDI|]. split.
      * rewrite item_starts_snoc. cbn [snd item_start]. rewrite app_nil_r. eapply split_ok_mono; [|exact SPI]. intros k. apply in_snoc_ev.
      * intros r' rq' Hin. apply (in_amodify ikey_eqb ikey_eqb_spec) in Hin as (it & Hit & E); [|exact NDI].
        destruct it as [rq0|evs0]; [|destruct (ikey_eqb (KRule r) (KRule r')); discriminate E].
        destruct (RL r' rq0 Hit) as (NDA & SPA). cbn [ikey_eqb] in E. destruct (N.eqb_spec r r') as [<-|NE].
        -- inversion E; subst rq'. unfold ord_rule. cbn [set_rq_atts rq_atts].
           split; [apply (nodup_aupsert akey_eqb akey_eqb_spec); exact NDA|].
           rewrite att_starts_snoc. cbn [snd att_start]. rewrite !N.eqb_refl. cbn [andb].
           assert (MONO : split_ok (att_starts f r ins) (keys (rq_atts rq0)) (fin3 (ins ++ [(m, EvScen f (Some r) sc rt x)]) f r)).
           { eapply split_ok_mono; [|exact SPA]. intros k. apply in_snoc_ev. }
           assert (OLD : x <> ScStarted -> In (sc, rt) (keys (rq_atts rq0))).
           { intros NX. apply (split_ok_in_keys _ _ _ _ SPA).
             - apply in_att_starts_conv. apply (tr_attS_back ins c_in RIN). rewrite (FO NX). discriminate.
             - intros F. unfold fin3, att_fin in F. cbn [fst snd] in F. rewrite (tr_attF ins c_in RIN _ _ _ _ F) in FO.
               specialize (FO NX). discriminate FO. }
           assert (NEW : x = ScStarted -> ~ In (sc, rt) (att_starts f r ins)).
           { intros EX H. apply in_att_starts in H. cbn [fst snd] in H. destruct (FS EX) as [L _].
             exact (tr_attS ins c_in RIN _ _ _ _ H L). }
           destruct x; try (rewrite app_nil_r, (keys_aupsert_in akey_eqb akey_eqb_spec) by (apply OLD; discriminate); exact MONO).
           rewrite (keys_aupsert_notin akey_eqb akey_eqb_spec)
             by (intros H; apply (NEW eq_refl); exact (split_ok_keys_sub _ _ _ _ SPA H)).
           apply split_ok_snoc; [exact MONO|exact (NEW eq_refl)].
        -- inversion E; subst rq'. apply ord_rule_snoc; [|split; assumption].
           cbn [snd att_start]. rewrite N.eqb_refl, (neqb r r') by exact NE. destruct x; reflexivity.
    + (* top level *)
      apply ord_amodify; [exact OR|apply ev_of_feat_scen|]. intros q Hq (NDI & SPI & RL).
      unfold ord_feat. cbn [set_fq_items fq_items].
      split; [apply (nodup_aupsert ikey_eqb ikey_eqb_spec); exact NDI|].
      assert (MONO : split_ok (item_starts f ins) (keys (fq_items q)) (fin2 (ins ++ [(m, EvScen f None sc rt x)]) f)).
      { eapply split_ok_mono; [|exact SPI]. intros k. apply in_snoc_ev. }
      assert (OLD : x <> ScStarted -> In (KScen (sc, rt)) (keys (fq_items q))).
      { intros NX. apply (split_ok_in_keys _ _ _ _ SPI).
        - apply in_item_starts_scen. apply (tr_attS_back ins c_in RIN). rewrite (FO NX). discriminate.
        - intros F. unfold fin2, item_fin in F. cbn [fst snd] in F. rewrite (tr_attF ins c_in RIN _ _ _ _ F) in FO.
          specialize (FO NX). discriminate FO. }
      assert (NEW : x = ScStarted -> ~ In (KScen (sc, rt)) (item_starts f ins)).
      { intros EX H. apply in_item_starts in H. cbn [fst snd] in H. destruct (FS EX) as [L _].
        exact (tr_attS ins c_in RIN _ _ _ _ H L). }
      split.
      * rewrite item_starts_snoc. cbn [snd item_start]. rewrite N.eqb_refl.
        destruct x; try (rewrite app_nil_r, (keys_aupsert_in ikey_eqb ikey_eqb_spec) by (apply OLD; discriminate); exact MONO).
        rewrite (keys_aupsert_notin ikey_eqb ikey_eqb_spec)
          by (intros H; apply (NEW eq_refl); exact (split_ok_keys_sub _ _ _ _ SPI H)).
        apply split_ok_snoc; [exact MONO|exact (NEW eq_refl)].
      * intros r' rq' Hin. apply (in_aupsert ikey_eqb ikey_eqb_spec) in Hin as [(it & Hit & E)|(_ & E & _)]; [|discriminate E|exact NDI].
        cbn [ikey_eqb] in E. subst it. apply ord_rule_snoc; [destruct x; reflexivity|exact (RL r' rq' Hit)].
Qed.

(* ---------- the invariant of a run: the simulation of NormalizeP4h, plus ORDER and REST ---------- *)
Record HInv (ins outs : list mev) (c_in : cstate) (s : nstate) : Prop := mk_HInv {
  hi_t : exists c, TInv ins outs c_in s c;
  hi_ord : ord ins (ns_feats s);
  hi_rest : rest_feats (ns_feats s) }.

Lemma HInv_init : HInv [] [] cinit ninit.
Proof.
  constructor.
  - exists cinit. exact TInv_init.
  - split; [constructor|]. split; [exists []; split; [reflexivity|intros k []]|intros f q []].
  - exact I.
Qed.

Lemma pending_resting s : ns_state s = NotFinished -> pending s = feats_evs (ns_feats s).
Proof. intros NS. unfold pending. rewrite NS. cbn [fin_evs]. rewrite app_nil_r. reflexivity. Qed.

Lemma HInv_step ins outs c_in s m ev c_in' :
  HInv ins outs c_in s -> cstep false c_in ev = Some c_in' -> ev <> EvFinished ->
  HInv (ins ++ [(m, ev)]) (outs ++ snd (nhandle s (m, ev))) c_in' (fst (nhandle s (m, ev))).
Proof.
  intros [(c & TI) OR RS] CS NF.
  destruct (call_step ins outs c_in s c m ev c_in' TI CS) as [A _]. specialize (A NF).
  pose proof TI as [RIN ROUT SIM PERM ST OP CF CS0 CP NE CFI]. pose proof SIM as (HR & HU & W & NS).
  assert (EM : is_emitted (ns_state s) = false) by (rewrite NS; reflexivity).
  assert (RST : resting s = true) by (unfold resting; rewrite NS; reflexivity).
  destruct (sim_step c_in c_in' s m ev SIM CS) as (AC & _ & _).
  assert (W' : nwf (enqueue s (m, ev)) = true /\ forall x, In x (pending (enqueue s (m, ev))) -> In x (pending s ++ [(m, ev)])).
  { destruct (is_pass ev) eqn:PS.
    - rewrite (enqueue_pass s (m, ev) PS). split; [exact W|]. intros x Hx. apply in_or_app. left. exact Hx.
    - unfold accepts in AC. rewrite EM in AC. destruct (enqueue_adds_one s (m, ev) W PS AC) as [X P]. split; [exact X|].
      intros x Hx. exact (Permutation_in _ P Hx). }
  destruct W' as [W' SUB].
  assert (NS' : ns_state (enqueue s (m, ev)) = NotFinished) by (rewrite (enqueue_state s (m, ev) NF); exact NS).
  assert (FW : feats_wf (ns_feats (enqueue s (m, ev))) = true) by (unfold nwf in W'; apply andb_prop in W' as [X _]; exact X).
  pose proof (ord_enqueue ins c_in s m ev c_in' RIN CS NF OR) as OR1.
  destruct (ord_emit (ins ++ [(m, ev)]) (ns_feats (enqueue s (m, ev))) FW OR1) as [OR2 RS2].
  { intros x Hx. rewrite <- (pending_resting _ NS') in Hx. apply SUB in Hx. apply in_app_or in Hx as [Hx|Hx].
    - apply in_or_app. left. apply (Permutation_in _ PERM). apply in_or_app. right. exact Hx.
    - apply in_or_app. right. exact Hx. }
  rewrite (nhandle_fst s (m, ev) EM). constructor.
  - rewrite <- (nhandle_fst s (m, ev) EM). exact A.
  - exact OR2.
  - exact RS2.
Qed.

Lemma HInv_run : forall t ins outs c_in s c_fin,
  HInv ins outs c_in s -> crun false c_in (map snd t) = Some c_fin ->
  existsb (fun e => is_finished (snd e)) t = false ->
  HInv (ins ++ t) (outs ++ concat (nrun_from s t)) c_fin (nfinal s t).
Proof.
  induction t as [|[m ev] t IH]; intros ins outs c_in s c_fin HI CR NF.
  - cbn in CR. inversion CR; subst. cbn. rewrite !app_nil_r. exact HI.
  - cbn [map snd crun] in CR. destruct (cstep false c_in ev) as [c1|] eqn:CS; [|discriminate].
    cbn [existsb snd] in NF. apply orb_false_iff in NF as [NF1 NF2].
    assert (NE : ev <> EvFinished) by (intros ->; discriminate NF1).
    pose proof (HInv_step ins outs c_in s m ev c1 HI CS NE) as HI1.
    cbn [nrun_from nfinal]. destruct (nhandle s (m, ev)) as [s1 o] eqn:NH. cbn [fst snd concat] in *.
    pose proof (IH _ _ _ _ _ HI1 CR NF2) as X. rewrite <- !app_assoc in X. exact X.
Qed.

(* ---------- a buffered event sits in the queue of its own entity ---------- *)
Ltac pend_inv H :=
  let f0 := fresh "f0" in let q0 := fresh "q0" in let Hq := fresh "Hq" in let E := fresh "E" in
  let k := fresh "k" in let it := fresh "it" in let Hit := fresh "Hit" in let HI := fresh "HI" in
  apply in_feats_evs in H as (f0 & q0 & Hq & [(? & E)|[(? & E)|([k it] & Hit & HI)]]);
  [cbn [fst snd] in *; try discriminate E | cbn [fst snd] in *; try discriminate E |
   destruct k as [?r|?a]; destruct it as [?rq|?evs]; cbn [in_item] in HI; try contradiction;
   [destruct HI as [(? & E)|[(? & E)|(?a & ?evs & ?y & ?Ha & ?Hy & E)]]; cbn [fst snd] in *; try discriminate E
   |destruct HI as (?y & ?Hy & E)]].

Ltac pend_solve H :=
  pend_inv H; try (unfold mk_scen in *); try discriminate; 
  match goal with E : _ = _ |- _ => inversion E; subst end;
  try match goal with a : akey |- _ => destruct a end; try match goal with y : aev |- _ => destruct y end; eauto 8.

Lemma pend_featS l m d : In (m, EvFeatS d) (feats_evs l) -> exists q, In (d, q) l /\ fq_init q = Some m.
Proof. intros H. pend_solve H. Qed.
Lemma pend_featF l m d : In (m, EvFeatF d) (feats_evs l) -> exists q, In (d, q) l /\ fq_state q = FinNotEmitted m.
Proof. intros H. pend_solve H. Qed.
Lemma pend_ruleS l m f r : In (m, EvRuleS f r) (feats_evs l) ->
  exists q rq, In (f, q) l /\ In (KRule r, IRule rq) (fq_items q) /\ rq_init rq = Some m.
Proof. intros H. pend_solve H. Qed.
Lemma pend_ruleF l m f r : In (m, EvRuleF f r) (feats_evs l) ->
  exists q rq, In (f, q) l /\ In (KRule r, IRule rq) (fq_items q) /\ rq_state rq = FinNotEmitted m.
Proof. intros H. pend_solve H. Qed.
Lemma pend_scenN l m f sc rt x : In (m, EvScen f None sc rt x) (feats_evs l) ->
  exists q evs, In (f, q) l /\ In (KScen (sc, rt), IScen evs) (fq_items q) /\ In (m, x) evs.
Proof. intros H. pend_solve H. Qed.
Lemma pend_scenR l m f r sc rt x : In (m, EvScen f (Some r) sc rt x) (feats_evs l) ->
  exists q rq evs, In (f, q) l /\ In (KRule r, IRule rq) (fq_items q) /\ In ((sc, rt), evs) (rq_atts rq) /\ In (m, x) evs.
Proof. intros H. pend_solve H. Qed.

Lemma find_skip {A} (p : A -> bool) D l : (forall d, In d D -> p d = false) -> find p (D ++ l) = find p l.
Proof.
  induction D as [|a D IH]; cbn; intros H; [reflexivity|]. rewrite (H a (or_introl eq_refl)). apply IH.
  intros d Hd. apply H. right. exact Hd.
Qed.

(* ---------- the observable head IS the head of the queues, and nothing of it is buffered ---------- *)
Section Heads.
  Variables (ins outs : list mev) (c_in : cstate) (s : nstate).
  Hypothesis HI : HInv ins outs c_in s.

  Lemma hv_basic :
    crun false cinit (map snd ins) = Some c_in /\ R c_in s /\ ns_state s = NotFinished /\
    (forall x, In x ins -> In x outs \/ In x (feats_evs (ns_feats s))) /\ (forall x, In x outs -> In x ins).
  Proof.
    destruct HI as [(c & TI) _ _]. destruct TI as [RIN ROUT SIM PERM ST OP CF CS0 CP NE CFI]. destruct SIM as (HR & HU & W & NS).
    split; [exact RIN|]. split; [exact HR|]. split; [exact NS|]. split.
    - intros x Hx. apply (Permutation_in _ (Permutation_sym PERM)) in Hx. apply in_app_or in Hx as [Hx|Hx]; [left; exact Hx|].
      right. rewrite (pending_resting s NS) in Hx. exact Hx.
    - intros x Hx. apply (Permutation_in _ PERM). apply in_or_app. left. exact Hx.
  Qed.

  Lemma closed_not_resting st : cls st = Closed -> st <> FinEmitted -> fin_pending st = false -> False.
  Proof. destruct st; cbn; congruence. Qed.

  Lemma head_feat_eq : head_feat ins outs = match ns_feats s with [] => None | (f, _) :: _ => Some f end.
  Proof.
    destruct hv_basic as (RIN & HR & NS & SPLIT & SUB). destruct HI as [_ (ND & (D & E & HD) & FT) RS].
    unfold head_feat. rewrite E. rewrite find_skip.
    - destruct (ns_feats s) as [|[f q] t] eqn:L; [reflexivity|]. cbn [keys map fst find].
      replace (emitted outs (EvFeatF f)) with false; [reflexivity|]. symmetry. apply emitted_false. intros m Hm.
      apply SUB in Hm. assert (X : In (EvFeatF f) (map snd ins)) by (exact (in_map snd _ _ Hm)).
      pose proof (tr_featF ins c_in RIN f X) as CL.
      destruct (r_f1 c_in s HR f (fq_state q)) as [L1 L2]; [exists q; split; [rewrite L; left; reflexivity|reflexivity]|].
      cbn [rest_feats] in RS. destruct RS as (_ & FP & _). rewrite CL in L1. inversion L1 as [L3].
      exact (closed_not_resting _ (eq_sym L3) L2 FP).
    - intros d Hd. destruct (HD d Hd) as [F NK]. apply negb_false_iff. apply emitted_in. unfold fin1 in F.
      apply in_map_iff in F as ([m e] & Ee & Hin). cbn in Ee. subst e. exists m. destruct (SPLIT _ Hin) as [X|X]; [exact X|].
      exfalso. apply pend_featF in X as (q & Hq & _). apply NK. exact (in_keys _ _ _ Hq).
  Qed.

  Lemma head_item_eq f q t : ns_feats s = (f, q) :: t ->
    head_item f ins outs = match fq_items q with [] => None | (k, _) :: _ => Some k end.
  Proof.
    intros L. destruct hv_basic as (RIN & HR & NS & SPLIT & SUB). destruct HI as [_ (ND & _ & FT) RS].
    assert (HQ : In (f, q) (ns_feats s)) by (rewrite L; left; reflexivity).
    destruct (FT f q HQ) as (NDI & (D & E & HD) & RL). rewrite L in RS. cbn [rest_feats] in RS. destruct RS as (_ & _ & RI).
    unfold head_item. rewrite E. rewrite find_skip.
    - destruct (fq_items q) as [|[k it] t2] eqn:LI; [reflexivity|]. cbn [keys map fst find].
      replace (emitted outs (item_fin f k)) with false; [reflexivity|]. symmetry. apply emitted_false. intros m Hm.
      apply SUB in Hm. pose proof (in_map snd _ _ Hm) as X. cbn [snd] in X.
      destruct k as [r|a]; destruct it as [rq|evs]; cbn [rest_items] in RI; try contradiction; cbn [item_fin] in X.
      + pose proof (tr_ruleF ins c_in RIN f r X) as CL. destruct RI as (_ & FP & _).
        destruct (r_r1 c_in s HR f r (rq_state rq)) as [L1 L2].
        { exists (fq_items q), rq. split; [exists q; auto|]. split; [rewrite LI; left; reflexivity|reflexivity]. }
        rewrite CL in L1. inversion L1 as [L3]. exact (closed_not_resting _ (eq_sym L3) L2 FP).
      + pose proof (tr_attF ins c_in RIN _ _ _ _ X) as CL. subst evs.
        assert (BA : bufA s (f, None, fst a, snd a) false).
        { exists (fq_items q). cbn [att_feat att_rule att_scen att_retr attIn]. split; [exists q; auto|].
          exists []. split; [rewrite LI; left; destruct a; reflexivity|reflexivity]. }
        pose proof (r_a1 c_in s HR _ _ BA) as L1. rewrite CL in L1. discriminate L1.
    - intros d Hd. destruct (HD d Hd) as [F NK]. apply negb_false_iff. apply emitted_in. unfold fin2 in F.
      apply in_map_iff in F as ([m e] & Ee & Hin). cbn in Ee. subst e. exists m. destruct (SPLIT _ Hin) as [X|X]; [exact X|].
      exfalso. apply NK. destruct d as [r|a]; cbn [item_fin] in X.
      + apply pend_ruleF in X as (q' & rq & Hq' & Hrq & _). rewrite (nodup_keys_unique _ _ _ _ ND HQ Hq'). exact (in_keys _ _ _ Hrq).
      + apply pend_scenN in X as (q' & evs & Hq' & Hit & _). rewrite (nodup_keys_unique _ _ _ _ ND HQ Hq').
        destruct a. exact (in_keys _ _ _ Hit).
  Qed.

  Lemma head_ratt_eq f q t r rq t2 : ns_feats s = (f, q) :: t -> fq_items q = (KRule r, IRule rq) :: t2 ->
    head_ratt f r ins outs = match rq_atts rq with [] => None | (a, _) :: _ => Some a end.
  Proof.
    intros L LI. destruct hv_basic as (RIN & HR & NS & SPLIT & SUB). destruct HI as [_ (ND & _ & FT) RS].
    assert (HQ : In (f, q) (ns_feats s)) by (rewrite L; left; reflexivity).
    destruct (FT f q HQ) as (NDI & _ & RL).
    assert (HR0 : In (KRule r, IRule rq) (fq_items q)) by (rewrite LI; left; reflexivity).
    destruct (RL r rq HR0) as (NDA & (D & E & HD)).
    rewrite L in RS. cbn [rest_feats] in RS. destruct RS as (_ & _ & RI). rewrite LI in RI. cbn [rest_items] in RI. destruct RI as (_ & _ & RA).
    unfold head_ratt. rewrite E. rewrite find_skip.
    - destruct (rq_atts rq) as [|[a evs] t3] eqn:LA; [reflexivity|]. cbn [keys map fst find].
      replace (emitted outs (att_fin f r a)) with false; [reflexivity|]. symmetry. apply emitted_false. intros m Hm.
      apply SUB in Hm. pose proof (in_map snd _ _ Hm) as X. cbn [snd] in X. unfold att_fin in X.
      pose proof (tr_attF ins c_in RIN _ _ _ _ X) as CL. cbn [rest_atts] in RA. subst evs.
      assert (BA : bufA s (f, Some r, fst a, snd a) false).
      { exists (fq_items q). cbn [att_feat att_rule att_scen att_retr attIn]. split; [exists q; auto|].
        exists rq, []. split; [exact HR0|]. split; [rewrite LA; left; destruct a; reflexivity|reflexivity]. }
      pose proof (r_a1 c_in s HR _ _ BA) as L1. rewrite CL in L1. discriminate L1.
    - intros d Hd. destruct (HD d Hd) as [F NK]. apply negb_false_iff. apply emitted_in. unfold fin3 in F.
      apply in_map_iff in F as ([m e] & Ee & Hin). cbn in Ee. subst e. exists m. destruct (SPLIT _ Hin) as [X|X]; [exact X|].
      exfalso. apply NK. unfold att_fin in X.
      apply pend_scenR in X as (q' & rq' & evs & Hq' & Hrq' & Ha & _).
      rewrite <- (nodup_keys_unique _ _ _ _ ND HQ Hq') in Hrq'.
      pose proof (nodup_keys_unique _ _ _ _ NDI HR0 Hrq') as X. inversion X; subst rq'. destruct d. exact (in_keys _ _ _ Ha).
  Qed.

  (* (i-a) the head feature's Started is not buffered, hence has been forwarded *)
  Lemma head_feat_not_buffered f m : head_feat ins outs = Some f -> ~ In (m, EvFeatS f) (feats_evs (ns_feats s)).
  Proof.
    rewrite head_feat_eq. destruct (ns_feats s) as [|[f0 q] t] eqn:L; [discriminate|]. intros X Y. inversion X; subst f0.
    destruct HI as [_ (ND & _ & _) RS]. rewrite L in *.
    apply pend_featS in Y as (q' & Hq' & IN). rewrite <- (nodup_keys_unique _ _ _ _ ND (or_introl eq_refl) Hq') in IN.
    cbn [rest_feats] in RS. destruct RS as (I0 & _). congruence.
  Qed.
  Lemma head_feat_started f m : head_feat ins outs = Some f -> In (m, EvFeatS f) ins -> In (m, EvFeatS f) outs.
  Proof.
    intros X Hin. destruct hv_basic as (_ & _ & _ & SPLIT & _).
    destruct (SPLIT _ Hin) as [Y|Y]; [exact Y|]. destruct (head_feat_not_buffered f m X Y).
  Qed.

  (* (i-b) if the head item is a rule, its Started is not buffered, hence has been forwarded *)
  Lemma head_rule_not_buffered f r m : head_feat ins outs = Some f -> head_item f ins outs = Some (KRule r) ->
    ~ In (m, EvRuleS f r) (feats_evs (ns_feats s)).
  Proof.
    rewrite head_feat_eq. destruct (ns_feats s) as [|[f0 q] t] eqn:L; [discriminate|]. intros X. inversion X; subst f0.
    rewrite (head_item_eq f q t L). destruct (fq_items q) as [|[k it] t2] eqn:LI; [discriminate|]. intros Y. inversion Y; subst k.
    intros Z. destruct HI as [_ (ND & _ & FT) RS]. rewrite L in *.
    destruct (FT f q (or_introl eq_refl)) as (NDI & _ & _).
    apply pend_ruleS in Z as (q' & rq' & Hq' & Hrq' & IN). rewrite <- (nodup_keys_unique _ _ _ _ ND (or_introl eq_refl) Hq') in Hrq'.
    cbn [rest_feats] in RS. destruct RS as (_ & _ & RI).
    rewrite LI in *. pose proof (nodup_keys_unique _ _ _ _ NDI (or_introl eq_refl) Hrq') as E. subst it.
    cbn [rest_items] in RI. destruct RI as (I0 & _). congruence.
  Qed.
  Lemma head_rule_started f r m : head_feat ins outs = Some f -> head_item f ins outs = Some (KRule r) ->
    In (m, EvRuleS f r) ins -> In (m, EvRuleS f r) outs.
  Proof.
    intros X Y Hin. destruct hv_basic as (_ & _ & _ & SPLIT & _).
    destruct (SPLIT _ Hin) as [Z|Z]; [exact Z|]. destruct (head_rule_not_buffered f r m X Y Z).
  Qed.

  (* (i-c) nothing of the head attempt is buffered *)
  Lemma head_attempt_not_buffered f ro sc rt m x : head_attempt ins outs = Some (f, ro, sc, rt) ->
    ~ In (m, EvScen f ro sc rt x) (feats_evs (ns_feats s)).
  Proof.
    unfold head_attempt. rewrite head_feat_eq. destruct (ns_feats s) as [|[f0 q] t] eqn:L; [discriminate|].
    rewrite (head_item_eq f0 q t L). destruct (fq_items q) as [|[k it] t2] eqn:LI; [discriminate|].
    destruct HI as [_ (ND & _ & FT) RS]. rewrite L in *. destruct (FT f0 q (or_introl eq_refl)) as (NDI & _ & RL).
    cbn [rest_feats] in RS. destruct RS as (_ & _ & RI). rewrite LI in *.
    destruct k as [r|a]; destruct it as [rq|evs]; cbn [rest_items] in RI; try contradiction.
    - rewrite (head_ratt_eq f0 q t r rq t2 L LI). destruct (rq_atts rq) as [|[a evs] t3] eqn:LA; [discriminate|].
      intros X. inversion X; subst f0 ro sc rt. intros Hin.
      apply pend_scenR in Hin as (q' & rq' & evs' & Hq' & Hrq' & Ha & Hx).
      rewrite <- (nodup_keys_unique _ _ _ _ ND (or_introl eq_refl) Hq') in Hrq'. rewrite LI in Hrq'.
      pose proof (nodup_keys_unique _ _ _ _ NDI (or_introl eq_refl) Hrq') as E. inversion E; subst rq'.
      destruct (RL r rq (or_introl eq_refl)) as (NDA & _). rewrite LA in *. destruct RI as (_ & _ & RA). cbn [rest_atts] in RA. subst evs.
      assert (E2 : [] = evs') by (apply (nodup_keys_unique _ a _ _ NDA); [left; reflexivity|destruct a; exact Ha]).
      subst evs'. destruct Hx.
    - intros X. inversion X; subst f0 ro sc rt. intros Hin. subst evs.
      apply pend_scenN in Hin as (q' & evs' & Hq' & Hit & Hx).
      rewrite <- (nodup_keys_unique _ _ _ _ ND (or_introl eq_refl) Hq') in Hit. rewrite LI in Hit.
      assert (E2 : IScen [] = IScen evs') by (apply (nodup_keys_unique _ (KScen a) _ _ NDI); [left; reflexivity|destruct a; exact Hit]).
      inversion E2; subst evs'. destruct Hx.
  Qed.
End Heads.

(* ---------- what is held back: the input prefix minus the output, as multisets ---------- *)
Fixpoint remove1 (x : mev) (l : list mev) : list mev :=
  match l with [] => [] | y :: t => if mev_eqb x y then t else y :: remove1 x t end.
Definition held (es out : list mev) : list mev := fold_left (fun acc x => remove1 x acc) out es.

Lemma remove1_perm x l : In x l -> Permutation l (x :: remove1 x l).
Proof.
  induction l as [|y t IH]; [intros []|]. cbn [remove1]. destruct (mev_eqb x y) eqn:E.
  - apply mev_eqb_spec in E. subst y. intros _. reflexivity.
  - intros [->|H]; [rewrite (proj2 (mev_eqb_spec x x) eq_refl) in E; discriminate|].
    rewrite (IH H) at 1. apply perm_swap.
Qed.
Lemma held_perm : forall out es b, Permutation (out ++ b) es -> Permutation (held es out) b.
Proof.
  induction out as [|x o IH]; intros es b P; cbn [held fold_left app] in *; [symmetry; exact P|].
  assert (Hx : In x es) by (apply (Permutation_in _ P); left; reflexivity).
  apply (IH (remove1 x es) b). apply (Permutation_cons_inv (a := x)). rewrite P. apply remove1_perm. exact Hx.
Qed.

Lemma filter_none {A} (p : A -> bool) l : (forall x, In x l -> p x = false) -> filter p l = [].
Proof.
  induction l as [|x t IH]; intros H; [reflexivity|]. cbn [filter]. rewrite (H x (or_introl eq_refl)). apply IH.
  intros y Hy. apply H. right. exact Hy.
Qed.
Lemma same_att_inv f ro sc rt e : same_att f ro sc rt e = true -> exists x, e = EvScen f ro sc rt x.
Proof.
  destruct e as [| | | |g|g|g r|g r|g ro' sc' rt' x]; cbn; try discriminate. intros H.
  apply andb_prop in H as [H H4]. apply andb_prop in H as [H H3]. apply andb_prop in H as [H1 H2].
  apply N.eqb_eq in H1, H3. apply optN_eqb_spec in H2. apply retr_eqb_spec in H4. subst. eauto.
Qed.

Lemma prefix_accepts_crun (es : list mev) : contract_prefix (map snd es) = true ->
  exists c_fin, crun false cinit (map snd es) = Some c_fin.
Proof. unfold contract_prefix. destruct (crun false cinit (map snd es)) as [c|]; [eauto|discriminate]. Qed.

(* after run-Finished nothing is buffered *)
Lemma finished_nothing_pending (es : list mev) : contract_prefix (map snd es) = true ->
  existsb (fun e => is_finished (snd e)) es = true -> pending (nfinal ninit es) = [].
Proof.
  intros CP F. exact (pending_after_finished es ninit eq_refl eq_refl (contract_implies_accepts es CP) eq_refl F).
Qed.

(* in both cases: out ++ (what is buffered) is a permutation of the input prefix, and for the head nothing is buffered *)
Lemma head_facts (es : list mev) : contract_prefix (map snd es) = true ->
  let out := concat (nrun es) in let buf := pending (nfinal ninit es) in
  Permutation (out ++ buf) es /\
  (forall f m, head_feat es out = Some f -> ~ In (m, EvFeatS f) buf) /\
  (forall f r m, head_feat es out = Some f -> head_item f es out = Some (KRule r) -> ~ In (m, EvRuleS f r) buf) /\
  (forall f ro sc rt m x, head_attempt es out = Some (f, ro, sc, rt) -> ~ In (m, EvScen f ro sc rt x) buf).
Proof.
  intros CP. cbn zeta.
  pose proof (run_lossless es ninit eq_refl eq_refl (contract_implies_accepts es CP)) as P. cbn [pending ninit ns_feats ns_state flat_map fin_evs app] in P.
  split; [exact P|].
  destruct (existsb (fun e => is_finished (snd e)) es) eqn:F.
  - rewrite (finished_nothing_pending es CP F). repeat split; intros; intros [].
  - destruct (prefix_accepts_crun es CP) as (c_fin & CR).
    pose proof (HInv_run es [] [] cinit ninit c_fin HInv_init CR F) as HI. cbn [app] in HI. fold (nrun es) in HI.
    destruct (hv_basic _ _ _ _ HI) as (_ & _ & NS & _). rewrite (pending_resting _ NS).
    split; [|split].
    + intros f m. exact (head_feat_not_buffered _ _ _ _ HI f m).
    + intros f r m. exact (head_rule_not_buffered _ _ _ _ HI f r m).
    + intros f ro sc rt m x. exact (head_attempt_not_buffered _ _ _ _ HI f ro sc rt m x).
Qed.

(* ====================================================================================================== *)
(* THE THEOREM (observable head-liveness).  For every input prefix `es` accepted by the Runner contract, with
   `out` = everything handed to the inner writer while handling `es`:
   (1) the Started of the head feature is in `out`;
   (2) if the head item of the head feature is a rule, its Started is in `out`;
   (3) ALL events of the head attempt (top-level, or inside the head rule) that occur in `es` are in `out`,
       in the same order, with their tags: the projections on that attempt are EQUAL lists.                  *)
(* ====================================================================================================== *)
Theorem head_is_never_held_back (es : list mev) : contract_prefix (map snd es) = true ->
  let out := concat (nrun es) in
  (forall f m, head_feat es out = Some f -> In (m, EvFeatS f) es -> In (m, EvFeatS f) out) /\
  (forall f r m, head_feat es out = Some f -> head_item f es out = Some (KRule r) ->
     In (m, EvRuleS f r) es -> In (m, EvRuleS f r) out) /\
  (forall f ro sc rt, head_attempt es out = Some (f, ro, sc, rt) ->
     filter (fun e => same_att f ro sc rt (snd e)) out = filter (fun e => same_att f ro sc rt (snd e)) es).
Proof.
  intros CP. destruct (head_facts es CP) as (P & H1 & H2 & H3). cbn zeta in *.
  assert (SPLIT : forall x, In x es -> In x (concat (nrun es)) \/ In x (pending (nfinal ninit es))).
  { intros x Hx. apply (Permutation_in _ (Permutation_sym P)) in Hx. apply in_app_or in Hx. exact Hx. }
  split; [|split].
  - intros f m HF Hin. destruct (SPLIT _ Hin) as [X|X]; [exact X|destruct (H1 f m HF X)].
  - intros f r m HF HR Hin. destruct (SPLIT _ Hin) as [X|X]; [exact X|destruct (H2 f r m HF HR X)].
  - intros f ro sc rt HA. destruct (prefix_accepts_crun es CP) as (c_fin & CR).
    pose proof (run_proj f ro sc rt es cinit ninit c_fin SimInv_init CR) as Q. unfold proj_att in Q.
    cbn [pending ninit ns_feats ns_state flat_map fin_evs app] in Q. fold (nrun es) in Q. rewrite filter_app in Q.
    assert (Z : filter (fun e : mev => same_att f ro sc rt (snd e)) (pending (nfinal ninit es)) = []).
    { apply filter_none. intros [m e] Hin. cbn [snd]. destruct (same_att f ro sc rt e) eqn:SA; [|reflexivity].
      apply same_att_inv in SA as (x & ->). destruct (H3 f ro sc rt m x HA Hin). }
    rewrite Z, app_nil_r in Q. exact Q.
Qed.

(* (ii) consequently nothing of the head is HELD BACK: `held es out` (the input prefix minus the output, as multisets)
   contains neither the head feature's Started, nor the head rule's Started, nor any event of the head attempt *)
Theorem nothing_of_the_head_is_held (es : list mev) : contract_prefix (map snd es) = true ->
  let out := concat (nrun es) in
  (forall f m, head_feat es out = Some f -> ~ In (m, EvFeatS f) (held es out)) /\
  (forall f r m, head_feat es out = Some f -> head_item f es out = Some (KRule r) -> ~ In (m, EvRuleS f r) (held es out)) /\
  (forall f ro sc rt e, head_attempt es out = Some (f, ro, sc, rt) -> In e (held es out) -> same_att f ro sc rt (snd e) = false).
Proof.
  intros CP. destruct (head_facts es CP) as (P & H1 & H2 & H3). cbn zeta in *.
  pose proof (held_perm _ _ _ P) as HP.
  split; [|split].
  - intros f m HF Hin. exact (H1 f m HF (Permutation_in _ HP Hin)).
  - intros f r m HF HR Hin. exact (H2 f r m HF HR (Permutation_in _ HP Hin)).
  - intros f ro sc rt [m e] HA Hin. cbn [snd]. destruct (same_att f ro sc rt e) eqn:SA; [|reflexivity].
    apply same_att_inv in SA as (x & ->). destruct (H3 f ro sc rt m x HA (Permutation_in _ HP Hin)).
Qed.

(* the same statement as an executable check on (input prefix, output so far) *)
Definition forwarded (out : list mev) (e : mev) : bool := existsb (mev_eqb e) out.
Definition head_ok (es out : list mev) : bool :=
  match head_feat es out with
  | None => true
  | Some f =>
    forallb (fun e => negb (ev_eqb (snd e) (EvFeatS f)) || forwarded out e) es &&
    match head_item f es out with
    | Some (KRule r) => forallb (fun e => negb (ev_eqb (snd e) (EvRuleS f r)) || forwarded out e) es
    | _ => true
    end
  end &&
  match head_attempt es out with
  | None => true
  | Some (f, ro, sc, rt) =>
    list_eqb mev_eqb (filter (fun e => same_att f ro sc rt (snd e)) out) (filter (fun e => same_att f ro sc rt (snd e)) es)
  end.

Lemma forwarded_in out e : In e out -> forwarded out e = true.
Proof. intros H. unfold forwarded. apply existsb_exists. exists e. split; [exact H|apply mev_eqb_spec; reflexivity]. Qed.

Theorem head_ok_holds (es : list mev) : contract_prefix (map snd es) = true -> head_ok es (concat (nrun es)) = true.
Proof.
  intros CP. destruct (head_is_never_held_back es CP) as (H1 & H2 & H3). cbn zeta in *. unfold head_ok.
  apply andb_true_intro. split.
  - destruct (head_feat es (concat (nrun es))) as [f|] eqn:HF; [|reflexivity]. apply andb_true_intro. split.
    + apply forallb_forall. intros [m e] Hin. cbn [snd]. destruct (ev_eqb e (EvFeatS f)) eqn:E; [|reflexivity].
      apply ev_eqb_spec in E. subst e. cbn [negb orb]. apply forwarded_in. exact (H1 f m eq_refl Hin).
    + destruct (head_item f es (concat (nrun es))) as [[r|a]|] eqn:HIt; try reflexivity.
      apply forallb_forall. intros [m e] Hin. cbn [snd]. destruct (ev_eqb e (EvRuleS f r)) eqn:E; [|reflexivity].
      apply ev_eqb_spec in E. subst e. cbn [negb orb]. apply forwarded_in. exact (H2 f r m eq_refl HIt Hin).
  - destruct (head_attempt es (concat (nrun es))) as [[[[f ro] sc] rt]|] eqn:HA; [|reflexivity].
    apply (list_eqb_spec mev_eqb mev_eqb_spec). exact (H3 f ro sc rt eq_refl).
Qed.

(* ---------- Examples ---------- *)
(* two features running concurrently; feature 1 started first, so it is the head: its events are forwarded in the very
   call that receives them, those of feature 2 wait (calls 3, 4 and 7 forward nothing) *)
Definition exA : list mev :=
  [ (1, EvStarted); (2, EvFeatS 1); (3, EvFeatS 2); (4, EvScen 2 None 7 None ScStarted);
    (5, EvScen 1 None 5 None ScStarted); (6, EvScen 1 None 5 None (ScStep 9 StStarted)); (7, EvScen 2 None 7 None ScFinished) ].

Example exA_per_call_outputs :
  contract_prefix (map snd exA) = true /\
  map (map fst) (nrun exA) = [[1]; [2]; []; []; [5]; [6]; []] /\
  head_feat exA (concat (nrun exA)) = Some 1 /\
  head_attempt exA (concat (nrun exA)) = Some (1, None, 5, None) /\
  map fst (held exA (concat (nrun exA))) = [3; 4; 7] /\
  head_ok exA (concat (nrun exA)) = true.
Proof. vm_compute. repeat split; reflexivity. Qed.

(* the same with a rule: the head is attempt (6, retry 0 of 1) of rule 4 of feature 1; when it finishes and its retry starts,
   the retry becomes the head and is forwarded at once *)
Definition exA2 : list mev :=
  [ (1, EvStarted); (2, EvFeatS 1); (3, EvFeatS 2); (4, EvRuleS 2 8); (5, EvRuleS 1 4);
    (6, EvScen 2 (Some 8) 7 None ScStarted); (7, EvScen 1 (Some 4) 6 (Some (0, 1)) ScStarted);
    (8, EvScen 1 (Some 4) 6 (Some (0, 1)) (ScStep 9 (StFailed (EPanic 3)))); (9, EvScen 2 (Some 8) 7 None ScFinished);
    (10, EvScen 1 (Some 4) 6 (Some (0, 1)) ScFinished); (11, EvScen 1 (Some 4) 6 (Some (1, 0)) ScStarted) ].
Example exA2_per_call_outputs :
  contract_prefix (map snd exA2) = true /\
  map (map fst) (nrun exA2) = [[1]; [2]; []; []; [5]; []; [7]; [8]; []; [10]; [11]] /\
  head_attempt exA2 (concat (nrun exA2)) = Some (1, Some 4, 6, Some (1, 0)) /\
  head_attempt (firstn 9 exA2) (concat (nrun (firstn 9 exA2))) = Some (1, Some 4, 6, Some (0, 1)) /\
  head_ok exA2 (concat (nrun exA2)) = true.
Proof. vm_compute. repeat split; reflexivity. Qed.

(* A LAZY normalizer: pass-through events at once, but the events of a feature only once the whole feature can be
   forwarded (obtained from the model's output by keeping, of each feature, nothing until its Finished is out).
   It is lossless, sequential and order-preserving on every complete stream (there it coincides with the model), and
   "flushing again yields nothing" holds for it just as well — but it VIOLATES the observable statement. *)
Definition ev_feature (e : ev) : option N :=
  match e with EvFeatS f | EvFeatF f | EvRuleS f _ | EvRuleF f _ | EvScen f _ _ _ _ => Some f | _ => None end.
Definition lazy_out (es : list mev) : list mev :=
  let out := concat (nrun es) in
  filter (fun e => match ev_feature (snd e) with Some f => emitted out (EvFeatF f) | None => true end) out.

Example lazy_variant_violates_the_statement :
  map fst (lazy_out exA) = [1] /\
  head_feat exA (lazy_out exA) = Some 1 /\ In (2, EvFeatS 1) exA /\ ~ In (2, EvFeatS 1) (lazy_out exA) /\
  head_attempt exA (lazy_out exA) = Some (1, None, 5, None) /\
  filter (fun e => same_att 1 None 5 None (snd e)) (lazy_out exA) <> filter (fun e => same_att 1 None 5 None (snd e)) exA /\
  head_ok exA (lazy_out exA) = false /\ head_ok exA2 (lazy_out exA2) = false.
Proof.
  split; [vm_compute; reflexivity|]. split; [vm_compute; reflexivity|]. split; [right; left; reflexivity|].
  split; [vm_compute; intros [X|[]]; discriminate X|]. split; [vm_compute; reflexivity|].
  split; [vm_compute; discriminate|]. split; vm_compute; reflexivity.
Qed.

(* ... while on a complete stream the lazy variant and the model hand on exactly the same list *)
Example lazy_variant_same_on_complete_stream :
  let es := exA ++ [(8, EvScen 1 None 5 None ScFinished); (9, EvFeatF 1); (10, EvFeatF 2); (11, EvFinished)] in
  contract (map snd es) = true /\ lazy_out es = concat (nrun es) /\
  map fst (concat (nrun es)) = [1; 2; 5; 6; 8; 9; 3; 4; 7; 10; 11].
Proof. vm_compute. repeat split; reflexivity. Qed.

(* ... hence after EVERY call of a run on a complete contract-abiding stream: the first n calls have handled the prefix
   `firstn n es` and produced `concat (firstn n (nrun es))` *)
Lemma nrun_firstn : forall n es s, firstn n (nrun_from s es) = nrun_from s (firstn n es).
Proof.
  induction n as [|n IH]; intros es s; [reflexivity|]. destruct es as [|e t]; [reflexivity|].
  cbn [nrun_from firstn]. destruct (nhandle s e) as [s' o]. cbn [firstn]. f_equal. apply IH.
Qed.
Lemma contract_prefix_firstn (es : list mev) n : contract (map snd es) = true -> contract_prefix (map snd (firstn n es)) = true.
Proof.
  intros C. unfold contract in C. destruct (crun false cinit (map snd es)) as [c|] eqn:CR; [|discriminate].
  rewrite <- (firstn_skipn n es), map_app, crun_app in CR. unfold contract_prefix.
  destruct (crun false cinit (map snd (firstn n es))) eqn:E; [reflexivity|]. unfold mev in *. rewrite E in CR. discriminate CR.
Qed.
Corollary head_ok_after_every_call (es : list mev) n : contract (map snd es) = true ->
  head_ok (firstn n es) (concat (firstn n (nrun es))) = true.
Proof.
  intros C. unfold nrun. rewrite nrun_firstn. apply head_ok_holds. apply contract_prefix_firstn. exact C.
Qed.

End RA.

(* ====================================================================================================== *)
(* PART B — C02: the mapping declared outcome -> result event of a step                                    *)
(* ====================================================================================================== *)
Module RB.
Import Model.Attempt Model.AttemptSpec Proofs.AttemptP Proofs.AttemptP2.

(* the declared steps of an attempt in execution order, each with its background flag and its outcome *)
Definition tstep := (bool * (N * step_outcome))%type.
Definition tagged (i : attempt_in) : list tstep :=
  map (pair true) (ai_fbg i) ++ map (pair true) (ai_rbg i) ++ map (pair false) (ai_steps i).

(* THE MAPPING outcome -> result event of a step that is executed.  `we`: a World already exists (a before hook ran, or
   an earlier step matched); `w`: what World::new() does in this attempt *)
Definition ok_result (pan : option N) : stepev := match pan with None => StPassed | Some p => StFailed (EPanic p) end.
Definition step_result (we : bool) (w : world_outcome) (o : step_outcome) : stepev :=
  match o with
  | ONoMatch => StSkipped                                   (* no matching definition *)
  | OAmbiguous => StFailed EAmbiguous                       (* several matching definitions *)
  | OMatch pan =>
    if we then ok_result pan
    else match w with
         | WOk => ok_result pan
         | wf => StFailed (EPanic (world_fail_payload wf))  (* the World cannot be created *)
         end
  end.

(* the step phase, as the property text describes it: each step Started + its result, stop after the first non-Passed;
   a Failed result is DEFERRED (it is emitted after the after hook has run, before the after-hook events) *)
Inductive sstate := Running (we : bool) | Stopped (deferred : list scev).
Fixpoint spec_steps (we : bool) (w : world_outcome) (l : list tstep) : list scev * sstate :=
  match l with
  | [] => ([], Running we)
  | (bg, (id, o)) :: t =>
    match step_result we w o with
    | StPassed => let '(evs, s) := spec_steps true w t in (step_ev bg id StStarted :: step_ev bg id StPassed :: evs, s)
    | StSkipped => ([step_ev bg id StStarted; step_ev bg id StSkipped], Stopped [])
    | StFailed k => ([step_ev bg id StStarted], Stopped [step_ev bg id (StFailed k)])
    | StStarted => ([], Stopped [])
    end
  end.
Definition deferred_evs (s : sstate) : list scev := match s with Running _ => [] | Stopped d => d end.

(* the whole event list of an attempt, from the declared outcomes *)
Definition spec_events (i : attempt_in) : list scev :=
  let tail := after_evs (ai_after i) ++ [ScFinished] in
  let steps we := let '(evs, s) := spec_steps we (ai_world i) (tagged i) in evs ++ deferred_evs s ++ tail in
  ScStarted ::
  match ai_before i with
  | None => steps false
  | Some hook =>
    ScHook true HStarted ::
    match ai_world i with
    | WOk => match hook with
             | None => ScHook true HPassed :: steps true
             | Some p => ScHook true (HFailed p) :: tail
             end
    | wf => ScHook true (HFailed (world_fail_payload wf)) :: tail
    end
  end.

Lemma spec_steps_app w : forall l1 we l2,
  spec_steps we w (l1 ++ l2) =
  match spec_steps we w l1 with
  | (e1, Running we') => let '(e2, s2) := spec_steps we' w l2 in (e1 ++ e2, s2)
  | (e1, Stopped d) => (e1, Stopped d)
  end.
Proof.
  induction l1 as [|[bg [id o]] t IH]; intros we l2; cbn [app spec_steps].
  - destruct (spec_steps we w l2) as [e2 s2]. reflexivity.
  - destruct (step_result we w o); try reflexivity.
    rewrite (IH true l2). destruct (spec_steps true w t) as [e1 [we'|d]].
    + destruct (spec_steps we' w l2) as [e2 s2]. reflexivity.
    + reflexivity.
Qed.

(* the model's step loop against the mapping *)
Definition srel (r : option world + failure) (s : sstate) : Prop :=
  match r, s with
  | inl wo, Running we => is_some wo = we
  | inr f, Stopped d => deferred f = d /\ not_before f
  | _, _ => False
  end.

Lemma run_steps_rel i bg l : forall a wo,
  a_evs (fst (run_steps i bg a wo l)) = a_evs a ++ fst (spec_steps (is_some wo) (ai_world i) (map (pair bg) l)) /\
  srel (snd (run_steps i bg a wo l)) (snd (spec_steps (is_some wo) (ai_world i) (map (pair bg) l))).
Proof.
  induction l as [|[id o] t IH]; intros a wo; cbn [run_steps map spec_steps fst snd].
  - rewrite app_nil_r. split; reflexivity.
  - unfold run_step. cbn [fst snd].
    assert (PASS : forall a1 w1, a_evs a1 = a_evs a ++ [step_ev bg id StStarted; step_ev bg id StPassed] ->
              let r := run_steps i bg a1 (Some w1) t in let sp := spec_steps true (ai_world i) (map (pair bg) t) in
              a_evs (fst r) = a_evs a ++ step_ev bg id StStarted :: step_ev bg id StPassed :: fst sp /\ srel (snd r) (snd sp)).
    { intros a1 w1 E. cbn zeta. destruct (IH a1 (Some w1)) as [E1 R1]. cbn [is_some] in *. split; [|exact R1].
      rewrite E1, E, <- app_assoc. reflexivity. }
    destruct o as [| |pan]; cbn [step_result].
    + cbn. rewrite <- app_assoc. split; [reflexivity|]. split; [reflexivity|exact I].
    + cbn. split; [reflexivity|]. split; [reflexivity|exact I].
    + destruct wo as [w0|]; cbn [is_some].
      * destruct pan as [p|]; cbn [ok_result].
        -- cbn. split; [reflexivity|]. split; [reflexivity|exact I].
        -- destruct (spec_steps true (ai_world i) (map (pair bg) t)) as [evs s] eqn:SP.
           specialize (PASS (emit (call (emit a (step_ev bg id StStarted)) (CStep id w0)) (step_ev bg id StPassed)) (w0 ++ [id])).
           cbn zeta in PASS. cbn [fst snd] in *. apply PASS. cbn. rewrite <- app_assoc. reflexivity.
      * destruct (ai_world i) eqn:AW.
        -- destruct pan as [p|]; cbn [ok_result].
           ++ cbn. split; [reflexivity|]. split; [reflexivity|exact I].
           ++ destruct (spec_steps true WOk (map (pair bg) t)) as [evs s] eqn:SP.
              specialize (PASS (emit (call (call (emit a (step_ev bg id StStarted)) CWorldNew) (CStep id [])) (step_ev bg id StPassed)) ([] ++ [id])).
              cbn zeta in PASS. cbn [fst snd] in *. apply PASS. cbn. rewrite <- app_assoc. reflexivity.
        -- cbn. split; [reflexivity|]. split; [reflexivity|exact I].
        -- cbn. split; [reflexivity|]. split; [reflexivity|exact I].
Qed.

Definition prel (pre : list scev) (r : acc * (option world + failure)) (sp : list scev * sstate) : Prop :=
  a_evs (fst r) = pre ++ fst sp /\ srel (snd r) (snd sp).

Lemma bind_steps_rel i bg l pre r we0 L :
  prel pre r (spec_steps we0 (ai_world i) L) ->
  prel pre (bind_steps i bg l r) (spec_steps we0 (ai_world i) (L ++ map (pair bg) l)).
Proof.
  intros [E S]. rewrite spec_steps_app. destruct (spec_steps we0 (ai_world i) L) as [e1 s1]. cbn [fst snd] in *.
  destruct r as [a [wo|f]]; destruct s1 as [we'|d]; cbn [fst snd srel] in *; try contradiction; cbn [bind_steps fst snd] in *.
  - subst we'. destruct (run_steps_rel i bg l a wo) as [E2 S2].
    destruct (spec_steps (is_some wo) (ai_world i) (map (pair bg) l)) as [e2 s2]. cbn [fst snd] in *.
    split; [rewrite E2, E, <- app_assoc; reflexivity|exact S2].
  - split; [exact E|exact S].
Qed.

(* THE MAPPING THEOREM, whole-list form: the events of an attempt are EXACTLY the ones determined by the declared
   outcomes through `step_result` *)
Theorem events_are_the_mapping i : ao_events (run_attempt i) = spec_events i.
Proof.
  rewrite events_shape. unfold spec_events, phases.
  assert (STEPS : forall pre we rb, prel pre rb (spec_steps we (ai_world i) []) ->
            let r := bind_steps i false (ai_steps i) (bind_steps i true (ai_rbg i) (bind_steps i true (ai_fbg i) rb)) in
            a_evs (fst r) ++ deferred_of (snd r) ++ after_evs (ai_after i) ++ [ScFinished] =
            pre ++ (let '(evs, s) := spec_steps we (ai_world i) (tagged i) in evs ++ deferred_evs s ++ after_evs (ai_after i) ++ [ScFinished])).
  { intros pre we rb P. cbn zeta.
    apply (bind_steps_rel i true (ai_fbg i)) in P. apply (bind_steps_rel i true (ai_rbg i)) in P.
    apply (bind_steps_rel i false (ai_steps i)) in P. cbn [app] in P. rewrite <- app_assoc in P. unfold tagged.
    destruct P as [E S]. destruct (spec_steps we (ai_world i) _) as [evs s]. cbn [fst snd] in *.
    rewrite E, <- app_assoc. f_equal. f_equal.
    destruct (snd (bind_steps i false (ai_steps i) (bind_steps i true (ai_rbg i) (bind_steps i true (ai_fbg i) rb)))) as [wo|f];
      destruct s as [we'|d]; cbn [srel] in S; try contradiction; cbn [deferred_of deferred_evs].
    - reflexivity.
    - destruct S as [<- _]. reflexivity. }
  unfold run_before. destruct (ai_before i) as [hook|].
  - destruct (ai_world i) eqn:AW.
    + destruct hook as [p|].
      * reflexivity.
      * specialize (STEPS [ScStarted; ScHook true HStarted; ScHook true HPassed] true
                      (emit (call (call (emit (mk_acc [ScStarted] []) (ScHook true HStarted)) CWorldNew) (CBefore [])) (ScHook true HPassed), inl (Some [before_mark]))).
        cbn zeta in STEPS. apply STEPS. split; [reflexivity|reflexivity].
    + reflexivity.
    + reflexivity.
  - specialize (STEPS [ScStarted] false (mk_acc [ScStarted] [], inl None)). cbn zeta in STEPS. apply STEPS. split; reflexivity.
Qed.


(* ---------- the readable, per-step form ---------- *)
(* all the steps of `pre` have the result Passed (so the next declared step is executed) *)
Fixpoint passes (we : bool) (w : world_outcome) (pre : list tstep) : bool :=
  match pre with
  | [] => true
  | (_, (_, o)) :: t => match step_result we w o with StPassed => passes true w t | _ => false end
  end.
Definition passed_evs (pre : list tstep) : list scev :=
  flat_map (fun x => [step_ev (fst x) (fst (snd x)) StStarted; step_ev (fst x) (fst (snd x)) StPassed]) pre.
Definition is_nil {A} (l : list A) : bool := match l with [] => true | _ => false end.

Lemma spec_steps_passes w : forall pre we, passes we w pre = true ->
  spec_steps we w pre = (passed_evs pre, Running (we || negb (is_nil pre))).
Proof.
  induction pre as [|[bg [id o]] t IH]; intros we P; cbn [spec_steps passes passed_evs flat_map is_nil negb] in *.
  - rewrite orb_false_r. reflexivity.
  - destruct (step_result we w o); try discriminate P. rewrite (IH true P). cbn [fst snd app]. rewrite orb_true_r. reflexivity.
Qed.

(* the before hook does not stop the attempt: no hook (no World yet), or a hook that passes on a World that could be
   created; `Some (its events, a World exists afterwards)` *)
Definition before_lets_steps_run (i : attempt_in) : option (list scev * bool) :=
  match ai_before i with
  | None => Some ([], false)
  | Some None => match ai_world i with WOk => Some ([ScHook true HStarted; ScHook true HPassed], true) | _ => None end
  | Some (Some _) => None
  end.

(* THE MAPPING THEOREM, per step.  Take the k-th declared step (feature background, rule background, own steps, in
   this order) `(bg, st)` with declared outcome `o`, all steps before it having passed.  Then the events of the attempt
   are: Started, the before-hook pair (if any), Started+Passed of every earlier step in declaration order, the step's
   Started, and then its RESULT EVENT, which is
     no matching definition        -> Skipped,             then the after-hook events and Finished (no later step runs);
     several matching definitions  -> Failed(Ambiguous),   then the after-hook events and Finished (no later step runs);
     the World cannot be created   -> Failed(Panic payload of World::new), likewise;
     the step panics with p        -> Failed(Panic p),     likewise;
     otherwise                     -> Passed, and the attempt goes on.
   In the three Failed cases the Failed event comes BEFORE the after-hook events. *)
Theorem outcome_event_mapping i bev we0 (pre : list tstep) bg st o (post : list tstep) :
  before_lets_steps_run i = Some (bev, we0) ->
  tagged i = pre ++ (bg, (st, o)) :: post ->
  passes we0 (ai_world i) pre = true ->
  let a := ScStarted :: bev ++ passed_evs pre in
  let tail := after_evs (ai_after i) ++ [ScFinished] in
  match step_result (we0 || negb (is_nil pre)) (ai_world i) o with
  | StPassed => exists b, ao_events (run_attempt i) = a ++ step_ev bg st StStarted :: step_ev bg st StPassed :: b
  | StSkipped => ao_events (run_attempt i) = a ++ step_ev bg st StStarted :: step_ev bg st StSkipped :: tail
  | StFailed k => ao_events (run_attempt i) = a ++ step_ev bg st StStarted :: step_ev bg st (StFailed k) :: tail
  | StStarted => False
  end.
Proof.
  intros HB TG PS. cbn zeta. rewrite events_are_the_mapping. unfold spec_events.
  assert (SP : spec_steps we0 (ai_world i) (tagged i) =
               match step_result (we0 || negb (is_nil pre)) (ai_world i) o with
               | StPassed => let '(evs, s) := spec_steps true (ai_world i) post in
                             (passed_evs pre ++ step_ev bg st StStarted :: step_ev bg st StPassed :: evs, s)
               | StSkipped => (passed_evs pre ++ [step_ev bg st StStarted; step_ev bg st StSkipped], Stopped [])
               | StFailed k => (passed_evs pre ++ [step_ev bg st StStarted], Stopped [step_ev bg st (StFailed k)])
               | StStarted => (passed_evs pre ++ [], Stopped [])
               end).
  { rewrite TG, spec_steps_app, (spec_steps_passes _ pre we0 PS). cbn [spec_steps].
    destruct (step_result (we0 || negb (is_nil pre)) (ai_world i) o); try reflexivity.
    destruct (spec_steps true (ai_world i) post) as [evs s]. reflexivity. }
  assert (NS : step_result (we0 || negb (is_nil pre)) (ai_world i) o <> StStarted).
  { unfold step_result, ok_result. destruct o as [| |[p|]]; try discriminate; destruct (we0 || negb (is_nil pre)); try discriminate;
      destruct (ai_world i); discriminate. }
  assert (GO : forall we, we = we0 -> forall l,
     (let '(evs, s) := spec_steps we (ai_world i) (tagged i) in evs ++ deferred_evs s ++ after_evs (ai_after i) ++ [ScFinished]) = l ->
     match step_result (we0 || negb (is_nil pre)) (ai_world i) o with
     | StPassed => exists b, l = passed_evs pre ++ step_ev bg st StStarted :: step_ev bg st StPassed :: b
     | StSkipped => l = passed_evs pre ++ step_ev bg st StStarted :: step_ev bg st StSkipped :: after_evs (ai_after i) ++ [ScFinished]
     | StFailed k => l = passed_evs pre ++ step_ev bg st StStarted :: step_ev bg st (StFailed k) :: after_evs (ai_after i) ++ [ScFinished]
     | StStarted => False
     end).
  { intros we -> l <-. rewrite SP. destruct (step_result (we0 || negb (is_nil pre)) (ai_world i) o) eqn:SR.
    - exact (NS eq_refl).
    - destruct (spec_steps true (ai_world i) post) as [evs s]. eexists. rewrite <- app_assoc. cbn [app]. reflexivity.
    - cbn [deferred_evs app]. rewrite <- app_assoc. reflexivity.
    - cbn [deferred_evs app]. rewrite <- app_assoc. reflexivity. }
  unfold before_lets_steps_run in HB. destruct (ai_before i) as [[p|]|].
  - discriminate HB.
  - destruct (ai_world i) eqn:AW; try discriminate HB. inversion HB; subst bev we0. cbn [app].
    specialize (GO true eq_refl _ eq_refl).
    destruct (step_result (true || negb (is_nil pre)) WOk o).
    + exact GO.
    + destruct GO as (b & ->). eexists. reflexivity.
    + rewrite GO. reflexivity.
    + rewrite GO. reflexivity.
  - inversion HB; subst bev we0. cbn [app].
    specialize (GO false eq_refl _ eq_refl).
    destruct (step_result (false || negb (is_nil pre)) (ai_world i) o).
    + exact GO.
    + destruct GO as (b & ->). eexists. reflexivity.
    + rewrite GO. reflexivity.
    + rewrite GO. reflexivity.
Qed.

(* ... and when the before hook fails (it panics, or its World cannot be created) NO step runs, and the Failed event
   with the payload precedes the after-hook events *)
Theorem before_failure_mapping i hook :
  ai_before i = Some hook ->
  match ai_world i, hook with
  | WOk, None => True
  | WOk, Some p =>
    ao_events (run_attempt i) = [ScStarted; ScHook true HStarted; ScHook true (HFailed p)] ++ after_evs (ai_after i) ++ [ScFinished]
  | wf, _ =>
    ao_events (run_attempt i) =
    [ScStarted; ScHook true HStarted; ScHook true (HFailed (world_fail_payload wf))] ++ after_evs (ai_after i) ++ [ScFinished]
  end.
Proof.
  intros HB. rewrite events_are_the_mapping. unfold spec_events. rewrite HB.
  destruct (ai_world i); destruct hook; try exact I; reflexivity.
Qed.

(* ---------- the executable predicate: events vs DECLARED OUTCOMES (wf_events only knows (is_bg, id)) ---------- *)
Definition events_match_outcomes (i : attempt_in) (evs : list scev) : bool := list_eqb scev_eqb evs (spec_events i).

Theorem events_match_outcomes_holds i : events_match_outcomes i (ao_events (run_attempt i)) = true.
Proof.
  unfold events_match_outcomes. apply (list_eqb_spec scev_eqb scev_eqb_spec). apply events_are_the_mapping.
Qed.

(* it is stronger than wf_events *)
Theorem events_match_outcomes_implies_wf i evs :
  events_match_outcomes i evs = true ->
  wf_events (is_some (ai_before i)) (is_some (ai_after i)) (all_decl i) evs = true.
Proof.
  unfold events_match_outcomes. intros H. apply (list_eqb_spec scev_eqb scev_eqb_spec) in H. subst evs.
  rewrite <- events_are_the_mapping. apply attempt_wf.
Qed.

(* the reviewer's witness: the after hook panics with 9, the list shows it Passed.  wf_events accepts the list
   (it never looks at outcomes); events_match_outcomes rejects it; and it is not what the model produces *)
Definition i8 : attempt_in := mk_attempt_in None (Some (Some 9)) WOk [] [] [(12, OMatch None)] None.
Definition witness8 : list scev :=
  [ScStarted; ScStep 12 StStarted; ScStep 12 StPassed; ScHook false HStarted; ScHook false HPassed; ScFinished].

Example witness8_is_accepted_by_wf_events :
  wf_events (is_some (ai_before i8)) (is_some (ai_after i8)) (all_decl i8) witness8 = true.
Proof. vm_compute. reflexivity. Qed.
Example witness8_is_rejected : events_match_outcomes i8 witness8 = false.
Proof. vm_compute. reflexivity. Qed.
Theorem witness8_is_not_produced : witness8 <> ao_events (run_attempt i8).
Proof.
  intros H. pose proof (events_match_outcomes_holds i8) as X. rewrite <- H in X.
  rewrite witness8_is_rejected in X. discriminate X.
Qed.
Example i8_events :
  ao_events (run_attempt i8) =
  [ScStarted; ScStep 12 StStarted; ScStep 12 StPassed; ScHook false HStarted; ScHook false (HFailed 9); ScFinished].
Proof. vm_compute. reflexivity. Qed.

(* the four non-Passed outcomes, concretely *)
Example mapping_examples :
  (* no matching definition: Skipped, the later step does not run *)
  ao_events (run_attempt (mk_attempt_in None (Some None) WOk [(10, OMatch None)] [] [(11, ONoMatch); (12, OMatch None)] None))
  = [ScStarted; ScBg 10 StStarted; ScBg 10 StPassed; ScStep 11 StStarted; ScStep 11 StSkipped;
     ScHook false HStarted; ScHook false HPassed; ScFinished] /\
  (* ambiguous: Failed(Ambiguous) before the after-hook events *)
  ao_events (run_attempt (mk_attempt_in None (Some None) WOk [] [(10, OAmbiguous)] [(11, OMatch None)] None))
  = [ScStarted; ScBg 10 StStarted; ScBg 10 (StFailed EAmbiguous); ScHook false HStarted; ScHook false HPassed; ScFinished] /\
  (* the World cannot be created (Err 4 -> payload 2004): Failed with that payload *)
  ao_events (run_attempt (mk_attempt_in None (Some None) (WErr 4) [] [] [(11, OMatch None)] None))
  = [ScStarted; ScStep 11 StStarted; ScStep 11 (StFailed (EPanic 2004)); ScHook false HStarted; ScHook false HPassed; ScFinished] /\
  (* a panic with payload 5 *)
  ao_events (run_attempt (mk_attempt_in (Some None) None WOk [] [] [(11, OMatch (Some 5)); (12, OMatch None)] None))
  = [ScStarted; ScHook true HStarted; ScHook true HPassed; ScStep 11 StStarted; ScStep 11 (StFailed (EPanic 5)); ScFinished].
Proof. vm_compute. repeat split; reflexivity. Qed.

End RB.

(* ====================================================================================================== *)
(* PART C — C09: World instance ids in the callback log; step callbacks vs events                          *)
(* ====================================================================================================== *)
Module RC.
Import Model.Attempt Model.AttemptSpec Proofs.AttemptP Proofs.AttemptP2.

(* ---------- C09 with World instance ids ---------- *)
(* c09_ok looks at the ids only through `same_instance`, at everything else through the callbacks *)
Lemma c09_ok_ids hb ha evs (o1 o2 : list ocall) :
  map fst o1 = map fst o2 -> same_instance o1 = same_instance o2 -> c09_ok hb ha evs o1 = c09_ok hb ha evs o2.
Proof. intros E S. unfold c09_ok. rewrite E, S. reflexivity. Qed.

Definition ids_of (ocs : list ocall) : list N := flat_map (fun c => match snd c with Some w => [w] | None => [] end) ocs.

Lemma same_instance_all w (ocs : list ocall) :
  (forall c o, In (c, o) ocs -> o = None \/ o = Some w) -> same_instance ocs = true.
Proof.
  intros H. unfold same_instance. fold (ids_of ocs).
  assert (A : forall x, In x (ids_of ocs) -> x = w).
  { intros x Hx. unfold ids_of in Hx. apply in_flat_map in Hx as ([c o] & Hin & Hx). cbn [snd] in Hx.
    destruct (H c o Hin) as [-> | ->]; [destruct Hx|destruct Hx as [<-|[]]; reflexivity]. }
  destruct (ids_of ocs) as [|x t]; [reflexivity|]. apply forallb_forall. intros y Hy. apply N.eqb_eq.
  rewrite (A x (or_introl eq_refl)), (A y (or_intror Hy)). reflexivity.
Qed.

(* which callbacks receive (or create) the World of the attempt *)
Definition sees_world (c : callback) : bool :=
  match c with CWorldNew | CBefore _ | CStep _ _ | CAfter _ (Some _) => true | CAfter _ None => false end.
(* the attempt's callback log with the id of its single World instance *)
Definition tag_calls (w : N) (cs : list callback) : list ocall := map (fun c => (c, if sees_world c then Some w else None)) cs.

Lemma map_fst_combine (cs : list callback) : forall (ids : list (option N)), length ids = length cs -> map fst (combine cs ids) = cs.
Proof.
  induction cs as [|c cs IH]; intros [|x ids] L; try reflexivity; try discriminate L.
  cbn [combine map fst]. f_equal. apply IH. cbn in L. lia.
Qed.

(* THE VERSION WITH IDS, general form: whatever ids are attached to the callbacks of the attempt, as long as every
   attached id is the one id `w`, the recogniser accepts *)
Theorem c09_with_one_instance i w (ids : list (option N)) :
  length ids = length (ao_calls (run_attempt i)) ->
  (forall o, In o ids -> o = None \/ o = Some w) ->
  c09_ok (is_some (ai_before i)) (is_some (ai_after i)) (ao_events (run_attempt i))
         (combine (ao_calls (run_attempt i)) ids) = true.
Proof.
  intros L H. rewrite <- (attempt_c09 i). apply c09_ok_ids.
  - rewrite (map_fst_combine _ ids L), map_fst_none. reflexivity.
  - rewrite same_instance_none. apply (same_instance_all w). intros c o Hin. apply H. exact (in_combine_r _ _ _ _ Hin).
Qed.

(* ... in particular with every callback that receives the World tagged `Some w` *)
Theorem c09_with_the_attempts_world i w :
  c09_ok (is_some (ai_before i)) (is_some (ai_after i)) (ao_events (run_attempt i))
         (tag_calls w (ao_calls (run_attempt i))) = true.
Proof.
  rewrite <- (attempt_c09 i). apply c09_ok_ids.
  - unfold tag_calls. rewrite map_map, map_fst_none. cbn [fst]. apply map_id.
  - rewrite same_instance_none. apply (same_instance_all w). intros c o Hin. unfold tag_calls in Hin.
    apply in_map_iff in Hin as (c0 & E & _). inversion E as [[E1 E2]]. destruct (sees_world c); auto.
Qed.

(* two different instances are rejected, whatever else the log says *)
Lemma forallb_false_in {A} (p : A -> bool) l x : In x l -> p x = false -> forallb p l = false.
Proof.
  intros Hin Hp. destruct (forallb p l) eqn:E; [|reflexivity]. rewrite forallb_forall in E. rewrite (E x Hin) in Hp. discriminate.
Qed.
Lemma same_instance_two (ocs : list ocall) c1 c2 w1 w2 :
  In (c1, Some w1) ocs -> In (c2, Some w2) ocs -> w1 <> w2 -> same_instance ocs = false.
Proof.
  intros H1 H2 NE. unfold same_instance. fold (ids_of ocs).
  assert (I1 : In w1 (ids_of ocs)) by (apply in_flat_map; exists (c1, Some w1); split; [exact H1|left; reflexivity]).
  assert (I2 : In w2 (ids_of ocs)) by (apply in_flat_map; exists (c2, Some w2); split; [exact H2|left; reflexivity]).
  destruct (ids_of ocs) as [|x t]; [destruct I1|].
  destruct (N.eq_dec x w1) as [->|N1].
  - destruct I2 as [E|I2]; [congruence|]. apply (forallb_false_in _ _ w2 I2). apply N.eqb_neq. exact NE.
  - destruct I1 as [E|I1]; [congruence|]. apply (forallb_false_in _ _ w1 I1). apply N.eqb_neq. exact N1.
Qed.
Theorem c09_rejects_two_instances hb ha evs (ocs : list ocall) c1 c2 w1 w2 :
  In (c1, Some w1) ocs -> In (c2, Some w2) ocs -> w1 <> w2 -> c09_ok hb ha evs ocs = false.
Proof.
  intros H1 H2 NE. unfold c09_ok. rewrite (same_instance_two ocs c1 c2 w1 w2 H1 H2 NE).
  rewrite !andb_false_r. reflexivity.
Qed.

Definition i9 : attempt_in :=
  mk_attempt_in (Some None) (Some None) WOk [(10, OMatch None)] [] [(11, OMatch (Some 5)); (12, OMatch None)] None.
Example c09_one_instance_accepted :
  tag_calls 7 (ao_calls (run_attempt i9)) =
  [(CWorldNew, Some 7); (CBefore [], Some 7); (CStep 10 [0], Some 7); (CStep 11 [0; 10], Some 7);
   (CAfter (RStepFailed (EPanic 5)) (Some [0; 10; 11]), Some 7)] /\
  c09_ok true true (ao_events (run_attempt i9)) (tag_calls 7 (ao_calls (run_attempt i9))) = true.
Proof. vm_compute. split; reflexivity. Qed.
Example c09_two_instances_rejected :
  c09_ok true true (ao_events (run_attempt i9))
    [(CWorldNew, Some 7); (CBefore [], Some 7); (CStep 10 [0], Some 7); (CStep 11 [0; 10], Some 8);
     (CAfter (RStepFailed (EPanic 5)) (Some [0; 10; 11]), Some 8)] = false.
Proof. vm_compute. reflexivity. Qed.

(* ---------- callbacks vs events: WHICH step functions ran ---------- *)
(* c09_ok does not relate the ids of the step callbacks to the events: *)
Example c09_accepts_foreign_step_ids :
  c09_ok false false
    [ScStarted; ScStep 10 StStarted; ScStep 10 StPassed; ScStep 11 StStarted; ScStep 11 StPassed; ScFinished]
    (map (fun c => (c, None)) [CWorldNew; CStep 77 []; CStep 78 [77]; CStep 79 [77; 78]]) = true.
Proof. vm_compute. reflexivity. Qed.

(* the steps whose function was called, as far as the events tell: result Passed, or Failed with a panic payload *)
Definition called_of (e : scev) : list N :=
  match e with
  | ScBg st StPassed | ScStep st StPassed | ScBg st (StFailed (EPanic _)) | ScStep st (StFailed (EPanic _)) => [st]
  | _ => []
  end.
Definition passed_of (e : scev) : list N := match e with ScBg st StPassed | ScStep st StPassed => [st] | _ => [] end.
Definition called_steps (evs : list scev) : list N := flat_map called_of evs.
Definition passed_steps (evs : list scev) : list N := flat_map passed_of evs.
Definition step_calls (cs : list callback) : list N := flat_map (fun c => match c with CStep st _ => [st] | _ => [] end) cs.
(* a callback received a World *)
Definition world_used (cs : list callback) : bool := existsb is_before_call cs || existsb is_step_call cs.
Definition is_nil {A} (l : list A) : bool := match l with [] => true | _ => false end.

(* If some callback received a World: the step callbacks are, in order and with their ids, exactly the steps that the
   events report as Passed or as Failed with a panic payload.  If no callback ever received a World (there was nothing to
   run, or World::new() failed): no step is reported Passed, and a step reported Failed-with-payload is only possible
   when World::new() was called (the payload is that of the World). *)
Definition calls_match_events (evs : list scev) (cs : list callback) : bool :=
  if world_used cs then list_eqb N.eqb (step_calls cs) (called_steps evs)
  else is_nil (step_calls cs) && is_nil (passed_steps evs) && (existsb is_new cs || is_nil (called_steps evs)).

Example foreign_step_ids_rejected :
  calls_match_events
    [ScStarted; ScStep 10 StStarted; ScStep 10 StPassed; ScStep 11 StStarted; ScStep 11 StPassed; ScFinished]
    [CWorldNew; CStep 77 []; CStep 78 [77]; CStep 79 [77; 78]] = false.
Proof. vm_compute. reflexivity. Qed.

(* the invariant of the step phase *)
Definition evs_of (r : acc * (option world + failure)) : list scev := a_evs (fst r) ++ deferred_of (snd r).
Definition cme_inv (r : acc * (option world + failure)) : Prop :=
  let cs := a_calls (fst r) in let evs := evs_of r in
  match snd r with
  | inl None => cs = [] /\ called_steps evs = []
  | inl (Some _) => world_used cs = true /\ step_calls cs = called_steps evs
  | inr _ => (world_used cs = true /\ step_calls cs = called_steps evs) \/
             (world_used cs = false /\ step_calls cs = [] /\ passed_steps evs = [] /\
              (existsb is_new cs = true \/ called_steps evs = []))
  end.

Lemma called_app a b : called_steps (a ++ b) = called_steps a ++ called_steps b.
Proof. apply flat_map_app. Qed.
Lemma passed_app a b : passed_steps (a ++ b) = passed_steps a ++ passed_steps b.
Proof. apply flat_map_app. Qed.
Lemma step_calls_app a b : step_calls (a ++ b) = step_calls a ++ step_calls b.
Proof. apply flat_map_app. Qed.
Lemma world_used_app a b : world_used (a ++ b) = world_used a || world_used b.
Proof. unfold world_used. rewrite !existsb_app. destruct (existsb is_before_call a), (existsb is_step_call a), (existsb is_before_call b); reflexivity. Qed.
Lemma called_nil_passed evs : called_steps evs = [] -> passed_steps evs = [].
Proof.
  induction evs as [|e t IH]; [reflexivity|]. cbn [called_steps passed_steps flat_map]. intros H.
  apply app_eq_nil in H as [H1 H2]. fold (called_steps t) in H2. fold (passed_steps t). rewrite (IH H2), app_nil_r.
  destruct e as [| | st [| | |[| |p]] | st [| | |[| |p]] | |]; try reflexivity; discriminate H1.
Qed.

Definition lift (x : acc * (world + failure)) : acc * (option world + failure) :=
  (fst x, match snd x with inl w => inl (Some w) | inr f => inr f end).

Lemma run_step_cme i bg a wo s : cme_inv (a, inl wo) -> cme_inv (lift (run_step i bg a wo s)).
Proof.
  unfold cme_inv, evs_of, lift. cbn [fst snd deferred_of]. rewrite app_nil_r. intros H.
  unfold run_step. destruct s as [st o]. cbn [fst snd].
  assert (SE : forall e, called_steps [step_ev bg st StStarted] = [] /\ passed_steps [step_ev bg st StStarted] = [] /\
                         called_steps [step_ev bg st StSkipped] = [] /\ passed_steps [step_ev bg st StSkipped] = [] /\
                         called_steps [step_ev bg st (StFailed EAmbiguous)] = [] /\ passed_steps [step_ev bg st (StFailed e)] = [] /\
                         called_steps [step_ev bg st StPassed] = [st] /\ (forall p, called_steps [step_ev bg st (StFailed (EPanic p))] = [st])).
  { intros e. destruct bg; cbn; repeat split; reflexivity. }
  destruct (SE EAmbiguous) as (S1 & S2 & S3 & S4 & S5 & _ & S7 & S8).
  assert (S6 : forall e, passed_steps [step_ev bg st (StFailed e)] = []) by (intros e; destruct (SE e) as (_ & _ & _ & _ & _ & X & _); exact X).
  destruct o as [| |pan].
  - (* no match *)
    cbn [fst snd emit call a_evs a_calls deferred_of deferred]. rewrite app_nil_r, <- !app_assoc. cbn [app].
    change [step_ev bg st StStarted; step_ev bg st StSkipped] with ([step_ev bg st StStarted] ++ [step_ev bg st StSkipped]).
    rewrite !called_app, !passed_app, S1, S2, S3, S4, !app_nil_r.
    destruct wo as [w|]; [left; exact H|]. destruct H as [-> H]. right. repeat split; auto. apply called_nil_passed. exact H.
  - (* ambiguous *)
    cbn [fst snd emit call a_evs a_calls deferred_of deferred]. rewrite <- !app_assoc. cbn [app].
    change [step_ev bg st StStarted; step_ev bg st (StFailed EAmbiguous)] with ([step_ev bg st StStarted] ++ [step_ev bg st (StFailed EAmbiguous)]).
    rewrite !called_app, !passed_app, S1, S2, S5, S6, !app_nil_r.
    destruct wo as [w|]; [left; exact H|]. destruct H as [-> H]. right. repeat split; auto. apply called_nil_passed. exact H.
  - destruct wo as [w|].
    + (* a World exists *)
      destruct H as [WU SC]. destruct pan as [p|]; cbn [fst snd emit call a_evs a_calls deferred_of deferred].
      * left. rewrite world_used_app, WU, step_calls_app, SC. split; [reflexivity|].
        rewrite <- !app_assoc. cbn [app]. change [step_ev bg st StStarted; step_ev bg st (StFailed (EPanic p))]
          with ([step_ev bg st StStarted] ++ [step_ev bg st (StFailed (EPanic p))]).
        rewrite !called_app, S1, S8. reflexivity.
      * rewrite app_nil_r, world_used_app, WU, step_calls_app, SC. split; [reflexivity|].
        rewrite <- !app_assoc. cbn [app]. change [step_ev bg st StStarted; step_ev bg st StPassed]
          with ([step_ev bg st StStarted] ++ [step_ev bg st StPassed]).
        rewrite !called_app, S1, S7. reflexivity.
    + (* no World yet: World::new() is called *)
      destruct H as [E H]. destruct (ai_world i).
      * destruct pan as [p|]; cbn [fst snd emit call a_evs a_calls deferred_of deferred app]; rewrite E; cbn [app].
        -- left. split; [reflexivity|]. rewrite <- !app_assoc. cbn [app].
           change [step_ev bg st StStarted; step_ev bg st (StFailed (EPanic p))]
             with ([step_ev bg st StStarted] ++ [step_ev bg st (StFailed (EPanic p))]).
           rewrite !called_app, H, S1, S8. reflexivity.
        -- rewrite app_nil_r. split; [reflexivity|]. rewrite <- !app_assoc. cbn [app].
           change [step_ev bg st StStarted; step_ev bg st StPassed] with ([step_ev bg st StStarted] ++ [step_ev bg st StPassed]).
           rewrite !called_app, H, S1, S7. reflexivity.
      * cbn [fst snd emit call a_evs a_calls deferred_of deferred app]. rewrite E. cbn [app]. right.
        rewrite <- !app_assoc. cbn [app].
        change [step_ev bg st StStarted; step_ev bg st (StFailed (EPanic (world_fail_payload (WErr e))))]
          with ([step_ev bg st StStarted] ++ [step_ev bg st (StFailed (EPanic (world_fail_payload (WErr e))))]).
        rewrite !passed_app, (called_nil_passed _ H), S2, S6. repeat split; auto.
      * cbn [fst snd emit call a_evs a_calls deferred_of deferred app]. rewrite E. cbn [app]. right.
        rewrite <- !app_assoc. cbn [app].
        change [step_ev bg st StStarted; step_ev bg st (StFailed (EPanic (world_fail_payload (WPanic p))))]
          with ([step_ev bg st StStarted] ++ [step_ev bg st (StFailed (EPanic (world_fail_payload (WPanic p))))]).
        rewrite !passed_app, (called_nil_passed _ H), S2, S6. repeat split; auto.
Qed.

Lemma run_steps_cme i bg l : forall a wo, cme_inv (a, inl wo) -> cme_inv (run_steps i bg a wo l).
Proof.
  induction l as [|s l IH]; intros a wo H; cbn [run_steps]; [exact H|].
  pose proof (run_step_cme i bg a wo s H) as H1. unfold lift in H1.
  destruct (run_step i bg a wo s) as [a' [w|f]]; cbn [fst snd] in H1; [exact (IH a' (Some w) H1)|exact H1].
Qed.
Lemma bind_steps_cme i bg l r : cme_inv r -> cme_inv (bind_steps i bg l r).
Proof. destruct r as [a [wo|f]]; cbn [bind_steps]; [apply run_steps_cme|auto]. Qed.
Lemma run_before_cme i : cme_inv (run_before i (mk_acc [ScStarted] [])).
Proof.
  unfold run_before. destruct (ai_before i) as [hook|].
  - destruct (ai_world i); [destruct hook as [p|]|..]; unfold cme_inv, evs_of; cbn.
    + left. split; reflexivity.
    + split; reflexivity.
    + right. repeat split; auto.
    + right. repeat split; auto.
  - unfold cme_inv, evs_of. cbn. split; reflexivity.
Qed.
Lemma phases_cme i : cme_inv (phases i).
Proof. unfold phases. repeat apply bind_steps_cme. apply run_before_cme. Qed.

Lemma N_list_eqb_refl (l : list N) : list_eqb N.eqb l l = true.
Proof. apply (list_eqb_spec N.eqb N.eqb_eq). reflexivity. Qed.

(* THE MODEL SATISFIES IT: for every attempt, the step callbacks and the events agree on which step functions ran *)
Theorem calls_match_events_holds i : calls_match_events (ao_events (run_attempt i)) (ao_calls (run_attempt i)) = true.
Proof.
  pose proof (phases_cme i) as P. rewrite events_shape, calls_shape. unfold cme_inv, evs_of in P.
  set (cs := a_calls (fst (phases i))) in *. set (res := snd (phases i)) in *.
  set (aft := match ai_after i with Some _ => [CAfter (final_reason res) (final_world_of res)] | None => [] end).
  assert (A1 : world_used aft = false) by (unfold aft; destruct (ai_after i); reflexivity).
  assert (A2 : step_calls aft = []) by (unfold aft; destruct (ai_after i); reflexivity).
  assert (A3 : existsb is_new aft = false) by (unfold aft; destruct (ai_after i); reflexivity).
  assert (T1 : called_steps (after_evs (ai_after i) ++ [ScFinished]) = []) by (destruct (ai_after i) as [[p|]|]; reflexivity).
  assert (T2 : passed_steps (after_evs (ai_after i) ++ [ScFinished]) = []) by (destruct (ai_after i) as [[p|]|]; reflexivity).
  unfold calls_match_events. rewrite world_used_app, A1, orb_false_r, step_calls_app, A2, app_nil_r, existsb_app, A3, orb_false_r.
  rewrite !app_assoc, <- (app_assoc _ (after_evs (ai_after i))), called_app, passed_app, T1, T2, !app_nil_r.
  destruct res as [[w|]|f].
  - destruct P as [WU SC]. rewrite WU, SC. apply N_list_eqb_refl.
  - destruct P as [E C]. rewrite E, C, (called_nil_passed _ C). reflexivity.
  - destruct P as [[WU SC]|(WU & SC & PS & X)].
    + rewrite WU, SC. apply N_list_eqb_refl.
    + rewrite WU, SC, PS. cbn [is_nil andb]. destruct X as [-> | ->]; [reflexivity|apply orb_true_r].
Qed.


(* both together, on a log with ids: the lifecycle recogniser AND the step callbacks matching the events *)
Definition c09_strong (hb ha : bool) (evs : list scev) (ocs : list ocall) : bool :=
  c09_ok hb ha evs ocs && calls_match_events evs (map fst ocs).
Theorem c09_strong_holds i w :
  c09_strong (is_some (ai_before i)) (is_some (ai_after i)) (ao_events (run_attempt i)) (tag_calls w (ao_calls (run_attempt i))) = true.
Proof.
  unfold c09_strong. rewrite c09_with_the_attempts_world. cbn [andb].
  replace (map fst (tag_calls w (ao_calls (run_attempt i)))) with (ao_calls (run_attempt i)); [apply calls_match_events_holds|].
  unfold tag_calls. rewrite map_map. cbn [fst]. symmetry. apply map_id.
Qed.
Example c09_strong_rejects_foreign_step_ids :
  c09_strong false false
    [ScStarted; ScStep 10 StStarted; ScStep 10 StPassed; ScStep 11 StStarted; ScStep 11 StPassed; ScFinished]
    (tag_calls 3 [CWorldNew; CStep 77 []; CStep 78 [77]; CStep 79 [77; 78]]) = false.
Proof. vm_compute. reflexivity. Qed.

End RC.

(* ====================================================================================================== *)
(* THE MAIN THEOREMS, restated                                                                             *)
(* ====================================================================================================== *)

(* A. C11, observable head-liveness.  `es`: any input prefix accepted by the Runner contract automaton;
   `out`: everything handed to the inner writer while handling `es`.  HEAD (computed from `es` and `out` only):
   head feature = first feature, in the order of the Feature::Started events of `es`, whose Feature::Finished is not in `out`;
   head item    = first rule / top-level attempt of that feature, in the order of their Started events in `es`, whose
                  Finished is not in `out`;
   head attempt = that top-level attempt, or the first attempt of the head rule (order of Started in `es`) whose
                  Finished is not in `out`. *)
Theorem C11_head_is_never_held_back :
  forall es : list mev, contract_prefix (map snd es) = true ->
    let out := concat (nrun es) in
    (forall f m, RA.head_feat es out = Some f -> In (m, EvFeatS f) es -> In (m, EvFeatS f) out) /\
    (forall f r m, RA.head_feat es out = Some f -> RA.head_item f es out = Some (KRule r) ->
       In (m, EvRuleS f r) es -> In (m, EvRuleS f r) out) /\
    (forall f ro sc rt, RA.head_attempt es out = Some (f, ro, sc, rt) ->
       filter (fun e => NormalizeP7.same_att f ro sc rt (snd e)) out = filter (fun e => NormalizeP7.same_att f ro sc rt (snd e)) es).
Proof. exact RA.head_is_never_held_back. Qed.

Theorem C11_nothing_of_the_head_is_held :
  forall es : list mev, contract_prefix (map snd es) = true ->
    let out := concat (nrun es) in
    (forall f m, RA.head_feat es out = Some f -> ~ In (m, EvFeatS f) (RA.held es out)) /\
    (forall f r m, RA.head_feat es out = Some f -> RA.head_item f es out = Some (KRule r) -> ~ In (m, EvRuleS f r) (RA.held es out)) /\
    (forall f ro sc rt e, RA.head_attempt es out = Some (f, ro, sc, rt) -> In e (RA.held es out) ->
       NormalizeP7.same_att f ro sc rt (snd e) = false).
Proof. exact RA.nothing_of_the_head_is_held. Qed.

(* `held` really is "input minus output": *)
Theorem C11_held_is_input_minus_output :
  forall es : list mev, contract_prefix (map snd es) = true -> Permutation (concat (nrun es) ++ RA.held es (concat (nrun es))) es.
Proof.
  intros es CP. destruct (RA.head_facts es CP) as (P & _). cbn zeta in P.
  rewrite (RA.held_perm _ _ _ P). exact P.
Qed.

(* the executable form, after every call of a run on a complete contract-abiding stream *)
Theorem C11_head_ok_after_every_call :
  forall (es : list mev) n, contract (map snd es) = true -> RA.head_ok (firstn n es) (concat (firstn n (nrun es))) = true.
Proof. exact RA.head_ok_after_every_call. Qed.

(* B. C02, outcome -> event *)
Theorem C02_events_are_determined_by_the_outcomes :
  forall i, Attempt.ao_events (Attempt.run_attempt i) = RB.spec_events i.
Proof. exact RB.events_are_the_mapping. Qed.

Theorem C02_outcome_event_mapping :
  forall i bev we0 (pre : list RB.tstep) bg st o (post : list RB.tstep),
    RB.before_lets_steps_run i = Some (bev, we0) ->
    RB.tagged i = pre ++ (bg, (st, o)) :: post ->
    RB.passes we0 (Attempt.ai_world i) pre = true ->
    let a := ScStarted :: bev ++ RB.passed_evs pre in
    let tail := AttemptP.after_evs (Attempt.ai_after i) ++ [ScFinished] in
    match RB.step_result (we0 || negb (RB.is_nil pre)) (Attempt.ai_world i) o with
    | StPassed => exists b, Attempt.ao_events (Attempt.run_attempt i) =
                            a ++ Attempt.step_ev bg st StStarted :: Attempt.step_ev bg st StPassed :: b
    | StSkipped => Attempt.ao_events (Attempt.run_attempt i) =
                   a ++ Attempt.step_ev bg st StStarted :: Attempt.step_ev bg st StSkipped :: tail
    | StFailed k => Attempt.ao_events (Attempt.run_attempt i) =
                    a ++ Attempt.step_ev bg st StStarted :: Attempt.step_ev bg st (StFailed k) :: tail
    | StStarted => False
    end.
Proof. exact RB.outcome_event_mapping. Qed.

Theorem C02_events_match_outcomes :
  forall i, RB.events_match_outcomes i (Attempt.ao_events (Attempt.run_attempt i)) = true.
Proof. exact RB.events_match_outcomes_holds. Qed.

Theorem C02_reviewers_witness_is_not_produced :
  RB.events_match_outcomes RB.i8 RB.witness8 = false /\ RB.witness8 <> Attempt.ao_events (Attempt.run_attempt RB.i8).
Proof. split; [exact RB.witness8_is_rejected|exact RB.witness8_is_not_produced]. Qed.

(* C. C09 with World ids *)
Theorem C09_lifecycle_contract_with_one_world_instance :
  forall i w (ids : list (option N)),
    length ids = length (Attempt.ao_calls (Attempt.run_attempt i)) ->
    (forall o, In o ids -> o = None \/ o = Some w) ->
    AttemptSpec.c09_ok (is_some (Attempt.ai_before i)) (is_some (Attempt.ai_after i)) (Attempt.ao_events (Attempt.run_attempt i))
      (combine (Attempt.ao_calls (Attempt.run_attempt i)) ids) = true.
Proof. exact RC.c09_with_one_instance. Qed.

Theorem C09_lifecycle_contract_with_the_attempts_world :
  forall i w,
    AttemptSpec.c09_ok (is_some (Attempt.ai_before i)) (is_some (Attempt.ai_after i)) (Attempt.ao_events (Attempt.run_attempt i))
      (RC.tag_calls w (Attempt.ao_calls (Attempt.run_attempt i))) = true.
Proof. exact RC.c09_with_the_attempts_world. Qed.

Theorem C09_two_world_instances_are_rejected :
  forall hb ha evs (ocs : list AttemptSpec.ocall) c1 c2 w1 w2,
    In (c1, Some w1) ocs -> In (c2, Some w2) ocs -> w1 <> w2 -> AttemptSpec.c09_ok hb ha evs ocs = false.
Proof. exact RC.c09_rejects_two_instances. Qed.

Theorem C09_step_callbacks_match_the_events :
  forall i, RC.calls_match_events (Attempt.ao_events (Attempt.run_attempt i)) (Attempt.ao_calls (Attempt.run_attempt i)) = true.
Proof. exact RC.calls_match_events_holds. Qed.

Print Assumptions C11_head_is_never_held_back.
Print Assumptions C11_nothing_of_the_head_is_held.
Print Assumptions C11_held_is_input_minus_output.
Print Assumptions C11_head_ok_after_every_call.
Print Assumptions C02_events_are_determined_by_the_outcomes.
Print Assumptions C02_outcome_event_mapping.
Print Assumptions C02_events_match_outcomes.
Print Assumptions C02_reviewers_witness_is_not_produced.
Print Assumptions C09_lifecycle_contract_with_one_world_instance.
Print Assumptions C09_lifecycle_contract_with_the_attempts_world.
Print Assumptions C09_two_world_instances_are_rejected.
Print Assumptions C09_step_callbacks_match_the_events.
Print Assumptions RC.c09_strong_holds.
