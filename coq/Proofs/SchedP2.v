(* SchedP2.v — trace-level consequences of the scheduler invariants: what the EMITTED event stream
   looks like for every label list (C05, C06, C07, C08). *)
From CV Require Import Model.Base Model.Events Model.Sched Proofs.BaseP Proofs.SchedP.
From Coq Require Import Lia Arith.

(* ---------- attempts in flight = attempts between their Started and Finished events ---------- *)
Definition is_sc_started (e : ev) : bool := match e with EvScen _ _ _ _ ScStarted => true | _ => false end.
Definition is_sc_finished (e : ev) : bool := match e with EvScen _ _ _ _ ScFinished => true | _ => false end.
Definition n_started (tr : list ev) : nat := length (filter is_sc_started tr).
Definition n_finished (tr : list ev) : nat := length (filter is_sc_finished tr).
Definition is_opened (x : entry * phase) : bool := match snd x with Opened => true | _ => false end.
Definition n_opened (l : list (entry * phase)) : nat := length (filter is_opened l).

Lemma n_started_app a b : n_started (a ++ b) = (n_started a + n_started b)%nat.
Proof. unfold n_started. rewrite filter_app, app_length. reflexivity. Qed.
Lemma n_finished_app a b : n_finished (a ++ b) = (n_finished a + n_finished b)%nat.
Proof. unfold n_finished. rewrite filter_app, app_length. reflexivity. Qed.
Lemma n_opened_app a b : n_opened (a ++ b) = (n_opened a + n_opened b)%nat.
Proof. unfold n_opened. rewrite filter_app, app_length. reflexivity. Qed.

Lemma n_opened_le l : (n_opened l <= length l)%nat.
Proof. unfold n_opened. induction l as [|x t IH]; cbn; [lia|]. destruct (is_opened x); cbn; lia. Qed.

(* events that are not scenario events (run / feature / rule brackets, parser items) *)
Definition brk (e : ev) : bool := match e with EvScen _ _ _ _ _ => false | _ => true end.
Definition all_brk (o : list ev) : Prop := Forall (fun e => brk e = true) o.
Definition no_scen_edges (o : list ev) : Prop := n_started o = 0%nat /\ n_finished o = 0%nat.

Lemma all_brk_edges o : all_brk o -> no_scen_edges o.
Proof.
  induction 1 as [|x t Hx Ht IH]; [split; reflexivity|]. destruct IH as [A B].
  destruct x; try discriminate Hx; unfold no_scen_edges, n_started, n_finished in *; cbn; split; assumption.
Qed.
Lemma all_brk_app a b : all_brk a -> all_brk b -> all_brk (a ++ b).
Proof. intros A B. apply Forall_app. split; assumption. Qed.

Lemma start_feats_brk fs : forall fc, all_brk (fst (start_feats fs fc)).
Proof.
  induction fs as [|f t IH]; intros fc; cbn [start_feats]; [constructor|].
  destruct (lookupN N.eqb f fc); [apply IH|].
  specialize (IH (setN N.eqb f 0 fc)). destruct (start_feats t _) as [o fc']. cbn in *. constructor; auto.
Qed.
Lemma start_rules_brk rs : forall rc, all_brk (fst (start_rules rs rc)).
Proof.
  induction rs as [|k t IH]; intros rc; cbn [start_rules]; [constructor|].
  destruct (lookupN rk_eqb k rc); [apply IH|].
  specialize (IH (setN rk_eqb k 0 rc)). destruct (start_rules t _) as [o rc']. cbn in *. constructor; auto.
Qed.

Lemma start_scenarios_brk batch fc rc : all_brk (fst (fst (start_scenarios batch fc rc))).
Proof.
  unfold start_scenarios.
  pose proof (start_feats_brk (dedup N.eqb (map e_f batch)) fc) as A.
  destruct (start_feats _ fc) as [o1 fc'].
  set (rks := flat_map _ batch).
  pose proof (start_rules_brk (dedup rk_eqb rks) rc) as B.
  destruct (start_rules _ rc) as [o2 rc']. cbn in *. apply all_brk_app; assumption.
Qed.

Lemma finish_all_brk fc rc : all_brk (finish_all fc rc ++ [EvFinished]).
Proof.
  unfold finish_all. apply all_brk_app; [apply all_brk_app|repeat constructor].
  - induction rc as [|x t IH]; [constructor|]. cbn. constructor; auto.
  - induction fc as [|x t IH]; [constructor|]. cbn. constructor; auto.
Qed.

Lemma finish_msg_brk m fc rc : all_brk (fst (fst (finish_msg m fc rc))).
Proof.
  unfold finish_msg. destruct (m_retried m); [constructor|].
  destruct (m_r m) as [r|].
  - destruct (lookupN rk_eqb (m_f m, r) rc) as [n|].
    + destruct (n + 1 =? m_nr m); destruct (lookupN N.eqb (m_f m) fc) as [n2|];
        try destruct (n2 + 1 =? m_nf m); cbn; repeat constructor.
    + destruct (lookupN N.eqb (m_f m) fc) as [n2|]; try destruct (n2 + 1 =? m_nf m); cbn; repeat constructor.
  - destruct (lookupN N.eqb (m_f m) fc) as [n2|]; try destruct (n2 + 1 =? m_nf m); cbn; repeat constructor.
Qed.

Lemma drain_brk ff ms : forall fl fc rc, all_brk (fst (fst (fst (drain ff ms fl fc rc)))).
Proof.
  induction ms as [|m t IH]; intros fl fc rc; cbn [drain]; [constructor|].
  pose proof (finish_msg_brk m fc rc) as A. destruct (finish_msg m fc rc) as [[o fc1] rc1].
  specialize (IH (if ff && m_failed m && negb (m_retried m) then Break else fl) fc1 rc1).
  destruct (drain ff t _ fc1 rc1) as [[[o2 fl2] fc2] rc2]. cbn in *. apply all_brk_app; assumption.
Qed.

Lemma drain_edges ff ms fl fc rc : no_scen_edges (fst (fst (fst (drain ff ms fl fc rc)))).
Proof. apply all_brk_edges, drain_brk. Qed.

(* a loop turn emits brackets only ... *)
Lemma loop_top_brk s : all_brk (snd (loop_top s)).
Proof.
  unfold loop_top. destruct (get _ s) as [[[batch qs] qc] md].
  destruct (is_nil (running s) && is_nil batch).
  - destruct (pdone s && _); cbn; [apply finish_all_brk | constructor].
  - pose proof (start_scenarios_brk batch (fcount s) (rcount s)) as A.
    destruct (start_scenarios batch (fcount s) (rcount s)) as [[o fc] rc]. exact A.
Qed.

(* a loop turn emits no scenario edge and adds only Dispatched entries *)
Lemma loop_top_edges s :
  no_scen_edges (snd (loop_top s)) /\ n_opened (running (fst (loop_top s))) = n_opened (running s).
Proof.
  split; [apply all_brk_edges, loop_top_brk|].
  unfold loop_top. destruct (get _ s) as [[[batch qs] qc] md].
  destruct (is_nil (running s) && is_nil batch) eqn:IDLE.
  - destruct (pdone s && _); cbn; reflexivity.
  - destruct (start_scenarios batch (fcount s) (rcount s)) as [[o fc] rc]. cbn [fst running upd].
    rewrite n_opened_app. assert (n_opened (map (fun e => (e, Dispatched)) batch) = 0%nat).
    { clear. induction batch; auto. } lia.
Qed.

Lemma set_phase_opened_start k l e r : set_phase k Dispatched Opened l = Some (e, r) -> n_opened r = S (n_opened l).
Proof.
  revert r. induction l as [|[e1 p1] t IH]; intros r H; cbn [set_phase] in H; [discriminate|].
  destruct (akey_eqb (key_of e1) k).
  - destruct p1; try discriminate. inversion H; subst. reflexivity.
  - destruct (set_phase k Dispatched Opened t) as [[e' r']|]; [|discriminate]. inversion H; subst.
    specialize (IH r' eq_refl). unfold n_opened in *. cbn. destruct (is_opened (e1, p1)); cbn; lia.
Qed.
Lemma set_phase_opened_end k l e r : set_phase k Opened Ended l = Some (e, r) -> S (n_opened r) = n_opened l.
Proof.
  revert r. induction l as [|[e1 p1] t IH]; intros r H; cbn [set_phase] in H; [discriminate|].
  destruct (akey_eqb (key_of e1) k).
  - destruct p1; try discriminate. inversion H; subst. reflexivity.
  - destruct (set_phase k Opened Ended t) as [[e' r']|]; [|discriminate]. inversion H; subst.
    specialize (IH r' eq_refl). unfold n_opened in *. cbn. destruct (is_opened (e1, p1)); cbn; lia.
Qed.
Lemma remove_ended_opened l r : remove_ended l = Some r -> n_opened r = n_opened l.
Proof.
  revert r. induction l as [|[e p] t IH]; intros r H; cbn [remove_ended] in H; [discriminate|].
  destruct p.
  - destruct (remove_ended t) as [r'|]; [|discriminate]. inversion H; subst. specialize (IH r' eq_refl).
    unfold n_opened in *. cbn. exact IH.
  - destruct (remove_ended t) as [r'|]; [|discriminate]. inversion H; subst. specialize (IH r' eq_refl).
    unfold n_opened in *. cbn. lia.
  - inversion H; subst. reflexivity.
Qed.

(* the counting invariant: Started events minus Finished events = Opened entries of `running` *)
Definition edges_ok (s : st) (tr : list ev) : Prop := (n_started tr = n_finished tr + n_opened (running s))%nat.

Lemma one_started e : is_sc_started e = true -> n_started [e] = 1%nat /\ n_finished [e] = 0%nat.
Proof. destruct e as [| | | | | | | |f r sc rt x]; try discriminate. destruct x; try discriminate. split; reflexivity. Qed.
Lemma one_finished e : is_sc_finished e = true -> n_started [e] = 0%nat /\ n_finished [e] = 1%nat.
Proof. destruct e as [| | | | | | | |f r sc rt x]; try discriminate. destruct x; try discriminate. split; reflexivity. Qed.
Lemma one_middle e x : is_middle x = true -> n_started [scen_ev e x] = 0%nat /\ n_finished [scen_ev e x] = 0%nat.
Proof. destruct x; try discriminate; split; reflexivity. Qed.

Lemma step_edges c s l s' o tr : edges_ok s tr -> step c s l = Some (s', o) -> edges_ok s' (tr ++ o).
Proof.
  unfold edges_ok. intros E H. rewrite n_started_app, n_finished_app. destruct l; cbn [step] in H.
  - destruct (perrs s); [discriminate|]. inversion H; subst. unfold insert_feature.
    destruct (pf s) as [[[[a b] c0] d] e]. destruct (is_nil _); cbn [running];
      change (n_started []) with 0%nat; change (n_finished []) with 0%nat; lia.
  - destruct (perrs s); [discriminate|]. destruct (pf s) as [[[[a b] c0] d] e]. inversion H; subst. cbn [running].
    change (n_started [EvParseErr id]) with 0%nat; change (n_finished [EvParseErr id]) with 0%nat; lia.
  - destruct (pdone s); [discriminate|]. destruct (pf s) as [[[[a b] c0] d] e]. inversion H; subst. cbn [running].
    change (n_started [EvParsingFinished a b c0 d e]) with 0%nat;
      change (n_finished [EvParsingFinished a b c0 d e]) with 0%nat; lia.
  - destruct (pc s).
    + set (s0 := mk_st _ _ _ _ _ _ _ _ _ _ _ _ true) in H.
      destruct (loop_top_edges s0) as [[A1 A2] B]. destruct (loop_top s0) as [s1 o1]. inversion H; subst.
      subst s0. cbn [fst snd running] in *.
      change (n_started (EvStarted :: o1)) with (n_started o1). change (n_finished (EvStarted :: o1)) with (n_finished o1).
      rewrite A1, A2, B. lia.
    + destruct (remove_ended (running s)) as [r|] eqn:RE; [|discriminate].
      pose proof (drain_edges (cf_fail_fast c) (msgs s) (add_slot (flow s)) (fcount s) (rcount s)) as [D1 D2].
      destruct (drain _ (msgs s) _ _ _) as [[[o1 fl] fc] rc].
      set (s1 := upd s _ _ fl r [] fc rc (now s) Awaiting) in H.
      destruct (loop_top_edges s1) as [[A1 A2] B]. destruct (loop_top s1) as [s2 o2]. inversion H; subst.
      subst s1. cbn [fst snd running upd] in *. rewrite n_started_app, n_finished_app, D1, D2, A1, A2, B.
      rewrite (remove_ended_opened _ _ RE). lia.
    + destruct (loop_top_edges s) as [[A1 A2] B]. destruct (loop_top s) as [s1 o1]. inversion H; subst.
      cbn [fst snd] in *. rewrite A1, A2, B. lia.
    + discriminate.
  - destruct (set_phase k Dispatched Opened (running s)) as [[e r]|] eqn:SP; [|discriminate]. inversion H; subst.
    cbn [running upd]. rewrite (set_phase_opened_start _ _ _ _ SP).
    destruct (one_started (scen_ev e ScStarted) eq_refl) as [-> ->]. lia.
  - destruct (is_middle x) eqn:M; [|discriminate]. destruct (find_open k (running s)) as [e|]; [|discriminate].
    inversion H; subst. destruct (one_middle e x M) as [-> ->]. lia.
  - destruct (set_phase k Opened Ended (running s)) as [[e r]|] eqn:SP; [|discriminate].
    pose proof (set_phase_opened_end _ _ _ _ SP) as OE.
    destruct (one_finished (scen_ev e ScFinished) eq_refl) as [F1 F2].
    destruct (next_try e failed (now s)) as [e'|]; [destruct (e_serial e')|]; inversion H; subst;
      cbn [running upd]; rewrite F1, F2; lia.
  - inversion H; subst. cbn [running upd]. change (n_started []) with 0%nat; change (n_finished []) with 0%nat; lia.
Qed.

Lemma exec_from_edges c : forall ls s s' o tr,
  edges_ok s tr -> exec_from c s ls = Some (s', o) -> edges_ok s' (tr ++ o).
Proof.
  induction ls as [|l t IH]; intros s s' o tr E H; cbn [exec_from] in H.
  - inversion H; subst. rewrite app_nil_r. exact E.
  - destruct (step c s l) as [[s1 o1]|] eqn:S1; [|discriminate].
    destruct (exec_from c s1 t) as [[s2 o2]|] eqn:S2; [|discriminate]. inversion H; subst.
    rewrite app_assoc. eapply IH; [eapply step_edges; eauto | exact S2].
Qed.

(* C06, on the emitted stream: after ANY label list, the number of attempts between their Started and
   their Finished event is at most the concurrency limit. Every prefix of a run is itself a run. *)
Theorem in_flight_bounded c k ls s tr :
  cf_concurrency c = Some k -> exec c ls = Some (s, tr) -> (n_started tr - n_finished tr <= k)%nat.
Proof.
  intros HK H. pose proof (running_bounded c k ls s tr HK H) as B.
  assert (E : edges_ok s ([] ++ tr)) by (eapply exec_from_edges; [|exact H]; reflexivity).
  cbn in E. unfold edges_ok in E. pose proof (n_opened_le (running s)). lia.
Qed.

(* ---------- C07 on the stream: while a serial attempt is open, every scenario event is its own ---------- *)
Definition emits_for (e : entry) (o : list ev) : Prop :=
  forall x, In x o -> match x with EvScen f r sc rt _ => f = e_f e /\ r = e_r e /\ sc = e_s e /\ rt = e_retr e | _ => True end.

Lemma find_open_in k l e : find_open k l = Some e -> In (e, Opened) l.
Proof.
  induction l as [|[e1 p1] t IH]; cbn; [discriminate|]. destruct (akey_eqb (key_of e1) k).
  - destruct p1; try discriminate. intros H; inversion H; subst. left; reflexivity.
  - intros H. right. apply IH. exact H.
Qed.

(* any scenario event a step emits belongs to an entry of `running` *)
Lemma step_scen_events c s l s' o :
  step c s l = Some (s', o) ->
  (forall x, In x o -> match x with EvScen _ _ _ _ _ => False | _ => True end) \/
  (exists e p, In (e, p) (running s) /\ emits_for e o).
Proof.
  intros H. destruct l; cbn [step] in H.
  - destruct (perrs s); [discriminate|]. inversion H; subst. left. intros x [].
  - destruct (perrs s); [discriminate|]. destruct (pf s) as [[[[a b] c0] d] e]. inversion H; subst.
    left. intros x [<-|[]]. exact I.
  - destruct (pdone s); [discriminate|]. destruct (pf s) as [[[[a b] c0] d] e]. inversion H; subst.
    left. intros x [<-|[]]. exact I.
  - left. (* a loop turn emits brackets only *)
    assert (B : all_brk o).
    { destruct (pc s).
      + set (s0 := mk_st _ _ _ _ _ _ _ _ _ _ _ _ true) in H.
        pose proof (loop_top_brk s0) as A. destruct (loop_top s0) as [s1 o1]. inversion H; subst.
        constructor; [reflexivity | exact A].
      + destruct (remove_ended (running s)) as [r|]; [|discriminate].
        pose proof (drain_brk (cf_fail_fast c) (msgs s) (add_slot (flow s)) (fcount s) (rcount s)) as D.
        destruct (drain _ (msgs s) _ _ _) as [[[o1 fl] fc] rc].
        set (s1 := upd s _ _ fl r [] fc rc (now s) Awaiting) in H.
        pose proof (loop_top_brk s1) as A. destruct (loop_top s1) as [s2 o2]. inversion H; subst.
        apply all_brk_app; assumption.
      + pose proof (loop_top_brk s) as A. destruct (loop_top s) as [s1 o1]. inversion H; subst. exact A.
      + discriminate. }
    intros x Hx. unfold all_brk in B. rewrite Forall_forall in B. specialize (B x Hx). destruct x; try exact I. discriminate.
  - destruct (set_phase k Dispatched Opened (running s)) as [[e r]|] eqn:SP; [|discriminate]. inversion H; subst.
    destruct (set_phase_shape _ _ _ _ _ _ SP) as (_ & _ & [p' Hp]). right. exists e, p'. split; auto.
    intros x [<-|[]]. cbn. auto.
  - destruct (is_middle x); [|discriminate]. destruct (find_open k (running s)) as [e|] eqn:FO; [|discriminate].
    inversion H; subst. right. exists e, Opened. split; [apply find_open_in in FO; exact FO|].
    intros y [<-|[]]. cbn. auto.
  - destruct (set_phase k Opened Ended (running s)) as [[e r]|] eqn:SP; [|discriminate].
    destruct (set_phase_shape _ _ _ _ _ _ SP) as (_ & _ & [p' Hp]).
    destruct (next_try e failed (now s)) as [e'|]; [destruct (e_serial e')|]; inversion H; subst;
      right; exists e, p'; (split; [exact Hp|]); intros x [<-|[]]; cbn; auto.
  - inversion H; subst. left. intros x [].
Qed.

(* C07 on the stream: from any reachable state in which a serial attempt is in `running`, whatever scenario
   event the next step emits belongs to that very attempt. (Dispatch of further attempts is excluded by
   `serial_alone`: the loop top is only reached when a running attempt completes.) *)
Theorem serial_exclusive c ls s tr e p l s' o :
  exec c ls = Some (s, tr) -> In (e, p) (running s) -> e_serial e = true ->
  step c s l = Some (s', o) -> emits_for e o.
Proof.
  intros H HIn SER ST. pose proof (serial_alone c ls s tr e p H HIn SER) as ONE.
  destruct (step_scen_events c s l s' o ST) as [NS | (e' & p' & HIn' & EM)].
  - intros x Hx. specialize (NS x Hx). destruct x; auto. contradiction.
  - rewrite ONE in HIn'. destruct HIn' as [Eq|[]]. inversion Eq; subst. exact EM.
Qed.

(* ---------- C05: retries ---------- *)
(* a retry is queued exactly when the attempt failed and the budget is not exhausted; its counters are
   (current+1, left-1) and its deadline base is the time the failed attempt ended *)
Theorem next_try_spec e failed now :
  next_try e failed now =
  match e_retr e with
  | Some (c, l) =>
    if failed && (0 <? l)
    then Some (mk_entry (e_f e) (e_r e) (e_s e) (e_serial e) (Some (c + 1, l - 1)) (e_delay e) (Some now) (e_nf e) (e_nr e))
    else None
  | None => None
  end.
Proof. reflexivity. Qed.

(* an entry is dispatched only once its delay has strictly elapsed since it was re-inserted *)
Lemma left_until_none now e d b :
  e_delay e = Some d -> e_base e = Some b -> left_until now e = None -> d < now - b.
Proof. unfold left_until. intros -> ->. destruct (N.leb_spec (now - b) d); [discriminate|auto]. Qed.

Theorem dispatched_after_delay s e d b :
  typed_ok s ->
  In e (fst (fst (fst (get (match flow s with Break => Some 0%nat | Cont k => k end) s)))) ->
  e_delay e = Some d -> e_base e = Some b -> d < now s - b.
Proof.
  intros TY HIn HD HB. pose proof (get_spec (match flow s with Break => Some 0%nat | Cont k => k end) s TY) as G.
  destruct (get _ s) as [[[batch qs] qc] md]. cbn in HIn. destruct G as (_ & _ & _ & RD & _).
  rewrite Forall_forall in RD. apply (left_until_none (now s) e d b HD HB). apply RD. exact HIn.
Qed.

(* entries still waiting for their delay never block the ready ones behind them *)
Lemma take_ready_skips_waiting now : forall w n md e t,
  Forall (fun x => left_until now x <> None) w -> left_until now e = None -> n <> Some 0%nat ->
  hd_error (fst (fst (take_ready n now md (w ++ e :: t)))) = Some e.
Proof.
  induction w as [|x w IH]; intros n md e t FW RE NZ; cbn [app take_ready].
  - destruct n as [[|k]|]; [congruence| |]; rewrite RE;
      destruct (take_ready _ now md t) as [[a b] m]; reflexivity.
  - inversion FW; subst. destruct (left_until now x) as [lf|] eqn:LX; [|congruence].
    destruct n as [[|k]|]; [congruence| |].
    + specialize (IH (Some (S k)) (min_opt md lf) e t H2 RE NZ).
      destruct (take_ready (Some (S k)) now (min_opt md lf) (w ++ e :: t)) as [[a b] m]. exact IH.
    + specialize (IH None (min_opt md lf) e t H2 RE NZ).
      destruct (take_ready None now (min_opt md lf) (w ++ e :: t)) as [[a b] m]. exact IH.
Qed.

(* ---------- C08: fail-fast ---------- *)
(* with the flow broken a loop turn dispatches nothing *)
Lemma loop_top_break s : flow s = Break ->
  running (fst (loop_top s)) = running s /\ flow (fst (loop_top s)) = Break /\
  (forall x, In x (snd (loop_top s)) -> match x with EvFeatS _ | EvRuleS _ _ => False | _ => True end).
Proof.
  intros F. unfold loop_top. rewrite F. cbn [get].
  destruct (is_nil (running s) && is_nil (@nil entry)) eqn:IDLE.
  - destruct (pdone s && _); cbn; (split; [reflexivity|split; [first [reflexivity | exact F]|]]).
    + intros x Hx. unfold finish_all in Hx. apply in_app_or in Hx. destruct Hx as [Hx|[<-|[]]]; [|exact I].
      apply in_app_or in Hx. destruct Hx as [Hx|Hx]; apply in_map_iff in Hx; destruct Hx as (y & <- & _); exact I.
    + intros x [].
  - cbn. rewrite app_nil_r. split; [reflexivity|split; [first [reflexivity | exact F]|intros x []]].
Qed.

(* `Break` is absorbing: once tripped, the flow never returns to `Cont` *)
Lemma step_break c s l s' o : flow s = Break -> step c s l = Some (s', o) -> flow s' = Break.
Proof.
  intros F H. destruct l; cbn [step] in H.
  - destruct (perrs s); [discriminate|]. inversion H; subst. unfold insert_feature.
    destruct (pf s) as [[[[a b] c0] d] e]. destruct (is_nil _); cbn; exact F.
  - destruct (perrs s); [discriminate|]. destruct (pf s) as [[[[a b] c0] d] e]. inversion H; subst. exact F.
  - destruct (pdone s); [discriminate|]. destruct (pf s) as [[[[a b] c0] d] e]. inversion H; subst. exact F.
  - destruct (pc s).
    + set (s0 := mk_st _ _ _ _ _ _ _ _ _ _ _ _ true) in H.
      destruct (loop_top_break s0 F) as (_ & FB & _). destruct (loop_top s0) as [s1 o1]. inversion H; subst. exact FB.
    + destruct (remove_ended (running s)) as [r|]; [|discriminate].
      pose proof (drain_flow (cf_fail_fast c) (msgs s) (add_slot (flow s)) (fcount s) (rcount s)) as DF.
      destruct (drain _ (msgs s) _ _ _) as [[[o1 fl] fc] rc].
      assert (FL : fl = Break) by (rewrite F in DF; cbn in DF; destruct DF; auto).
      set (s1 := upd s _ _ fl r [] fc rc (now s) Awaiting) in H.
      destruct (loop_top_break s1 FL) as (_ & FB & _). destruct (loop_top s1) as [s2 o2]. inversion H; subst. exact FB.
    + destruct (loop_top_break s F) as (_ & FB & _). destruct (loop_top s) as [s1 o1]. inversion H; subst. exact FB.
    + discriminate.
  - destruct (set_phase _ _ _ _) as [[e r]|]; [|discriminate]. inversion H; subst. exact F.
  - destruct (is_middle x); [|discriminate]. destruct (find_open _ _); [|discriminate]. inversion H; subst. exact F.
  - destruct (set_phase _ _ _ _) as [[e r]|]; [|discriminate].
    destruct (next_try e failed (now s)) as [e'|]; [destruct (e_serial e')|]; inversion H; subst; exact F.
  - inversion H; subst. exact F.
Qed.

(* the drain trips exactly on a final (not retried) failure under fail-fast *)
Lemma drain_trips ms : forall fl fc rc,
  existsb (fun m => m_failed m && negb (m_retried m)) ms = true ->
  snd (fst (fst (drain true ms fl fc rc))) = Break.
Proof.
  induction ms as [|m t IH]; intros fl fc rc H; cbn [existsb] in H; [discriminate|]. cbn [drain].
  destruct (finish_msg m fc rc) as [[o fc1] rc1].
  destruct (m_failed m && negb (m_retried m)) eqn:T.
  - assert (E : true && m_failed m && negb (m_retried m) = true) by (cbn; exact T). rewrite E.
    pose proof (drain_flow true t Break fc1 rc1) as DF.
    destruct (drain true t Break fc1 rc1) as [[[o2 fl2] fc2] rc2]. cbn. destruct DF; auto.
  - cbn in H. specialize (IH (if true && m_failed m && negb (m_retried m) then Break else fl) fc1 rc1 H).
    destruct (drain true t _ fc1 rc1) as [[[o2 fl2] fc2] rc2]. exact IH.
Qed.

Lemma drain_no_trip ff ms : forall fl fc rc,
  existsb (fun m => m_failed m && negb (m_retried m)) ms = false ->
  snd (fst (fst (drain ff ms fl fc rc))) = fl.
Proof.
  induction ms as [|m t IH]; intros fl fc rc H; cbn [existsb] in H; [reflexivity|]. cbn [drain].
  apply orb_false_iff in H as [T H].
  destruct (finish_msg m fc rc) as [[o fc1] rc1].
  assert (E : ff && m_failed m && negb (m_retried m) = false) by (rewrite <- andb_assoc, T; apply andb_false_r).
  rewrite E. specialize (IH fl fc1 rc1 H). destruct (drain ff t fl fc1 rc1) as [[[o2 fl2] fc2] rc2]. exact IH.
Qed.

(* a retried failure does not trip (its message says retried) *)
Lemma retried_message_does_not_trip m : m_retried m = true -> m_failed m && negb (m_retried m) = false.
Proof. intros ->. apply andb_false_r. Qed.
