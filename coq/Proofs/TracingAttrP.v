(* TracingAttrP.v — theorems about Model/TracingAttr.v: how a tracing event is attributed to a scenario.
   1. `scope_lookup` laws on well-formed tables (`wf_tbl`; `stream_wf_tbl`: the walk builds well-formed tables):
      the fuel-free equation `lookup_step`, `lookup_no_own_id`, `lookup_root_no_id`, `lookup_top_id`,
      `lookup_outermost_wins` (+ `nested_scenario_span_resolves_to_outer`), and the full specification
      `lookup_none_iff` / `lookup_some_iff`;
   2. THE ATTRIBUTION THEOREM: `attribution` (state form), `attribution_history` (over every shaped continuation
      of the history), `created_top_span`;
   3. the broadcast rule: `broadcast_no_id`, `broadcast_unregistered`, `broadcast_reaches_all`;
   4. what an accepted run guarantees (`attr_ok_fmt`, `attr_ok_deliver`, `monitor_agrees_with_attribution`);
   5. examples by `vm_compute`. *)
From CV Require Import Model.Base Model.Events Model.TracingAttr.
From Coq Require Import Lia.

(* ---------------------------------------------------------------------------------------------- *)
(* 0. association lists                                                                            *)
(* ---------------------------------------------------------------------------------------------- *)
Lemma alookup_cons_other : forall {V} (x y : N) (v : V) (t : list (N * V)),
  alookup x t <> None -> alookup y t = None -> alookup x ((y, v) :: t) = alookup x t.
Proof.
  intros V x y v t Hx Hy. simpl. destruct (x =? y) eqn:E; [|reflexivity].
  apply N.eqb_eq in E. subst. contradiction.
Qed.

Lemma alookup_In : forall {V} (x : N) (v : V) (t : list (N * V)),
  alookup x t = Some v -> In (x, v) t.
Proof.
  intros V x v t. induction t as [|[y w] t IH]; simpl; intros H; [discriminate|].
  destruct (x =? y) eqn:E.
  - apply N.eqb_eq in E. inversion H. subst. left. reflexivity.
  - right. apply IH. exact H.
Qed.

(* ---------------------------------------------------------------------------------------------- *)
(* 1. well-formed tables and the laws of scope_lookup                                              *)
(* ---------------------------------------------------------------------------------------------- *)
(* every span occurs once, and its parent's entry lies deeper in the list *)
Fixpoint wf_tbl (t : tbl) : Prop :=
  match t with
  | [] => True
  | (x, s) :: t' =>
    alookup x t' = None /\ (forall p, sp_parent s = Some p -> alookup p t' <> None) /\ wf_tbl t'
  end.

Lemma walk_up_S : forall k t x,
  walk_up (S k) t x =
  match alookup x t with
  | None => None
  | Some s => or_else (match sp_parent s with Some p => walk_up k t p | None => None end) (sp_sid s)
  end.
Proof. reflexivity. Qed.

Lemma walk_up_unknown : forall f t x, alookup x t = None -> walk_up f t x = None.
Proof. intros f t x H. destruct f; [reflexivity|]. rewrite walk_up_S, H. reflexivity. Qed.

Lemma wf_parent_in : forall t x s p,
  wf_tbl t -> alookup x t = Some s -> sp_parent s = Some p -> alookup p t <> None.
Proof.
  induction t as [|[y sy] t IH]; intros x s p Hwf Hx Hp; [discriminate|].
  destruct Hwf as (Hfresh & Hpar & Hwf').
  assert (Hin : alookup p t <> None).
  { simpl in Hx. destruct (x =? y) eqn:E.
    - inversion Hx. subst. apply Hpar. exact Hp.
    - eapply IH; eassumption. }
  simpl. destruct (p =? y); [discriminate|exact Hin].
Qed.

(* a fresh entry on top does not change the walk from an older span *)
Lemma walk_cons : forall t y s, wf_tbl t -> alookup y t = None ->
  forall f x, alookup x t <> None -> walk_up f ((y, s) :: t) x = walk_up f t x.
Proof.
  intros t y s Hwf Hy. induction f as [|f IH]; intros x Hx; [reflexivity|].
  rewrite !walk_up_S. rewrite (alookup_cons_other x y s t Hx Hy).
  destruct (alookup x t) as [sx|] eqn:Ex; [|reflexivity].
  destruct (sp_parent sx) as [p|] eqn:Ep; [|reflexivity].
  rewrite IH; [reflexivity|]. eapply wf_parent_in; eassumption.
Qed.

(* the table size is enough fuel *)
Lemma walk_fuel : forall t, wf_tbl t ->
  forall f x, (length t <= f)%nat -> walk_up f t x = walk_up (length t) t x.
Proof.
  induction t as [|[y sy] t IH]; intros Hwf f x Hf.
  - rewrite !walk_up_unknown; reflexivity.
  - pose proof Hwf as Hwf0. destruct Hwf as (Hfresh & Hpar & Hwf').
    destruct f as [|f]; [simpl in Hf; lia|].
    assert (Hf' : (length t <= f)%nat) by (simpl in Hf; lia).
    change (length ((y, sy) :: t)) with (S (length t)).
    destruct (alookup x t) as [sx|] eqn:Ex.
    + assert (Hx : alookup x t <> None) by (rewrite Ex; discriminate).
      rewrite !(walk_cons t y sy Hwf' Hfresh _ x Hx).
      rewrite (IH Hwf' (S f) x) by lia. rewrite (IH Hwf' (S (length t)) x) by lia. reflexivity.
    + rewrite !walk_up_S. simpl alookup. rewrite Ex.
      destruct (x =? y); [|reflexivity].
      destruct (sp_parent sy) as [p|] eqn:Ep; [|reflexivity].
      assert (Hp : alookup p t <> None) by (apply Hpar; first [exact Ep|reflexivity]).
      rewrite !(walk_cons t y sy Hwf' Hfresh _ p Hp).
      rewrite (IH Hwf' f p Hf'). reflexivity.
Qed.

Lemma lookup_cons : forall t y s x, wf_tbl t -> alookup y t = None -> alookup x t <> None ->
  scope_lookup ((y, s) :: t) (Some x) = scope_lookup t (Some x).
Proof.
  intros t y s x Hwf Hy Hx. unfold scope_lookup.
  rewrite (walk_cons t y s Hwf Hy _ x Hx). apply walk_fuel; [exact Hwf|simpl; lia].
Qed.

Lemma lookup_unknown : forall t x, alookup x t = None -> scope_lookup t (Some x) = None.
Proof. intros t x H. apply walk_up_unknown. exact H. Qed.

(* THE fuel-free equation of the lookup: what is found above wins, else the span's own id *)
Theorem lookup_step : forall t x s, wf_tbl t -> alookup x t = Some s ->
  scope_lookup t (Some x) = or_else (scope_lookup t (sp_parent s)) (sp_sid s).
Proof.
  intros t x s Hwf Hx. destruct t as [|[y sy] t]; [discriminate|].
  pose proof Hwf as Hwf0. destruct Hwf as (Hfresh & Hpar & Hwf').
  assert (Hp : forall p, sp_parent s = Some p -> alookup p t <> None).
  { intros p Ep. simpl in Hx. destruct (x =? y) eqn:E.
    - inversion Hx. subst. apply Hpar. exact Ep.
    - eapply wf_parent_in; eassumption. }
  unfold scope_lookup. change (length ((y, sy) :: t)) with (S (length t)).
  rewrite walk_up_S at 1. rewrite Hx.
  destruct (sp_parent s) as [p|] eqn:Ep; [|reflexivity].
  specialize (Hp p eq_refl).
  rewrite !(walk_cons t y sy Hwf' Hfresh _ p Hp).
  rewrite (walk_fuel t Hwf' (S (length t)) p) by lia. reflexivity.
Qed.

(* a span without an id of its own resolves like its parent *)
Theorem lookup_no_own_id : forall t x s, wf_tbl t -> alookup x t = Some s -> sp_sid s = None ->
  scope_lookup t (Some x) = scope_lookup t (sp_parent s).
Proof.
  intros t x s Hwf Hx Hs. rewrite (lookup_step t x s Hwf Hx), Hs.
  destruct (scope_lookup t (sp_parent s)); reflexivity.
Qed.

(* a root span without an id resolves to nothing *)
Theorem lookup_root_no_id : forall t x s, wf_tbl t -> alookup x t = Some s ->
  sp_parent s = None -> sp_sid s = None -> scope_lookup t (Some x) = None.
Proof.
  intros t x s Hwf Hx Hp Hs. rewrite (lookup_no_own_id t x s Hwf Hx Hs), Hp. reflexivity.
Qed.

(* a span with its own id k and no id'd span above it resolves to k *)
Theorem lookup_top_id : forall t x s k, wf_tbl t -> alookup x t = Some s -> sp_sid s = Some k ->
  scope_lookup t (sp_parent s) = None -> scope_lookup t (Some x) = Some k.
Proof.
  intros t x s k Hwf Hx Hs Hup. rewrite (lookup_step t x s Hwf Hx), Hup, Hs. reflexivity.
Qed.

(* `below t x a`: x is a, or a descendant of a at any depth, through spans with or without ids *)
Inductive below (t : tbl) : N -> N -> Prop :=
| below_refl : forall x, below t x x
| below_up : forall x s p a, alookup x t = Some s -> sp_parent s = Some p -> below t p a -> below t x a.

Lemma below_trans : forall t x y z, below t x y -> below t y z -> below t x z.
Proof.
  intros t x y z Hxy Hyz. induction Hxy as [x|x s p a Hx Hp Hpa IH]; [exact Hyz|].
  eapply below_up; [exact Hx|exact Hp|apply IH; exact Hyz].
Qed.

(* a span a that has an id k and no id'd span above it: the `scenario` span of an attempt of the runner *)
Definition top_span (t : tbl) (a k : N) : Prop :=
  exists sa, alookup a t = Some sa /\ sp_sid sa = Some k /\ scope_lookup t (sp_parent sa) = None.

(* THE OUTERMOST WINS: whatever lies below a top span resolves to the top span's id — own ids are ignored *)
Theorem lookup_outermost_wins : forall t a k x, wf_tbl t -> top_span t a k -> below t x a ->
  scope_lookup t (Some x) = Some k.
Proof.
  intros t a k x Hwf (sa & Ha & Hk & Hup) Hb.
  induction Hb as [x|x s p a Hx Hp Hpa IH].
  - eapply lookup_top_id; eassumption.
  - rewrite (lookup_step t x s Hwf Hx), Hp, (IH Ha). reflexivity.
Qed.

(* in particular: a nested `scenario` span n with its OWN id k' below (a step of) the attempt span a of id k
   resolves to k, not k' — and so does everything below it *)
Corollary nested_scenario_span_resolves_to_outer : forall t a k n sn k' x,
  wf_tbl t -> top_span t a k ->
  alookup n t = Some sn -> sp_sid sn = Some k' -> below t n a ->
  below t x n -> scope_lookup t (Some n) = Some k /\ scope_lookup t (Some x) = Some k.
Proof.
  intros t a k n sn k' x Hwf Htop Hn Hk' Hna Hxn. split.
  - eapply lookup_outermost_wins; eassumption.
  - eapply lookup_outermost_wins; [exact Hwf|exact Htop|]. eapply below_trans; eassumption.
Qed.

(* induction along the parent links of a well-formed table *)
Lemma anc_ind : forall t, wf_tbl t -> forall P : N -> Prop,
  (forall x s, alookup x t = Some s -> (forall p, sp_parent s = Some p -> P p) -> P x) ->
  forall x s, alookup x t = Some s -> P x.
Proof.
  induction t as [|[y sy] t IH]; intros Hwf P Hstep x s Hx; [discriminate|].
  destruct Hwf as (Hfresh & Hpar & Hwf').
  assert (Hold : forall z sz, alookup z t = Some sz -> P z).
  { apply (IH Hwf' P). intros z sz Hz Hrec. apply (Hstep z sz); [|exact Hrec].
    rewrite alookup_cons_other; [exact Hz|rewrite Hz; discriminate|exact Hfresh]. }
  pose proof Hx as Hx0. simpl in Hx. destruct (x =? y) eqn:E.
  - apply (Hstep x s Hx0). intros p Ep. inversion Hx. subst s.
    destruct (alookup p t) as [sp|] eqn:Epl.
    + eapply Hold. exact Epl.
    + exfalso. eapply Hpar; eassumption.
  - eapply Hold. exact Hx.
Qed.

(* SPECIFICATION of the lookup, negative half: nothing is resolved iff no span on the path has an id *)
Theorem lookup_none_iff : forall t x, wf_tbl t ->
  (scope_lookup t (Some x) = None <->
   forall y sy, below t x y -> alookup y t = Some sy -> sp_sid sy = None).
Proof.
  intros t x Hwf. destruct (alookup x t) as [s|] eqn:Ex.
  - revert x s Ex.
    apply (anc_ind t Hwf (fun x => scope_lookup t (Some x) = None <->
             forall y sy, below t x y -> alookup y t = Some sy -> sp_sid sy = None)).
    intros x s Hx IH. rewrite (lookup_step t x s Hwf Hx). split.
    + intros Hnone y sy Hb Hy.
      assert (Hup : scope_lookup t (sp_parent s) = None)
        by (destruct (scope_lookup t (sp_parent s)); [discriminate|reflexivity]).
      assert (Hown : sp_sid s = None) by (rewrite Hup in Hnone; exact Hnone).
      inversion Hb as [z|z s' p a Hx' Hp Hpa]; subst.
      * rewrite Hx in Hy. inversion Hy. subst. exact Hown.
      * rewrite Hx in Hx'. inversion Hx'. subst s'.
        rewrite Hp in Hup. eapply (proj1 (IH p Hp) Hup); eassumption.
    + intros Hall.
      assert (Hown : sp_sid s = None) by (apply (Hall x s (below_refl t x) Hx)).
      rewrite Hown. destruct (sp_parent s) as [p|] eqn:Ep; [|reflexivity].
      rewrite (proj2 (IH p eq_refl)); [reflexivity|].
      intros y sy Hb Hy. apply (Hall y sy); [|exact Hy]. eapply below_up; eassumption.
  - split.
    + intros _ y sy Hb Hy. inversion Hb as [z|z s' p a Hx' Hp Hpa]; subst.
      * rewrite Ex in Hy. discriminate.
      * rewrite Ex in Hx'. discriminate.
    + intros _. apply lookup_unknown. exact Ex.
Qed.

(* positive half: k is resolved iff k is the id of a span on the path that has no id'd span above it *)
Theorem lookup_some_iff : forall t x k, wf_tbl t ->
  (scope_lookup t (Some x) = Some k <-> exists a, below t x a /\ top_span t a k).
Proof.
  intros t x k Hwf. split.
  - destruct (alookup x t) as [s|] eqn:Ex.
    + revert x s Ex.
      apply (anc_ind t Hwf (fun x => scope_lookup t (Some x) = Some k ->
               exists a, below t x a /\ top_span t a k)).
      intros x s Hx IH Hres. rewrite (lookup_step t x s Hwf Hx) in Hres.
      destruct (scope_lookup t (sp_parent s)) as [k'|] eqn:Eup.
      * simpl in Hres. inversion Hres. subst k'.
        destruct (sp_parent s) as [p|] eqn:Ep; [|discriminate].
        destruct (IH p eq_refl Eup) as (a & Hb & Htop).
        exists a. split; [eapply below_up; eassumption|exact Htop].
      * simpl in Hres. exists x. split; [apply below_refl|].
        exists s. repeat split; assumption.
    + intros Hres. rewrite (lookup_unknown t x Ex) in Hres. discriminate.
  - intros (a & Hb & Htop). eapply lookup_outermost_wins; eassumption.
Qed.

(* ---- tables built by the walk are well-formed ---- *)
Lemma alookup_set_sid : forall x k t z,
  alookup z (set_sid x k t) =
  match alookup z t with
  | None => None
  | Some s => Some (if z =? x then mk_span (sp_parent s) (Some k) else s)
  end.
Proof.
  intros x k. induction t as [|[y s] t IH]; intros z; [reflexivity|].
  simpl set_sid. destruct (x =? y) eqn:Exy.
  - apply N.eqb_eq in Exy. subst y. simpl. destruct (z =? x) eqn:Ezx; [reflexivity|].
    destruct (alookup z t); reflexivity.
  - simpl. destruct (z =? y) eqn:Ezy.
    + apply N.eqb_eq in Ezy. subst z. rewrite N.eqb_sym, Exy. reflexivity.
    + apply IH.
Qed.

Lemma alookup_set_sid_none : forall x k t z, alookup z (set_sid x k t) = None <-> alookup z t = None.
Proof.
  intros x k t z. rewrite alookup_set_sid. destruct (alookup z t); split; intros H; try discriminate; reflexivity.
Qed.

Lemma alookup_set_sid_other : forall x k t z, z <> x -> alookup z (set_sid x k t) = alookup z t.
Proof.
  intros x k t z Hne. rewrite alookup_set_sid. apply N.eqb_neq in Hne. rewrite Hne.
  destruct (alookup z t); reflexivity.
Qed.

Lemma wf_set_sid : forall x k t, wf_tbl t -> wf_tbl (set_sid x k t).
Proof.
  intros x k. induction t as [|[y s] t IH]; intros Hwf; [exact I|].
  destruct Hwf as (Hfresh & Hpar & Hwf'). simpl set_sid. destruct (x =? y).
  - simpl. repeat split; assumption.
  - simpl. split; [apply alookup_set_sid_none; exact Hfresh|]. split; [|apply IH; exact Hwf'].
    intros p Ep Hnone. apply (Hpar p Ep). apply (alookup_set_sid_none x k t p). exact Hnone.
Qed.

Lemma wf_step : forall t r, wf_tbl t -> rec_wf t r = true -> wf_tbl (tbl_step t r).
Proof.
  intros t r Hwf Hr. destruct r as [x p|x k| | | | |]; simpl; try exact Hwf.
  - simpl in Hr. apply andb_true_iff in Hr. destruct Hr as (Hfresh & Hpar). repeat split.
    + destruct (alookup x t); [discriminate|reflexivity].
    + simpl. intros q Eq. subst p. destruct (alookup q t); [discriminate|discriminate].
    + exact Hwf.
  - apply wf_set_sid. exact Hwf.
Qed.

Lemma all_steps_app : forall chk a t b,
  all_steps chk t (a ++ b) = all_steps chk t a && all_steps chk (fold_left tbl_step a t) b.
Proof.
  intros chk. induction a as [|r a IH]; intros t b; [reflexivity|].
  simpl. rewrite IH, andb_assoc. reflexivity.
Qed.

Lemma wf_steps : forall rs t, wf_tbl t -> all_steps rec_wf t rs = true -> wf_tbl (fold_left tbl_step rs t).
Proof.
  induction rs as [|r rs IH]; intros t Hwf Hall; [exact Hwf|].
  simpl in Hall. apply andb_true_iff in Hall. destruct Hall as (Hr & Hall).
  simpl. apply IH; [apply wf_step; assumption|exact Hall].
Qed.

Theorem stream_wf_tbl : forall rs, stream_wf rs = true -> wf_tbl (tbl_of rs).
Proof. intros rs H. apply wf_steps; [exact I|exact H]. Qed.

Lemma all_steps_weaken : forall (c1 c2 : tbl -> arec -> bool),
  (forall t r, c1 t r = true -> c2 t r = true) ->
  forall rs t, all_steps c1 t rs = true -> all_steps c2 t rs = true.
Proof.
  intros c1 c2 Himp. induction rs as [|r rs IH]; intros t H; [reflexivity|].
  simpl in *. apply andb_true_iff in H. destruct H as (H1 & H2).
  rewrite (Himp t r H1), (IH _ H2). reflexivity.
Qed.

Lemma shaped_stream_wf : forall rs, shaped rs = true -> stream_wf rs = true.
Proof.
  intros rs. apply all_steps_weaken. intros t r H. unfold shaped_chk in H.
  apply andb_true_iff in H. apply H.
Qed.

(* ---------------------------------------------------------------------------------------------- *)
(* 2. THE ATTRIBUTION THEOREM                                                                      *)
(* ---------------------------------------------------------------------------------------------- *)
Lemma recipients_registered : forall reg k e, alookup k reg = Some e -> recipients reg (Some k) = [e].
Proof. intros reg k e H. simpl. rewrite H. reflexivity. Qed.

(* State form. The runner's shape: the span a of an attempt is a span with an id and NO id'd span above it
   (`top_span`), and the id is registered to the attempt's scenario. Then an event whose scope starts at ANY span x
   at or below a — through spans with or without ids, nested scenario spans included — resolves to that id, and
   the message has exactly one recipient: that scenario, with the registered retries. *)
Theorem attribution : forall t reg a sid sc rt x,
  wf_tbl t -> top_span t a sid -> alookup sid reg = Some (sc, rt) -> below t x a ->
  scope_lookup t (Some x) = Some sid /\
  recipients reg (scope_lookup t (Some x)) = [(sc, rt)].
Proof.
  intros t reg a sid sc rt x Hwf Htop Hreg Hb.
  assert (H : scope_lookup t (Some x) = Some sid) by (eapply lookup_outermost_wins; eassumption).
  split; [exact H|]. rewrite H. apply recipients_registered. exact Hreg.
Qed.

(* delivered once, to that scenario, never to another *)
Corollary attribution_once : forall t reg a sid sc rt x,
  wf_tbl t -> top_span t a sid -> alookup sid reg = Some (sc, rt) -> below t x a ->
  length (recipients reg (scope_lookup t (Some x))) = 1%nat /\
  forall sc' rt', In (sc', rt') (recipients reg (scope_lookup t (Some x))) -> sc' = sc /\ rt' = rt.
Proof.
  intros t reg a sid sc rt x Hwf Htop Hreg Hb.
  destruct (attribution t reg a sid sc rt x Hwf Htop Hreg Hb) as (_ & Hrec). rewrite Hrec.
  split; [reflexivity|]. intros sc' rt' [E|[]]. inversion E. split; reflexivity.
Qed.

(* ---- the history form: `top_span` survives every step of a shaped history ---- *)
Lemma set_sid_parent_bwd : forall x k t u s', alookup u (set_sid x k t) = Some s' ->
  exists s, alookup u t = Some s /\ sp_parent s = sp_parent s'.
Proof.
  intros x k t u s' H. rewrite alookup_set_sid in H. destruct (alookup u t) as [s|]; [|discriminate].
  exists s. split; [reflexivity|]. inversion H. destruct (u =? x); reflexivity.
Qed.

Lemma set_sid_parent_fwd : forall x k t u s, alookup u t = Some s ->
  exists s', alookup u (set_sid x k t) = Some s' /\ sp_parent s' = sp_parent s.
Proof.
  intros x k t u s H. rewrite alookup_set_sid, H. eexists. split; [reflexivity|].
  destruct (u =? x); reflexivity.
Qed.

Lemma below_set_sid : forall x k t u v, below (set_sid x k t) u v <-> below t u v.
Proof.
  intros x k t u v. split; intros Hb; induction Hb as [u|u s p a Hu Hp Hpa IH]; try apply below_refl.
  - destruct (set_sid_parent_bwd x k t u s Hu) as (s0 & H0 & Hpar).
    eapply below_up; [exact H0|rewrite Hpar; exact Hp|exact IH].
  - destruct (set_sid_parent_fwd x k t u s Hu) as (s0 & H0 & Hpar).
    eapply below_up; [exact H0|rewrite Hpar; exact Hp|exact IH].
Qed.

Lemma has_child_false : forall t x, has_child t x = false ->
  forall c sc, alookup c t = Some sc -> sp_parent sc <> Some x.
Proof.
  intros t x H c sc Hc Hp. unfold has_child in H.
  assert (Ht : existsb (fun e => option_eqb N.eqb (sp_parent (snd e)) (Some x)) t = true).
  { apply existsb_exists. exists (c, sc). split; [apply alookup_In; exact Hc|].
    simpl. rewrite Hp. simpl. apply N.eqb_refl. }
  rewrite H in Ht. discriminate.
Qed.

Lemma below_reaches : forall t q x, below t q x ->
  q = x \/ exists c sc, alookup c t = Some sc /\ sp_parent sc = Some x.
Proof.
  intros t q x Hb. induction Hb as [u|u s p a Hu Hp Hpa IH]; [left; reflexivity|].
  right. destruct IH as [E|IH]; [|exact IH]. subst p. exists u, s. split; assumption.
Qed.

Lemma top_span_step : forall t r a k,
  wf_tbl t -> shaped_chk t r = true -> top_span t a k -> top_span (tbl_step t r) a k.
Proof.
  intros t r a k Hwf Hchk (sa & Ha & Hk & Hup).
  unfold shaped_chk in Hchk. apply andb_true_iff in Hchk. destruct Hchk as (Hrw & Hsc).
  destruct r as [x p|x k'| | | | |]; simpl tbl_step; try (exists sa; repeat split; assumption).
  - (* a new span: older spans resolve as before *)
    simpl in Hrw. apply andb_true_iff in Hrw. destruct Hrw as (Hfresh & _).
    assert (Hx : alookup x t = None) by (destruct (alookup x t); [discriminate|reflexivity]).
    exists sa. split; [|split; [exact Hk|]].
    + rewrite alookup_cons_other; [exact Ha|rewrite Ha; discriminate|exact Hx].
    + remember (sp_parent sa) as pa eqn:Epa. destruct pa as [q|]; [|reflexivity].
      rewrite lookup_cons; [exact Hup|exact Hwf|exact Hx|].
      eapply wf_parent_in; [exact Hwf|exact Ha|symmetry; exact Epa].
  - (* an id given at creation: the span is not a (a has an id) and not above a (it has no child) *)
    simpl in Hsc. apply andb_true_iff in Hsc. destruct Hsc as (Hnoid & Hnoch).
    apply negb_true_iff in Hnoch.
    assert (Hne : a <> x).
    { intros E. subst x. rewrite Ha, Hk in Hnoid. discriminate. }
    exists sa. split; [rewrite alookup_set_sid_other; assumption|split; [exact Hk|]].
    remember (sp_parent sa) as pa eqn:Epa. destruct pa as [q|]; [|reflexivity]. symmetry in Epa.
    apply (lookup_none_iff (set_sid x k' t) q (wf_set_sid x k' t Hwf)).
    intros y sy Hb Hy. apply below_set_sid in Hb.
    assert (Hyx : y <> x).
    { intros E. subst y. destruct (below_reaches t q x Hb) as [E|(c & sc & Hc & Hpc)].
      - subst q. exact (has_child_false t x Hnoch a sa Ha Epa).
      - exact (has_child_false t x Hnoch c sc Hc Hpc). }
    rewrite (alookup_set_sid_other x k' t y Hyx) in Hy.
    exact (proj1 (lookup_none_iff t q Hwf) Hup y sy Hb Hy).
Qed.

Lemma shaped_chk_wf : forall t r, shaped_chk t r = true -> rec_wf t r = true.
Proof. intros t r H. unfold shaped_chk in H. apply andb_true_iff in H. apply H. Qed.

Lemma top_span_steps : forall post t a k,
  wf_tbl t -> all_steps shaped_chk t post = true -> top_span t a k ->
  wf_tbl (fold_left tbl_step post t) /\ top_span (fold_left tbl_step post t) a k.
Proof.
  induction post as [|r post IH]; intros t a k Hwf Hall Htop; [split; assumption|].
  simpl in Hall. apply andb_true_iff in Hall. destruct Hall as (Hr & Hall). simpl.
  apply IH; [apply wf_step; [exact Hwf|apply shaped_chk_wf; exact Hr]|exact Hall|].
  apply top_span_step; assumption.
Qed.

Lemma a_tbl_run : forall rs s, a_tbl (fold_left astep rs s) = fold_left tbl_step rs (a_tbl s).
Proof.
  induction rs as [|r rs IH]; intros s; [reflexivity|].
  simpl. rewrite IH. destruct r; reflexivity.
Qed.

Lemma a_tbl_arun : forall rs, a_tbl (arun rs) = tbl_of rs.
Proof. intros rs. apply a_tbl_run. Qed.

(* THE ATTRIBUTION THEOREM over histories. Once the span a of an attempt has been created as a span with the id
   sid and no id'd span above it, then after EVERY continuation of the history in which spans are created below
   existing spans and ids are given at creation (`shaped`): whatever span x lies at or below a — at any depth,
   nested scenario spans with their own ids included — an event whose scope starts at x resolves to sid; and
   while sid is registered to (sc, rt), the message goes to that scenario once, and to no other. *)
Theorem attribution_history : forall pre post a sid x sc rt,
  shaped (pre ++ post) = true ->
  top_span (tbl_of pre) a sid ->
  let st := arun (pre ++ post) in
  below (a_tbl st) x a ->
  alookup sid (a_reg st) = Some (sc, rt) ->
  scope_lookup (a_tbl st) (Some x) = Some sid /\
  recipients (a_reg st) (scope_lookup (a_tbl st) (Some x)) = [(sc, rt)].
Proof.
  intros pre post a sid x sc rt Hsh Htop st Hb Hreg. subst st.
  rewrite a_tbl_arun in *. unfold tbl_of in Hb |- *. rewrite fold_left_app in Hb |- *.
  unfold shaped in Hsh. rewrite all_steps_app in Hsh. apply andb_true_iff in Hsh.
  destruct Hsh as (Hpre & Hpost).
  assert (Hwf : wf_tbl (tbl_of pre)).
  { apply stream_wf_tbl. apply shaped_stream_wf. exact Hpre. }
  destruct (top_span_steps post (tbl_of pre) a sid Hwf Hpost Htop) as (Hwf' & Htop').
  eapply attribution; eassumption.
Qed.

(* the creation itself: `scenario{__cucumber_scenario_id = sid}` created below a path without ids *)
Theorem created_top_span : forall pre a p sid,
  shaped (pre ++ [ANewSpan a p; ASpanSid a sid]) = true ->
  scope_lookup (tbl_of pre) p = None ->
  top_span (tbl_of (pre ++ [ANewSpan a p; ASpanSid a sid])) a sid.
Proof.
  intros pre a p sid Hsh Hup.
  unfold shaped in Hsh. rewrite all_steps_app in Hsh. apply andb_true_iff in Hsh.
  destruct Hsh as (Hpre & Hnew).
  assert (Hwf : wf_tbl (tbl_of pre)).
  { apply stream_wf_tbl. apply shaped_stream_wf. exact Hpre. }
  fold (tbl_of pre) in Hnew. simpl in Hnew. apply andb_true_iff in Hnew. destruct Hnew as (Hchk & _).
  apply shaped_chk_wf in Hchk. simpl in Hchk. apply andb_true_iff in Hchk. destruct Hchk as (Hfresh & Hpar).
  assert (Ha : alookup a (tbl_of pre) = None) by (destruct (alookup a (tbl_of pre)); [discriminate|reflexivity]).
  unfold tbl_of. rewrite fold_left_app. fold (tbl_of pre). simpl. rewrite N.eqb_refl.
  exists (mk_span p (Some sid)). split; [simpl; rewrite N.eqb_refl; reflexivity|].
  split; [reflexivity|]. simpl sp_parent.
  destruct p as [q|]; [|reflexivity].
  rewrite lookup_cons; [exact Hup|exact Hwf|exact Ha|].
  destruct (alookup q (tbl_of pre)); [discriminate|discriminate].
Qed.

(* ---------------------------------------------------------------------------------------------- *)
(* 3. the broadcast rule                                                                           *)
(* ---------------------------------------------------------------------------------------------- *)
(* no id'd span on the path (or no span at all): EVERY registered scenario gets a copy *)
Theorem broadcast_no_span : forall t reg, recipients reg (scope_lookup t None) = map snd reg.
Proof. reflexivity. Qed.

Theorem broadcast_no_id : forall t reg x, wf_tbl t ->
  (forall y sy, below t x y -> alookup y t = Some sy -> sp_sid sy = None) ->
  recipients reg (scope_lookup t (Some x)) = map snd reg.
Proof.
  intros t reg x Hwf Hall. rewrite (proj2 (lookup_none_iff t x Hwf) Hall). reflexivity.
Qed.

(* the outermost id is not registered (e.g. it is the id of a nested runner's scenario, or a wrongly resolved
   one): again every registered scenario gets a copy — which is what makes a wrongly resolved id visible *)
Theorem broadcast_unregistered : forall t reg scope k,
  scope_lookup t scope = Some k -> alookup k reg = None ->
  recipients reg (scope_lookup t scope) = map snd reg.
Proof. intros t reg scope k H Hreg. rewrite H. simpl. rewrite Hreg. reflexivity. Qed.

Theorem broadcast_reaches_all : forall reg k sid sc rt,
  (k = None \/ exists id, k = Some id /\ alookup id reg = None) ->
  In (sid, (sc, rt)) reg -> In (sc, rt) (recipients reg k).
Proof.
  intros reg k sid sc rt Hk Hin.
  assert (Hall : recipients reg k = map snd reg).
  { destruct Hk as [E|(id & E & Hnone)]; subst k; simpl; [reflexivity|]. rewrite Hnone. reflexivity. }
  rewrite Hall. apply (in_map snd reg (sid, (sc, rt))). exact Hin.
Qed.

(* the registry operations *)
Lemma alookup_reg_remove : forall sid r k,
  alookup k (reg_remove sid r) = if k =? sid then None else alookup k r.
Proof.
  intros sid. induction r as [|[j e] r IH]; intros k; [destruct (k =? sid); reflexivity|].
  unfold reg_remove in *. simpl. destruct (j =? sid) eqn:Ej; simpl.
  - rewrite IH. apply N.eqb_eq in Ej. subst j. destruct (k =? sid); reflexivity.
  - rewrite IH. destruct (k =? j) eqn:Ekj; [|reflexivity].
    apply N.eqb_eq in Ekj. subst k. rewrite Ej. reflexivity.
Qed.

Lemma alookup_reg_insert : forall sid sc rt r k,
  alookup k (reg_insert sid sc rt r) = if k =? sid then Some (sc, rt) else alookup k r.
Proof.
  intros sid sc rt r k. unfold reg_insert. simpl. rewrite alookup_reg_remove.
  destruct (k =? sid); reflexivity.
Qed.

(* ---------------------------------------------------------------------------------------------- *)
(* 4. what an accepted run guarantees                                                              *)
(* ---------------------------------------------------------------------------------------------- *)
Lemma option_eqb_N_eq : forall a b : option N, option_eqb N.eqb a b = true -> a = b.
Proof.
  intros [a|] [b|] H; simpl in H; try discriminate; [|reflexivity].
  apply N.eqb_eq in H. subst. reflexivity.
Qed.

Lemma entry_eqb_eq : forall a b, entry_eqb a b = true -> a = b.
Proof.
  intros [sc rt] [sc' rt'] H. unfold entry_eqb, pair_eqb in H. simpl in H.
  apply andb_true_iff in H. destruct H as (H1 & H2). apply N.eqb_eq in H1. subst sc'.
  destruct rt as [[c l]|], rt' as [[c' l']|]; simpl in H2; try discriminate; [|reflexivity].
  unfold pair_eqb in H2. simpl in H2. apply andb_true_iff in H2. destruct H2 as (H2 & H3).
  apply N.eqb_eq in H2. apply N.eqb_eq in H3. subst. reflexivity.
Qed.

Lemma attr_walk_app : forall pre s i r post,
  attr_walk s i (pre ++ r :: post) = None -> acheck (fold_left astep pre s) r = 0.
Proof.
  induction pre as [|q pre IH]; intros s i r post H; simpl in H.
  - destruct (acheck s r =? 0) eqn:E; [apply N.eqb_eq; exact E|discriminate].
  - destruct (acheck s q =? 0); [|discriminate]. simpl. eapply IH. exact H.
Qed.

Lemma attr_ok_check : forall pre r post,
  attr_ok (pre ++ r :: post) = true -> acheck (arun pre) r = 0.
Proof.
  intros pre r post H. unfold attr_ok, attr_first_bad_why in H.
  destruct (attr_walk ainit 0 (pre ++ r :: post)) eqn:E; [discriminate|].
  eapply attr_walk_app. exact E.
Qed.

(* (a) and (b): in an accepted run every event was resolved by the real code as the model resolves it, and a
   harness message was resolved to a registered id standing for the scenario that emitted it *)
Theorem attr_ok_fmt : forall pre scope resolved post,
  attr_ok (pre ++ AFmt scope resolved :: post) = true ->
  resolved = scope_lookup (tbl_of pre) scope /\
  forall sc m, a_pending (arun pre) = Some (sc, m) ->
    exists k rt, resolved = Some k /\ alookup k (a_reg (arun pre)) = Some (sc, rt).
Proof.
  intros pre scope resolved post H. apply attr_ok_check in H. unfold acheck in H.
  rewrite a_tbl_arun in H.
  destruct (option_eqb N.eqb resolved (scope_lookup (tbl_of pre) scope)) eqn:Ea; simpl in H; [|discriminate].
  split; [apply option_eqb_N_eq; exact Ea|].
  intros sc m Hp. rewrite Hp in H.
  destruct resolved as [k|]; [|discriminate].
  destruct (alookup k (a_reg (arun pre))) as [[sc' rt]|] eqn:Ek; [|discriminate].
  destruct (sc' =? sc) eqn:Es; [|discriminate].
  apply N.eqb_eq in Es. subst sc'. exists k, rt. split; [reflexivity|exact Ek].
Qed.

(* (c): an observed Log event carrying a remembered message went to one of the model's recipients *)
Theorem attr_ok_deliver : forall pre sc rt m post k,
  attr_ok (pre ++ ADeliver sc rt (Some m) :: post) = true ->
  alookup m (a_known (arun pre)) = Some k ->
  In (sc, rt) (recipients (a_reg (arun pre)) (Some k)).
Proof.
  intros pre sc rt m post k H Hk. apply attr_ok_check in H. unfold acheck in H. rewrite Hk in H.
  destruct (existsb (entry_eqb (sc, rt)) (recipients (a_reg (arun pre)) (Some k))) eqn:E; [|discriminate].
  apply existsb_exists in E. destruct E as (e & Hin & He).
  apply entry_eqb_eq in He. subst e. exact Hin.
Qed.

(* the monitor and the attribution theorem together: in an accepted run, a harness message of scenario sc whose
   event's scope lies at or below the attempt span of a registered id sid was resolved by the REAL code to sid,
   and sid stands for sc *)
Theorem monitor_agrees_with_attribution : forall pre post x resolved a sid sc m sc' rt',
  attr_ok (pre ++ AFmt (Some x) resolved :: post) = true ->
  stream_wf pre = true ->
  a_pending (arun pre) = Some (sc, m) ->
  top_span (tbl_of pre) a sid -> below (tbl_of pre) x a ->
  alookup sid (a_reg (arun pre)) = Some (sc', rt') ->
  resolved = Some sid /\ sc' = sc.
Proof.
  intros pre post x resolved a sid sc m sc' rt' Hok Hwf Hp Htop Hb Hreg.
  destruct (attr_ok_fmt pre (Some x) resolved post Hok) as (Ha & Hbq).
  apply stream_wf_tbl in Hwf.
  rewrite (lookup_outermost_wins (tbl_of pre) a sid x Hwf Htop Hb) in Ha.
  split; [exact Ha|].
  destruct (Hbq sc m Hp) as (k & rt & Ek & Hk). rewrite Ha in Ek. inversion Ek. subst k.
  rewrite Hreg in Hk. inversion Hk. reflexivity.
Qed.

(* ---------------------------------------------------------------------------------------------- *)
(* 5. examples                                                                                     *)
(* ---------------------------------------------------------------------------------------------- *)
(* two concurrent scenarios 101 (id 1, no retries) and 102 (id 2, retries 1/2); spans 10 / 20 are their `scenario`
   spans, 11 / 21 their step spans; 12 is a user span below step 11; 22 is the `scenario` span of a NESTED runner
   below step 21 with the unregistered id 7, 23 the nested step. `nested` is the id the real code resolved for the
   message logged inside span 23; `dst` is the scenario message 1001 was delivered to. *)
Definition rt2 : retr := Some (1, 2).
Definition ex_run (nested : N) (dst : N * retr) : list arec :=
  [ AReg 1 101 None; AReg 2 102 rt2;
    ANewSpan 10 None; ASpanSid 10 1;
    ANewSpan 20 None; ASpanSid 20 2;
    ANewSpan 11 (Some 10); ANewSpan 21 (Some 20);
    AEmit 101 1001; AFmt (Some 11) (Some 1);
    AEmit 102 2001; AFmt (Some 21) (Some 2);
    ANewSpan 12 (Some 11);
    AEmit 101 1002; AFmt (Some 12) (Some 1);
    ANewSpan 22 (Some 21); ASpanSid 22 7; ANewSpan 23 (Some 22);
    AEmit 102 2002; AFmt (Some 23) (Some nested);                    (* index 19 *)
    AFmt None None;                                                 (* an event outside every span: unknown *)
    ADeliver (fst dst) (snd dst) (Some 1001);                       (* index 21 *)
    ADeliver 102 rt2 (Some 2001);
    ADeliver 101 None (Some 1002); ADeliver 102 rt2 (Some 2002);
    ADeliver 101 None None; ADeliver 102 rt2 None;                  (* the unknown event, broadcast *)
    AUnreg 1; AUnreg 2 ].

Example ex_accepted : attr_ok (ex_run 2 (101, None)) = true /\ shaped (ex_run 2 (101, None)) = true.
Proof. vm_compute. split; reflexivity. Qed.

(* the nested message resolved to the INNERMOST id: rejected at (a), at the AFmt *)
Example ex_innermost_rejected :
  attr_ok (ex_run 7 (101, None)) = false /\ attr_first_bad_why (ex_run 7 (101, None)) = Some (19%nat, 1).
Proof. vm_compute. split; reflexivity. Qed.

(* a message of scenario 101 delivered to scenario 102: rejected at (c), at the ADeliver *)
Example ex_misdelivered_rejected :
  attr_ok (ex_run 2 (102, rt2)) = false /\ attr_first_bad_why (ex_run 2 (102, rt2)) = Some (21%nat, 3)
  /\ attr_first_bad (ex_run 2 (102, rt2)) = Some 21%nat.
Proof. vm_compute. repeat split; reflexivity. Qed.

(* delivered to the right scenario with the wrong retries: rejected at (c) too *)
Example ex_wrong_retries_rejected : attr_first_bad_why (ex_run 2 (101, Some (1, 2))) = Some (21%nat, 3).
Proof. vm_compute. reflexivity. Qed.

(* a message of scenario 101 logged in a scope below scenario 102's span (the real code and the model agree on
   the id, but it is not 101's): rejected at (b) *)
Example ex_foreign_scope_rejected :
  attr_first_bad_why
    [ AReg 1 101 None; AReg 2 102 None; ANewSpan 10 None; ASpanSid 10 1; ANewSpan 20 None; ASpanSid 20 2;
      ANewSpan 21 (Some 20); AEmit 101 1001; AFmt (Some 21) (Some 2) ] = Some (8%nat, 2).
Proof. vm_compute. reflexivity. Qed.

(* a message whose id is not registered (here: after finish_scenario) may go to any REGISTERED scenario only *)
Example ex_unregistered_broadcast :
  attr_first_bad_why
    [ AReg 1 101 None; AReg 2 102 None; ANewSpan 10 None; ASpanSid 10 1; ANewSpan 11 (Some 10);
      AEmit 101 1001; AFmt (Some 11) (Some 1); AUnreg 1;
      ADeliver 102 None (Some 1001); ADeliver 101 None (Some 1001) ] = Some (9%nat, 3).
Proof. vm_compute. reflexivity. Qed.

(* the lookups of the accepted run, computed: the nested step 23 and the nested scenario span 22 resolve to 2 *)
Example ex_lookups :
  let t := tbl_of (ex_run 2 (101, None)) in
  map (fun x => scope_lookup t (Some x)) [10; 11; 12; 20; 21; 22; 23; 99]
  = [Some 1; Some 1; Some 1; Some 2; Some 2; Some 2; Some 2; None]
  /\ recipients [(2, (102, rt2)); (1, (101, None))] (scope_lookup t (Some 23)) = [(102, rt2)]
  /\ recipients [(2, (102, rt2)); (1, (101, None))] (Some 7) = [(102, rt2); (101, None)].
Proof. vm_compute. repeat split; reflexivity. Qed.

Print Assumptions lookup_step.
Print Assumptions lookup_outermost_wins.
Print Assumptions lookup_none_iff.
Print Assumptions lookup_some_iff.
Print Assumptions stream_wf_tbl.
Print Assumptions attribution.
Print Assumptions attribution_history.
Print Assumptions created_top_span.
Print Assumptions broadcast_no_id.
Print Assumptions broadcast_unregistered.
Print Assumptions attr_ok_fmt.
Print Assumptions attr_ok_deliver.
Print Assumptions monitor_agrees_with_attribution.
