(* NormalizeP4h.v — C11 "sequential", part 8: one call of handle_event, and the whole run. *)
From CV Require Import Proofs.SchedP5.
From CV Require Import Model.Base Model.Events Model.Contract Model.Normalize
  Proofs.BaseP Proofs.NormalizeP Proofs.NormalizeP2 Proofs.NormalizeP3 Proofs.NormalizeP4 Proofs.NormalizeP4b
  Proofs.NormalizeP4c Proofs.NormalizeP4d Proofs.NormalizeP4e Proofs.NormalizeP4f Proofs.NormalizeP4g.
From Coq Require Import Lia Permutation.

(* ---- the invariants only look at the three tables ---- *)
Lemma feats_static_ext c c' l :
  c_feats c' = c_feats c -> c_rules c' = c_rules c -> c_atts c' = c_atts c -> feats_static c l -> feats_static c' l.
Proof.
  intros E1 E2 E3 [ND WF FT TL]. constructor; auto. intros f q H. apply (feat_static_agree c c' f q).
  - rewrite E1. reflexivity.
  - intros k _. rewrite E2. reflexivity.
  - intros k _. rewrite E3. reflexivity.
  - exact (FT f q H).
Qed.
Lemma feats_open_ext c c' l :
  c_feats c' = c_feats c -> c_rules c' = c_rules c -> c_atts c' = c_atts c -> feats_open c l -> feats_open c' l.
Proof. intros E1 E2 E3 (OF & OR & OA). unfold feats_open. rewrite E1, E2, E3. auto. Qed.

(* ---- flags ---- *)
Lemma cstep_not_finished seq c e c' : cstep seq c e = Some c' -> c_finished c = false.
Proof. unfold cstep. destruct (c_finished c); [discriminate|reflexivity]. Qed.
Lemma cstep_flags seq c e c' : cstep seq c e = Some c' ->
  c_started c' = (c_started c || match e with EvStarted => true | _ => false end) /\
  c_pf c' = (c_pf c || match e with EvParsingFinished _ _ _ _ _ => true | _ => false end) /\
  c_finished c' = match e with EvFinished => true | _ => false end.
Proof.
  unfold cstep. destruct (c_finished c) eqn:CF; [discriminate|]. intros H.
  destruct e as [| | | |f|f|f r|f r|f ro sc rt x];
    try (apply guard_some in H as [_ <-]; cbn; rewrite ?orb_false_r, ?orb_true_r; auto; fail);
    try (inversion H; subst; cbn; rewrite ?orb_false_r; auto; fail).
  destruct x; apply guard_some in H as [_ <-]; cbn; rewrite ?orb_false_r; auto.
Qed.

Lemma enqueue_nonempty s m ev : (forall f, ev <> EvFeatS f) -> ns_feats (enqueue s (m, ev)) <> [] -> ns_feats s <> [].
Proof.
  intros NF H E. apply H. unfold enqueue. cbn [fst snd].
  destruct ev as [| | | |f|f|f r|f r|f [r|] sc rt x]; cbn [set_feats ns_feats]; rewrite ?E; try reflexivity.
  exfalso. exact (NF f eq_refl).
Qed.

Lemma nhandle_snd s e : is_emitted (ns_state s) = false ->
  snd (nhandle s e) = (if is_pass (snd e) then [e] else []) ++ fst (emit_feats (ns_feats (enqueue s e))) ++
                      match fst (take_fin (ns_state (enqueue s e))) with Some m => [(m, EvFinished)] | None => [] end.
Proof.
  intros EM. unfold nhandle. rewrite EM. destruct (emit_feats (ns_feats (enqueue s e))) as [o1 fs].
  destruct (take_fin (ns_state (enqueue s e))) as [[m0|] st]; cbn [fst snd]; [reflexivity|rewrite app_nil_r; reflexivity].
Qed.

(* ---- what the output automaton knows, the input automaton knows (the output is a part of the input) ---- *)
Section Link.
  Variables (ins outs : list mev) (c_in c : cstate) (s : nstate).
  Hypothesis RIN : crun false cinit (map snd ins) = Some c_in.
  Hypothesis ROUT : crun true cinit (map snd outs) = Some c.
  Hypothesis PERM : Permutation (outs ++ pending s) ins.

  Lemma out_in_ev e : In e (map snd outs) -> In e (map snd ins).
  Proof.
    intros H. apply in_map_iff in H as (me & <- & Hme). apply in_map. apply (Permutation_in _ PERM).
    apply in_or_app. left. exact Hme.
  Qed.

  Lemma keysub_gen {K} (eqb : K -> K -> bool) tbl start fin :
    step_shape eqb tbl start fin -> step_start eqb tbl start -> tbl cinit = [] ->
    forall k, lookup eqb k (tbl c) <> None -> lookup eqb k (tbl c_in) <> None.
  Proof.
    intros ST SS INIT k L.
    destruct (crun_key_back eqb tbl start fin ST true _ _ _ k ROUT L) as [X|X]; [rewrite INIT in X; cbn in X; contradiction|].
    exact (crun_key_fwd eqb tbl start fin ST SS false _ _ _ k RIN (out_in_ev _ X)).
  Qed.

  Lemma closed_link_holds : closed_link c_in s c.
  Proof.
    intros k L.
    destruct (crun_closed_back atkey_eqb c_atts ev_startA ev_finA step_shape_atts false _ _ _ k RIN L) as [X|X]; [discriminate X|].
    apply in_map_iff in X as ([m0 e0] & E & Hme). cbn [snd] in E. subst e0.
    apply (Permutation_in _ (Permutation_sym PERM)) in Hme. apply in_app_or in Hme as [Hme|Hme].
    - left. apply (crun_closed_fwd atkey_eqb c_atts ev_startA ev_finA step_shape_atts step_fin_atts true _ _ _ k ROUT).
      apply in_map_iff. exists (m0, ev_finA k). auto.
    - right. destruct k as [[[f ro] sc] rt]. exact (pending_scen_buffered s m0 f ro sc rt ScFinished Hme).
  Qed.
End Link.

Record TInv (ins outs : list mev) (c_in : cstate) (s : nstate) (c : cstate) : Prop := mk_TInv {
  ti_in : crun false cinit (map snd ins) = Some c_in;
  ti_out : crun true cinit (map snd outs) = Some c;
  ti_sim : SimInv c_in s;
  ti_perm : Permutation (outs ++ pending s) ins;
  ti_static : feats_static c (ns_feats s);
  ti_open : feats_open c (ns_feats s);
  ti_fin : c_finished c = false;
  ti_started : c_started c = c_started c_in;
  ti_pf : c_pf c = c_pf c_in;
  ti_ne : ns_feats s <> [] -> c_started c = true;
  ti_infin : c_finished c_in = false }.

(* the first part of a call: pass-through events are forwarded, the others are queued *)
Lemma pre_emit ins outs c_in s c m ev c_in' :
  TInv ins outs c_in s c -> cstep false c_in ev = Some c_in' -> nwf (enqueue s (m, ev)) = true ->
  exists c1, crun true c (map snd (if is_pass ev then [(m, ev)] else [])) = Some c1 /\
    feats_static c1 (ns_feats (enqueue s (m, ev))) /\ feats_open c1 (ns_feats (enqueue s (m, ev))) /\
    c_finished c1 = false /\ c_started c1 = c_started c_in' /\ c_pf c1 = c_pf c_in' /\
    (ns_feats (enqueue s (m, ev)) <> [] -> c_started c1 = true).
Proof.
  intros [RIN ROUT SIM PERM ST OP CF CS0 CP NE _] CS W'. destruct SIM as (HR & HU & W & NS).
  pose proof (cstep_flags _ _ _ _ CS) as (FS & FP & _).
  pose proof (keysub_gen ins outs c_in c s RIN ROUT PERM N.eqb c_feats EvFeatS EvFeatF step_shape_feats step_start_feats eq_refl) as KF.
  pose proof (keysub_gen ins outs c_in c s RIN ROUT PERM rkey_eqb c_rules ev_startR ev_finR step_shape_rules step_start_rules eq_refl) as KR.
  pose proof (keysub_gen ins outs c_in c s RIN ROUT PERM atkey_eqb c_atts ev_startA ev_finA step_shape_atts step_start_atts eq_refl) as KA.
  pose proof (closed_link_holds ins outs c_in c s RIN ROUT PERM) as CL.
  assert (FIN2 : is_pass ev = false ->
            feats_static c (ns_feats (enqueue s (m, ev))) /\ feats_open c (ns_feats (enqueue s (m, ev))) ->
            (ns_feats (enqueue s (m, ev)) <> [] -> c_started c = true) ->
            exists c1, crun true c (map snd (if is_pass ev then [(m, ev)] else [])) = Some c1 /\
              feats_static c1 (ns_feats (enqueue s (m, ev))) /\ feats_open c1 (ns_feats (enqueue s (m, ev))) /\
              c_finished c1 = false /\ c_started c1 = c_started c_in' /\ c_pf c1 = c_pf c_in' /\
              (ns_feats (enqueue s (m, ev)) <> [] -> c_started c1 = true)).
  { intros PS [A B] C. exists c. rewrite PS. cbn [map crun]. split; [reflexivity|]. split; [exact A|]. split; [exact B|].
    split; [exact CF|]. split; [|split; [|exact C]].
    - rewrite FS, CS0. destruct ev; try discriminate PS; cbn; rewrite orb_false_r; reflexivity.
    - rewrite FP, CP. destruct ev; try discriminate PS; cbn; rewrite orb_false_r; reflexivity. }
  assert (NE' : (forall f, ev <> EvFeatS f) -> ns_feats (enqueue s (m, ev)) <> [] -> c_started c = true).
  { intros NF H. apply NE. exact (enqueue_nonempty s m ev NF H). }
  pose proof CS as CS'. unfold cstep in CS'. rewrite (cstep_not_finished _ _ _ _ CS) in CS'.
  destruct ev as [| | | |f|f|f r|f r|f ro sc rt x].
  - (* Started *)
    apply guard_some in CS' as [G _]. exists (set_started c). cbn [is_pass map snd crun]. unfold cstep. rewrite CF, CS0, G.
    cbn [guard]. split; [reflexivity|]. rewrite (enqueue_pass s (m, EvStarted) eq_refl).
    split; [exact (feats_static_ext c (set_started c) _ eq_refl eq_refl eq_refl ST)|].
    split; [exact (feats_open_ext c (set_started c) _ eq_refl eq_refl eq_refl OP)|]. cbn [set_started c_finished c_started c_pf].
    split; [exact CF|]. split; [rewrite FS; rewrite orb_true_r; reflexivity|]. split; [rewrite FP, CP, orb_false_r; reflexivity|].
    intros _. reflexivity.
  - (* ParsingFinished *)
    apply guard_some in CS' as [G _]. exists (set_pf c). cbn [is_pass map snd crun]. unfold cstep. rewrite CF, CP, G.
    cbn [guard]. split; [reflexivity|]. rewrite (enqueue_pass s (m, EvParsingFinished f r s0 st e) eq_refl).
    split; [exact (feats_static_ext c (set_pf c) _ eq_refl eq_refl eq_refl ST)|].
    split; [exact (feats_open_ext c (set_pf c) _ eq_refl eq_refl eq_refl OP)|]. cbn [set_pf c_finished c_started c_pf].
    split; [exact CF|]. split; [rewrite FS, CS0, orb_false_r; reflexivity|]. split; [rewrite FP, orb_true_r; reflexivity|].
    exact NE.
  - (* parser error *)
    exists c. cbn [is_pass map snd crun]. unfold cstep. rewrite CF. split; [reflexivity|].
    rewrite (enqueue_pass s (m, EvParseErr id) eq_refl). split; [exact ST|]. split; [exact OP|]. split; [reflexivity|].
    split; [rewrite FS, CS0, orb_false_r; reflexivity|]. split; [rewrite FP, CP, orb_false_r; reflexivity|exact NE].
  - (* run Finished *)
    apply (FIN2 eq_refl); [|apply NE'; discriminate]. cbn [enqueue fst snd ns_feats]. auto.
  - (* Feature::Started *)
    apply guard_some in CS' as [G _]. apply andb_prop in G as [G _]. apply andb_prop in G as [G1 G2]. apply is_absent_none in G2.
    apply (FIN2 eq_refl).
    + exact (enq_featS c_in s c m f HR HU G2 (none_of_sub N.eqb f _ _ (KF f) G2) ST OP).
    + intros _. rewrite CS0. exact G1.
  - (* Feature::Finished *)
    apply guard_some in CS' as [G _]. apply andb_prop in G as [G _]. apply andb_prop in G as [G1 _]. apply is_open_some in G1.
    apply (FIN2 eq_refl); [|apply NE'; discriminate]. exact (enq_featF c_in s c m f HR HU G1 W' ST OP).
  - (* Rule::Started *)
    apply guard_some in CS' as [G _]. apply andb_prop in G as [G _]. apply andb_prop in G as [G1 G2].
    apply is_open_some in G1. apply is_absent_none in G2.
    apply (FIN2 eq_refl); [|apply NE'; discriminate].
    exact (enq_ruleS c_in s c m f r HR HU W G1 G2 (none_of_sub rkey_eqb (f, r) _ _ (KR (f, r)) G2) W' ST OP).
  - (* Rule::Finished *)
    apply guard_some in CS' as [G _]. apply andb_prop in G as [G1 G2]. apply is_open_some in G1. apply negb_true_iff in G2.
    apply (FIN2 eq_refl); [|apply NE'; discriminate]. exact (enq_ruleF c_in s c m f r HR HU W G1 G2 W' ST OP).
  - (* attempt events *)
    apply (FIN2 eq_refl); [|apply NE'; discriminate]. destruct ro as [r|].
    + exact (enq_scenR c_in c_in' s c m f r sc rt x HR HU W CS (KA _) CL W' ST OP).
    + exact (enq_scenN c_in c_in' s c m f sc rt x HR HU W CS (KA _) CL W' ST OP).
Qed.

Lemma WFc_init : WFc cinit.
Proof. repeat split; constructor. Qed.

(* one call of handle_event *)
Lemma call_step ins outs c_in s c m ev c_in' :
  TInv ins outs c_in s c -> cstep false c_in ev = Some c_in' ->
  (ev <> EvFinished ->
   exists c', TInv (ins ++ [(m, ev)]) (outs ++ snd (nhandle s (m, ev))) c_in' (fst (nhandle s (m, ev))) c') /\
  (ev = EvFinished ->
   exists c', crun true c (map snd (snd (nhandle s (m, ev)))) = Some c' /\ c_finished c' = true).
Proof.
  intros TI CS. pose proof TI as [RIN ROUT SIM PERM ST OP CF CS0 CP NE CFI]. pose proof SIM as (HR & HU & W & NS).
  assert (EM : is_emitted (ns_state s) = false) by (rewrite NS; reflexivity).
  assert (RS : resting s = true) by (unfold resting; rewrite NS; reflexivity).
  destruct (sim_step c_in c_in' s m ev SIM CS) as (AC & _ & NXT).
  destruct (handle_lossless s (m, ev) W RS AC) as (_ & _ & P1 & _ & _).
  assert (W' : nwf (enqueue s (m, ev)) = true).
  { destruct (is_pass ev) eqn:PS; [rewrite (enqueue_pass s (m, ev) PS); exact W|].
    unfold accepts in AC. rewrite EM in AC. exact (proj1 (enqueue_adds_one s (m, ev) W PS AC)). }
  destruct (pre_emit ins outs c_in s c m ev c_in' TI CS W') as (c1 & R1 & ST1 & OP1 & CF1 & CS1 & CP1 & NE1).
  pose proof (crun_WFc _ _ _ _ ROUT WFc_init) as Wc. pose proof (crun_WFc _ _ _ _ R1 Wc) as Wc1.
  destruct (seq_feats (ns_feats (enqueue s (m, ev))) c1 ST1 OP1 Wc1 CF1 NE1) as (c2 & R2 & SF2 & W2 & ST2 & OP2).
  destruct SF2 as (SFf & SFs & SFp).
  pose proof (cstep_flags _ _ _ _ CS) as (FS & FP & FF).
  pose proof (nhandle_snd s (m, ev) EM) as EO. pose proof (nhandle_fst s (m, ev) EM) as ES. cbn [snd] in EO.
  split.
  - intros NF.
    assert (SE : ns_state (enqueue s (m, ev)) = NotFinished) by (rewrite (enqueue_state s (m, ev) NF); exact NS).
    rewrite SE in EO, ES. cbn [take_fin fst snd] in EO, ES. rewrite app_nil_r in EO.
    specialize (NXT NF). rewrite EO, ES in *.
    exists c2. constructor.
    + rewrite map_app. eapply crun_app_intro; [exact RIN|]. cbn [map snd crun]. rewrite CS. reflexivity.
    + rewrite !map_app. eapply crun_app_intro; [exact ROUT|]. eapply crun_app_intro; [exact R1|exact R2].
    + exact NXT.
    + rewrite <- app_assoc. transitivity (outs ++ (pending s ++ [(m, ev)])).
      * apply Permutation_app_head. exact P1.
      * rewrite app_assoc. apply Permutation_app_tail. exact PERM.
    + exact ST2.
    + exact OP2.
    + congruence.
    + congruence.
    + congruence.
    + cbn [ns_feats]. intros H. rewrite SFs. apply NE1. intros E. apply H. rewrite E. reflexivity.
    + rewrite FF. destruct ev; try reflexivity. contradiction.
  - intros ->. rewrite EO. clear EO ES NXT P1.
    cbn [enqueue fst snd ns_state ns_feats take_fin is_pass app] in *.
    assert (L' : snd (emit_feats (ns_feats s)) = []).
    { unfold nwf in W'. cbn [ns_feats ns_state fin_pending negb orb] in W'. apply andb_prop in W' as [FW FD].
      pose proof (emit_feats_wf (ns_feats s) FW) as X. destruct (emit_feats (ns_feats s)) as [o1 l1]. cbn [snd].
      destruct X as (_ & _ & X). exact (X FD). }
    rewrite L' in *.
    assert (NOF : any_open_feat c2 = false).
    { apply open_feats_all_false; [exact (proj1 W2)|]. intros f L. destruct OP2 as (OF & _). destruct (OF f L) as (q & [] & _). }
    exists (set_finished c2). split; [|reflexivity].
    cbn [map crun] in R1. inversion R1; subst c1.
    rewrite map_app. eapply crun_app_intro; [exact R2|].
    cbn [map snd crun]. unfold cstep. rewrite SFf, CF1, SFs, CS1, FS, NOF.
    unfold cstep in CS. rewrite CFI in CS. apply guard_some in CS as [G _]. apply andb_prop in G as [G _]. rewrite G. reflexivity.
Qed.

Lemma TInv_init : TInv [] [] cinit ninit cinit.
Proof.
  apply mk_TInv.
  - reflexivity.
  - reflexivity.
  - exact SimInv_init.
  - cbn. constructor.
  - constructor; [constructor|reflexivity|intros f q []|intros f q []].
  - split; [|split]; intros k L; discriminate L.
  - reflexivity.
  - reflexivity.
  - reflexivity.
  - intros H. exfalso. apply H. reflexivity.
  - reflexivity.
Qed.

Lemma run_seq : forall es ins outs c_in s c c_fin,
  TInv ins outs c_in s c -> crun false c_in (map snd es) = Some c_fin -> c_finished c_fin = true ->
  exists c', crun true c (map snd (concat (nrun_from s es))) = Some c' /\ c_finished c' = true.
Proof.
  induction es as [|[m ev] t IH]; intros ins outs c_in s c c_fin TI CR FIN.
  - cbn in CR. inversion CR; subst. rewrite (ti_infin _ _ _ _ _ TI) in FIN. discriminate.
  - cbn [map snd crun] in CR. destruct (cstep false c_in ev) as [c0|] eqn:CS; [|discriminate].
    destruct (call_step ins outs c_in s c m ev c0 TI CS) as [A B].
    pose proof (cstep_flags _ _ _ _ CS) as (_ & _ & FF).
    cbn [nrun_from]. destruct (nhandle s (m, ev)) as [s' o] eqn:NH. cbn [fst snd concat] in *.
    destruct (is_finished ev) eqn:IF.
    + assert (E : ev = EvFinished) by (destruct ev; try discriminate IF; reflexivity).
      destruct (B E) as (c' & R' & F'). subst ev.
      destruct t as [|e2 t2].
      * cbn [nrun_from concat]. rewrite app_nil_r. exists c'. auto.
      * cbn [map crun] in CR. unfold cstep in CR. rewrite FF in CR. discriminate.
    + assert (NE : ev <> EvFinished) by (intros ->; discriminate IF).
      destruct (A NE) as (c1 & TI1).
      destruct (IH _ _ _ _ _ _ TI1 CR FIN) as (c' & R' & F').
      exists c'. split; [|exact F']. rewrite map_app. eapply crun_app_intro; [|exact R'].
      pose proof (ti_out _ _ _ _ _ TI1) as X. rewrite map_app, crun_app in X. pose proof (ti_out _ _ _ _ _ TI) as Y.
      unfold mev in *. rewrite Y in X. exact X.
Qed.

(* C11 "sequential": on every complete contract-abiding stream, what Normalize hands to the inner writer is
   accepted by the SEQUENTIAL contract automaton *)
Theorem normalize_output_is_sequential :
  forall es, contract (map snd es) = true -> normalized (map snd (concat (nrun es))) = true.
Proof.
  intros es C. unfold contract in C. destruct (crun false cinit (map snd es)) as [c_fin|] eqn:CR; [|discriminate].
  destruct (run_seq es [] [] cinit ninit cinit c_fin TInv_init CR C) as (c' & R' & F').
  unfold normalized, nrun. rewrite R'. exact F'.
Qed.

