(* SchedP11.v — C07 on the EMITTED STREAM of whole runs: for every run of the scheduler model (any configuration,
   any label list) the stream satisfies the isolation walker `iso_walk`: an attempt of a @serial scenario starts only
   when no attempt is open, no attempt starts while a serial one is open, and every scenario event emitted while a
   serial attempt is open is that attempt's own. `ser` says which scenario ids are serial; the only hypothesis is
   that the features handed over are tagged consistently with it. *)
From CV Require Import Model.SchedSpec.
From CV Require Import Model.Base Model.Events Model.Sched
  Proofs.BaseP Proofs.SchedP Proofs.SchedP2 Proofs.SchedP3 Proofs.SchedP4 Proofs.SchedP5 Proofs.SchedP7.
From Coq Require Import Permutation Lia.

Section Iso.
  Variable ser : N -> bool.

  Local Notation own_or_plain := (SchedSpec.own_or_plain ser).
  Local Notation iso_step := (SchedSpec.iso_step ser).
  Local Notation iso_run := (SchedSpec.iso_run ser).
  Local Notation iso_walk := (SchedSpec.iso_walk ser).

  Lemma iso_run_app a : forall open b,
    iso_run open (a ++ b) = match iso_run open a with Some o => iso_run o b | None => None end.
  Proof.
    induction a as [|e a IH]; intros open b; [reflexivity|]. cbn [app iso_run].
    destruct (iso_step open e) as [o|]; [apply IH|reflexivity].
  Qed.
  Lemma iso_run_brk o : all_brk o -> forall open, iso_run open o = Some open.
  Proof.
    induction 1 as [|e t He Ht IH]; intros open; [reflexivity|]. cbn [iso_run].
    destruct e; try discriminate He; cbn [iso_step]; apply IH.
  Qed.

  (* ---- the scenario ids with an open attempt, read off the state ---- *)
  Definition opened_ids (r : list (entry * phase)) : list N := map (fun x => e_s (fst x)) (filter SchedP2.is_opened r).
  Lemma opened_ids_app a b : opened_ids (a ++ b) = opened_ids a ++ opened_ids b.
  Proof. unfold opened_ids. rewrite filter_app, map_app. reflexivity. Qed.
  Lemma opened_ids_disp b : opened_ids (map (fun e => (e, Dispatched)) b) = [].
  Proof. induction b as [|e b IH]; [reflexivity|]. exact IH. Qed.
  Lemma opened_ids_in y r : In y (opened_ids r) -> exists e, In (e, Opened) r /\ e_s e = y.
  Proof.
    unfold opened_ids. intros H. apply in_map_iff in H as ([e p] & E & I). apply filter_In in I as [I O].
    unfold SchedP2.is_opened in O. cbn [snd fst] in *. destruct p; try discriminate. exists e. split; assumption.
  Qed.

  Lemma remove_one_perm x l : In x l -> Permutation l (x :: remove_one x l).
  Proof.
    induction l as [|y t IH]; intros H; [destruct H|]. cbn [remove_one]. destruct (y =? x) eqn:E.
    - apply N.eqb_eq in E. subst. apply Permutation_refl.
    - destruct H as [H|H]; [subst; rewrite N.eqb_refl in E; discriminate|].
      eapply perm_trans; [apply perm_skip, IH, H|apply perm_swap].
  Qed.
  Lemma remove_one_mid open a x b : Permutation open (a ++ x :: b) -> Permutation (remove_one x open) (a ++ b).
  Proof.
    intros P. assert (I : In x open).
    { eapply Permutation_in; [apply Permutation_sym, P|]. apply in_or_app. right. left. reflexivity. }
    pose proof (remove_one_perm _ _ I) as Q.
    apply (Permutation_cons_inv (a := x)).
    eapply perm_trans; [apply Permutation_sym, Q|]. eapply perm_trans; [exact P|].
    apply Permutation_sym, Permutation_middle.
  Qed.

  (* ---- consistent tagging ---- *)
  Definition tag_ok (e : entry) : Prop := e_serial e = ser (e_s e).
  Definition Tag (s : st) : Prop := Forall tag_ok (qS s ++ qC s) /\ Forall (fun x => tag_ok (fst x)) (running s).
  Definition tagged_label (l : label) : Prop :=
    match l with LFeature F => Forall (fun sc => ss_serial sc = ser (ss_id sc)) (sf_scens F) | _ => True end.

  Lemma tag_init c : Tag (init_st c).
  Proof. split; constructor. Qed.

  Lemma loop_top_tag s : Tag s -> Tag (fst (loop_top s)).
  Proof.
    intros [TQ TR]. unfold loop_top. set (n := match flow s with Break => Some 0%nat | Cont k => k end).
    pose proof (get_perm n s) as GP. destruct (get n s) as [[[batch qs] qc] md].
    assert (F3 : Forall tag_ok (batch ++ qs ++ qc)).
    { apply Forall_forall. intros x Hx. eapply (proj1 (Forall_forall _ _) TQ).
      eapply Permutation_in; [apply Permutation_sym, GP|exact Hx]. }
    apply Forall_app in F3 as [FB F2].
    destruct (is_nil (running s) && is_nil batch).
    - destruct (pdone s && _); unfold Tag, upd; cbn [fst qS qC running]; split; assumption.
    - destruct (start_scenarios _ _ _) as [[o fc] rc]. unfold Tag, upd. cbn [fst qS qC running]. split; [exact F2|].
      apply Forall_app. split; [exact TR|]. apply Forall_forall. intros [e p] Hx. apply in_map_iff in Hx as (e0 & E & I).
      inversion E; subst. cbn [fst]. exact (proj1 (Forall_forall _ _) FB _ I).
  Qed.

  Lemma step_tag c s l s' o : Tag s -> tagged_label l -> step c s l = Some (s', o) -> Tag s'.
  Proof.
    intros [TQ TR] TL ST. destruct l as [F|id| | |k|k x|k failed|d]; cbn [step] in ST.
    - destruct (perrs s); [discriminate|]. inversion ST; subst. split.
      + apply Forall_forall. intros e He. fold (queue (insert_feature F s)) in He.
        eapply Permutation_in in He; [|apply Permutation_sym, insert_feature_queue].
        apply in_app_or in He as [He|He].
        * apply in_map_iff in He as (sc & <- & Isc). unfold tag_ok, entry_of. cbn [e_serial e_s].
          exact (proj1 (Forall_forall _ _) TL _ Isc).
        * exact (proj1 (Forall_forall _ _) TQ _ He).
      + destruct (insert_feature_frame F s) as (-> & _). exact TR.
    - destruct (perrs s); [discriminate|]. destruct (pf s) as [[[[a b] c0] d0] e]. inversion ST; subst. split; assumption.
    - destruct (pdone s); [discriminate|]. destruct (pf s) as [[[[a b] c0] d0] e]. inversion ST; subst. split; assumption.
    - destruct (pc s).
      + set (s0 := mk_st _ _ _ _ _ _ _ _ _ _ _ _ _) in ST. pose proof (loop_top_tag s0 (conj TQ TR)) as LT.
        destruct (loop_top s0) as [s1 o1]. inversion ST; subst. exact LT.
      + destruct (remove_ended (running s)) as [r|] eqn:RE; [|discriminate].
        destruct (drain _ _ _ _ _) as [[[o1 fl] fc] rc].
        set (s1 := upd s (qS s) (qC s) fl r [] fc rc (now s) Awaiting) in ST.
        assert (T1 : Tag s1).
        { split; [exact TQ|]. unfold s1, upd. cbn [running].
          destruct (remove_ended_shape _ _ RE) as (e0 & l1 & l2 & E1 & ->). rewrite E1 in TR.
          apply Forall_app in TR as [A B]. inversion B; subst. apply Forall_app. split; assumption. }
        pose proof (loop_top_tag s1 T1) as LT. destruct (loop_top s1) as [s2 o2]. inversion ST; subst. exact LT.
      + pose proof (loop_top_tag s (conj TQ TR)) as LT. destruct (loop_top s) as [s2 o2]. inversion ST; subst. exact LT.
      + discriminate.
    - destruct (set_phase k Dispatched Opened (running s)) as [[e r]|] eqn:SP; [|discriminate]. inversion ST; subst.
      destruct (set_phase_shape _ _ _ _ _ _ SP) as (l1 & l2 & RUN & -> & _ & _). split; [exact TQ|].
      unfold upd. cbn [running]. rewrite RUN in TR. apply Forall_app in TR as [A B]. inversion B; subst.
      apply Forall_app. split; [exact A|constructor; assumption].
    - destruct (is_middle x); [|discriminate]. destruct (find_open k (running s)); [|discriminate].
      inversion ST; subst. split; assumption.
    - destruct (set_phase k Opened Ended (running s)) as [[e r]|] eqn:SP; [|discriminate].
      destruct (set_phase_shape _ _ _ _ _ _ SP) as (l1 & l2 & RUN & -> & _ & _).
      assert (TR' : Forall (fun x => tag_ok (fst x)) (l1 ++ (e, Ended) :: l2)).
      { rewrite RUN in TR. apply Forall_app in TR as [A B]. inversion B; subst.
        apply Forall_app. split; [exact A|constructor; assumption]. }
      assert (TE : tag_ok e).
      { rewrite RUN in TR. apply Forall_app in TR as [_ B]. inversion B; subst. assumption. }
      destruct (next_try e failed (now s)) as [e'|] eqn:NT.
      + assert (TE' : tag_ok e').
        { destruct (next_try_some _ _ _ _ NT) as (c0 & l0 & _ & _ & _ & _ & _ & ES & _).
          unfold tag_ok. rewrite ES. unfold next_try in NT. destruct (e_retr e) as [[c1 l1']|]; [|discriminate].
          destruct (failed && (0 <? l1')); [|discriminate]. inversion NT; subst. cbn [e_serial]. exact TE. }
        destruct (e_serial e'); inversion ST; subst; (split; [|exact TR']); unfold upd; cbn [qS qC].
        * constructor; assumption.
        * apply Forall_app in TQ as [A B]. apply Forall_app. split; [exact A|constructor; assumption].
      + inversion ST; subst. split; assumption.
    - inversion ST; subst. split; assumption.
  Qed.

  (* ---- the walker follows the state ---- *)
  Definition W (s : st) (open : list N) : Prop := Permutation open (opened_ids (running s)).

  Lemma loop_top_opened s : opened_ids (running (fst (loop_top s))) = opened_ids (running s).
  Proof.
    unfold loop_top. destruct (get _ s) as [[[batch qs] qc] md].
    destruct (is_nil (running s) && is_nil batch).
    - destruct (pdone s && _); reflexivity.
    - destruct (start_scenarios _ _ _) as [[o fc] rc]. unfold upd. cbn [fst running].
      rewrite opened_ids_app, opened_ids_disp, app_nil_r. reflexivity.
  Qed.

  (* an open serial attempt is the only entry of `running` *)
  Lemma serial_open_alone s y : iso_ok s -> Tag s -> In y (opened_ids (running s)) -> ser y = true ->
    exists e, running s = [(e, Opened)] /\ e_s e = y.
  Proof.
    intros ISO [_ TR] Hy SY. destruct (opened_ids_in _ _ Hy) as (e & I & ES).
    assert (SE : e_serial e = true).
    { pose proof (proj1 (Forall_forall _ _) TR _ I) as T. unfold tag_ok in T. cbn [fst] in T. rewrite T, ES. exact SY. }
    pose proof (ISO _ _ I SE) as ONE. destruct (running s) as [|x [|z t]]; cbn in ONE; try lia.
    destruct I as [E|[]]. subst. exists e. split; reflexivity.
  Qed.

  Lemma own_or_plain_ok s open e : iso_ok s -> Tag s -> W s open -> In (e, Opened) (running s) ->
    own_or_plain (e_s e) open = true.
  Proof.
    intros ISO TG WW I. unfold own_or_plain. apply forallb_forall. intros y Hy.
    destruct (ser y) eqn:SY; [|reflexivity]. cbn [negb orb].
    assert (Hy' : In y (opened_ids (running s))) by (eapply Permutation_in; [exact WW|exact Hy]).
    destruct (serial_open_alone _ _ ISO TG Hy' SY) as (e1 & RUN & ES). rewrite RUN in I. destruct I as [E|[]].
    inversion E; subst. apply N.eqb_refl.
  Qed.

  Lemma step_iso K c s l s' o open :
    Inv K s -> Tag s -> W s open -> step c s l = Some (s', o) ->
    exists open', iso_run open o = Some open' /\ W s' open'.
  Proof.
    intros (_ & ISO & _ & _) TG WW ST. destruct l as [F|id| | |k|k x|k failed|d]; cbn [step] in ST.
    - destruct (perrs s); [discriminate|]. inversion ST; subst. exists open. split; [reflexivity|].
      unfold W. destruct (insert_feature_frame F s) as (-> & _). exact WW.
    - destruct (perrs s); [discriminate|]. destruct (pf s) as [[[[a b] c0] d0] e]. inversion ST; subst.
      exists open. split; [reflexivity|exact WW].
    - destruct (pdone s); [discriminate|]. destruct (pf s) as [[[[a b] c0] d0] e]. inversion ST; subst.
      exists open. split; [reflexivity|exact WW].
    - destruct (pc s).
      + set (s0 := mk_st _ _ _ _ _ _ _ _ _ _ _ _ _) in ST. pose proof (loop_top_opened s0) as LO.
        pose proof (loop_top_brk s0) as LB. destruct (loop_top s0) as [s1 o1]. inversion ST; subst.
        exists open. split.
        * change (EvStarted :: o1) with ([EvStarted] ++ o1). rewrite iso_run_app. cbn [iso_run iso_step].
          apply iso_run_brk. exact LB.
        * unfold W. cbn [fst] in LO. rewrite LO. exact WW.
      + destruct (remove_ended (running s)) as [r|] eqn:RE; [|discriminate].
        pose proof (drain_brk (cf_fail_fast c) (msgs s) (add_slot (flow s)) (fcount s) (rcount s)) as DB.
        destruct (drain _ _ _ _ _) as [[[o1 fl] fc] rc].
        set (s1 := upd s (qS s) (qC s) fl r [] fc rc (now s) Awaiting) in ST.
        pose proof (loop_top_opened s1) as LO. pose proof (loop_top_brk s1) as LB.
        destruct (loop_top s1) as [s2 o2]. inversion ST; subst. exists open. split.
        * rewrite iso_run_app, (iso_run_brk _ DB). apply iso_run_brk. exact LB.
        * unfold W. cbn [fst snd] in *. rewrite LO. unfold s1, upd. cbn [running].
          destruct (remove_ended_shape _ _ RE) as (e0 & l1 & l2 & E1 & ->). unfold W in WW. rewrite E1 in WW.
          rewrite opened_ids_app in *. exact WW.
      + pose proof (loop_top_opened s) as LO. pose proof (loop_top_brk s) as LB.
        destruct (loop_top s) as [s2 o2]. inversion ST; subst. exists open. split.
        * apply iso_run_brk. exact LB.
        * unfold W. cbn [fst] in LO. rewrite LO. exact WW.
      + discriminate.
    - destruct (set_phase k Dispatched Opened (running s)) as [[e r]|] eqn:SP; [|discriminate]. inversion ST; subst.
      destruct (set_phase_shape _ _ _ _ _ _ SP) as (l1 & l2 & RUN & -> & _ & _).
      exists (e_s e :: open). split.
      + unfold scen_ev. cbn [iso_run iso_step].
        assert (G : (if ser (e_s e) then is_nil open else negb (existsb ser open)) = true).
        { destruct (ser (e_s e)) eqn:SE.
          - (* serial: running = [(e, Dispatched)], nothing is open *)
            assert (SE' : e_serial e = true).
            { destruct TG as [_ TR]. rewrite RUN in TR. apply Forall_app in TR as [_ B]. inversion B; subst.
              unfold tag_ok in *. cbn [fst] in *. congruence. }
            assert (I : In (e, Dispatched) (running s)) by (rewrite RUN; apply in_or_app; right; left; reflexivity).
            pose proof (ISO _ _ I SE') as ONE. rewrite RUN in ONE. rewrite app_length in ONE. cbn [length] in ONE.
            destruct l1; [|cbn in ONE; lia]. destruct l2; [|cbn in ONE; lia].
            unfold W in WW. rewrite RUN in WW. cbn in WW. apply Permutation_sym, Permutation_nil in WW. subst. reflexivity.
          - (* plain: no serial attempt is open *)
            apply Bool.negb_true_iff. destruct (existsb ser open) eqn:EX; [|reflexivity].
            apply existsb_exists in EX as (y & Hy & SY).
            assert (Hy' : In y (opened_ids (running s))) by (eapply Permutation_in; [exact WW|exact Hy]).
            destruct (serial_open_alone _ _ ISO TG Hy' SY) as (e1 & RUN1 & _).
            rewrite RUN1 in RUN. destruct l1 as [|a [|b t]]; cbn in RUN; inversion RUN. }
        rewrite G. reflexivity.
      + unfold W, upd. cbn [running]. unfold W in WW. rewrite RUN in WW. rewrite opened_ids_app in *.
        change (opened_ids ((e, Opened) :: l2)) with (e_s e :: opened_ids l2).
        change (opened_ids ((e, Dispatched) :: l2)) with (opened_ids l2) in WW.
        eapply perm_trans; [apply perm_skip, WW|apply Permutation_middle].
    - destruct (is_middle x) eqn:MI; [|discriminate].
      destruct (find_open k (running s)) as [e|] eqn:FO; [|discriminate]. inversion ST; subst.
      destruct (find_open_in _ _ _ FO) as [I _]. pose proof (own_or_plain_ok _ _ _ ISO TG WW I) as G.
      exists open. split; [|exact WW]. unfold scen_ev. cbn [iso_run iso_step].
      destruct x; try discriminate MI; rewrite G; reflexivity.
    - destruct (set_phase k Opened Ended (running s)) as [[e r]|] eqn:SP; [|discriminate].
      destruct (set_phase_shape _ _ _ _ _ _ SP) as (l1 & l2 & RUN & -> & _ & _).
      assert (I : In (e, Opened) (running s)) by (rewrite RUN; apply in_or_app; right; left; reflexivity).
      pose proof (own_or_plain_ok _ _ _ ISO TG WW I) as G.
      assert (WW' : Permutation (remove_one (e_s e) open) (opened_ids (l1 ++ (e, Ended) :: l2))).
      { unfold W in WW. rewrite RUN in WW. rewrite opened_ids_app in *.
        change (opened_ids ((e, Opened) :: l2)) with (e_s e :: opened_ids l2) in WW.
        change (opened_ids ((e, Ended) :: l2)) with (opened_ids l2). apply remove_one_mid. exact WW. }
      exists (remove_one (e_s e) open).
      destruct (next_try e failed (now s)) as [e'|]; [destruct (e_serial e')|]; inversion ST; subst;
        (split; [unfold scen_ev; cbn [iso_run iso_step]; rewrite G; reflexivity | exact WW']).
    - inversion ST; subst. exists open. split; [reflexivity|exact WW].
  Qed.

  Definition tagged (ls : list label) : Prop := Forall tagged_label ls.

  Lemma exec_from_iso K c : forall ls s s' o open,
    Inv K s -> Tag s -> W s open -> tagged ls -> exec_from c s ls = Some (s', o) ->
    exists open', iso_run open o = Some open' /\ W s' open'.
  Proof.
    induction ls as [|l t IH]; intros s s' o open I TG WW TL H; cbn [exec_from] in H.
    - inversion H; subst. exists open. split; [reflexivity|exact WW].
    - destruct (step c s l) as [[s1 o1]|] eqn:S1; [|discriminate].
      destruct (exec_from c s1 t) as [[s2 o2]|] eqn:S2; [|discriminate]. inversion H; subst.
      inversion TL as [|? ? TL1 TL2]; subst.
      destruct (step_iso _ _ _ _ _ _ _ I TG WW S1) as (op1 & R1 & W1).
      destruct (IH _ _ _ _ (step_inv _ _ _ _ _ _ I S1) (step_tag _ _ _ _ _ TG TL1 S1) W1 TL2 S2) as (op2 & R2 & W2).
      exists op2. split; [rewrite iso_run_app, R1; exact R2|exact W2].
  Qed.

  (* C07 on the stream of every run *)
  Theorem stream_serial_isolation c ls s tr :
    exec c ls = Some (s, tr) -> tagged ls -> iso_walk tr = true.
  Proof.
    intros H TL. unfold iso_walk.
    destruct (exec_from_iso (cf_concurrency c) c ls (init_st c) s tr [] (init_inv c) (tag_init c)) as (op & R & _);
      [apply Permutation_refl|exact TL|exact H|].
    rewrite R. reflexivity.
  Qed.
End Iso.
