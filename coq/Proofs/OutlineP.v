(* OutlineP.v — C16: the scanner is the leftmost non-overlapping scan for
   `<name>`, substitution is verbatim, expansion is row by row. *)
From CV Require Import Model.Base Model.Outline Proofs.BaseP.
From Coq Require Import Lia FinFun.

(* ---------- declarative placeholder syntax ---------- *)
Definition name_char (c : N) : Prop := c <> c_gt /\ is_ws c = false.
Definition is_name (n : str) : Prop := n <> [] /\ Forall name_char n.

(* a placeholder `<name>` starts at the head of s *)
Definition starts_ph (s name rest : str) : Prop :=
  s = c_lt :: name ++ c_gt :: rest /\ is_name name.

(* the leftmost, non-overlapping scan *)
Inductive Tok : str -> list token -> Prop :=
| Tok_nil : Tok [] []
| Tok_ph s name rest ts : starts_ph s name rest -> Tok rest ts -> Tok s (TPh name :: ts)
| Tok_lit c s ts : (forall name rest, ~ starts_ph (c :: s) name rest) -> Tok s ts ->
                   Tok (c :: s) (TLit c :: ts).

Definition tok_src (t : token) : str :=
  match t with TLit c => [c] | TPh n => c_lt :: n ++ [c_gt] end.

Lemma ws_gt : is_ws c_gt = false. Proof. reflexivity. Qed.
Lemma ws_lt : is_ws c_lt = false. Proof. reflexivity. Qed.

(* the first '>'-or-white-space character after a run of name characters decides *)
Lemma run_split x : forall name c s g rest,
  Forall name_char x -> Forall name_char name ->
  (c = c_gt \/ is_ws c = true) -> (g = c_gt \/ is_ws g = true) ->
  x ++ c :: s = name ++ g :: rest -> x = name /\ c = g /\ s = rest.
Proof.
  induction x as [|a x IH]; intros name c s g rest Hx Hn Hc Hg E.
  - destruct name as [|n name]; cbn in E.
    + inversion E; auto.
    + inversion E; subst. inversion Hn as [|? ? [H1 H2]]; subst.
      destruct Hc; congruence.
  - destruct name as [|n name]; cbn in E.
    + inversion E; subst. inversion Hx as [|? ? [H1 H2]]; subst. destruct Hg; congruence.
    + inversion E; subst. inversion Hx; inversion Hn; subst.
      destruct (IH name c s g rest) as (-> & -> & ->); auto.
Qed.

Lemma starts_ph_fun s n1 r1 n2 r2 :
  starts_ph s n1 r1 -> starts_ph s n2 r2 -> n1 = n2 /\ r1 = r2.
Proof.
  intros [E1 [_ H1]] [E2 [_ H2]]. rewrite E1 in E2. inversion E2 as [E].
  apply run_split in E as (-> & _ & ->); auto.
Qed.

Lemma Tok_inv s t :
  Tok s t ->
  match t with
  | [] => s = []
  | TPh name :: ts => exists rest, starts_ph s name rest /\ Tok rest ts
  | TLit c :: ts => exists s', s = c :: s' /\ (forall n r, ~ starts_ph s n r) /\ Tok s' ts
  end.
Proof. destruct 1; eauto. Qed.

Theorem Tok_fun s : forall t1 t2, Tok s t1 -> Tok s t2 -> t1 = t2.
Proof.
  intros t1 t2 H1; revert t2.
  induction H1 as [|s name rest ts Hp _ IH|c s ts Hn _ IH]; intros t2 H2; apply Tok_inv in H2.
  - destruct t2 as [|[c|n] t2]; auto.
    + destruct H2 as (s' & E & _); discriminate.
    + destruct H2 as (r & [E _] & _); discriminate.
  - destruct t2 as [|[c|n] t2].
    + subst. destruct Hp as [E _]; discriminate.
    + destruct H2 as (s' & E & Hn & _). exfalso. eapply Hn; eauto.
    + destruct H2 as (r & Hp2 & Ht2).
      destruct (starts_ph_fun _ _ _ _ _ Hp Hp2) as [E1 E2]. subst. f_equal; auto.
  - destruct t2 as [|[c'|n] t2].
    + discriminate.
    + destruct H2 as (s' & E & _ & Ht2). inversion E; subst. f_equal; auto.
    + destruct H2 as (r & Hp2 & _). exfalso. eapply Hn; eauto.
Qed.

Lemma Tok_src s ts : Tok s ts -> flat_map tok_src ts = s.
Proof.
  induction 1 as [|s name rest ts [E _] _ IH|c s ts _ _ IH]; cbn; auto.
  - rewrite IH, E. cbn. rewrite <- app_assoc. reflexivity.
  - rewrite IH. reflexivity.
Qed.

(* no placeholder starts inside a run of name characters that ends at a white space or at the end *)
Lemma no_ph_in_run_ws x c s name rest :
  Forall name_char x -> is_ws c = true -> ~ starts_ph (x ++ c :: s) name rest.
Proof.
  intros Hx Hc [E [Hne Hn]]. destruct x as [|a x]; cbn in E.
  - inversion E; subst. rewrite ws_lt in Hc. discriminate.
  - inversion E as [[Ea E']]. inversion Hx; subst.
    apply run_split in E' as (_ & Ec & _); auto. subst c. rewrite ws_gt in Hc. discriminate.
Qed.

Lemma no_ph_in_run_end x name rest : Forall name_char x -> ~ starts_ph x name rest.
Proof.
  intros Hx [E [Hne Hn]]. subst x. inversion Hx as [|? ? _ H]; subst.
  apply Forall_app in H as [_ H]. inversion H as [|? ? [Hg _]]; subst. congruence.
Qed.

Lemma Tok_run_end x : Forall name_char x -> Tok x (lits x).
Proof.
  induction x as [|a x IH]; intros H; cbn; [constructor|].
  inversion H; subst. constructor; auto. intros name rest. apply no_ph_in_run_end; auto.
Qed.

Lemma Tok_run_ws x c s ts :
  Forall name_char x -> is_ws c = true -> Tok s ts -> Tok (x ++ c :: s) (lits x ++ TLit c :: ts).
Proof.
  induction x as [|a x IH]; intros H Hc Ht; cbn.
  - constructor; auto. intros name rest. apply (no_ph_in_run_ws [] c s); auto.
  - inversion H; subst. constructor; auto.
    intros name rest. apply (no_ph_in_run_ws (a :: x) c s); auto.
Qed.

Lemma name_char_lt : name_char c_lt.
Proof. split; [discriminate|reflexivity]. Qed.

Lemma scan_Tok s : forall pend,
  match pend with
  | None => Tok s (scan s None)
  | Some b => Forall name_char b -> Tok (c_lt :: rev b ++ s) (scan s (Some b))
  end.
Proof.
  induction s as [|c s IH]; intros [b|]; cbn [scan].
  - intros Hb. rewrite app_nil_r. apply (Tok_run_end (c_lt :: rev b)).
    constructor; [apply name_char_lt|]. apply Forall_rev; auto.
  - constructor.
  - intros Hb. destruct (N.eqb_spec c c_gt) as [->|Hgt].
    + destruct b as [|b0 b].
      * cbn. constructor.
        { intros name rest [E [Hne Hn]]. inversion E as [E']. destruct name as [|n name]; [congruence|].
          inversion E'; subst. inversion Hn as [|? ? [H _]]; congruence. }
        constructor.
        { intros name rest [E _]. inversion E. }
        apply (IH None).
      * apply Tok_ph with (rest := s); [|apply (IH None)].
        split; auto. split.
        { cbn. intros E. apply app_eq_nil in E as [_ E]. discriminate. }
        apply Forall_rev; auto.
    + destruct (is_ws c) eqn:Hws.
      * apply (Tok_run_ws (c_lt :: rev b) c s); auto; [|apply (IH None)].
        constructor; [apply name_char_lt|apply Forall_rev; auto].
      * specialize (IH (Some (c :: b))). cbn in IH. rewrite <- app_assoc in IH. cbn in IH.
        apply IH. constructor; auto. split; auto.
  - destruct (N.eqb_spec c c_lt) as [->|Hlt].
    + apply (IH (Some [])). constructor.
    + constructor; [|apply (IH None)].
      intros name rest [E _]. inversion E; congruence.
Qed.

Theorem tokenize_is_leftmost_scan s : Tok s (tokenize s).
Proof. apply (scan_Tok s None). Qed.

Theorem untokenize s : flat_map tok_src (tokenize s) = s.
Proof. apply Tok_src, tokenize_is_leftmost_scan. Qed.

(* ---------- substitution ---------- *)
Definition tok_out (r : row) (t : token) : str :=
  match t with TLit c => [c] | TPh n => unwrap_or (row_find n r) [] end.
Definition known (r : row) (t : token) : Prop :=
  match t with TLit _ => True | TPh n => row_find n r <> None end.

Lemma render_known r ts : forall acc err,
  Forall (known r) ts -> render r ts acc err = (acc ++ flat_map (tok_out r) ts, err).
Proof.
  induction ts as [|t ts IH]; intros acc err H; cbn.
  - rewrite app_nil_r; auto.
  - inversion H as [|? ? Hk Hr]; subst. destruct t as [c|n]; cbn.
    + rewrite IH by auto. rewrite <- app_assoc. reflexivity.
    + cbn in Hk. destruct (row_find n r) as [v|]; [|congruence].
      rewrite IH by auto. rewrite <- app_assoc. reflexivity.
Qed.

(* every placeholder has a column: each `<name>` is replaced by the row's value, verbatim;
   everything else is copied *)
Theorem subst_known r s :
  Forall (known r) (tokenize s) -> subst r s = inl (flat_map (tok_out r) (tokenize s)).
Proof. intros H. unfold subst. rewrite render_known by auto. reflexivity. Qed.

Lemma render_err r ts : forall acc err out e,
  render r ts acc err = (out, e) ->
  (e = err /\ Forall (known r) ts) \/
  (exists n, e = Some n /\ In (TPh n) ts /\ row_find n r = None).
Proof.
  induction ts as [|t ts IH]; intros acc err out e H; cbn in H.
  - inversion H; auto.
  - destruct t as [c|n].
    + apply IH in H as [[-> Hk]|(n & -> & Hin & Hr)]; [left; split; auto; constructor; cbn; auto|].
      right; exists n; cbn; auto.
    + destruct (row_find n r) as [v|] eqn:R.
      * apply IH in H as [[-> Hk]|(m & -> & Hin & Hr)].
        { left; split; auto. constructor; auto. cbn. congruence. }
        right; exists m; cbn; auto.
      * apply IH in H as [[-> Hk]|(m & -> & Hin & Hr)].
        { right. exists n. cbn; auto. }
        right; exists m; cbn; auto.
Qed.

(* an error names an unknown placeholder of that very string, and only then *)
Theorem subst_error r s name :
  subst r s = inr name -> In (TPh name) (tokenize s) /\ row_find name r = None.
Proof.
  unfold subst. destruct (render r (tokenize s) [] None) as [out e] eqn:E.
  destruct e as [n|]; [|discriminate]. intros H; inversion H; subst.
  apply render_err in E as [[E _]|(m & E & Hin & Hr)]; [discriminate|].
  inversion E; subst; auto.
Qed.

Theorem subst_unknown r s :
  ~ Forall (known r) (tokenize s) -> exists name, subst r s = inr name.
Proof.
  intros H. unfold subst. destruct (render r (tokenize s) [] None) as [out e] eqn:E.
  apply render_err in E as [[-> Hk]|(m & -> & _)]; [contradiction|eauto].
Qed.

(* a string without '<' is untouched *)
Lemma scan_no_lt s : ~ In c_lt s -> scan s None = lits s.
Proof.
  induction s as [|c s IH]; cbn; auto. intros H.
  destruct (N.eqb_spec c c_lt); [tauto|]. rewrite IH; auto.
Qed.

Theorem subst_plain r s : ~ In c_lt s -> subst r s = inl s.
Proof.
  intros H. rewrite subst_known; unfold tokenize; rewrite scan_no_lt by auto.
  - f_equal. induction s; cbn; auto. f_equal. apply IHs. cbn in H; tauto.
  - unfold lits. apply Forall_forall. intros t Ht. apply in_map_iff in Ht as (c & <- & _). exact I.
Qed.

(* ---------- expansion ---------- *)
Lemma collect_inl {A} (l : list (A + xerr)) xs : collect l = inl xs -> l = map inl xs.
Proof.
  revert xs; induction l as [|[x|e] l IH]; cbn; intros xs H.
  - inversion H; auto.
  - destruct (collect l) as [ys|e']; [|discriminate]. inversion H; subst. cbn. f_equal; auto.
  - discriminate.
Qed.

Lemma collect_inr {A} (l : list (A + xerr)) e : collect l = inr e -> In (inr e) l.
Proof.
  induction l as [|[x|e'] l IH]; cbn; intros H; try discriminate.
  - destruct (collect l); [discriminate|]. inversion H; subst. auto.
  - inversion H; auto.
Qed.

Lemma collect_some_err {A} (l : list (A + xerr)) e :
  In (inr e) l -> exists e', collect l = inr e'.
Proof.
  induction l as [|[x|e'] l IH]; cbn; intros H; [tauto| |eauto].
  destruct H as [H|H]; [discriminate|]. destruct (IH H) as [e2 ->]. eauto.
Qed.

Theorem no_examples_unchanged sc : o_examples sc = [] -> expand_scenario sc = [inl sc].
Proof. unfold expand_scenario. intros ->. reflexivity. Qed.

Lemma zip_rows_length sc ex h vals id : length (zip_rows sc ex h vals id) = length vals.
Proof. revert id; induction vals; cbn; auto. Qed.

Lemma zip_rows_nth sc ex h vals : forall id i v,
  nth_error vals i = Some v ->
  nth_error (zip_rows sc ex h vals id) i = Some (instantiate sc ex (id + N.of_nat i) (combine h v)).
Proof.
  induction vals as [|w vals IH]; intros id i v H; destruct i; cbn in *; try discriminate.
  - inversion H; subst. rewrite N.add_0_r. reflexivity.
  - rewrite (IH (id + 1) i v H). do 2 f_equal. lia.
Qed.

(* what a successfully instantiated row looks like *)
Theorem instantiate_ok sc ex id r sc' :
  instantiate sc ex id r = inl sc' ->
  subst r (o_name sc) = inl (o_name sc') /\
  o_tags sc' = o_tags sc ++ ex_tags ex /\
  o_line sc' = ex_line ex + (id + 2) /\ o_col sc' = ex_col ex /\
  length (o_steps sc') = length (o_steps sc).
Proof.
  unfold instantiate, subst_at.
  destruct (subst r (o_name sc)) as [name|n]; [|discriminate].
  destruct (map_err (subst_step r) (o_steps sc)) as [steps|e] eqn:E; [|discriminate].
  intros H; inversion H; subst; cbn. repeat split; auto.
  clear H. revert steps E. induction (o_steps sc) as [|s l IH]; cbn; intros steps E.
  - inversion E; auto.
  - destruct (subst_step r s); [|discriminate].
    destruct (map_err (subst_step r) l) as [ys|]; [|discriminate].
    inversion E; subst. cbn. f_equal. apply IH; auto.
Qed.

(* positions: tables laid out one after another give strictly increasing lines *)
Fixpoint table_lines (tabs : list (N * N)) : list N :=   (* (line of Examples keyword, number of data rows) *)
  match tabs with
  | [] => []
  | (l, n) :: tabs' => map (fun i => l + (N.of_nat i + 2)) (seq 0 (N.to_nat n)) ++ table_lines tabs'
  end.

Fixpoint layout_ok (tabs : list (N * N)) : Prop :=
  match tabs with
  | [] => True
  | (l, n) :: tabs' =>
    (forall l' n', In (l', n') tabs' -> l + 2 + n <= l') /\ layout_ok tabs'
  end.

Lemma table_lines_lower tabs x :
  In x (table_lines tabs) -> exists l n, In (l, n) tabs /\ l + 2 <= x /\ x < l + 2 + n.
Proof.
  induction tabs as [|[l n] tabs IH]; cbn; [tauto|].
  rewrite in_app_iff, in_map_iff. intros [(i & <- & Hi)|H].
  - apply in_seq in Hi. exists l, n. split; auto. lia.
  - destruct (IH H) as (l' & n' & Hin & H1 & H2). exists l', n'. auto.
Qed.

Theorem positions_distinct tabs : layout_ok tabs -> NoDup (table_lines tabs).
Proof.
  induction tabs as [|[l n] tabs IH]; cbn; [constructor|]. intros [Hsep Hok].
  apply NoDup_app_intro.
  - apply FinFun.Injective_map_NoDup; [|apply seq_NoDup]. intros i j H. lia.
  - auto.
  - intros x H1 H2. apply in_map_iff in H1 as (i & <- & Hi). apply in_seq in Hi.
    apply table_lines_lower in H2 as (l' & n' & Hin & Hlo & _).
    specialize (Hsep l' n' Hin). lia.
Qed.
