(* FilterP.v — C15: the filter keeps exactly the accepted scenarios, in order,
   and leaves the rest of the feature intact. *)
From CV Require Import Model.Base Model.TagExpr Model.Gherkin Model.Filter Proofs.BaseP Proofs.RetryOptsP.

Section P.
  Variable re_match : str -> bool.
  Variable user : feature -> option rule -> scen -> bool.
  Notation accept := (accept re_match user).
  Notation filter_feature := (filter_feature re_match user).

  (* `sub l' l`: l' is obtained from l by deleting elements (order kept) *)
  Inductive sub {A} : list A -> list A -> Prop :=
  | sub_nil : sub [] []
  | sub_keep x l' l : sub l' l -> sub (x :: l') (x :: l)
  | sub_drop x l' l : sub l' l -> sub l' (x :: l).

  Lemma filter_sub {A} (p : A -> bool) l : sub (filter p l) l.
  Proof. induction l as [|x l IH]; cbn; [constructor|]. destruct (p x); constructor; auto. Qed.

  (* exactly-the-accepted, in original order: the kept list is THE sublist
     determined by the predicate, position by position *)
  Inductive kept {A} (p : A -> bool) : list A -> list A -> Prop :=
  | kept_nil : kept p [] []
  | kept_yes x l l' : p x = true -> kept p l l' -> kept p (x :: l) (x :: l')
  | kept_no x l l' : p x = false -> kept p l l' -> kept p (x :: l) l'.

  Lemma filter_kept {A} (p : A -> bool) l : kept p l (filter p l).
  Proof.
    induction l as [|x l IH]; cbn; [constructor|].
    destruct (p x) eqn:E; [apply kept_yes | apply kept_no]; auto.
  Qed.

  Lemma kept_unique {A} (p : A -> bool) l l1 l2 : kept p l l1 -> kept p l l2 -> l1 = l2.
  Proof.
    intros H; revert l2; induction H as [|x l l' Hx _ IH|x l l' Hx _ IH]; intros l2 H2;
      inversion H2; subst; try congruence; auto.
    f_equal; auto.
  Qed.

  Theorem top_level_kept re_given tags f :
    kept (accept re_given tags f None) (f_scens f) (f_scens (filter_feature re_given tags f)).
  Proof. unfold Filter.filter_feature; cbn. apply filter_kept. Qed.

  (* rules stay, one for one and in order; each keeps exactly its accepted scenarios *)
  Theorem rules_kept re_given tags f :
    Forall2 (fun r r' =>
               r_id r' = r_id r /\ r_name r' = r_name r /\ r_tags r' = r_tags r /\ r_bg r' = r_bg r /\
               kept (accept re_given tags f (Some r)) (r_scens r) (r_scens r'))
            (f_rules f) (f_rules (filter_feature re_given tags f)).
  Proof.
    unfold Filter.filter_feature; cbn.
    induction (f_rules f) as [|r rs IH]; cbn; constructor; auto.
    repeat split; cbn. apply filter_kept.
  Qed.

  Theorem rest_intact re_given tags f :
    let f' := filter_feature re_given tags f in
    f_id f' = f_id f /\ f_name f' = f_name f /\ f_tags f' = f_tags f /\ f_bg f' = f_bg f.
  Proof. cbn; auto. Qed.

  (* which source decides *)
  Theorem accept_name tags f r s : accept true tags f r s = re_match (s_name s).
  Proof. reflexivity. Qed.

  Theorem accept_tags t f r s :
    accept false (Some t) f r s = true <->
    tag_interp t (fun x => In x (f_tags f) \/ In x (rule_tags r) \/ In x (s_tags s)).
  Proof.
    cbn. rewrite tag_eval_bool.
    assert (forall op (P Q : str -> Prop), (forall x, P x <-> Q x) -> tag_interp op P <-> tag_interp op Q) as ext.
    { induction op as [l IHl r0 IHr|l IHl r0 IHr|t0 IHt|t0]; cbn; intros P Q H.
      - rewrite (IHl P Q H), (IHr P Q H); tauto.
      - rewrite (IHl P Q H), (IHr P Q H); tauto.
      - rewrite (IHt P Q H); tauto.
      - apply H. }
    apply ext. intros x. rewrite !in_app_iff. tauto.
  Qed.

  Theorem accept_closure f r s : accept false None f r s = user f r s.
  Proof. reflexivity. Qed.
End P.
