(* Compose.v — assume/guarantee across the two models: what the scheduler model emits (C03) is what Normalize
   is proved to handle losslessly (C11). *)
From CV Require Import Model.Base Model.Events Model.Contract.
From CV Require Model.Sched Model.Normalize.
From CV Require Proofs.SchedP4 Proofs.SchedP7 Proofs.NormalizeP2 Proofs.NormalizeP3 Proofs.NormalizeP4h.
From Coq Require Import Permutation.

(* every complete run of the scheduler model, however its events are tagged with metadata, passes through the
   Normalize model without loss: the inner writer receives exactly the same multiset of events *)
Theorem runner_stream_is_normalized_losslessly cf ls s tr (es : list mev) :
  Sched.exec cf ls = Some (s, tr) -> NoDup (SchedP7.feature_ids ls) -> NoDup (SchedP4.inserted_ids ls) ->
  Sched.pc s = Sched.Done -> map snd es = tr ->
  Permutation (concat (Normalize.nrun es)) es.
Proof.
  intros H N1 N2 D E. apply NormalizeP3.contract_lossless. rewrite E.
  exact (proj2 (SchedP7.exec_satisfies_contract cf ls s tr H N1 N2) D).
Qed.

(* ... and at every moment of a run the stream emitted so far respects the queue discipline (no `expect` of
   Normalize can fire: every event finds its queue) *)
Theorem runner_stream_never_trips_normalize cf ls s tr (es : list mev) :
  Sched.exec cf ls = Some (s, tr) -> NoDup (SchedP7.feature_ids ls) -> NoDup (SchedP4.inserted_ids ls) ->
  map snd es = tr -> NormalizeP2.accepts_run Normalize.ninit es = true.
Proof.
  intros H N1 N2 E. apply NormalizeP3.contract_implies_accepts. rewrite E.
  exact (proj1 (SchedP7.exec_satisfies_contract cf ls s tr H N1 N2)).
Qed.

(* ... and what the inner writer receives for a complete run of the scheduler model is accepted by the SEQUENTIAL
   contract: features contiguous, rules contiguous inside their feature, attempts contiguous, brackets nested,
   run-Finished last *)
Theorem runner_stream_is_normalized_into_sequential_order cf ls s tr (es : list mev) :
  Sched.exec cf ls = Some (s, tr) -> NoDup (SchedP7.feature_ids ls) -> NoDup (SchedP4.inserted_ids ls) ->
  Sched.pc s = Sched.Done -> map snd es = tr ->
  normalized (map snd (concat (Normalize.nrun es))) = true.
Proof.
  intros H N1 N2 D E. apply NormalizeP4h.normalize_output_is_sequential. rewrite E.
  exact (proj2 (SchedP7.exec_satisfies_contract cf ls s tr H N1 N2) D).
Qed.

(* ------------------------------------------------------------------------------------------------------------
   From the scheduler to the reports and the verdict: what the statistics and report writers BEHIND Normalize say
   about a complete run of the scheduler model is what the run's own stream contains.
   ------------------------------------------------------------------------------------------------------------ *)
From CV Require Proofs.ReportersP5 Proofs.PipelineP2 Proofs.StatsP Proofs.StatsP3.
From CV Require Model.Reporters Model.ReportersSpec Model.Pipeline Model.Stats Model.StatsSpec.

Lemma runner_stream_contract cf ls s tr :
  Sched.exec cf ls = Some (s, tr) -> NoDup (SchedP7.feature_ids ls) -> NoDup (SchedP4.inserted_ids ls) ->
  Sched.pc s = Sched.Done -> contract tr = true.
Proof. intros H N1 N2 D. exact (proj2 (SchedP7.exec_satisfies_contract cf ls s tr H N1 N2) D). Qed.

(* the terminal listing of every complete run states exactly the step results, failed hooks and parser errors of the
   run's stream — whatever the interleaving *)
Theorem runner_to_terminal_report cf ls s tr (es : list mev) :
  Sched.exec cf ls = Some (s, tr) -> NoDup (SchedP7.feature_ids ls) -> NoDup (SchedP4.inserted_ids ls) ->
  Sched.pc s = Sched.Done -> map snd es = tr ->
  ReportersSpec.c14_basic_ok tr (Reporters.basic_lines (ReportersP5.ns_of es)) = true.
Proof.
  intros H N1 N2 D E. pose proof (runner_stream_contract cf ls s tr H N1 N2 D) as C. rewrite <- E in *.
  exact (ReportersP5.C14_basic_end_to_end es C).
Qed.

(* the verdict of the default pipeline Normalize<Summarize<..>> over every complete run is the specified one *)
Theorem runner_to_verdict tags_of last_own q cf ls s tr (es : list mev) :
  Sched.exec cf ls = Some (s, tr) -> NoDup (SchedP7.feature_ids ls) -> NoDup (SchedP4.inserted_ids ls) ->
  Sched.pc s = Sched.Done -> map snd es = tr ->
  StatsSpec.k_hook_in_retried (StatsSpec.before_finished tr) = false ->
  Pipeline.qfailed (Pipeline.QNorm (Pipeline.QSumm q))
                   (Pipeline.qfinal tags_of last_own (Pipeline.QNorm (Pipeline.QSumm q)) es)
  = StatsSpec.spec_failed tr.
Proof.
  intros H N1 N2 D E K. pose proof (runner_stream_contract cf ls s tr H N1 N2 D) as C. rewrite <- E in *.
  exact (PipelineP2.verdict_default_pipeline tags_of last_own q es C K).
Qed.

(* the eight stateless numbers of the summary of every complete run are the counts of the run's stream *)
Theorem runner_to_summary_core tags_of last_own q cf ls s tr (es : list mev) :
  Sched.exec cf ls = Some (s, tr) -> NoDup (SchedP7.feature_ids ls) -> NoDup (SchedP4.inserted_ids ls) ->
  Sched.pc s = Sched.Done -> map snd es = tr ->
  StatsP.core_of (StatsP3.summ_behind_norm (Pipeline.qfinal tags_of last_own (Pipeline.QNorm (Pipeline.QSumm q)) es))
  = StatsP.core_count (StatsSpec.before_finished tr).
Proof.
  intros H N1 N2 D E. pose proof (runner_stream_contract cf ls s tr H N1 N2 D) as C. rewrite <- E in *.
  exact (StatsP3.summary_core_behind_normalize tags_of last_own q es C).
Qed.
