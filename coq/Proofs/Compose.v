(* Compose.v — assume/guarantee across the two models: what the scheduler model emits (C03) is what Normalize
   is proved to handle losslessly (C11). *)
From CV Require Import Model.Base Model.Events Model.Contract.
From CV Require Model.Sched Model.Normalize.
From CV Require Proofs.SchedP4 Proofs.SchedP7 Proofs.NormalizeP2 Proofs.NormalizeP3 Proofs.NormalizeP4h.
From Coq Require Import Permutation.

(* every complete run of the scheduler model, however its events are tagged with metadata, passes through the
   Normalize model without loss: the inner writer receives exactly the same multiset of events *)
Theorem runner_stream_is_normalized_losslessly cf ls s tr (es : list mev) :
  Sched.exec cf ls = Some (s, tr) -> NoDup (SchedP7.feature_ids ls) -> NoDup (SchedP4.inserted_ids ls) ->
  Sched.pc s = Sched.Done -> map snd es = tr ->
  Permutation (concat (Normalize.nrun es)) es.
Proof.
  intros H N1 N2 D E. apply NormalizeP3.contract_lossless. rewrite E.
  exact (proj2 (SchedP7.exec_satisfies_contract cf ls s tr H N1 N2) D).
Qed.

(* ... and at every moment of a run the stream emitted so far respects the queue discipline (no `expect` of
   Normalize can fire: every event finds its queue) *)
Theorem runner_stream_never_trips_normalize cf ls s tr (es : list mev) :
  Sched.exec cf ls = Some (s, tr) -> NoDup (SchedP7.feature_ids ls) -> NoDup (SchedP4.inserted_ids ls) ->
  map snd es = tr -> NormalizeP2.accepts_run Normalize.ninit es = true.
Proof.
  intros H N1 N2 E. apply NormalizeP3.contract_implies_accepts. rewrite E.
  exact (proj1 (SchedP7.exec_satisfies_contract cf ls s tr H N1 N2)).
Qed.

(* ... and what the inner writer receives for a complete run of the scheduler model is accepted by the SEQUENTIAL
   contract: features contiguous, rules contiguous inside their feature, attempts contiguous, brackets nested,
   run-Finished last *)
Theorem runner_stream_is_normalized_into_sequential_order cf ls s tr (es : list mev) :
  Sched.exec cf ls = Some (s, tr) -> NoDup (SchedP7.feature_ids ls) -> NoDup (SchedP4.inserted_ids ls) ->
  Sched.pc s = Sched.Done -> map snd es = tr ->
  normalized (map snd (concat (Normalize.nrun es))) = true.
Proof.
  intros H N1 N2 D E. apply NormalizeP4h.normalize_output_is_sequential. rewrite E.
  exact (proj2 (SchedP7.exec_satisfies_contract cf ls s tr H N1 N2) D).
Qed.
