(* NormalizeP.v — proofs about Model/Normalize.v (C11). *)
From CV Require Import Model.Base Model.Events Model.Contract Model.Normalize Proofs.BaseP.
From Coq Require Import Lia Permutation.

(* pass-through events are handed on first thing in the same call *)
Lemma nhandle_pass s e :
  is_emitted (ns_state s) = false -> is_pass (snd e) = true ->
  exists o, snd (nhandle s e) = e :: o.
Proof.
  intros Hs Hp. unfold nhandle. rewrite Hs, Hp.
  destruct (emit_feats _) as [o1 fs]. destruct (take_fin _) as [[m|] st]; cbn; eauto.
Qed.

(* after Finished has been emitted every event is passed through untouched *)
Lemma nhandle_after_finished s e :
  is_emitted (ns_state s) = true -> nhandle s e = (s, [e]).
Proof. intros H. unfold nhandle. rewrite H. reflexivity. Qed.
