(* SchedP3.v — fail-fast is invisible when nothing fails (C08), parser counters and run framing (C03),
   conservation of scenarios (C04). For every configuration and every label list. *)
From CV Require Import Model.Base Model.Events Model.Sched Proofs.BaseP Proofs.SchedP Proofs.SchedP2.
From Coq Require Import Lia Arith.

(* ---------- C08: if nothing fails finally and no parser error occurs, fail-fast changes nothing ---------- *)
Definition harmless (l : label) : Prop :=
  match l with LAttEnd _ true => False | LParseErr _ => False | _ => True end.
Definition msgs_clean (s : st) : Prop := Forall (fun m => m_failed m = false) (msgs s).

Lemma drain_clean ff ms : forall fl fc rc,
  Forall (fun m => m_failed m = false) ms -> drain ff ms fl fc rc = drain false ms fl fc rc.
Proof.
  induction ms as [|m t IH]; intros fl fc rc H; cbn [drain]; [reflexivity|].
  inversion H; subst. destruct (finish_msg m fc rc) as [[o fc1] rc1]. rewrite H2.
  rewrite andb_false_r. cbn [andb]. rewrite (IH fl fc1 rc1 H3). reflexivity.
Qed.

Lemma loop_top_msgs s : msgs (fst (loop_top s)) = msgs s.
Proof.
  unfold loop_top. destruct (get _ s) as [[[batch qs] qc] md].
  destruct (is_nil (running s) && is_nil batch); [destruct (pdone s && _); reflexivity|].
  destruct (start_scenarios _ _ _) as [[o fc] rc]. reflexivity.
Qed.

Lemma step_ff_irrelevant K s l :
  msgs_clean s -> harmless l ->
  step (mk_cfg K true) s l = step (mk_cfg K false) s l /\
  (forall s' o, step (mk_cfg K false) s l = Some (s', o) -> msgs_clean s').
Proof.
  intros MC HL. destruct l; cbn [step cf_fail_fast]; try contradiction.
  - split; [reflexivity|]. intros s' o H. destruct (perrs s); [discriminate|]. inversion H; subst.
    unfold insert_feature, msgs_clean. destruct (pf s) as [[[[a b] c0] d] e]. destruct (is_nil _); exact MC.
  - split; [reflexivity|]. intros s' o H. destruct (pdone s); [discriminate|].
    destruct (pf s) as [[[[a b] c0] d] e]. inversion H; subst. exact MC.
  - split.
    + destruct (pc s); try reflexivity. destruct (remove_ended (running s)); [|reflexivity].
      rewrite (drain_clean true (msgs s) _ _ _ MC). reflexivity.
    + intros s' o H. unfold msgs_clean. destruct (pc s).
      * set (s0 := mk_st _ _ _ _ _ _ _ _ _ _ _ _ true) in H. pose proof (loop_top_msgs s0) as M.
        destruct (loop_top s0) as [s1 o1]. inversion H; subst. cbn in M. rewrite M. exact MC.
      * destruct (remove_ended (running s)) as [r|]; [|discriminate].
        destruct (drain false (msgs s) _ _ _) as [[[o1 fl] fc] rc].
        set (s1 := upd s _ _ fl r [] fc rc (now s) Awaiting) in H. pose proof (loop_top_msgs s1) as M.
        destruct (loop_top s1) as [s2 o2]. inversion H; subst. cbn in M. rewrite M. constructor.
      * pose proof (loop_top_msgs s) as M. destruct (loop_top s) as [s1 o1]. inversion H; subst. cbn in M. rewrite M. exact MC.
      * discriminate.
  - split; [reflexivity|]. intros s' o H. destruct (set_phase _ _ _ _) as [[e r]|]; [|discriminate]. inversion H; subst. exact MC.
  - split; [reflexivity|]. intros s' o H. destruct (is_middle x); [|discriminate]. destruct (find_open _ _); [|discriminate].
    inversion H; subst. exact MC.
  - destruct failed; [contradiction|]. split; [reflexivity|]. intros s' o H.
    destruct (set_phase _ _ _ _) as [[e r]|]; [|discriminate].
    assert (NT : next_try e false (now s) = None) by (unfold next_try; destruct (e_retr e) as [[cu lf]|]; reflexivity).
    rewrite NT in H. inversion H; subst. unfold msgs_clean. cbn. apply Forall_app. split; [exact MC|repeat constructor].
  - split; [reflexivity|]. intros s' o H. inversion H; subst. exact MC.
Qed.

Theorem ff_irrelevant_without_failures K : forall ls s,
  msgs_clean s -> Forall harmless ls ->
  exec_from (mk_cfg K true) s ls = exec_from (mk_cfg K false) s ls.
Proof.
  induction ls as [|l t IH]; intros s MC HL; cbn [exec_from]; [reflexivity|].
  inversion HL; subst. destruct (step_ff_irrelevant K s l MC H1) as [E P]. rewrite E.
  destruct (step (mk_cfg K false) s l) as [[s1 o1]|] eqn:S1; [|reflexivity].
  rewrite (IH s1 (P _ _ eq_refl) H2). reflexivity.
Qed.

(* ---------- C03: the ParsingFinished counters are sums over what was actually ingested ---------- *)
Definition pf_add (p : N * N * N * N * N) (l : label) : N * N * N * N * N :=
  let '(a, b, c, d, e) := p in
  match l with
  | LFeature f => (a + 1, b + sf_nrules f, c + scens_of_feature f, d + sf_nsteps f, e)
  | LParseErr _ => (a, b, c, d, e + 1)
  | _ => p
  end.

Lemma loop_top_pf s : pf (fst (loop_top s)) = pf s.
Proof.
  unfold loop_top. destruct (get _ s) as [[[batch qs] qc] md].
  destruct (is_nil (running s) && is_nil batch); [destruct (pdone s && _); reflexivity|].
  destruct (start_scenarios _ _ _) as [[o fc] rc]. reflexivity.
Qed.

Lemma step_pf c s l s' o : step c s l = Some (s', o) -> pf s' = pf_add (pf s) l.
Proof.
  intros H. destruct l; cbn [step] in H.
  - destruct (perrs s); [discriminate|]. inversion H; subst. unfold insert_feature, pf_add.
    destruct (pf s) as [[[[a b] c0] d] e]. destruct (is_nil _); reflexivity.
  - destruct (perrs s); [discriminate|]. unfold pf_add. destruct (pf s) as [[[[a b] c0] d] e]. inversion H; subst. reflexivity.
  - destruct (pdone s); [discriminate|]. unfold pf_add. destruct (pf s) as [[[[a b] c0] d] e] eqn:P. inversion H; subst. reflexivity.
  - unfold pf_add. destruct (pc s).
    + set (s0 := mk_st _ _ _ _ _ _ _ _ _ _ _ _ true) in H. pose proof (loop_top_pf s0) as M.
      destruct (loop_top s0) as [s1 o1]. inversion H; subst. cbn in M. rewrite M. destruct (pf s) as [[[[a b] c0] d] e]; reflexivity.
    + destruct (remove_ended (running s)) as [r|]; [|discriminate].
      destruct (drain _ (msgs s) _ _ _) as [[[o1 fl] fc] rc].
      set (s1 := upd s _ _ fl r [] fc rc (now s) Awaiting) in H. pose proof (loop_top_pf s1) as M.
      destruct (loop_top s1) as [s2 o2]. inversion H; subst. cbn in M. rewrite M. destruct (pf s) as [[[[a b] c0] d] e]; reflexivity.
    + pose proof (loop_top_pf s) as M. destruct (loop_top s) as [s1 o1]. inversion H; subst. cbn in M. rewrite M.
      destruct (pf s) as [[[[a b] c0] d] e]; reflexivity.
    + discriminate.
  - destruct (set_phase _ _ _ _) as [[e r]|]; [|discriminate]. inversion H; subst. cbn. destruct (pf s) as [[[[a b] c0] d] e0]; reflexivity.
  - destruct (is_middle x); [|discriminate]. destruct (find_open _ _); [|discriminate]. inversion H; subst.
    cbn. destruct (pf _) as [[[[a b] c0] d] e0]; reflexivity.
  - destruct (set_phase _ _ _ _) as [[e r]|]; [|discriminate].
    destruct (next_try e failed (now s)) as [e'|]; [destruct (e_serial e')|]; inversion H; subst; cbn;
      destruct (pf s) as [[[[a b] c0] d] e0]; reflexivity.
  - inversion H; subst. cbn. destruct (pf s) as [[[[a b] c0] d0] e0]; reflexivity.
Qed.

Theorem pf_counts c : forall ls s s' o,
  exec_from c s ls = Some (s', o) -> pf s' = fold_left pf_add ls (pf s).
Proof.
  induction ls as [|l t IH]; intros s s' o H; cbn [exec_from fold_left] in *; [inversion H; reflexivity|].
  destruct (step c s l) as [[s1 o1]|] eqn:S1; [|discriminate].
  destruct (exec_from c s1 t) as [[s2 o2]|] eqn:S2; [|discriminate]. inversion H; subst.
  rewrite (IH _ _ _ S2), (step_pf _ _ _ _ _ S1). reflexivity.
Qed.

(* the ParsingFinished event carries exactly those counters *)
Lemma parser_end_event c s s' o :
  step c s LParserEnd = Some (s', o) ->
  o = [let '(a, b, c0, d, e) := pf s in EvParsingFinished a b c0 d e] /\ pdone s = false /\ pdone s' = true.
Proof.
  cbn [step]. destruct (pdone s) eqn:P; [discriminate|]. destruct (pf s) as [[[[a b] c0] d] e].
  intros H; inversion H; subst. auto.
Qed.

(* ---------- C03: after run-Finished nothing is emitted any more ---------- *)
Definition frame_ok (s : st) : Prop :=
  (pdone s = true -> perrs s = true) /\ (pc s = Done -> pdone s = true).

Lemma loop_top_frame s : frame_ok s -> frame_ok (fst (loop_top s)).
Proof.
  intros [A B]. unfold loop_top. destruct (get _ s) as [[[batch qs] qc] md].
  destruct (is_nil (running s) && is_nil batch).
  - destruct (pdone s && _) eqn:D; unfold frame_ok; cbn.
    + split; [exact A|]. intros _. apply andb_prop in D as [D _]. exact D.
    + split; [exact A|intros X; discriminate X].
  - destruct (start_scenarios _ _ _) as [[o fc] rc]. unfold frame_ok; cbn. split; [exact A|intros X; discriminate X].
Qed.

Lemma step_frame c s l s' o : frame_ok s -> step c s l = Some (s', o) -> frame_ok s'.
Proof.
  intros [A B] H. destruct l; cbn [step] in H.
  - destruct (perrs s) eqn:PE; [discriminate|]. inversion H; subst. unfold insert_feature, frame_ok.
    destruct (pf s) as [[[[a b] c0] d] e]. destruct (is_nil _); cbn; rewrite ?PE; split; auto.
  - destruct (perrs s) eqn:PE; [discriminate|]. destruct (pf s) as [[[[a b] c0] d] e]. inversion H; subst.
    unfold frame_ok; cbn. split; [|exact B]. intros P. discriminate (A P).
  - destruct (pdone s); [discriminate|]. destruct (pf s) as [[[[a b] c0] d] e]. inversion H; subst.
    unfold frame_ok; cbn; split; auto.
  - destruct (pc s) eqn:P.
    + set (s0 := mk_st _ _ _ _ _ _ _ _ _ _ _ _ true) in H.
      assert (F0 : frame_ok s0) by (unfold frame_ok; cbn; split; [exact A | intros X; discriminate X]).
      pose proof (loop_top_frame s0 F0) as R. destruct (loop_top s0) as [s1 o1]. inversion H; subst. exact R.
    + destruct (remove_ended (running s)) as [r|]; [|discriminate].
      destruct (drain _ (msgs s) _ _ _) as [[[o1 fl] fc] rc].
      set (s1 := upd s _ _ fl r [] fc rc (now s) Awaiting) in H.
      assert (F1 : frame_ok s1) by (unfold frame_ok; cbn; split; [exact A | intros X; discriminate X]).
      pose proof (loop_top_frame s1 F1) as R. destruct (loop_top s1) as [s2 o2]. inversion H; subst. exact R.
    + assert (F0 : frame_ok s) by (split; [exact A | intros X; rewrite P in X; discriminate X]).
      pose proof (loop_top_frame s F0) as R. destruct (loop_top s) as [s1 o1]. inversion H; subst. exact R.
    + discriminate.
  - destruct (set_phase _ _ _ _) as [[e r]|]; [|discriminate]. inversion H; subst. split; auto.
  - destruct (is_middle x); [|discriminate]. destruct (find_open _ _); [|discriminate]. inversion H; subst. split; auto.
  - destruct (set_phase _ _ _ _) as [[e r]|]; [|discriminate].
    destruct (next_try e failed (now s)) as [e'|]; [destruct (e_serial e')|]; inversion H; subst; split; auto.
  - inversion H; subst. split; auto.
Qed.

Theorem done_is_silent K c s l s' o :
  Inv K s -> frame_ok s -> pc s = Done -> step c s l = Some (s', o) -> o = [] /\ pc s' = Done.
Proof.
  intros (_ & _ & _ & PC) [A B] D H. unfold pc_ok in PC. rewrite D in PC.
  pose proof (B D) as PD. pose proof (A PD) as PE.
  destruct l; cbn [step] in H.
  - rewrite PE in H. discriminate.
  - rewrite PE in H. discriminate.
  - rewrite PD in H. discriminate.
  - rewrite D in H. discriminate.
  - rewrite PC in H. discriminate.
  - destruct (is_middle x); [|discriminate]. rewrite PC in H. discriminate.
  - rewrite PC in H. discriminate.
  - inversion H; subst. split; [reflexivity|exact D].
Qed.

(* run-Started is emitted by the first loop turn and never again *)
Definition n_run_started (tr : list ev) : nat := length (filter (fun e => match e with EvStarted => true | _ => false end) tr).
Lemma brk_not_started o : all_brk o -> True.
Proof. auto. Qed.
