(* StatsP3.v — (A) the Libtest writer's counters and verdict (C01), for every event list;
                (B) the summary of Summarize BEHIND Normalize, stated on the RAW stream (C12). *)
From CV Require Import Proofs.SchedP5.
From CV Require Import Model.Base Model.Events Model.Contract Model.Combinators Model.Normalize Model.Stats Model.StatsSpec
  Model.Pipeline Proofs.BaseP Proofs.StatsP Proofs.NormalizeP Proofs.NormalizeP2 Proofs.NormalizeP3 Proofs.PipelineP
  Proofs.PipelineP2.
From CV Require Proofs.StatsP2 Proofs.NormalizeP7.
From Coq Require Import Lia Permutation.

(* ========================================================================================== *)
(* A. Libtest                                                                                  *)
(* ========================================================================================== *)
Definition lt_final (es : list ev) : ltstate := fold_left lt_handle es lt_init.

Definition is_parsing_finished (e : ev) : bool := match e with EvParsingFinished _ _ _ _ _ => true | _ => false end.

(* the six counters as one vector, in the order of `getters`: passed, skipped(ignored), failed, retried, parsing, hooks *)
Definition gadd (a b : getters) : getters :=
  mk_getters (g_passed a + g_passed b) (g_skipped a + g_skipped b) (g_failed a + g_failed b)
             (g_retried a + g_retried b) (g_parsing a + g_parsing b) (g_hooks a + g_hooks b).
Definition g_ev (e : ev) : getters :=
  mk_getters (b2n (is_step_passed e)) (b2n (is_step_skipped e)) (b2n (is_step_failed_final e))
             (b2n (is_step_failed_retried e)) (b2n (is_parse_err e)) (b2n (is_hook_failed e)).
Definition g_count (es : list ev) : getters :=
  mk_getters (count is_step_passed es) (count is_step_skipped es) (count is_step_failed_final es)
             (count is_step_failed_retried es) (count is_parse_err es) (count is_hook_failed es).
Definition ltc_getters (c : ltc) : getters :=
  mk_getters (lt_passed c) (lt_ignored c) (lt_failed c) (lt_retried c) (lt_parsing c) (lt_hooks c).

Lemma getters_eq a b :
  g_passed a = g_passed b -> g_skipped a = g_skipped b -> g_failed a = g_failed b -> g_retried a = g_retried b ->
  g_parsing a = g_parsing b -> g_hooks a = g_hooks b -> a = b.
Proof. destruct a, b; cbn; intros; subst; reflexivity. Qed.

Lemma lt_getters_c s : lt_getters s = ltc_getters (lt_c s).
Proof. reflexivity. Qed.

(* one output event adds exactly its own indicator *)
Lemma lt_count_ev c e : ltc_getters (lt_count c e) = gadd (ltc_getters c) (g_ev e).
Proof.
  destruct e as [| | | | | | | |f r sc rt x]; try (apply getters_eq; cbn; lia).
  destruct x as [|b h|st y|st y|m|]; try (apply getters_eq; cbn; lia).
  - destruct h; apply getters_eq; cbn; lia.
  - destruct y as [| | |k]; try (apply getters_eq; cbn; lia).
    unfold g_ev, is_step_failed_final, is_step_failed_retried, is_step_passed, is_step_skipped; cbn [step_of lt_count].
    destruct (is_retried_failure rt k); apply getters_eq; cbn; lia.
  - destruct y as [| | |k]; try (apply getters_eq; cbn; lia).
    unfold g_ev, is_step_failed_final, is_step_failed_retried, is_step_passed, is_step_skipped; cbn [step_of lt_count].
    destruct (is_retried_failure rt k); apply getters_eq; cbn; lia.
Qed.

Lemma g_count_nil : g_count [] = mk_getters 0 0 0 0 0 0.
Proof. reflexivity. Qed.
Lemma g_count_cons e es : g_count (e :: es) = gadd (g_ev e) (g_count es).
Proof. unfold g_count, gadd, g_ev; cbn [g_passed g_skipped g_failed g_retried g_parsing g_hooks]. rewrite !count_cons. reflexivity. Qed.
Lemma gadd_assoc a b c : gadd (gadd a b) c = gadd a (gadd b c).
Proof. unfold gadd; cbn. f_equal; lia. Qed.
Lemma gadd_comm a b : gadd a b = gadd b a.
Proof. unfold gadd; cbn. f_equal; lia. Qed.
Lemma gadd_0_r a : gadd a (mk_getters 0 0 0 0 0 0) = a.
Proof. destruct a; unfold gadd; cbn. f_equal; lia. Qed.
Lemma gadd_0_l a : gadd (mk_getters 0 0 0 0 0 0) a = a.
Proof. destruct a; unfold gadd; cbn. f_equal; lia. Qed.

Lemma g_count_app a b : g_count (a ++ b) = gadd (g_count a) (g_count b).
Proof.
  induction a as [|e a IH]; cbn [app].
  - rewrite g_count_nil, gadd_0_l. reflexivity.
  - rewrite !g_count_cons, IH, gadd_assoc. reflexivity.
Qed.

Lemma lt_count_fold es : forall c, ltc_getters (fold_left lt_count es c) = gadd (ltc_getters c) (g_count es).
Proof.
  induction es as [|e es IH]; intros c; cbn [fold_left].
  - rewrite g_count_nil, gadd_0_r. reflexivity.
  - rewrite IH, lt_count_ev, g_count_cons, gadd_assoc. reflexivity.
Qed.

Definition lt_from (s : ltstate) (es : list ev) : ltstate := fold_left lt_handle es s.

(* once ParsingFinished has been seen, every event is counted at once *)
Lemma lt_from_parsed es : forall s, lt_parsed_all s = true ->
  lt_parsed_all (lt_from s es) = true /\ lt_buf (lt_from s es) = lt_buf s /\
  ltc_getters (lt_c (lt_from s es)) = gadd (ltc_getters (lt_c s)) (g_count es).
Proof.
  induction es as [|e es IH]; intros s P; cbn [lt_from fold_left].
  - rewrite g_count_nil, gadd_0_r. auto.
  - fold (lt_from (lt_handle s e) es).
    assert (H : lt_handle s e = mk_lt (lt_buf s) true (lt_count (lt_c s) e)) by (unfold lt_handle; rewrite P; reflexivity).
    rewrite H.
    destruct (IH (mk_lt (lt_buf s) true (lt_count (lt_c s) e)) eq_refl) as (I1 & I2 & I3).
    rewrite I1, I2, I3. cbn [lt_buf lt_c]. rewrite lt_count_ev, g_count_cons, gadd_assoc. auto.
Qed.

(* before: nothing is counted, everything is buffered in order; the ParsingFinished call counts the buffer *)
Lemma lt_from_unparsed es : forall s, lt_parsed_all s = false ->
  if existsb is_parsing_finished es
  then lt_parsed_all (lt_from s es) = true /\ lt_buf (lt_from s es) = [] /\
       ltc_getters (lt_c (lt_from s es)) = gadd (ltc_getters (lt_c s)) (g_count (lt_buf s ++ es))
  else lt_parsed_all (lt_from s es) = false /\ lt_buf (lt_from s es) = lt_buf s ++ es /\ lt_c (lt_from s es) = lt_c s.
Proof.
  induction es as [|e es IH]; intros s P; cbn [lt_from fold_left existsb].
  - rewrite app_nil_r. auto.
  - fold (lt_from (lt_handle s e) es).
    destruct (is_parsing_finished e) eqn:PF; cbn [orb].
    + destruct e; try discriminate PF.
      assert (H : lt_handle s (EvParsingFinished f r s0 st e) =
                  mk_lt [] true (fold_left lt_count (EvParsingFinished f r s0 st e :: lt_buf s) (lt_c s)))
        by (unfold lt_handle; rewrite P; reflexivity).
      rewrite H.
      destruct (lt_from_parsed es (mk_lt [] true (fold_left lt_count (EvParsingFinished f r s0 st e :: lt_buf s) (lt_c s))) eq_refl)
        as (I1 & I2 & I3).
      rewrite I1, I2, I3. cbn [lt_buf lt_c]. split; [reflexivity|]. split; [reflexivity|].
      rewrite lt_count_fold. rewrite gadd_assoc. f_equal.
      rewrite g_count_app, !g_count_cons. rewrite <- !gadd_assoc. f_equal. apply gadd_comm.
    + assert (H : lt_handle s e = mk_lt (lt_buf s ++ [e]) false (lt_c s)).
      { unfold lt_handle. rewrite P. destruct e; try reflexivity. discriminate PF. }
      rewrite H. specialize (IH (mk_lt (lt_buf s ++ [e]) false (lt_c s)) eq_refl). cbn [lt_buf lt_c] in IH.
      rewrite <- app_assoc in IH. exact IH.
Qed.

(* ---- A1: the six counters, for every list that contains ParsingFinished: buffering loses and duplicates nothing ---- *)
Theorem lt_counters es :
  existsb is_parsing_finished es = true -> lt_getters (lt_final es) = g_count es.
Proof.
  intros H. pose proof (lt_from_unparsed es lt_init eq_refl) as L. rewrite H in L. destruct L as (_ & _ & L).
  rewrite lt_getters_c. unfold lt_final. fold (lt_from lt_init es). rewrite L. cbn [lt_init lt_buf lt_c app].
  apply gadd_0_l.
Qed.

Corollary lt_counters_each es :
  existsb is_parsing_finished es = true ->
  let g := lt_getters (lt_final es) in
  g_passed g = count is_step_passed es /\ g_skipped g = count is_step_skipped es /\
  g_failed g = count is_step_failed_final es /\ g_retried g = count is_step_failed_retried es /\
  g_parsing g = count is_parse_err es /\ g_hooks g = count is_hook_failed es.
Proof. intros H. cbv zeta. rewrite (lt_counters es H). cbn. repeat split; reflexivity. Qed.

(* ---- A2: without ParsingFinished nothing is ever counted: all getters stay 0, the verdict stays "not failed" ---- *)
Theorem lt_nothing_without_parsing_finished es :
  existsb is_parsing_finished es = false ->
  lt_getters (lt_final es) = mk_getters 0 0 0 0 0 0 /\ lt_buf (lt_final es) = es /\
  g_has_failed (lt_getters (lt_final es)) = false.
Proof.
  intros H. pose proof (lt_from_unparsed es lt_init eq_refl) as L. rewrite H in L. destruct L as (_ & L2 & L3).
  unfold lt_final. fold (lt_from lt_init es). rewrite lt_getters_c, L3, L2. cbn. auto.
Qed.

(* ---- A3: the verdict, for every list that contains ParsingFinished ---- *)
Theorem lt_verdict es :
  existsb is_parsing_finished es = true ->
  g_has_failed (lt_getters (lt_final es)) =
    existsb is_parse_err es || existsb is_step_failed_final es || existsb is_hook_failed es.
Proof.
  intros H. rewrite (lt_counters es H). unfold g_has_failed, g_count; cbn [g_failed g_parsing g_hooks].
  rewrite !count_pos.
  destruct (existsb is_parse_err es), (existsb is_step_failed_final es), (existsb is_hook_failed es); reflexivity.
Qed.

(* nothing follows run-Finished (true of every contract-abiding stream) *)
Definition nothing_after_finished (es : list ev) : Prop := forall a b, es = a ++ EvFinished :: b -> b = [].

Lemma before_finished_split es :
  before_finished es = es \/ exists t, es = before_finished es ++ EvFinished :: t.
Proof.
  induction es as [|e t IH]; [left; reflexivity|].
  destruct e; try (right; exists t; reflexivity);
    (destruct IH as [IH|(t0 & IH)]; [left; cbn [before_finished]; f_equal; exact IH|right; exists t0; cbn [before_finished app]; f_equal; exact IH]).
Qed.

Lemma existsb_before_finished (p : ev -> bool) es :
  nothing_after_finished es -> p EvFinished = false -> existsb p es = existsb p (before_finished es).
Proof.
  intros NA PF. destruct (before_finished_split es) as [E|(t & E)]; [rewrite E; reflexivity|].
  pose proof (NA _ _ E) as T. subst t. rewrite E at 1. rewrite existsb_app. cbn [existsb]. rewrite PF, !orb_false_r. reflexivity.
Qed.

Lemma hook_failed_final_eq es :
  k_hook_in_retried es = false -> existsb is_hook_failed es = existsb is_hook_failed_final es.
Proof.
  unfold k_hook_in_retried. induction es as [|e b IH]; intros K; auto.
  cbn [existsb] in K |- *. apply orb_false_iff in K as [K1 K2]. rewrite IH by exact K2.
  unfold is_hook_failed_final. destruct (is_hook_failed e); cbn [andb orb] in *; [rewrite K1|]; reflexivity.
Qed.

(* ---- A4: the Libtest verdict is the declarative one, outside K01a ---- *)
Theorem lt_verdict_spec es :
  existsb is_parsing_finished es = true ->
  nothing_after_finished es ->
  k_hook_in_retried (before_finished es) = false ->
  g_has_failed (lt_getters (lt_final es)) = spec_failed es.
Proof.
  intros PF NA K. rewrite (lt_verdict es PF). unfold spec_failed.
  rewrite <- (hook_failed_final_eq _ K). rewrite !(existsb_before_finished _ es NA) by reflexivity. reflexivity.
Qed.

(* a complete contract-abiding stream: run-Finished is its last event, so nothing follows it *)
Lemma contract_nothing_after_finished (es : list ev) : contract es = true -> nothing_after_finished es.
Proof.
  intros C a b E. unfold contract in C. destruct (crun false cinit es) as [c|] eqn:CR; [|discriminate].
  destruct (contract_ends_with_finished _ _ _ CR eq_refl C) as (l0 & -> & NF).
  destruct b as [|y b0]; [reflexivity|exfalso]. destruct (@exists_last _ (y :: b0)) as (b' & x & EB); [discriminate|].
  rewrite EB in E. change (a ++ EvFinished :: b' ++ [x]) with (a ++ (EvFinished :: b') ++ [x]) in E. rewrite app_assoc in E.
  apply app_inj_tail in E as [E _]. rewrite E, existsb_app in NF. cbn [existsb is_finished] in NF.
  rewrite orb_true_r in NF. discriminate.
Qed.

Corollary lt_verdict_contract es :
  contract es = true -> existsb is_parsing_finished es = true -> k_hook_in_retried (before_finished es) = false ->
  g_has_failed (lt_getters (lt_final es)) = spec_failed es.
Proof. intros C PF K. apply lt_verdict_spec; auto. apply contract_nothing_after_finished; exact C. Qed.

(* through the pipeline grammar: the QLibtest leaf *)
Lemma qfinal_libtest tags_of last_own : forall es s,
  qfinal_from tags_of last_own QLibtest (TLib s) es = TLib (fold_left lt_handle (map snd es) s).
Proof. induction es as [|e t IH]; intros s; cbn [qfinal_from map fold_left qhandle fst]; [reflexivity|]. apply IH. Qed.

Theorem verdict_libtest_pipeline tags_of last_own (es : list mev) :
  existsb is_parsing_finished (map snd es) = true ->
  nothing_after_finished (map snd es) ->
  k_hook_in_retried (before_finished (map snd es)) = false ->
  qfailed QLibtest (qfinal tags_of last_own QLibtest es) = spec_failed (map snd es).
Proof.
  intros PF NA K. unfold qfinal. cbn [qinit]. rewrite qfinal_libtest. cbn [qfailed qgetters].
  exact (lt_verdict_spec (map snd es) PF NA K).
Qed.

(* an example: a scenario event and a parser error BEFORE ParsingFinished, a retried failure and a final failure *)
Definition exA : list ev :=
  let a := EvScen 1 None 2 (Some (0, 1)) in
  let b := EvScen 1 None 2 (Some (1, 0)) in
  [EvStarted; EvFeatS 1; a ScStarted; EvParseErr 7; a (ScStep 9 StStarted);
   EvParsingFinished 1 0 1 1 1;
   a (ScStep 9 (StFailed (EPanic 3))); a ScFinished;
   b ScStarted; b (ScStep 9 StStarted); b (ScStep 9 (StFailed (EPanic 3))); b ScFinished;
   EvScen 1 None 3 None ScStarted; EvScen 1 None 3 None (ScStep 4 StStarted); EvScen 1 None 3 None (ScStep 4 StPassed);
   EvScen 1 None 3 None (ScStep 5 StStarted); EvScen 1 None 3 None (ScStep 5 StSkipped);
   EvScen 1 None 3 None (ScHook false HStarted); EvScen 1 None 3 None (ScHook false (HFailed 1));
   EvScen 1 None 3 None ScFinished;
   EvFeatF 1; EvFinished].

Example exA_counts :
  contract exA = true /\ existsb is_parsing_finished exA = true /\ k_hook_in_retried exA = false /\
  lt_getters (lt_final exA) = mk_getters 1 1 1 1 1 1 /\ g_count exA = mk_getters 1 1 1 1 1 1 /\
  lt_buf (lt_final exA) = [] /\
  g_has_failed (lt_getters (lt_final exA)) = true /\ spec_failed exA = true /\
  (* the prefix before ParsingFinished: nothing counted yet, five events buffered *)
  lt_getters (lt_final (firstn 5 exA)) = mk_getters 0 0 0 0 0 0 /\ length (lt_buf (lt_final (firstn 5 exA))) = 5%nat.
Proof. vm_compute. repeat split; reflexivity. Qed.

(* K01a really separates Libtest from the specification: a hook fails in an attempt that is retried and then passes *)
Example lt_verdict_K01a_refuted :
  exists es, contract es = true /\ existsb is_parsing_finished es = true /\
             g_has_failed (lt_getters (lt_final es)) = true /\ spec_failed es = false.
Proof.
  exists [EvStarted; EvParsingFinished 1 0 1 1 0; EvFeatS 1; EvScen 1 None 2 (Some (0, 1)) ScStarted;
          EvScen 1 None 2 (Some (0, 1)) (ScHook true HStarted);
          EvScen 1 None 2 (Some (0, 1)) (ScHook true (HFailed 7));
          EvScen 1 None 2 (Some (0, 1)) ScFinished;
          EvScen 1 None 2 (Some (1, 0)) ScStarted;
          EvScen 1 None 2 (Some (1, 0)) (ScStep 9 StStarted);
          EvScen 1 None 2 (Some (1, 0)) (ScStep 9 StPassed);
          EvScen 1 None 2 (Some (1, 0)) ScFinished; EvFeatF 1; EvFinished].
  vm_compute. repeat split; reflexivity.
Qed.

(* ========================================================================================== *)
(* B. the summary of Summarize behind Normalize, on the RAW stream                             *)
(* ========================================================================================== *)

(* ---- permutation invariance of the stateless counts ---- *)
Lemma count_perm p a b : Permutation a b -> count p a = count p b.
Proof.
  intros H. unfold count. f_equal. induction H as [|x a b H IH|x y a|a b c H1 IH1 H2 IH2]; cbn [filter].
  - reflexivity.
  - destruct (p x); cbn [length]; congruence.
  - destruct (p x), (p y); reflexivity.
  - congruence.
Qed.
Lemma core_count_perm a b : Permutation a b -> core_count a = core_count b.
Proof. intros H. unfold core_count. f_equal; apply count_perm; exact H. Qed.

(* ---- the shape of the raw and of the normalized stream: both end with their only run-Finished, and the parts
        before it are permutations of each other ---- *)
Lemma raw_norm_shape (es : list mev) : contract (map snd es) = true ->
  exists a b, map snd es = a ++ [EvFinished] /\ map snd (concat (nrun es)) = b ++ [EvFinished] /\
              existsb is_finished a = false /\ existsb is_finished b = false /\ Permutation b a.
Proof.
  intros C. destruct (finished_comes_last es C) as (X & m & XE & NFX).
  pose proof (contract_lossless es C) as PX.
  unfold contract in C. destruct (crun false cinit (map snd es)) as [c''|] eqn:CR; [|discriminate].
  destruct (contract_ends_with_finished _ _ _ CR eq_refl C) as (a & EA & NFA).
  exists a, (map snd X). rewrite XE, map_app. cbn [map snd]. split; [exact EA|]. split; [reflexivity|].
  split; [exact NFA|]. split; [exact NFX|].
  apply (Permutation_map snd) in PX. rewrite XE, map_app, EA in PX. cbn [map snd] in PX.
  apply Permutation_app_inv_r in PX. exact PX.
Qed.

Lemma raw_norm_before_finished (es : list mev) : contract (map snd es) = true ->
  exists a b, map snd es = a ++ [EvFinished] /\ map snd (concat (nrun es)) = b ++ [EvFinished] /\
              before_finished (map snd es) = a /\ before_finished (map snd (concat (nrun es))) = b /\ Permutation b a.
Proof.
  intros C. destruct (raw_norm_shape es C) as (a & b & EA & EB & NA & NB & P). exists a, b.
  rewrite EA, EB. rewrite !before_finished_app by assumption. auto.
Qed.

(* the Summarize state behind a Normalize *)
Definition summ_behind_norm (s : qstate) : summ := match s with TNorm _ (TSumm sm _) => sm | _ => summ_init end.

Section B.
  Variable tags_of : N -> option N -> N -> list str.
  Variable last_own : N -> option N.

  (* Summarize behind Normalize has seen exactly the forwarded (normalized) stream *)
  Lemma summ_behind_norm_final q es :
    summ_behind_norm (qfinal tags_of last_own (QNorm (QSumm q)) es) = sm_final last_own (concat (nrun es)).
  Proof.
    unfold qfinal. cbn [qinit]. destruct (qfinal_norm_summ tags_of last_own q es ninit summ_init (qinit q)) as (sq' & ->).
    reflexivity.
  Qed.

  (* ---- B1: the eight stateless counters are the counts on the RAW stream ---- *)
  Theorem summary_core_behind_normalize q es :
    contract (map snd es) = true ->
    core_of (summ_behind_norm (qfinal tags_of last_own (QNorm (QSumm q)) es)) = core_count (before_finished (map snd es)).
  Proof.
    intros C. rewrite summ_behind_norm_final, sm_final_core.
    destruct (raw_norm_before_finished es C) as (a & b & _ & _ & -> & -> & P). apply core_count_perm. exact P.
  Qed.
End B.

(* ---- B2, part 1: everything the scenario counters and their hypotheses look at is a function of the per-PATH
        projections (and of the multiset of events) ---- *)
Definition same_paths (a b : list ev) : Prop := forall p, filter (on_path p) a = filter (on_path p) b.

Lemma existsb_ext' {A} (f g : A -> bool) l : (forall x, f x = g x) -> existsb f l = existsb g l.
Proof. intros H. induction l as [|x l IH]; cbn [existsb]; [reflexivity|]. rewrite H, IH. reflexivity. Qed.
Lemma forallb_ext' {A} (f g : A -> bool) l : (forall x, f x = g x) -> forallb f l = forallb g l.
Proof. intros H. induction l as [|x l IH]; cbn [forallb]; [reflexivity|]. rewrite H, IH. reflexivity. Qed.
Lemma filter_ext' {A} (f g : A -> bool) l : (forall x, f x = g x) -> filter f l = filter g l.
Proof. intros H. induction l as [|x l IH]; cbn [filter]; [reflexivity|]. rewrite H, IH. reflexivity. Qed.
Lemma forallb_perm {A} (p : A -> bool) a b : Permutation a b -> forallb p a = forallb p b.
Proof.
  induction 1 as [|x a b H IH|x y a|a b c H1 IH1 H2 IH2]; cbn [forallb]; try congruence.
  destruct (p x), (p y); reflexivity.
Qed.
Lemma filter_perm {A} (p : A -> bool) a b : Permutation a b -> Permutation (filter p a) (filter p b).
Proof.
  induction 1 as [|x a b H IH|x y a|a b c H1 IH1 H2 IH2]; cbn [filter].
  - constructor.
  - destruct (p x); [constructor|]; exact IH.
  - destruct (p x), (p y); try apply Permutation_refl. apply perm_swap.
  - eapply Permutation_trans; eassumption.
Qed.

Lemma paths_perm a b : same_paths a b -> Permutation (paths a) (paths b).
Proof.
  intros H. apply NoDup_Permutation; try apply StatsP2.paths_nodup.
  assert (X : forall a b, same_paths a b -> forall p, In p (paths a) -> In p (paths b)).
  { clear. intros a b H p Hp. apply StatsP2.paths_in in Hp as (e & He & Ep). apply StatsP2.paths_in. exists e. split; [|exact Ep].
    assert (I : In e (filter (on_path p) a)) by (apply filter_In; split; [exact He|apply StatsP2.on_path_iff; exact Ep]).
    rewrite (H p) in I. apply filter_In in I. tauto. }
  intros p. split; apply X; [exact H|]. intros q. symmetry. apply H.
Qed.

Section Transfer.
  Variables a b : list ev.
  Hypothesis SP : same_paths a b.
  Hypothesis PM : Permutation a b.

  Lemma tr_existsb_paths (g : spath -> list ev -> bool) :
    existsb (fun p => g p (filter (on_path p) a)) (paths a) = existsb (fun p => g p (filter (on_path p) b)) (paths b).
  Proof.
    rewrite (existsb_perm _ _ _ (paths_perm a b SP)). apply existsb_ext'. intros p. rewrite (SP p). reflexivity.
  Qed.
  Lemma tr_forallb_paths (g : spath -> list ev -> bool) :
    forallb (fun p => g p (filter (on_path p) a)) (paths a) = forallb (fun p => g p (filter (on_path p) b)) (paths b).
  Proof.
    rewrite (forallb_perm _ _ _ (paths_perm a b SP)). apply forallb_ext'. intros p. rewrite (SP p). reflexivity.
  Qed.
  Lemma tr_filter_paths (g : spath -> list ev -> bool) :
    Permutation (filter (fun p => g p (filter (on_path p) a)) (paths a)) (filter (fun p => g p (filter (on_path p) b)) (paths b)).
  Proof.
    rewrite (filter_ext' (fun p => g p (filter (on_path p) a)) (fun p => g p (filter (on_path p) b))) by (intros p; rewrite (SP p); reflexivity).
    apply filter_perm. apply paths_perm. exact SP.
  Qed.

  Lemma tr_retried_paths : Permutation (retried_paths a) (retried_paths b).
  Proof. exact (tr_filter_paths (fun _ l => existsb is_step_failed_retried l)). Qed.

  Lemma tr_k_hook : k_hook_in_retried a = k_hook_in_retried b.
  Proof. unfold k_hook_in_retried. apply existsb_perm. exact PM. Qed.
  Lemma tr_k12b lo : k12b lo a = k12b lo b.
  Proof. unfold k12b. apply existsb_perm. exact tr_retried_paths. Qed.
  Lemma tr_k12c lo so : k12c lo so a = k12c lo so b.
  Proof. unfold k12c. apply existsb_perm. exact tr_retried_paths. Qed.
  Lemma tr_k12d : k12d a = k12d b.
  Proof. exact (tr_existsb_paths (fun _ l => k12d_walk false l)). Qed.
  Lemma tr_retry_consistent : retry_consistent a = retry_consistent b.
  Proof. exact (tr_forallb_paths (fun _ l => rc_walk None false l)). Qed.
  Lemma tr_wf_attempts so : StatsP2.wf_attempts so a = StatsP2.wf_attempts so b.
  Proof. exact (tr_forallb_paths (fun p l => StatsP2.wf_path (so (sc_of p)) l)). Qed.
  Lemma tr_last_own_consistent lo so : StatsP2.last_own_consistent lo so a = StatsP2.last_own_consistent lo so b.
  Proof. unfold StatsP2.last_own_consistent. apply forallb_perm. exact tr_retried_paths. Qed.
  Lemma tr_count_class c : count_class c a = count_class c b.
  Proof.
    unfold count_class. f_equal. apply Permutation_length.
    exact (tr_filter_paths (fun _ l => match classify l, c with
                                       | CPassed, CPassed | CSkipped, CSkipped | CFailed, CFailed => true
                                       | _, _ => false end)).
  Qed.
  Lemma tr_retried_count :
    N.of_nat (length (filter (fun p => existsb is_step_failed_retried (filter (on_path p) a)) (paths a))) =
    N.of_nat (length (filter (fun p => existsb is_step_failed_retried (filter (on_path p) b)) (paths b))).
  Proof. f_equal. apply Permutation_length. exact tr_retried_paths. Qed.
End Transfer.

(* the twelve numbers of the specification and the known-class number, for two streams that both end with their only
   run-Finished and agree before it as multisets and path by path *)
Lemma tr_spec_counts a b :
  same_paths a b -> Permutation a b -> existsb is_finished a = false -> existsb is_finished b = false ->
  spec_counts (a ++ [EvFinished]) = spec_counts (b ++ [EvFinished]).
Proof.
  intros SP PM NA NB. unfold spec_counts. rewrite !before_finished_app by assumption.
  rewrite !(count_perm _ _ _ PM), !(tr_count_class a b SP), (tr_retried_count a b SP). reflexivity.
Qed.
Lemma tr_k12_class lo so a b :
  same_paths a b -> Permutation a b -> existsb is_finished a = false -> existsb is_finished b = false ->
  k12_class lo so (a ++ [EvFinished]) = k12_class lo so (b ++ [EvFinished]).
Proof.
  intros SP PM NA NB. unfold k12_class. rewrite !before_finished_app by assumption.
  rewrite (tr_k_hook a b PM), (tr_k12b a b SP lo), (tr_k12c a b SP lo so), (tr_k12d a b SP). reflexivity.
Qed.

(* ---- B2, part 2: the four scenario counters behind Normalize, GIVEN that the per-path projections of the
        normalized stream are those of the raw stream (discharged below by `path_order_preserved`) ---- *)
Section B2gen.
  Variable tags_of : N -> option N -> N -> list str.
  Variable last_own : N -> option N.
  Variable steps_of : N -> list N.

  Lemma scenario_counters_behind_normalize_gen q es :
    contract (map snd es) = true ->
    same_paths (before_finished (map snd es)) (before_finished (map snd (concat (nrun es)))) ->
    let evs := before_finished (map snd es) in
    k12_class last_own steps_of (map snd es) = 0 ->
    retry_consistent evs = true ->
    StatsP2.wf_attempts steps_of evs = true ->
    StatsP2.last_own_consistent last_own steps_of evs = true ->
    let s := summ_behind_norm (qfinal tags_of last_own (QNorm (QSumm q)) es) in
    [n_passed (sm_scenarios s); n_skipped (sm_scenarios s); n_failed (sm_scenarios s); n_retried (sm_scenarios s)]
    = firstn 4 (skipn 2 (spec_counts (map snd es))).
  Proof.
    intros C SP evs HK HRC HWF HLO s. subst s evs. rewrite summ_behind_norm_final.
    destruct (raw_norm_shape es C) as (a & b & EA & EB & NA & NB & P).
    set (X := concat (nrun es)) in *. rewrite EA, EB in SP. rewrite !before_finished_app in SP by assumption.
    rewrite EA in HK, HRC, HWF, HLO |- *. rewrite before_finished_app in HRC, HWF, HLO by assumption.
    assert (PM : Permutation a b) by (apply Permutation_sym; exact P).
    rewrite (tr_spec_counts a b SP PM NA NB). rewrite <- EB.
    apply (StatsP2.scenario_counters_correct last_own steps_of X); rewrite EB; rewrite ?before_finished_app by assumption.
    - rewrite <- (tr_k12_class last_own steps_of a b SP PM NA NB). exact HK.
    - rewrite <- (tr_retry_consistent a b SP). exact HRC.
    - rewrite <- (tr_wf_attempts a b SP). exact HWF.
    - rewrite <- (tr_last_own_consistent a b SP). exact HLO.
  Qed.
End B2gen.

(* ---- B2, part 3: the per-path order statement itself ---- *)
(* ========================================================================================== *)
(* C11, per PATH: Normalize keeps the events of every scenario (feature, rule, scenario — all   *)
(* its attempts together) in their original relative order                                      *)
(* ========================================================================================== *)
Definition same_path (f : N) (r : option N) (s : N) (e : ev) : bool :=
  match e with EvScen f' r' s' _ _ => (f' =? f) && option_eqb N.eqb r' r && (s' =? s) | _ => false end.
Definition proj_path (f : N) (r : option N) (s : N) (e : mev) : bool := same_path f r s (snd e).

(* ---- the queue-order invariant: an UNFINISHED attempt queue is the last queue of its scenario ---- *)
Fixpoint Jatts (l : list (akey * list aev)) : Prop :=
  match l with
  | [] => True
  | (k, es) :: t => (has_fin es = false -> forall k', In k' (keys t) -> fst k' <> fst k) /\ Jatts t
  end.
Definition Jhead (k : ikey) (it : item) (t : list (ikey * item)) : Prop :=
  match k, it with
  | KScen k, IScen es => has_fin es = false -> forall k', In (KScen k') (keys t) -> fst k' <> fst k
  | KRule _, IRule rq => Jatts (rq_atts rq)
  | _, _ => True
  end.
Fixpoint Jits (l : list (ikey * item)) : Prop :=
  match l with
  | [] => True
  | (k, it) :: t => Jhead k it t /\ Jits t
  end.
Definition Jfeats (l : list (N * fqueue)) : Prop := Forall (fun fq => Jits (fq_items (snd fq))) l.
Definition J (s : nstate) : Prop := Jfeats (ns_feats s).

Lemma Jatts_split l1 : forall k es t, Jatts (l1 ++ (k, es) :: t) -> has_fin es = false ->
  forall k', In k' (keys t) -> fst k' <> fst k.
Proof.
  induction l1 as [|[a b] l1 IH]; intros k es t HJ HF; cbn [app Jatts] in HJ.
  - destruct HJ as [H _]. exact (H HF).
  - destruct HJ as [_ H]. exact (IH k es t H HF).
Qed.
Lemma Jits_split l1 : forall k es t, Jits (l1 ++ (KScen k, IScen es) :: t) -> has_fin es = false ->
  forall k', In (KScen k') (keys t) -> fst k' <> fst k.
Proof.
  induction l1 as [|[a b] l1 IH]; intros k es t HJ HF; cbn [app Jits] in HJ.
  - destruct HJ as [H _]. exact (H HF).
  - destruct HJ as [_ H]. exact (IH k es t H HF).
Qed.
Lemma Jits_rule_in l : forall r rq, Jits l -> In (KRule r, IRule rq) l -> Jatts (rq_atts rq).
Proof.
  induction l as [|[a b] l IH]; intros r rq HJ Hin; [destruct Hin|]. cbn [Jits] in HJ. destruct HJ as [H1 H2].
  destruct Hin as [E|Hin]; [inversion E; subst; exact H1|exact (IH r rq H2 Hin)].
Qed.
Lemma Jhead_keys k it t t' : keys t' = keys t -> Jhead k it t -> Jhead k it t'.
Proof. intros E. destruct k as [r|k], it as [rq|es]; cbn [Jhead]; auto. rewrite E. auto. Qed.

(* ---- the invariant survives the emission loops: they drop finished head queues and trim the new head ---- *)
Lemma emit_att_fin f r k es : snd (emit_att f r k es) = has_fin es.
Proof.
  induction es as [|e t IH]; cbn [emit_att]; [reflexivity|]. unfold has_fin. cbn [existsb].
  destruct (is_sc_finished (snd e)); [reflexivity|]. cbn [orb]. fold (has_fin t). rewrite <- IH.
  destruct (emit_att f r k t) as [[o rest] b]. reflexivity.
Qed.

Lemma Jatts_emit f r l : Jatts l -> Jatts (snd (emit_atts f r l)).
Proof.
  induction l as [|[k es] t IH]; intros HJ; cbn [emit_atts]; [exact I|]. cbn [Jatts] in HJ. destruct HJ as [H1 H2].
  pose proof (emit_att_fin f (Some r) k es) as EF. destruct (emit_att f (Some r) k es) as [[o rest] b]. cbn [snd] in EF. subst b.
  destruct (has_fin es) eqn:HF.
  - specialize (IH H2). destruct (emit_atts f r t) as [o2 l2]. exact IH.
  - cbn [snd Jatts]. split; [intros _; exact (H1 eq_refl)|exact H2].
Qed.

Lemma Jits_emit f l : Jits l -> Jits (snd (emit_items f l)).
Proof.
  induction l as [|[ik it] t IH]; intros HJ; cbn [emit_items]; [exact I|]. pose proof HJ as HJ0. cbn [Jits] in HJ. destruct HJ as [H1 H2].
  specialize (IH H2). destruct ik as [r|k]; destruct it as [rq|es]; try exact HJ0.
  - unfold emit_rule. pose proof (Jatts_emit f r (rq_atts rq) H1) as JA. destruct (emit_atts f r (rq_atts rq)) as [o2 atts]. cbn [snd] in JA.
    destruct (take_fin (rq_state rq)) as [[m0|] st].
    + destruct (emit_items f t) as [o3 l3]. exact IH.
    + cbn [snd Jits Jhead rq_atts]. split; [exact JA|exact H2].
  - pose proof (emit_att_fin f None k es) as EF. destruct (emit_att f None k es) as [[o rest] b]. cbn [snd] in EF. subst b.
    destruct (has_fin es) eqn:HF.
    + destruct (emit_items f t) as [o3 l3]. exact IH.
    + cbn [snd Jits Jhead]. split; [intros _; exact (H1 HF)|exact H2].
Qed.

Lemma Jfeats_emit l : Jfeats l -> Jfeats (snd (emit_feats l)).
Proof.
  unfold Jfeats. induction l as [|[f q] t IH]; intros HJ; cbn [emit_feats]; [constructor|].
  inversion HJ as [|? ? H1 H2]; subst. cbn [snd] in H1. specialize (IH H2). unfold emit_feat.
  pose proof (Jits_emit f (fq_items q) H1) as JI. destruct (emit_items f (fq_items q)) as [o2 items]. cbn [snd] in JI.
  destruct (take_fin (fq_state q)) as [[m0|] st].
  - destruct (emit_feats t) as [o3 l3]. exact IH.
  - cbn [snd]. constructor; [exact JI|exact H2].
Qed.

(* ---- the invariant survives queueing, for events the contract automaton accepts ---- *)
Section ALx.
  Context {K V : Type} (eqb : K -> K -> bool).
  Hypothesis eqb_spec : forall a b, eqb a b = true <-> a = b.

  Lemma in_keys_aupsert k g (l : list (K * V)) k' :
    In k' (keys (aupsert eqb k g l)) -> In k' (keys l) \/ (k' = k /\ ~ In k (keys l)).
  Proof.
    induction l as [|[a b] t IH]; cbn [aupsert keys map fst In].
    - intros [<-|[]]. right. split; [reflexivity|intros []].
    - destruct (eqb k a) eqn:E; cbn [keys map fst In].
      + intros H. left. exact H.
      + intros [H|H]; [left; left; exact H|]. destruct (IH H) as [X|[-> X]]; [left; right; exact X|].
        right. split; [reflexivity|]. intros [Y|Y]; [subst; rewrite (proj2 (eqb_spec k k) eq_refl) in E; discriminate|exact (X Y)].
  Qed.

  Lemma Forall_amodify (P : V -> Prop) k g (l : list (K * V)) :
    Forall (fun kv => P (snd kv)) l ->
    (forall v, In (k, v) l -> P v -> P (g v)) ->
    Forall (fun kv => P (snd kv)) (amodify eqb k g l).
  Proof.
    induction l as [|[a b] t IH]; intros HF HG; cbn [amodify]; [constructor|].
    inversion HF as [|? ? H1 H2]; subst. destruct (eqb k a) eqn:E.
    - apply eqb_spec in E. subst a. constructor; [cbn [snd] in *; apply HG; [left; reflexivity|exact H1]|exact H2].
    - constructor; [exact H1|]. apply IH; [exact H2|]. intros v Hv. apply HG. right. exact Hv.
  Qed.
End ALx.

Lemma Jatts_aupsert k e l :
  Jatts l ->
  (~ In k (keys l) -> forall k1 es1, In (k1, es1) l -> fst k1 = fst k -> has_fin es1 = true) ->
  Jatts (aupsert akey_eqb k (push_ev e) l).
Proof.
  induction l as [|[a b] t IH]; intros HJ HA; cbn [aupsert].
  - cbn [Jatts keys map]. split; [intros _ k' []|exact I].
  - cbn [Jatts] in HJ. destruct HJ as [H1 H2]. destruct (akey_eqb k a) eqn:E.
    + cbn [Jatts push_ev]. split; [|exact H2]. intros HF. apply H1. destruct e as [m x]. rewrite has_fin_snoc in HF.
      apply orb_false_iff in HF. tauto.
    + cbn [Jatts]. split.
      * intros HF k' Hk'. destruct (in_keys_aupsert akey_eqb akey_eqb_spec _ _ _ _ Hk') as [X|[-> X]]; [exact (H1 HF k' X)|].
        intros EQ. assert (NI : ~ In k (keys ((a, b) :: t))).
        { cbn [keys map fst In]. intros [Y|Y]; [subst a; rewrite (proj2 (akey_eqb_spec k k) eq_refl) in E; discriminate|exact (X Y)]. }
        rewrite (HA NI a b (or_introl eq_refl) (eq_sym EQ)) in HF. discriminate.
      * apply IH; [exact H2|]. intros NI k1 es1 Hin. apply HA; [|right; exact Hin].
        cbn [keys map fst In]. intros [Y|Y]; [subst a; rewrite (proj2 (akey_eqb_spec k k) eq_refl) in E; discriminate|exact (NI Y)].
Qed.

Lemma Jits_aupsert k m x g l :
  (forall es, g (Some (IScen es)) = IScen (es ++ [(m, x)])) -> g None = IScen [(m, x)] ->
  items_wf l = true -> Jits l ->
  (~ In (KScen k) (keys l) -> forall k1 es1, In (KScen k1, IScen es1) l -> fst k1 = fst k -> has_fin es1 = true) ->
  Jits (aupsert ikey_eqb (KScen k) g l).
Proof.
  intros G1 G2. induction l as [|[a b] t IH]; intros W HJ HA; cbn [aupsert].
  - rewrite G2. cbn [Jits Jhead keys map]. split; [intros _ k' []|exact I].
  - unfold items_wf in W. cbn [forallb] in W. apply andb_prop in W as [W1 W2]. cbn [Jits] in HJ. destruct HJ as [H1 H2].
    destruct (ikey_eqb (KScen k) a) eqn:E.
    + apply ikey_eqb_spec in E. subst a. destruct b as [rq|es]; [cbn in W1; discriminate|]. rewrite G1. cbn [Jits Jhead] in *. split; [|exact H2].
      intros HF. apply H1. rewrite has_fin_snoc in HF. apply orb_false_iff in HF. tauto.
    + cbn [Jits]. split.
      * destruct a as [r|k0], b as [rq|es0]; cbn [Jhead] in *; auto.
        intros HF k' Hk'. destruct (in_keys_aupsert ikey_eqb ikey_eqb_spec _ _ _ _ Hk') as [X|[EQk X]]; [exact (H1 HF k' X)|].
        inversion EQk; subst k'. intros EQ.
        assert (NI : ~ In (KScen k) (keys ((KScen k0, IScen es0) :: t))).
        { cbn [keys map fst In]. intros [Y|Y]; [rewrite Y in E; rewrite (proj2 (ikey_eqb_spec _ _) eq_refl) in E; discriminate|exact (X Y)]. }
        rewrite (HA NI k0 es0 (or_introl eq_refl) (eq_sym EQ)) in HF. discriminate.
      * apply IH; [exact W2|exact H2|]. intros NI k1 es1 Hin. apply HA; [|right; exact Hin].
        cbn [keys map fst In]. intros [Y|Y]; [rewrite Y in E; rewrite (proj2 (ikey_eqb_spec _ _) eq_refl) in E; discriminate|exact (NI Y)].
Qed.

Lemma Jits_amodify_rule r G l :
  Jits l ->
  (forall rq, In (KRule r, IRule rq) l -> exists rq', G (IRule rq) = IRule rq' /\ Jatts (rq_atts rq')) ->
  (forall es, G (IScen es) = IScen es) ->
  Jits (amodify ikey_eqb (KRule r) G l).
Proof.
  intros HJ HG HS. induction l as [|[a b] t IH]; cbn [amodify]; [exact I|]. cbn [Jits] in HJ. destruct HJ as [H1 H2].
  destruct (ikey_eqb (KRule r) a) eqn:E.
  - apply ikey_eqb_spec in E. subst a. cbn [Jits]. split; [|exact H2]. destruct b as [rq|es].
    + destruct (HG rq (or_introl eq_refl)) as (rq' & -> & JA). exact JA.
    + rewrite HS. exact I.
  - cbn [Jits]. split.
    + apply (Jhead_keys a b t); [apply keys_amodify|exact H1].
    + apply IH; [exact H2|]. intros rq Hin. apply HG. right. exact Hin.
Qed.

Lemma Jits_snoc_rule r rq l : Jits l -> Jatts (rq_atts rq) -> Jits (l ++ [(KRule r, IRule rq)]).
Proof.
  intros HJ JA. induction l as [|[a b] t IH]; cbn [app Jits].
  - cbn [Jhead]. auto.
  - cbn [Jits] in HJ. destruct HJ as [H1 H2]. split; [|exact (IH H2)].
    destruct a as [r0|k0], b as [rq0|es0]; cbn [Jhead] in *; auto.
    intros HF k' Hk'. apply (H1 HF). unfold keys in *. rewrite map_app in Hk'. apply in_app_or in Hk' as [X|[X|[]]]; [exact X|discriminate X].
Qed.

(* what the contract automaton knows when it accepts a scenario event *)
Lemma cstep_scen_facts c c' f r sc rt x :
  cstep false c (EvScen f r sc rt x) = Some c' ->
  open_atts_where (same_scen f r sc) c = false \/ lookup atkey_eqb (f, r, sc, rt) (c_atts c) = Some Open.
Proof.
  unfold cstep. destruct (c_finished c); [discriminate|]. destruct x; intros CS; apply guard_some in CS as [G _].
  all: try (right; apply andb_prop in G as [_ G]; apply is_open_some; exact G).
  left. apply andb_prop in G as [G _]. apply andb_prop in G as [G _]. apply andb_prop in G as [_ G]. apply negb_true_iff in G. exact G.
Qed.

(* either the attempt is buffered (unfinished), or no attempt of its scenario is buffered unfinished *)
Lemma scen_sibling c c' s f r sc rt x :
  R c s -> cstep false c (EvScen f r sc rt x) = Some c' ->
  bufA s (f, r, sc, rt) false \/ (forall rt1, ~ bufA s (f, r, sc, rt1) false).
Proof.
  intros HR CS. destruct (cstep_scen_facts _ _ _ _ _ _ _ CS) as [NO|OP].
  - right. intros rt1 B. pose proof (r_a1 c s HR _ _ B) as L. cbn [negb] in L.
    rewrite (open_att_seen c (same_scen f r sc) (f, r, sc, rt1) L) in NO; [discriminate|].
    unfold same_scen. cbn [att_feat att_rule att_scen]. rewrite !N.eqb_refl.
    rewrite (proj2 (option_eqb_spec N.eqb N.eqb_eq r r) eq_refl). reflexivity.
  - left. exact (r_a2 c s HR _ OP).
Qed.

Lemma J_enqueue c c' s m e :
  R c s -> U s -> nwf s = true -> J s -> cstep false c e = Some c' -> naccept s e = true ->
  J (enqueue s (m, e)).
Proof.
  intros HR HU W HJ CS A. pose proof HU as [UN UI]. unfold J in *.
  destruct e as [| | | |f|f|f r|f r|f ro sc rt x]; unfold enqueue; cbn [fst snd ns_feats set_feats]; try exact HJ.
  - (* Feature Started *)
    unfold naccept in A. cbn [is_pass] in A. apply andb_prop in A as [_ A]. apply negb_true_iff in A.
    destruct (afind N.eqb f (ns_feats s)) eqn:FD; [discriminate|]. unfold ainsert. rewrite (aremove_none N.eqb f _ FD).
    unfold Jfeats. apply Forall_app. split; [exact HJ|]. constructor; [exact I|constructor].
  - (* Feature Finished *)
    apply (Forall_amodify N.eqb N.eqb_eq (fun q => Jits (fq_items q))); [exact HJ|]. intros q _ H. exact H.
  - (* Rule Started *)
    unfold naccept in A. cbn [is_pass] in A. apply andb_prop in A as [_ A].
    destruct (afind N.eqb f (ns_feats s)) as [[f' q]|] eqn:FD; [|discriminate]. apply andb_prop in A as [_ A]. apply negb_true_iff in A.
    destruct (afind ikey_eqb (KRule r) (fq_items q)) eqn:FI; [discriminate|].
    pose proof (NormalizeP7.afind_In N.eqb NormalizeP7.Neqb_eq _ _ _ _ FD) as Hq.
    apply (Forall_amodify N.eqb N.eqb_eq (fun q => Jits (fq_items q))); [exact HJ|]. intros q' Hq' H.
    rewrite (nodup_keys_unique _ _ _ _ UN Hq' Hq) in *. cbn [set_fq_items fq_items]. unfold ainsert.
    rewrite (aremove_none ikey_eqb _ _ FI). apply Jits_snoc_rule; [exact H|exact I].
  - (* Rule Finished *)
    apply (Forall_amodify N.eqb N.eqb_eq (fun q => Jits (fq_items q))); [exact HJ|]. intros q _ H. cbn [set_fq_items fq_items].
    apply Jits_amodify_rule; [exact H| |reflexivity]. intros rq Hin. eexists. split; [reflexivity|]. cbn [set_rq_state rq_atts].
    exact (Jits_rule_in _ _ _ H Hin).
  - (* a scenario event *)
    unfold naccept in A. cbn [is_pass] in A. apply andb_prop in A as [_ A].
    destruct (afind N.eqb f (ns_feats s)) as [[f' q]|] eqn:FD; [|destruct ro; discriminate].
    pose proof (NormalizeP7.afind_In N.eqb NormalizeP7.Neqb_eq _ _ _ _ FD) as Hq.
    destruct (UI f (fq_items q)) as [UQ UQ2]; [exists q; auto|].
    pose proof (scen_sibling c c' s f ro sc rt x HR CS) as SIB.
    destruct ro as [r|].
    + apply (Forall_amodify N.eqb N.eqb_eq (fun q => Jits (fq_items q))); [exact HJ|]. intros q' Hq' H.
      rewrite (nodup_keys_unique _ _ _ _ UN Hq' Hq) in *. cbn [set_fq_items fq_items].
      apply Jits_amodify_rule; [exact H| |reflexivity]. intros rq Hrq. eexists. split; [reflexivity|]. cbn [set_rq_atts rq_atts].
      apply Jatts_aupsert; [exact (Jits_rule_in _ _ _ H Hrq)|]. intros NI k1 es1 Hin1 E1.
      destruct (has_fin es1) eqn:HF; [reflexivity|exfalso]. destruct SIB as [PRES|NOSIB].
      * apply (bufA_at s f q (f, Some r, sc, rt) false UN Hq eq_refl) in PRES. cbn [att_rule att_scen att_retr attIn] in PRES.
        destruct PRES as (rq0 & es0 & Hrq0 & Hes0 & _).
        assert (EQ : IRule rq0 = IRule rq) by exact (nodup_keys_unique _ _ _ _ UQ Hrq0 Hrq). inversion EQ; subst rq0.
        apply NI. exact (in_keys _ _ _ Hes0).
      * destruct k1 as [s1 rt1]. cbn [fst] in E1. subst s1. apply (NOSIB rt1). apply (bufA_at s f q (f, Some r, sc, rt1) false UN Hq eq_refl).
        cbn [att_rule att_scen att_retr attIn]. exists rq, es1. auto.
    + apply (Forall_amodify N.eqb N.eqb_eq (fun q => Jits (fq_items q))); [exact HJ|]. intros q' Hq' H.
      rewrite (nodup_keys_unique _ _ _ _ UN Hq' Hq) in *. cbn [set_fq_items fq_items].
      assert (IW : items_wf (fq_items q) = true) by (apply (nwf_items s f); [exact W|exists q; auto]).
      apply (Jits_aupsert (sc, rt) m x); [intros es; reflexivity|reflexivity|exact IW|exact H|]. intros NI k1 es1 Hin1 E1.
      destruct (has_fin es1) eqn:HF; [reflexivity|exfalso]. destruct SIB as [PRES|NOSIB].
      * apply (bufA_at s f q (f, None, sc, rt) false UN Hq eq_refl) in PRES. cbn [att_rule att_scen att_retr attIn] in PRES.
        destruct PRES as (es0 & Hes0 & _). apply NI. exact (in_keys _ _ _ Hes0).
      * destruct k1 as [s1 rt1]. cbn [fst] in E1. subst s1. apply (NOSIB rt1). apply (bufA_at s f q (f, None, sc, rt1) false UN Hq eq_refl).
        cbn [att_rule att_scen att_retr attIn]. exists es1. auto.
Qed.

(* one call keeps the invariant *)
Lemma J_step c c' s m e :
  SimInv c s -> J s -> cstep false c e = Some c' -> J (fst (nhandle s (m, e))).
Proof.
  intros HS HJ CS. destruct (sim_step c c' s m e HS CS) as (AC & _ & _). destruct HS as (HR & HU & W & NS).
  assert (EM : is_emitted (ns_state s) = false) by (rewrite NS; reflexivity).
  assert (NA : naccept s e = true) by (unfold accepts in AC; rewrite EM in AC; exact AC).
  rewrite (nhandle_fst s (m, e) EM). unfold J. cbn [ns_feats]. apply Jfeats_emit.
  exact (J_enqueue c c' s m e HR HU W HJ CS NA).
Qed.

(* ====================================================================================== *)
(* projections of the buffered structure on one scenario path                              *)
(* ====================================================================================== *)
Section AL3.
  Context {K V : Type} (eqb : K -> K -> bool).
  Hypothesis eqb_spec : forall a b, eqb a b = true <-> a = b.
  Context {A : Type} (p : A -> bool) (F : K * V -> list A).

  (* an upsert appends to the projection when nothing selected sits BEHIND the updated entry *)
  Lemma fm_aupsert_add_pos k g (l : list (K * V)) e :
    (forall v, In (k, v) l -> filter p (F (k, g (Some v))) = filter p (F (k, v) ++ [e])) ->
    filter p (F (k, g None)) = filter p [e] ->
    (p e = true -> forall l1 v t, l = l1 ++ (k, v) :: t -> filter p (flat_map F t) = []) ->
    filter p (flat_map F (aupsert eqb k g l)) = filter p (flat_map F l ++ [e]).
  Proof.
    induction l as [|[a b] t IH]; intros MOD NEW POS; cbn [aupsert].
    - cbn [flat_map app]. rewrite app_nil_r. exact NEW.
    - destruct (eqb k a) eqn:E.
      + apply eqb_spec in E. subst a. cbn [flat_map]. rewrite !filter_app, MOD by (left; reflexivity). rewrite filter_app.
        destruct (p e) eqn:PE.
        * rewrite (POS eq_refl [] b t eq_refl). rewrite !app_nil_r. reflexivity.
        * cbn [filter]. rewrite PE. rewrite !app_nil_r. reflexivity.
      + cbn [flat_map]. rewrite <- app_assoc. rewrite (filter_app p (F (a, b))). rewrite (filter_app p (F (a, b))). f_equal.
        apply IH; [|exact NEW|].
        * intros v Hv. apply MOD. right. exact Hv.
        * intros PE l1 v t' ->. exact (POS PE ((a, b) :: l1) v t' eq_refl).
  Qed.
End AL3.

Section PProj.
  Variables (kf : N) (kr : option N) (ks : N).
  Notation p := (proj_path kf kr ks).

  Definition kpath (f' : N) (r' : option N) (k' : akey) : bool :=
    (f' =? kf) && option_eqb N.eqb r' kr && (fst k' =? ks).

  Lemma pp_mk_scen f' r' k' a : p (mk_scen f' r' k' a) = kpath f' r' k'.
  Proof. reflexivity. Qed.
  Lemma kpath_true f' r' k' : kpath f' r' k' = true -> f' = kf /\ r' = kr /\ fst k' = ks.
  Proof.
    unfold kpath. intros H. apply andb_prop in H as [H H3]. apply andb_prop in H as [H1 H2].
    apply N.eqb_eq in H1, H3. apply (option_eqb_spec _ N.eqb_eq) in H2. auto.
  Qed.
  Lemma kpath_false f' r' k' : (f' = kf -> r' = kr -> fst k' = ks -> False) -> kpath f' r' k' = false.
  Proof. intros H. destruct (kpath f' r' k') eqn:E; [|reflexivity]. apply kpath_true in E as (A & B & C). exfalso. auto. Qed.

  Lemma pp_filter_att_evs f' r' k' es :
    filter p (att_evs f' r' (k', es)) = if kpath f' r' k' then att_evs f' r' (k', es) else [].
  Proof.
    unfold att_evs. cbn [fst snd]. induction es as [|a t IH]; cbn [map filter]; [destruct (kpath f' r' k'); reflexivity|].
    rewrite pp_mk_scen, IH. destruct (kpath f' r' k'); reflexivity.
  Qed.
  Lemma pp_att_off f' r' k' es : kpath f' r' k' = false -> filter p (att_evs f' r' (k', es)) = [].
  Proof. intros H. rewrite pp_filter_att_evs, H. reflexivity. Qed.

  Lemma pp_init i e : same_path kf kr ks e = false -> filter p (init_evs i e) = [].
  Proof. intros H. destruct i as [m|]; cbn [init_evs filter]; [|reflexivity]. unfold proj_path. cbn [snd]. rewrite H. reflexivity. Qed.
  Lemma pp_fin st e : same_path kf kr ks e = false -> filter p (fin_evs st e) = [].
  Proof. intros H. destruct st as [|m|]; cbn [fin_evs filter]; try reflexivity. unfold proj_path. cbn [snd]. rewrite H. reflexivity. Qed.

  Lemma pp_rule f' r' rq : filter p (item_evs f' (KRule r', IRule rq)) = filter p (atts_evs f' r' (rq_atts rq)).
  Proof.
    cbn [item_evs]. rewrite !filter_app, pp_init, pp_fin by reflexivity. cbn [app]. rewrite app_nil_r. reflexivity.
  Qed.
  Lemma pp_feat f' q : filter p (feat_evs (f', q)) = filter p (items_evs f' (fq_items q)).
  Proof.
    unfold feat_evs. cbn [fst snd]. rewrite !filter_app, pp_init, pp_fin by reflexivity. cbn [app]. rewrite app_nil_r. reflexivity.
  Qed.
  Lemma pp_pending s : filter p (pending s) = filter p (feats_evs (ns_feats s)).
  Proof. unfold pending. rewrite filter_app, pp_fin by reflexivity. rewrite app_nil_r. reflexivity. Qed.

  Lemma pp_item_off f' ik it :
    (f' <> kf \/ match ik with KRule r' => Some r' <> kr | KScen k' => kr <> None \/ fst k' <> ks end) ->
    filter p (item_evs f' (ik, it)) = [].
  Proof.
    intros H. destruct ik as [r'|k']; destruct it as [rq|es]; try reflexivity.
    - rewrite pp_rule. apply NormalizeP7.filter_flat_map_nil. intros [k' es] _. apply pp_att_off. apply kpath_false. intros E1 E2 _.
      destruct H as [H|H]; [exact (H E1)|exact (H E2)].
    - cbn [item_evs]. apply pp_att_off. apply kpath_false. intros E1 E2 E3.
      destruct H as [H|[H|H]]; [exact (H E1)|apply H; symmetry; exact E2|exact (H E3)].
  Qed.
  Lemma pp_feat_off f' q : f' <> kf -> filter p (feat_evs (f', q)) = [].
  Proof.
    intros H. rewrite pp_feat. apply NormalizeP7.filter_flat_map_nil. intros [ik it] _. apply pp_item_off. left. exact H.
  Qed.
  Lemma pp_scen m f r sc rt x : p (m, EvScen f r sc rt x) = kpath f r (sc, rt).
  Proof. reflexivity. Qed.

  (* ---- step 1: queueing appends the event to the path projection of the buffer ---- *)
  Theorem enqueue_proj_path s e :
    U s -> J s -> is_pass (snd e) = false -> naccept s (snd e) = true ->
    filter p (pending (enqueue s e)) = filter p (pending s ++ [e]).
  Proof.
    intros HU HJ NPASS A. pose proof HU as [UN _].
    rewrite filter_app, !pp_pending, <- filter_app.
    unfold naccept in A. rewrite NPASS in A. apply andb_prop in A as [_ A].
    destruct e as [m ev0]. cbn [snd fst] in *. unfold enqueue. cbn [fst snd].
    destruct ev0 as [| | | |f|f|f r|f r|f r sc rt x]; try discriminate.
    - (* run Finished *)
      cbn [ns_feats]. rewrite filter_app. change (filter p [(m, EvFinished)]) with (@nil mev). rewrite app_nil_r. reflexivity.
    - (* Feature Started *)
      apply negb_true_iff in A. destruct (afind N.eqb f (ns_feats s)) eqn:FD; [discriminate|].
      unfold set_feats, ainsert. cbn [ns_feats]. rewrite (aremove_none N.eqb f _ FD).
      unfold feats_evs. rewrite flat_map_app, !filter_app. reflexivity.
    - (* Feature Finished *)
      unfold set_feats. cbn [ns_feats]. unfold feats_evs. rewrite (NormalizeP7.fm_amodify_same N.eqb N.eqb_eq).
      + rewrite filter_app. change (filter p [(m, EvFeatF f)]) with (@nil mev). rewrite app_nil_r. reflexivity.
      + intros v _. rewrite !pp_feat. reflexivity.
    - (* Rule Started *)
      destruct (afind N.eqb f (ns_feats s)) as [[f' q]|] eqn:FD; [|discriminate].
      apply andb_prop in A as [_ FR]. apply negb_true_iff in FR.
      destruct (afind ikey_eqb (KRule r) (fq_items q)) eqn:FI; [discriminate|].
      pose proof (NormalizeP7.afind_In N.eqb NormalizeP7.Neqb_eq _ _ _ _ FD) as Hq.
      unfold set_feats. cbn [ns_feats]. unfold feats_evs. rewrite (NormalizeP7.fm_amodify_same N.eqb N.eqb_eq).
      + rewrite filter_app. change (filter p [(m, EvRuleS f r)]) with (@nil mev). rewrite app_nil_r. reflexivity.
      + intros v Hv. rewrite (nodup_keys_unique _ _ _ _ UN Hv Hq). rewrite !pp_feat. cbn [set_fq_items fq_items].
        unfold ainsert. rewrite (aremove_none ikey_eqb _ _ FI). unfold items_evs. rewrite flat_map_app, filter_app.
        change (filter p (flat_map (item_evs f) [(KRule r, IRule (new_rq m))])) with (@nil mev). rewrite app_nil_r. reflexivity.
    - (* Rule Finished *)
      unfold set_feats. cbn [ns_feats]. unfold feats_evs. rewrite (NormalizeP7.fm_amodify_same N.eqb N.eqb_eq).
      + rewrite filter_app. change (filter p [(m, EvRuleF f r)]) with (@nil mev). rewrite app_nil_r. reflexivity.
      + intros v _. rewrite !pp_feat. cbn [set_fq_items fq_items]. unfold items_evs.
        apply (NormalizeP7.fm_amodify_same ikey_eqb ikey_eqb_spec). intros it _. destruct it as [rq|es]; [|reflexivity].
        rewrite !pp_rule. reflexivity.
    - (* a scenario event *)
      destruct (afind N.eqb f (ns_feats s)) as [[f' q]|] eqn:FD; [|destruct r; discriminate].
      pose proof (NormalizeP7.afind_In N.eqb NormalizeP7.Neqb_eq _ _ _ _ FD) as Hq.
      destruct (NormalizeP7.U_feat s f q HU Hq) as [UI UA].
      assert (JQ : Jits (fq_items q)).
      { unfold J, Jfeats in HJ. rewrite Forall_forall in HJ. exact (HJ _ Hq). }
      assert (OFFF : p (m, EvScen f r sc rt x) = true -> forall k' v, k' <> f -> filter p (feat_evs (k', v)) = []).
      { intros PE k' v NE. rewrite pp_scen in PE. apply kpath_true in PE as (E1 & _ & _). apply pp_feat_off. congruence. }
      destruct r as [r|].
      + (* inside a rule *)
        apply andb_prop in A as [_ A].
        destruct (afind ikey_eqb (KRule r) (fq_items q)) as [[k' it]|] eqn:FI; [|discriminate].
        destruct it as [rq|es]; [|discriminate]. apply andb_prop in A as [_ A].
        pose proof (NormalizeP7.afind_In ikey_eqb ikey_eqb_eq _ _ _ _ FI) as Hrq.
        unfold set_feats. cbn [ns_feats]. unfold feats_evs.
        apply (NormalizeP7.fm_amodify_add N.eqb N.eqb_eq); [exact UN|exact (in_keys _ _ _ Hq)| |exact OFFF].
        intros v Hv. rewrite (nodup_keys_unique _ _ _ _ UN Hv Hq). rewrite filter_app, !pp_feat, <- filter_app.
        cbn [set_fq_items fq_items]. unfold items_evs.
        apply (NormalizeP7.fm_amodify_add ikey_eqb ikey_eqb_spec); [exact UI|exact (in_keys _ _ _ Hrq)| |].
        * intros it Hit. rewrite (nodup_keys_unique _ _ _ _ UI Hit Hrq). rewrite filter_app, !pp_rule, <- filter_app.
          cbn [set_rq_atts rq_atts]. unfold atts_evs.
          apply (fm_aupsert_add_pos akey_eqb akey_eqb_spec).
          -- intros es _. cbn [push_ev]. rewrite att_evs_snoc. reflexivity.
          -- reflexivity.
          -- intros PE l1 v0 t EL. rewrite pp_scen in PE. apply kpath_true in PE as (_ & _ & E3). cbn [fst] in E3.
             assert (HF : has_fin v0 = false).
             { assert (Hv0 : In ((sc, rt), v0) (rq_atts rq)) by (rewrite EL; apply in_or_app; right; left; reflexivity).
               apply (afind_some_in akey_eqb akey_eqb_spec _ _ _ (UA r rq Hrq)) in Hv0. rewrite Hv0 in A. cbn [accept_att] in A.
               apply negb_true_iff in A. exact A. }
             pose proof (Jits_rule_in _ _ _ JQ Hrq) as JA. rewrite EL in JA.
             apply NormalizeP7.filter_flat_map_nil. intros [k1 es1] Hin1. apply pp_att_off. apply kpath_false. intros _ _ E.
             apply (Jatts_split l1 (sc, rt) v0 t JA HF k1 (in_keys _ _ _ Hin1)). cbn [fst]. congruence.
        * intros PE k0 v0 NE. rewrite pp_scen in PE. apply kpath_true in PE as (_ & E2 & _). apply pp_item_off. right.
          destruct k0 as [r0|k0]; [|left; rewrite <- E2; discriminate]. rewrite <- E2. intros X. apply NE. inversion X. reflexivity.
      + (* top level *)
        apply andb_prop in A as [_ A].
        unfold set_feats. cbn [ns_feats]. unfold feats_evs.
        apply (NormalizeP7.fm_amodify_add N.eqb N.eqb_eq); [exact UN|exact (in_keys _ _ _ Hq)| |exact OFFF].
        intros v Hv. rewrite (nodup_keys_unique _ _ _ _ UN Hv Hq). rewrite filter_app, !pp_feat, <- filter_app.
        cbn [set_fq_items fq_items]. unfold items_evs.
        apply (fm_aupsert_add_pos ikey_eqb ikey_eqb_spec).
        * intros it _. destruct it as [rq|es]; [reflexivity|]. cbn [item_evs]. rewrite att_evs_snoc. reflexivity.
        * reflexivity.
        * intros PE l1 v0 t EL. rewrite pp_scen in PE. apply kpath_true in PE as (_ & E2 & E3). cbn [fst] in E3.
          assert (Hv0 : In (KScen (sc, rt), v0) (fq_items q)) by (rewrite EL; apply in_or_app; right; left; reflexivity).
          apply (afind_some_in ikey_eqb ikey_eqb_spec _ _ _ UI) in Hv0. rewrite Hv0 in A.
          destruct v0 as [rq0|es0]; [discriminate A|]. apply negb_true_iff in A.
          rewrite EL in JQ.
          apply NormalizeP7.filter_flat_map_nil. intros [ik1 it1] Hin1. apply pp_item_off. right.
          destruct ik1 as [r1|k1]; [rewrite <- E2; discriminate|]. right. intros E.
          apply (Jits_split l1 (sc, rt) es0 t JQ A k1 (in_keys _ _ _ Hin1)). cbn [fst]. congruence.
  Qed.
End PProj.

Section PRun.
  Variables (kf : N) (kr : option N) (ks : N).
  Notation p := (proj_path kf kr ks).

  Lemma pp_pass_not_selected e : is_pass (snd e) = true -> p e = false.
  Proof. destruct e as [m ev0]. cbn [snd]. destruct ev0; try discriminate; reflexivity. Qed.

  (* ---- step 2: one call ---- *)
  Theorem handle_proj_path s e :
    nwf s = true -> U s -> J s -> ns_state s = NotFinished -> naccept s (snd e) = true ->
    filter p (snd (nhandle s e) ++ pending (fst (nhandle s e))) = filter p (pending s ++ [e]).
  Proof.
    intros W HU HJ NS A.
    assert (EM : is_emitted (ns_state s) = false) by (rewrite NS; reflexivity).
    assert (W1 : nwf (enqueue s e) = true).
    { destruct (is_pass (snd e)) eqn:PS; [rewrite (enqueue_pass s e PS); exact W|].
      exact (proj1 (enqueue_adds_one s e W PS A)). }
    rewrite (NormalizeP7.nhandle_out s e EM W1). destruct (is_pass (snd e)) eqn:PS.
    - rewrite (enqueue_pass s e PS). rewrite !filter_app. cbn [filter]. rewrite (pp_pass_not_selected e PS).
      rewrite app_nil_r. reflexivity.
    - cbn [app]. apply enqueue_proj_path; assumption.
  Qed.

  (* ---- step 3: a whole run ---- *)
  Lemma run_proj_path : forall es c s c'',
    SimInv c s -> J s -> crun false c (map snd es) = Some c'' ->
    filter p (concat (nrun_from s es) ++ pending (nfinal s es)) = filter p (pending s ++ es).
  Proof.
    induction es as [|[m e] t IH]; intros c s c'' HS HJ CR.
    - cbn [nrun_from nfinal concat app]. rewrite app_nil_r. reflexivity.
    - cbn [map snd crun] in CR. destruct (cstep false c e) as [c1|] eqn:CS; [|discriminate].
      pose proof (J_step c c1 s m e HS HJ CS) as HJ1.
      destruct (sim_step c c1 s m e HS CS) as (AC & FIN & NXT). destruct HS as (HR & HU & W & NS).
      assert (EM : is_emitted (ns_state s) = false) by (rewrite NS; reflexivity).
      assert (NA : naccept s e = true) by (unfold accepts in AC; rewrite EM in AC; exact AC).
      assert (RS : resting s = true) by (unfold resting; rewrite NS; reflexivity).
      pose proof (handle_proj_path s (m, e) W HU HJ NS NA) as HP.
      assert (PF : e = EvFinished -> pending (fst (nhandle s (m, e))) = []).
      { intros E. destruct (handle_lossless s (m, e) W RS AC) as (_ & _ & _ & PF & _). apply PF; [exact EM|exact E]. }
      cbn [nrun_from nfinal]. destruct (nhandle s (m, e)) as [s1 o] eqn:NH. cbn [fst snd concat] in *.
      change ((m, e) :: t) with ([(m, e)] ++ t).
      destruct (is_finished e) eqn:IF.
      + assert (E : e = EvFinished) by (destruct e; try discriminate IF; reflexivity).
        pose proof (FIN E) as E1. rewrite (NormalizeP7.nrun_emitted t s1 E1), (nfinal_emitted t s1 E1), (PF E).
        rewrite (PF E) in HP. rewrite !filter_app in *. rewrite !app_nil_r in *.
        rewrite HP. rewrite <- app_assoc. reflexivity.
      + assert (NE : e <> EvFinished) by (intros ->; discriminate IF).
        pose proof (IH c1 s1 c'' (NXT NE) HJ1 CR) as P. rewrite !filter_app in *.
        rewrite <- app_assoc, P, app_assoc, HP, <- app_assoc. reflexivity.
  Qed.
End PRun.

Lemma J_init : J ninit.
Proof. constructor. Qed.

(* ====================================================================================== *)
(* THE THEOREM: the projection of the forwarded stream on any scenario PATH (all attempts of *)
(* a scenario together) is the projection of the input stream — same events, same order      *)
(* ====================================================================================== *)
Theorem path_order_preserved :
  forall es f r s, contract (map snd es) = true ->
    filter (fun e => same_path f r s (snd e)) (concat (nrun es)) = filter (fun e => same_path f r s (snd e)) es.
Proof.
  intros es f r s C.
  assert (CP : contract_prefix (map snd es) = true).
  { unfold contract in C. unfold contract_prefix. destruct (crun false cinit (map snd es)); [reflexivity|discriminate]. }
  pose proof (contract_implies_accepts es CP) as A.
  pose proof (NormalizeP7.contract_finished_seen es C) as F.
  unfold contract in C. destruct (crun false cinit (map snd es)) as [c''|] eqn:CR; [|discriminate].
  pose proof (run_proj_path f r s es cinit ninit c'' SimInv_init J_init CR) as P.
  rewrite (pending_after_finished es ninit eq_refl eq_refl A eq_refl F), app_nil_r in P. exact P.
Qed.

(* the example of NormalizeP7 (two attempts of scenario 10 interleaved with scenario 11 and a second feature) *)
Example ex7_paths :
  forallb (fun k : N * option N * N => let '(f, r, s) := k in
     list_eqb mev_eqb (filter (fun e => same_path f r s (snd e)) (concat (nrun NormalizeP7.ex7)))
                      (filter (fun e => same_path f r s (snd e)) NormalizeP7.ex7))
    [(1, None, 10); (1, None, 11); (2, Some 5, 20)] = true /\
  length (filter (fun e => same_path 1 None 10 (snd e)) NormalizeP7.ex7) = 8%nat.
Proof. vm_compute. split; reflexivity. Qed.

(* ---- B2, part 4: the raw and the normalized stream have the same per-path projections ---- *)
Lemma on_path_same_path f r s e : on_path (f, r, s) e = same_path f r s e.
Proof. destruct e; reflexivity. Qed.

Lemma filter_map_snd (P : ev -> bool) (l : list mev) : filter P (map snd l) = map snd (filter (fun e => P (snd e)) l).
Proof. induction l as [|x l IH]; cbn [map filter]; [reflexivity|]. destruct (P (snd x)); cbn [map]; rewrite IH; reflexivity. Qed.

(* on the event level (metadata dropped), for the path predicate of the specification *)
Corollary path_order_preserved_ev es p :
  contract (map snd es) = true -> filter (on_path p) (map snd (concat (nrun es))) = filter (on_path p) (map snd es).
Proof.
  intros C. destruct p as [[f r] s].
  rewrite !(filter_ext' (on_path (f, r, s)) (same_path f r s)) by (intros x; apply on_path_same_path).
  rewrite !filter_map_snd. f_equal. apply path_order_preserved. exact C.
Qed.

Lemma same_paths_raw_norm es :
  contract (map snd es) = true ->
  same_paths (before_finished (map snd es)) (before_finished (map snd (concat (nrun es)))).
Proof.
  intros C p. pose proof (path_order_preserved_ev es p C) as PO.
  destruct (raw_norm_shape es C) as (a & b & EA & EB & NA & NB & _). rewrite EA, EB in PO |- *.
  rewrite !before_finished_app by assumption. rewrite !filter_app in PO.
  assert (Z : filter (on_path p) [EvFinished] = []) by reflexivity. rewrite Z, !app_nil_r in PO. symmetry. exact PO.
Qed.

Section B2.
  Variable tags_of : N -> option N -> N -> list str.
  Variable last_own : N -> option N.
  Variable steps_of : N -> list N.

  (* ---- B2: the four scenario counters behind Normalize are the specification's, all hypotheses ON THE RAW STREAM ---- *)
  Theorem scenario_counters_behind_normalize q es :
    contract (map snd es) = true ->
    let evs := before_finished (map snd es) in
    k12_class last_own steps_of (map snd es) = 0 ->
    retry_consistent evs = true ->
    StatsP2.wf_attempts steps_of evs = true ->
    StatsP2.last_own_consistent last_own steps_of evs = true ->
    let s := summ_behind_norm (qfinal tags_of last_own (QNorm (QSumm q)) es) in
    [n_passed (sm_scenarios s); n_skipped (sm_scenarios s); n_failed (sm_scenarios s); n_retried (sm_scenarios s)]
    = firstn 4 (skipn 2 (spec_counts (map snd es))).
  Proof.
    intros C. apply scenario_counters_behind_normalize_gen; [exact C|]. apply same_paths_raw_norm. exact C.
  Qed.

  (* ---- B1 + B2: all twelve numbers of the summary of the default pipeline are the specification's on the raw stream ---- *)
  Theorem summary_behind_normalize_is_spec q es :
    contract (map snd es) = true ->
    let evs := before_finished (map snd es) in
    k12_class last_own steps_of (map snd es) = 0 ->
    retry_consistent evs = true ->
    StatsP2.wf_attempts steps_of evs = true ->
    StatsP2.last_own_consistent last_own steps_of evs = true ->
    summary_nums (summ_behind_norm (qfinal tags_of last_own (QNorm (QSumm q)) es)) = spec_counts (map snd es).
  Proof.
    intros C evs HK HRC HWF HLO.
    pose proof (scenario_counters_behind_normalize q es C HK HRC HWF HLO) as B2. cbv zeta in B2.
    pose proof (summary_core_behind_normalize tags_of last_own q es C) as B1.
    set (s := summ_behind_norm (qfinal tags_of last_own (QNorm (QSumm q)) es)) in *.
    unfold spec_counts in *. cbv zeta in *. fold evs in B1, B2 |- *. cbn [firstn skipn] in B2.
    injection B2 as E1 E2 E3 E4. unfold summary_nums. rewrite E1, E2, E3, E4.
    assert (sm_features s = count is_feat_started evs) as -> by (apply (f_equal c_features) in B1; exact B1).
    assert (sm_rules s = count is_rule_started evs) as -> by (apply (f_equal c_rules) in B1; exact B1).
    assert (n_passed (sm_steps s) = count is_step_passed evs) as -> by (apply (f_equal c_passed) in B1; exact B1).
    assert (n_skipped (sm_steps s) = count is_step_skipped evs) as -> by (apply (f_equal c_skipped) in B1; exact B1).
    assert (n_failed (sm_steps s) = count is_step_failed_final evs) as -> by (apply (f_equal c_failed) in B1; exact B1).
    assert (n_retried (sm_steps s) = count is_step_failed_retried evs) as -> by (apply (f_equal c_retried) in B1; exact B1).
    assert (sm_parsing_errors s = count is_parse_err evs) as -> by (apply (f_equal c_parsing) in B1; exact B1).
    assert (sm_failed_hooks s = count is_hook_failed evs) as -> by (apply (f_equal c_hooks) in B1; exact B1).
    reflexivity.
  Qed.
End B2.

(* ---- an interleaved raw stream (StatsP2.ex_stream up to run-Finished: scenario 2 of feature 1, retried once, runs
        interleaved with scenario 3 of rule 4): the normalized stream differs from it, all hypotheses hold on the RAW
        stream, and the summary behind Normalize carries the specification's twelve numbers ---- *)
Definition exB : list mev := firstn 34 StatsP2.ex_stream.
Definition exB_pipe : spipe := QNorm (QSumm (QLeaf 0)).
Definition exB_tags : N -> option N -> N -> list str := fun _ _ _ => [].

Example exB_facts :
  contract (map snd exB) = true /\
  list_eqb mev_eqb (concat (nrun exB)) exB = false /\
  length (concat (nrun exB)) = length exB /\
  k12_class StatsP2.ex_last_own StatsP2.ex_steps_of (map snd exB) = 0 /\
  retry_consistent (before_finished (map snd exB)) = true /\
  StatsP2.wf_attempts StatsP2.ex_steps_of (before_finished (map snd exB)) = true /\
  StatsP2.last_own_consistent StatsP2.ex_last_own StatsP2.ex_steps_of (before_finished (map snd exB)) = true /\
  spec_counts (map snd exB) = [1; 1; 1; 0; 1; 1; 3; 1; 0; 1; 0; 1] /\
  summary_nums (summ_behind_norm (qfinal exB_tags StatsP2.ex_last_own exB_pipe exB)) = [1; 1; 1; 0; 1; 1; 3; 1; 0; 1; 0; 1] /\
  (* path by path the two streams agree although they differ as lists *)
  forallb (fun p => list_eqb ev_eqb (filter (on_path p) (map snd (concat (nrun exB)))) (filter (on_path p) (map snd exB)))
          (paths (map snd exB)) = true /\
  length (paths (map snd exB)) = 2%nat.
Proof. vm_compute. repeat split; reflexivity. Qed.

Example exB_streams_differ : concat (nrun exB) <> exB.
Proof.
  intros H. assert (X : list_eqb mev_eqb (concat (nrun exB)) exB = false) by (vm_compute; reflexivity).
  rewrite H in X. vm_compute in X. discriminate X.
Qed.

(* the general theorems instantiated on the example (no computation of the pipeline) *)
Example exB_by_theorem :
  summary_nums (summ_behind_norm (qfinal exB_tags StatsP2.ex_last_own exB_pipe exB)) = spec_counts (map snd exB).
Proof.
  apply (summary_behind_normalize_is_spec exB_tags StatsP2.ex_last_own StatsP2.ex_steps_of); vm_compute; reflexivity.
Qed.
