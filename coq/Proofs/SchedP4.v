(* SchedP4.v — conservation of scenarios in the scheduler LTS (C04): every scenario handed to the runner is
   queued, dispatched or already started; when the loop ends without a broken flow every one of them has been
   started; nothing is started that was not handed to it. For every configuration and label list. *)
From CV Require Import Model.Base Model.Events Model.Sched Proofs.BaseP Proofs.SchedP Proofs.SchedP2 Proofs.SchedP3.
From Coq Require Import Lia.

Definition inserted_ids (ls : list label) : list N :=
  flat_map (fun l => match l with LFeature f => map ss_id (sf_scens f) | _ => [] end) ls.
Definition started_ids (tr : list ev) : list N :=
  flat_map (fun e => match e with EvScen _ _ s _ ScStarted => [s] | _ => [] end) tr.
Definition queued_ids (s : st) : list N := map e_s (qS s ++ qC s).
Definition running_ids (s : st) : list N := map (fun x => e_s (fst x)) (running s).

Lemma started_ids_app a b : started_ids (a ++ b) = started_ids a ++ started_ids b.
Proof. unfold started_ids. apply flat_map_app. Qed.
Lemma inserted_ids_app a b : inserted_ids (a ++ b) = inserted_ids a ++ inserted_ids b.
Proof. unfold inserted_ids. apply flat_map_app. Qed.

Lemma started_ids_brk o : all_brk o -> started_ids o = [].
Proof.
  induction 1 as [|x t Hx Ht IH]; [reflexivity|]. unfold started_ids in *. cbn [flat_map]. rewrite IH.
  destruct x; try reflexivity. discriminate.
Qed.

(* ---- take_ready / get only move entries ---- *)
Lemma take_ready_mem n now l : forall md x,
  let '(a, b, _) := take_ready n now md l in In x l <-> In x a \/ In x b.
Proof.
  revert n. induction l as [|e t IH]; intros n md x; cbn [take_ready].
  - tauto.
  - destruct n as [[|k]|].
    + cbn. tauto.
    + destruct (left_until now e).
      * specialize (IH (Some (S k)) (min_opt md n) x). destruct (take_ready _ now _ t) as [[a b] m]. cbn. tauto.
      * specialize (IH (option_map pred (Some (S k))) md x). destruct (take_ready _ now _ t) as [[a b] m]. cbn. tauto.
    + destruct (left_until now e).
      * specialize (IH None (min_opt md n) x). destruct (take_ready _ now _ t) as [[a b] m]. cbn. tauto.
      * specialize (IH (option_map pred None) md x). destruct (take_ready _ now _ t) as [[a b] m]. cbn. tauto.
Qed.

Lemma get_mem n s x :
  let '(batch, qs, qc, _) := get n s in
  In x (qS s ++ qC s) <-> In x batch \/ In x (qs ++ qc).
Proof.
  unfold get.
  assert (Z : n = Some 0%nat \/ n <> Some 0%nat) by (destruct n as [[|k]|]; auto; right; discriminate).
  destruct Z as [-> | NZ]; [cbn; tauto|].
  assert (G : match n with Some 0%nat => ([], qS s, qC s, None) | _ =>
              if is_nil (running s) then
                let '(bs, rs, md) := take_ready (Some 1%nat) (now s) None (qS s) in
                match bs with
                | _ :: _ => (bs, rs, qC s, md)
                | [] => let '(bc, rc, md2) := take_ready n (now s) md (qC s) in (bc, qS s, rc, md2)
                end
              else let '(bc, rc, md2) := take_ready n (now s) None (qC s) in (bc, qS s, rc, md2) end
            = if is_nil (running s) then
                let '(bs, rs, md) := take_ready (Some 1%nat) (now s) None (qS s) in
                match bs with
                | _ :: _ => (bs, rs, qC s, md)
                | [] => let '(bc, rc, md2) := take_ready n (now s) md (qC s) in (bc, qS s, rc, md2)
                end
              else let '(bc, rc, md2) := take_ready n (now s) None (qC s) in (bc, qS s, rc, md2)).
  { destruct n as [[|k]|]; auto. congruence. }
  rewrite G. clear G.
  destruct (is_nil (running s)).
  - pose proof (take_ready_mem (Some 1%nat) (now s) (qS s) None x) as M1.
    destruct (take_ready (Some 1%nat) (now s) None (qS s)) as [[bs rs] md]. destruct bs as [|b bs'].
    + pose proof (take_ready_mem n (now s) (qC s) md x) as M2.
      destruct (take_ready n (now s) md (qC s)) as [[bc rc] md2]. rewrite !in_app_iff. tauto.
    + rewrite !in_app_iff. tauto.
  - pose proof (take_ready_mem n (now s) (qC s) None x) as M2.
    destruct (take_ready n (now s) None (qC s)) as [[bc rc] md2]. rewrite !in_app_iff. tauto.
Qed.

(* ---- the conservation invariant ---- *)
Definition cons_ok (ins : list N) (s : st) (tr : list ev) : Prop :=
  (forall x, In x ins -> In x (queued_ids s) \/ In x (running_ids s) \/ In x (started_ids tr)) /\
  (forall e p, In (e, p) (running s) -> p <> Dispatched -> In (e_s e) (started_ids tr)) /\
  (forall x, In x (queued_ids s) \/ In x (running_ids s) -> In x ins) /\
  (forall x, In x (started_ids tr) -> In x ins).

Lemma loop_top_cons ins s tr :
  cons_ok ins s tr -> cons_ok ins (fst (loop_top s)) (tr ++ snd (loop_top s)).
Proof.
  intros (A & B & C & D). pose proof (loop_top_brk s) as BR. unfold loop_top in *.
  set (n := match flow s with Break => Some 0%nat | Cont k => k end) in *.
  pose proof (get_mem n s) as GM. destruct (get n s) as [[[batch qs] qc] md].
  assert (QM : forall x, In x (queued_ids s) <-> In x (map e_s batch) \/ In x (map e_s (qs ++ qc))).
  { intros x. unfold queued_ids. rewrite !in_map_iff. split.
    - intros (e & <- & He). destruct (proj1 (GM e) He) as [H|H]; [left|right]; exists e; auto.
    - intros [(e & <- & He)|(e & <- & He)]; exists e; (split; [reflexivity|apply GM]); auto. }
  destruct (is_nil (running s) && is_nil batch) eqn:IDLE.
  - apply andb_prop in IDLE as [R Bn]. apply is_nil_true in Bn. subst batch.
    destruct (pdone s && _); cbn [fst snd] in *; unfold cons_ok in *;
      rewrite started_ids_app, (started_ids_brk _ BR), app_nil_r;
      unfold queued_ids, running_ids in *; cbn [qS qC running upd];
      (split; [|split; [|split]]).
    + intros x Hx. destruct (A x Hx) as [H|[H|H]]; auto. left. apply QM in H as [H|H]; [destruct H|exact H].
    + exact B.
    + intros x [H|H]; apply C; [left; apply QM; right; exact H | right; exact H].
    + exact D.
    + intros x Hx. destruct (A x Hx) as [H|[H|H]]; auto. left. apply QM in H as [H|H]; [destruct H|exact H].
    + exact B.
    + intros x [H|H]; apply C; [left; apply QM; right; exact H | right; exact H].
    + exact D.
  - destruct (start_scenarios batch (fcount s) (rcount s)) as [[o fc] rc]. cbn [fst snd] in *.
    unfold cons_ok in *. rewrite started_ids_app, (started_ids_brk _ BR), app_nil_r.
    unfold queued_ids, running_ids in *. cbn [qS qC running upd]. split; [|split; [|split]].
    + intros x Hx. destruct (A x Hx) as [H|[H|H]]; auto.
      * apply QM in H as [H|H]; [right; left | left; exact H].
        rewrite map_app, in_app_iff. right. rewrite map_map. cbn [fst]. exact H.
      * right; left. rewrite map_app, in_app_iff. left. exact H.
    + intros e p HIn NP. apply in_app_or in HIn as [HIn|HIn]; [exact (B e p HIn NP)|].
      apply in_map_iff in HIn as (e' & E & _). inversion E; subst. congruence.
    + intros x [H|H]; apply C.
      * left. apply QM. right. exact H.
      * rewrite map_app, in_app_iff in H. destruct H as [H|H]; [right; exact H|].
        rewrite map_map in H. cbn [fst] in H. left. apply QM. left. exact H.
    + exact D.
Qed.

Lemma remove_ended_split l r : remove_ended l = Some r ->
  exists e, (forall x, In x l <-> x = (e, Ended) \/ In x r).
Proof.
  revert r. induction l as [|[e p] t IH]; intros r H; cbn [remove_ended] in H; [discriminate|].
  destruct p.
  - destruct (remove_ended t) as [r'|]; [|discriminate]. inversion H; subst. destruct (IH r' eq_refl) as (e0 & M).
    exists e0. intros x. cbn. rewrite M. tauto.
  - destruct (remove_ended t) as [r'|]; [|discriminate]. inversion H; subst. destruct (IH r' eq_refl) as (e0 & M).
    exists e0. intros x. cbn. rewrite M. tauto.
  - inversion H; subst. exists e. intros x. cbn. split; [intros [<-|Hx]; auto | intros [->|Hx]; auto].
Qed.

Lemma set_phase_mem k a b l e r : set_phase k a b l = Some (e, r) ->
  map (fun x => e_s (fst x)) r = map (fun x => e_s (fst x)) l /\
  In (e, b) r /\
  (forall e0 p, In (e0, p) r -> (e0, p) = (e, b) \/ In (e0, p) l).
Proof.
  revert r. induction l as [|[e1 p1] t IH]; intros r H; cbn [set_phase] in H; [discriminate|].
  destruct (Sched.akey_eqb (key_of e1) k).
  - destruct p1, a; try discriminate; inversion H; subst; cbn; (split; [reflexivity|split; [left; reflexivity|]]);
      intros e0 p [E|Hx]; [left; exact (eq_sym E) | right; right; exact Hx | left; exact (eq_sym E) | right; right; exact Hx].
  - destruct (set_phase k a b t) as [[e' r']|] eqn:E; [|discriminate]. inversion H; subst.
    destruct (IH r' eq_refl) as (M & I & X). cbn. split; [f_equal; exact M|split; [right; exact I|]].
    intros e0 p [Eq|Hx]; [right; left; exact Eq|]. destruct (X _ _ Hx) as [Y|Y]; [left; exact Y | right; right; exact Y].
Qed.

Lemma step_cons c ins s tr l s' o :
  cons_ok ins s tr -> step c s l = Some (s', o) ->
  cons_ok (ins ++ inserted_ids [l]) s' (tr ++ o).
Proof.
  intros CO H. destruct l; cbn [step] in H.
  - (* LFeature *)
    destruct (perrs s); [discriminate|]. inversion H; subst. clear H. destruct CO as (A & B & C & D).
    rewrite app_nil_r. unfold inserted_ids. cbn [flat_map]. rewrite app_nil_r.
    unfold insert_feature. set (es := map (entry_of f) (sf_scens f)).
    assert (IDS : map e_s es = map ss_id (sf_scens f)).
    { unfold es. rewrite map_map. apply map_ext. intros sc. reflexivity. }
    assert (SPLIT : forall x, In x (map e_s es) <-> In x (map e_s (filter e_serial es)) \/ In x (map e_s (filter (fun e => negb (e_serial e)) es))).
    { intros x. rewrite !in_map_iff. split.
      - intros (e & <- & He). destruct (e_serial e) eqn:SE; [left|right]; exists e; (split; [reflexivity|apply filter_In]); rewrite ?SE; auto.
      - intros [(e & <- & He)|(e & <- & He)]; apply filter_In in He as [He _]; exists e; auto. }
    destruct (pf s) as [[[[a0 b0] c0] d0] e0].
    assert (Q : forall x, In x (queued_ids s) \/ In x (map e_s es) <->
                 In x (map e_s ((if is_nil (filter e_serial es) then qS s else filter e_serial es ++ qS s) ++
                                (if is_nil (filter e_serial es) then qC s ++ filter (fun e => negb (e_serial e)) es
                                 else filter (fun e => negb (e_serial e)) es ++ qC s)))).
    { intros x. unfold queued_ids. rewrite SPLIT. destruct (filter e_serial es) as [|z zs] eqn:FS; cbn [is_nil];
        rewrite !map_app, !in_app_iff; cbn [map In]; tauto. }
    destruct (is_nil (filter e_serial es)) eqn:NIL; unfold cons_ok, queued_ids, running_ids in *; cbn [qS qC running];
      (split; [|split; [|split]]).
    + intros x Hx. apply in_app_or in Hx as [Hx|Hx].
      * destruct (A x Hx) as [H|[H|H]]; auto. left. apply Q. left. exact H.
      * left. apply Q. right. rewrite IDS. exact Hx.
    + exact B.
    + intros x [Hx|Hx]; apply in_or_app.
      * apply Q in Hx as [Hx|Hx]; [left; apply C; left; exact Hx | right; rewrite <- IDS; exact Hx].
      * left. apply C. right. exact Hx.
    + intros x Hx. apply in_or_app. left. exact (D x Hx).
    + intros x Hx. apply in_app_or in Hx as [Hx|Hx].
      * destruct (A x Hx) as [H|[H|H]]; auto. left. apply Q. left. exact H.
      * left. apply Q. right. rewrite IDS. exact Hx.
    + exact B.
    + intros x [Hx|Hx]; apply in_or_app.
      * apply Q in Hx as [Hx|Hx]; [left; apply C; left; exact Hx | right; rewrite <- IDS; exact Hx].
      * left. apply C. right. exact Hx.
    + intros x Hx. apply in_or_app. left. exact (D x Hx).
  - (* LParseErr *)
    destruct (perrs s); [discriminate|]. destruct (pf s) as [[[[a0 b0] c0] d0] e0]. inversion H; subst.
    cbn [inserted_ids flat_map]. rewrite app_nil_r. destruct CO as (A & B & C & D).
    unfold cons_ok, queued_ids, running_ids in *. cbn [qS qC running]. rewrite started_ids_app. cbn [started_ids flat_map]. rewrite app_nil_r. auto.
  - (* LParserEnd *)
    destruct (pdone s); [discriminate|]. destruct (pf s) as [[[[a0 b0] c0] d0] e0]. inversion H; subst.
    cbn [inserted_ids flat_map]. rewrite app_nil_r. destruct CO as (A & B & C & D).
    unfold cons_ok, queued_ids, running_ids in *. cbn [qS qC running]. rewrite started_ids_app. cbn [started_ids flat_map]. rewrite app_nil_r. auto.
  - (* LTop *)
    cbn [inserted_ids flat_map]. rewrite app_nil_r. destruct (pc s).
    + set (s0 := mk_st _ _ _ _ _ _ _ _ _ _ _ _ true) in H.
      assert (C0 : cons_ok ins s0 (tr ++ [EvStarted])).
      { destruct CO as (A & B & C & D). unfold cons_ok, queued_ids, running_ids in *. cbn [qS qC running].
        rewrite started_ids_app. cbn [started_ids flat_map]. rewrite app_nil_r. auto. }
      pose proof (loop_top_cons ins s0 _ C0) as R. destruct (loop_top s0) as [s1 o1]. inversion H; subst.
      cbn [fst snd] in R. rewrite <- app_assoc in R. exact R.
    + destruct (remove_ended (running s)) as [r|] eqn:RE; [|discriminate].
      pose proof (drain_brk (cf_fail_fast c) (msgs s) (add_slot (flow s)) (fcount s) (rcount s)) as DB.
      destruct (drain _ (msgs s) _ _ _) as [[[o1 fl] fc] rc]. cbn [fst] in DB.
      set (s1 := upd s _ _ fl r [] fc rc (now s) Awaiting) in H.
      assert (C1 : cons_ok ins s1 (tr ++ o1)).
      { destruct CO as (A & B & C & D). destruct (remove_ended_split _ _ RE) as (e0 & M).
        unfold cons_ok, queued_ids, running_ids in *. cbn [qS qC running upd].
        rewrite started_ids_app, (started_ids_brk _ DB), app_nil_r. split; [|split; [|split]].
        - intros x Hx. destruct (A x Hx) as [Hq|[Hr|Hs]]; auto.
          apply in_map_iff in Hr as ((e1, p1) & <- & H1). apply M in H1 as [H1|H1].
          + inversion H1; subst. right; right. apply (B e0 Ended); [apply M; left; reflexivity | discriminate].
          + right; left. apply in_map_iff. exists (e1, p1). auto.
        - intros e1 p1 H1 NP. apply (B e1 p1); [apply M; right; exact H1 | exact NP].
        - intros x [Hx|Hx]; apply C; [left; exact Hx|]. right.
          apply in_map_iff in Hx as (y & <- & Hy). apply in_map_iff. exists y. split; [reflexivity|apply M; right; exact Hy].
        - exact D. }
      pose proof (loop_top_cons ins s1 _ C1) as R. destruct (loop_top s1) as [s2 o2]. inversion H; subst.
      cbn [fst snd] in R. rewrite <- app_assoc in R. exact R.
    + pose proof (loop_top_cons ins s tr CO) as R. destruct (loop_top s) as [s1 o1]. inversion H; subst. exact R.
    + discriminate.
  - (* LAttStart *)
    destruct (set_phase k Dispatched Opened (running s)) as [[e r]|] eqn:SP; [|discriminate]. inversion H; subst.
    cbn [inserted_ids flat_map]. rewrite app_nil_r. destruct CO as (A & B & C & D).
    destruct (set_phase_mem _ _ _ _ _ _ SP) as (M & I & X).
    unfold cons_ok, queued_ids, running_ids in *. cbn [qS qC running upd].
    rewrite started_ids_app. cbn [started_ids flat_map scen_ev]. rewrite app_nil_r, M. split; [|split; [|split]].
    + intros x Hx. destruct (A x Hx) as [Hq|[Hr|Hs]]; auto. right; right. apply in_or_app. left. exact Hs.
    + intros e0 p HIn NP. apply in_or_app. destruct (X _ _ HIn) as [E|Hl].
      * inversion E; subst. right. left. reflexivity.
      * left. exact (B e0 p Hl NP).
    + exact C.
    + intros x Hx. apply in_app_or in Hx as [Hx|[<-|[]]]; [exact (D x Hx)|].
      apply C. right. rewrite <- M. apply in_map_iff. exists (e, Opened). split; [reflexivity|exact I].
  - (* LAttEv *)
    destruct (is_middle x) eqn:MD; [|discriminate]. destruct (find_open k (running s)) as [e|]; [|discriminate].
    inversion H; subst. cbn [inserted_ids flat_map]. rewrite app_nil_r. destruct CO as (A & B & C & D).
    unfold cons_ok in *. rewrite started_ids_app.
    assert (E : started_ids [scen_ev e x] = []) by (destruct x; try discriminate; reflexivity).
    rewrite E, app_nil_r. auto.
  - (* LAttEnd *)
    destruct (set_phase k Opened Ended (running s)) as [[e r]|] eqn:SP; [|discriminate].
    cbn [inserted_ids flat_map]. rewrite app_nil_r. destruct CO as (A & B & C & D).
    destruct (set_phase_mem _ _ _ _ _ _ SP) as (M & I & X).
    assert (ES : In (e_s e) (started_ids tr)).
    { clear -SP B. revert r SP. induction (running s) as [|[e1 p1] t IH]; intros r SP; cbn [set_phase] in SP; [discriminate|].
      destruct (Sched.akey_eqb (key_of e1) k).
      - destruct p1; try discriminate. inversion SP; subst. apply (B e Opened); [left; reflexivity|discriminate].
      - destruct (set_phase k Opened Ended t) as [[e' r']|] eqn:E; [|discriminate]. inversion SP; subst.
        apply (IH (fun e0 p H => B e0 p (or_intror H)) r' eq_refl). }
    assert (EI : In (e_s e) ins) by (apply D; exact ES).
    assert (ST : started_ids [scen_ev e ScFinished] = []) by reflexivity.
    unfold next_try in H. destruct (e_retr e) as [[cu lf]|]; [destruct (failed && (0 <? lf)); [cbn [e_serial] in H; destruct (e_serial e)|]|];
      inversion H; subst; unfold cons_ok, queued_ids, running_ids in *; cbn [qS qC running upd app map e_s];
      rewrite started_ids_app, ST, app_nil_r, M; (split; [|split; [|split]]);
      try (intros x Hx; destruct (A x Hx) as [Hq|[Hr|Hs]]; auto; left; try (right; exact Hq); try exact Hq;
           rewrite map_app, in_app_iff in *; cbn [map In] in *; tauto);
      try (intros e0 p HIn NP; destruct (X _ _ HIn) as [E|Hl]; [inversion E; subst; exact ES | exact (B e0 p Hl NP)]);
      try exact D;
      try (intros x [Hx|Hx]; [|apply C; right; exact Hx];
           try (destruct Hx as [<-|Hx]; [exact EI | apply C; left; exact Hx]);
           try (rewrite map_app, in_app_iff in Hx; cbn [map In] in Hx; destruct Hx as [Hx|[<-|Hx]];
                [apply C; left; rewrite map_app, in_app_iff; left; exact Hx | exact EI | apply C; left; rewrite map_app, in_app_iff; right; exact Hx]);
           try (apply C; left; exact Hx)).
  - (* LTick *)
    inversion H; subst. cbn [inserted_ids flat_map]. rewrite !app_nil_r. destruct CO as (A & B & C & D).
    unfold cons_ok, queued_ids, running_ids in *. cbn [qS qC running upd]. auto.
Qed.

Lemma exec_from_cons c : forall ls ins s tr s' o,
  cons_ok ins s tr -> exec_from c s ls = Some (s', o) -> cons_ok (ins ++ inserted_ids ls) s' (tr ++ o).
Proof.
  induction ls as [|l t IH]; intros ins s tr s' o CO H; cbn [exec_from] in H.
  - inversion H; subst. cbn. rewrite !app_nil_r. exact CO.
  - destruct (step c s l) as [[s1 o1]|] eqn:S1; [|discriminate].
    destruct (exec_from c s1 t) as [[s2 o2]|] eqn:S2; [|discriminate]. inversion H; subst.
    pose proof (step_cons c ins s tr l s1 o1 CO S1) as C1.
    pose proof (IH _ _ _ _ _ C1 S2) as C2.
    replace (l :: t) with ([l] ++ t) by reflexivity. rewrite inserted_ids_app, !app_assoc. exact C2.
Qed.

Lemma cons_init c : cons_ok [] (init_st c) [].
Proof. unfold cons_ok, queued_ids, running_ids, init_st. cbn. repeat split; intros; try contradiction; tauto. Qed.

(* when the loop has ended and the flow was not broken, the queues are empty and nothing is running *)
Definition end_ok (s : st) : Prop :=
  pc s = Done -> running s = [] /\ (flow s = Break \/ (qS s = [] /\ qC s = [])).

Lemma get_nil_queues n s : qS s = [] -> qC s = [] -> get n s = ([], [], [], None).
Proof.
  intros A B. unfold get. rewrite A, B. destruct n as [[|k]|]; [reflexivity| |];
    destruct (is_nil (running s)); reflexivity.
Qed.

Lemma loop_top_end s : pc s <> Done -> end_ok (fst (loop_top s)).
Proof.
  intros ND. unfold loop_top, end_ok.
  set (n := match flow s with Break => Some 0%nat | Cont k => k end).
  destruct (get n s) as [[[batch qs] qc] md] eqn:G.
  destruct (is_nil (running s) && is_nil batch) eqn:IDLE.
  - apply andb_prop in IDLE as [R _]. apply is_nil_true in R.
    destruct (pdone s && (is_break (flow s) || is_nil (qS s) && is_nil (qC s))) eqn:FIN; cbn [fst pc running flow qS qC upd].
    + intros _. split; [exact R|]. apply andb_prop in FIN as [_ FIN]. apply orb_prop in FIN as [FB|FQ].
      * left. destruct (flow s); [reflexivity|discriminate].
      * right. apply andb_prop in FQ as [Q1 Q2]. apply is_nil_true in Q1, Q2.
        rewrite (get_nil_queues n s Q1 Q2) in G. inversion G. auto.
    + discriminate.
  - destruct (start_scenarios _ _ _) as [[o fc] rc]. cbn [fst pc upd]. discriminate.
Qed.

Lemma step_end c s l s' o : end_ok s -> Inv (cf_concurrency c) s -> frame_ok s -> step c s l = Some (s', o) -> end_ok s'.
Proof.
  intros E I F H. destruct (pc s) eqn:P.
  1-3: destruct l; cbn [step] in H;
    try (destruct (perrs s); [discriminate|]; try destruct (pf s) as [[[[a0 b0] c0] d0] e0]; inversion H; subst;
         unfold end_ok, insert_feature; try destruct (pf s) as [[[[a1 b1] c1] d1] e1]; try destruct (is_nil _); cbn; rewrite P; discriminate);
    try (destruct (pdone s); [discriminate|]; destruct (pf s) as [[[[a0 b0] c0] d0] e0]; inversion H; subst;
         unfold end_ok; cbn; rewrite P; discriminate);
    try (destruct (set_phase _ _ _ _) as [[e r]|]; [|discriminate];
         try (destruct (next_try e failed (now s)) as [e'|]; [destruct (e_serial e')|]); inversion H; subst;
         unfold end_ok; cbn; rewrite P; discriminate);
    try (destruct (is_middle x); [|discriminate]; destruct (find_open _ _); [|discriminate]; inversion H; subst;
         unfold end_ok; rewrite P; discriminate);
    try (inversion H; subst; unfold end_ok; cbn; rewrite P; discriminate).
  - (* NotBegun, LTop *)
    rewrite P in H. set (s0 := mk_st _ _ _ _ _ _ _ _ _ _ _ _ true) in H.
    assert (ND : pc s0 <> Done) by (cbn; discriminate).
    pose proof (loop_top_end s0 ND) as R. destruct (loop_top s0) as [s1 o1]. inversion H; subst. exact R.
  - (* Awaiting, LTop *)
    rewrite P in H. destruct (remove_ended (running s)) as [r|]; [|discriminate].
    destruct (drain _ (msgs s) _ _ _) as [[[o1 fl] fc] rc].
    set (s1 := upd s _ _ fl r [] fc rc (now s) Awaiting) in H.
    assert (ND : pc s1 <> Done) by (cbn; discriminate).
    pose proof (loop_top_end s1 ND) as R. destruct (loop_top s1) as [s2 o2]. inversion H; subst. exact R.
  - (* Yielded, LTop *)
    rewrite P in H. assert (ND : pc s <> Done) by (rewrite P; discriminate).
    pose proof (loop_top_end s ND) as R. destruct (loop_top s) as [s1 o1]. inversion H; subst. exact R.
  - (* Done: only the clock can move *)
    destruct (done_is_silent _ c s l s' o I F P H) as (_ & P').
    destruct l; cbn [step] in H.
    + destruct (perrs s) eqn:PE; [discriminate|]. exfalso. destruct F as [FA FB]. rewrite (FA (FB P)) in PE. discriminate.
    + destruct (perrs s) eqn:PE; [discriminate|]. exfalso. destruct F as [FA FB]. rewrite (FA (FB P)) in PE. discriminate.
    + destruct (pdone s) eqn:PD; [discriminate|]. exfalso. destruct F as [FA FB]. rewrite (FB P) in PD. discriminate.
    + rewrite P in H. discriminate.
    + destruct I as (_ & _ & _ & PC). unfold pc_ok in PC. rewrite P in PC. rewrite PC in H. discriminate.
    + destruct (is_middle x); [|discriminate]. destruct I as (_ & _ & _ & PC). unfold pc_ok in PC. rewrite P in PC. rewrite PC in H. discriminate.
    + destruct I as (_ & _ & _ & PC). unfold pc_ok in PC. rewrite P in PC. rewrite PC in H. discriminate.
    + inversion H; subst. unfold end_ok in *. cbn [pc running flow qS qC upd]. exact E.
Qed.

Lemma exec_from_all c : forall ls s s' o,
  Inv (cf_concurrency c) s -> frame_ok s -> end_ok s -> exec_from c s ls = Some (s', o) ->
  Inv (cf_concurrency c) s' /\ frame_ok s' /\ end_ok s'.
Proof.
  induction ls as [|l t IH]; intros s s' o I F E H; cbn [exec_from] in H.
  - inversion H; subst. auto.
  - destruct (step c s l) as [[s1 o1]|] eqn:S1; [|discriminate].
    destruct (exec_from c s1 t) as [[s2 o2]|] eqn:S2; [|discriminate]. inversion H; subst.
    eapply IH; [eapply step_inv; eauto | eapply step_frame; eauto | eapply step_end; eauto | exact S2].
Qed.

Lemma init_frame c : frame_ok (init_st c).
Proof. unfold frame_ok, init_st; cbn. split; discriminate. Qed.
Lemma init_end c : end_ok (init_st c).
Proof. unfold end_ok, init_st; cbn. discriminate. Qed.

(* C04: without a broken flow (no fail-fast trip), when the loop has ended EVERY scenario handed to the
   runner has been started — however the parser interleaved or delayed its features *)
Theorem all_supplied_started c ls s tr :
  exec c ls = Some (s, tr) -> pc s = Done -> flow s <> Break ->
  forall x, In x (inserted_ids ls) -> In x (started_ids tr).
Proof.
  intros H D NB x Hx.
  pose proof (exec_from_cons c ls [] _ [] _ _ (cons_init c) H) as (A & _).
  destruct (exec_from_all c ls _ _ _ (init_inv c) (init_frame c) (init_end c) H) as (_ & _ & E).
  destruct (E D) as (R & [FB|(Q1 & Q2)]); [contradiction|].
  cbn [app] in A. destruct (A x Hx) as [Hq|[Hr|Hs]]; [| |exact Hs].
  - unfold queued_ids in Hq. rewrite Q1, Q2 in Hq. destruct Hq.
  - unfold running_ids in Hr. rewrite R in Hr. destruct Hr.
Qed.

(* ... and no scenario is ever started that was not handed to it *)
Theorem only_supplied_started c ls s tr :
  exec c ls = Some (s, tr) -> forall x, In x (started_ids tr) -> In x (inserted_ids ls).
Proof.
  intros H x Hx. pose proof (exec_from_cons c ls [] _ [] _ _ (cons_init c) H) as (_ & _ & _ & D).
  cbn [app] in D. exact (D x Hx).
Qed.
