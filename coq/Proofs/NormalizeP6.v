(* NormalizeP6.v — C11 "events of the entity at the head of the output are forwarded without waiting for it to
   finish": after every handle_event call nothing forwardable is left — flushing again forwards nothing. *)
From CV Require Import Model.Base Model.Events Model.Normalize Proofs.BaseP Proofs.NormalizeP Proofs.NormalizeP2.
From Coq Require Import Lia.

Lemma emit_atts_idem f r : forall l, atts_wf l = true ->
  emit_atts f r (snd (emit_atts f r l)) = ([], snd (emit_atts f r l)).
Proof.
  induction l as [|[k es] t IH]; intros W; cbn [emit_atts]; [reflexivity|].
  unfold atts_wf in W. cbn [forallb snd] in W. apply andb_prop in W as [W1 W2]. rewrite (emit_att_wf f (Some r) k es W1).
  destruct (has_fin es).
  - specialize (IH W2). destruct (emit_atts f r t) as [o2 l2]. cbn [snd] in *. exact IH.
  - cbn [snd emit_atts emit_att]. reflexivity.
Qed.

Lemma emit_rule_idem f r rq : rule_wf rq = true -> snd (emit_rule f r rq) = false ->
  emit_rule f r (snd (fst (emit_rule f r rq))) = ([], snd (fst (emit_rule f r rq)), false).
Proof.
  unfold rule_wf. intros W B. apply andb_prop in W as [W _]. unfold emit_rule in *.
  pose proof (emit_atts_idem f r (rq_atts rq) W) as ID. destruct (emit_atts f r (rq_atts rq)) as [o2 atts]. cbn [snd] in ID.
  destruct (rq_state rq); cbn [take_fin fst snd] in *; try discriminate B;
    cbn [rq_init rq_atts rq_state init_evs app take_fin]; rewrite ID; reflexivity.
Qed.

Lemma emit_items_idem f : forall l, items_wf l = true ->
  emit_items f (snd (emit_items f l)) = ([], snd (emit_items f l)).
Proof.
  induction l as [|[k it] t IH]; intros W; cbn [emit_items]; [reflexivity|].
  unfold items_wf in W. cbn [forallb] in W. apply andb_prop in W as [W1 W2]. specialize (IH W2).
  destruct k as [r|k]; destruct it as [rq|es]; cbn [item_wf] in W1; try discriminate.
  - pose proof (emit_rule_idem f r rq W1) as RI. destruct (emit_rule f r rq) as [[o rq'] b]. cbn [fst snd] in RI. destruct b.
    + destruct (emit_items f t) as [o2 l2]. cbn [snd] in *. exact IH.
    + cbn [snd emit_items]. rewrite (RI eq_refl). reflexivity.
  - rewrite (emit_att_wf f None k es W1). destruct (has_fin es).
    + destruct (emit_items f t) as [o2 l2]. cbn [snd] in *. exact IH.
    + cbn [snd emit_items emit_att]. reflexivity.
Qed.

Lemma emit_feat_idem f q : feat_wf q = true -> snd (emit_feat f q) = false ->
  emit_feat f (snd (fst (emit_feat f q))) = ([], snd (fst (emit_feat f q)), false).
Proof.
  unfold feat_wf. intros W B. apply andb_prop in W as [W _]. unfold emit_feat in *.
  pose proof (emit_items_idem f (fq_items q) W) as ID. destruct (emit_items f (fq_items q)) as [o2 items]. cbn [snd] in ID.
  destruct (fq_state q); cbn [take_fin fst snd] in *; try discriminate B;
    cbn [fq_init fq_items fq_state init_evs app take_fin]; rewrite ID; reflexivity.
Qed.

Lemma emit_feats_idem : forall l, feats_wf l = true ->
  emit_feats (snd (emit_feats l)) = ([], snd (emit_feats l)).
Proof.
  induction l as [|[f q] t IH]; intros W; cbn [emit_feats]; [reflexivity|].
  unfold feats_wf in W. cbn [forallb snd] in W. apply andb_prop in W as [W1 W2]. specialize (IH W2).
  pose proof (emit_feat_idem f q W1) as FI. destruct (emit_feat f q) as [[o q'] b]. cbn [fst snd] in FI. destruct b.
  - destruct (emit_feats t) as [o2 l2]. cbn [snd] in *. exact IH.
  - cbn [snd emit_feats]. rewrite (FI eq_refl). reflexivity.
Qed.

(* after a call everything forwardable has been forwarded: the events of the entities at the head of the output never
   wait for those entities to finish *)
Theorem nothing_forwardable_is_held_back s e :
  nwf s = true -> resting s = true -> accepts s (snd e) = true -> is_emitted (ns_state s) = false ->
  fst (emit_feats (ns_feats (fst (nhandle s e)))) = [].
Proof.
  intros W RS A EM. unfold accepts in A. rewrite EM in A. cbn [orb] in A.
  assert (W1 : nwf (enqueue s e) = true).
  { destruct (is_pass (snd e)) eqn:PS; [rewrite (enqueue_pass s e PS); exact W|].
    exact (proj1 (enqueue_adds_one s e W PS A)). }
  unfold nhandle. rewrite EM.
  assert (FW : feats_wf (ns_feats (enqueue s e)) = true) by (unfold nwf in W1; apply andb_prop in W1 as [X _]; exact X).
  pose proof (emit_feats_idem _ FW) as ID. destruct (emit_feats (ns_feats (enqueue s e))) as [o1 fs]. cbn [snd] in ID.
  destruct (take_fin (ns_state (enqueue s e))) as [[m0|] st]; cbn [fst ns_feats]; rewrite ID; reflexivity.
Qed.
