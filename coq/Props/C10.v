(* Props/C10.v — property C10: panics in user code are contained and reported. *)
From CV Require Import Model.Base Model.Events Model.Attempt Model.AttemptSpec Proofs.BaseP Proofs.AttemptP.

(* a panicking step becomes the failure carrying exactly its payload ... *)
Theorem C10_step_panic_payload :
  forall i bg a w st p,
    snd (run_step i bg a (Some w) (st, OMatch (Some p))) = inr (FStep (Some (w ++ [st])) bg st (EPanic p)).
Proof. exact step_panic_payload. Qed.

(* ... a World that cannot be created (Err or panic) likewise ... *)
Theorem C10_world_failure_payload :
  forall i bg a st pan, ai_world i <> WOk ->
    snd (run_step i bg a None (st, OMatch pan)) = inr (FStep None bg st (EPanic (world_fail_payload (ai_world i)))).
Proof. exact step_world_failure_payload. Qed.

(* ... every failure is reported as its Failed event, followed by the after-hook pair and Finished:
   the attempt still gets its after hook and its Finished event *)
Theorem C10_failure_is_reported :
  forall i f, snd (phases i) = inr f ->
    exists pre, ao_events (run_attempt i) = pre ++ deferred f ++ after_evs (ai_after i) ++ [ScFinished].
Proof. exact failure_is_reported. Qed.

(* whatever panics, the attempt's events are the canonical sequence (in particular it terminates with Finished) *)
Theorem C10_attempt_still_wellformed :
  forall i, wf_events (is_some (ai_before i)) (is_some (ai_after i)) (all_decl i) (ao_events (run_attempt i)) = true.
Proof. exact attempt_wf. Qed.

Theorem C10_failed_flag :
  forall i, ao_failed (run_attempt i) =
    (match snd (phases i) with inr (FSkipped _) | inl _ => false | inr _ => true end
     || match ai_after i with Some (Some _) => true | _ => false end).
Proof. exact is_failed_spec. Qed.
