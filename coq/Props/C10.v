(* Props/C10.v — property C10: panics in user code are contained and reported. *)
From CV Require Proofs.ReviewP Model.Sched.
From CV Require Import Model.Base Model.Events Model.Attempt Model.AttemptSpec Proofs.BaseP Proofs.AttemptP.

(* a panicking step becomes the failure carrying exactly its payload ... *)
Theorem C10_step_panic_payload :
  forall i bg a w st p,
    snd (run_step i bg a (Some w) (st, OMatch (Some p))) = inr (FStep (Some (w ++ [st])) bg st (EPanic p)).
Proof. exact step_panic_payload. Qed.

(* ... a World that cannot be created (Err or panic) likewise ... *)
Theorem C10_world_failure_payload :
  forall i bg a st pan, ai_world i <> WOk ->
    snd (run_step i bg a None (st, OMatch pan)) = inr (FStep None bg st (EPanic (world_fail_payload (ai_world i)))).
Proof. exact step_world_failure_payload. Qed.

(* ... every failure is reported as its Failed event, followed by the after-hook pair and Finished:
   the attempt still gets its after hook and its Finished event *)
Theorem C10_failure_is_reported :
  forall i f, snd (phases i) = inr f ->
    exists pre, ao_events (run_attempt i) = pre ++ deferred f ++ after_evs (ai_after i) ++ [ScFinished].
Proof. exact failure_is_reported. Qed.

(* whatever panics, the attempt's events are the canonical sequence (in particular it terminates with Finished) *)
Theorem C10_attempt_still_wellformed :
  forall i, wf_events (is_some (ai_before i)) (is_some (ai_after i)) (all_decl i) (ao_events (run_attempt i)) = true.
Proof. exact attempt_wf. Qed.

Theorem C10_failed_flag :
  forall i, ao_failed (run_attempt i) =
    (match snd (phases i) with inr (FSkipped _) | inl _ => false | inr _ => true end
     || match ai_after i with Some (Some _) => true | _ => false end).
Proof. exact is_failed_spec. Qed.


(* ---------- C10 AT RUN LEVEL (review finding H6): the process panic hook ----------
   `hook_suppressed` is the scheduler model's record of "the process-wide panic hook is replaced by a silent one".
   In EVERY reachable state it is set exactly while the execution loop has begun and not ended — whatever panics
   happen in attempts (`LAttEnd _ true`) in between; the differential check C10b observes the same on the real
   runner (hook generations before / during / after the run). *)
Theorem C10_panic_hook_replaced_exactly_while_the_loop_runs :
  forall c ls s tr, Sched.exec c ls = Some (s, tr) ->
    (Sched.hook_suppressed s = true <-> (Sched.pc s = Sched.Awaiting \/ Sched.pc s = Sched.Yielded)).
Proof. exact ReviewP.hook_suppressed_iff_loop_active. Qed.
Print Assumptions C10_panic_hook_replaced_exactly_while_the_loop_runs.

Theorem C10_panic_hook_restored_when_the_run_ends :
  forall c ls s tr, Sched.exec c ls = Some (s, tr) -> Sched.pc s = Sched.Done -> Sched.hook_suppressed s = false.
Proof. exact ReviewP.hook_restored_after_the_loop. Qed.
Print Assumptions C10_panic_hook_restored_when_the_run_ends.

Theorem C10_panic_hook_untouched_before_the_first_turn :
  forall c ls s tr, ~ In Sched.LTop ls -> Sched.exec c ls = Some (s, tr) ->
    Sched.pc s = Sched.NotBegun /\ Sched.hook_suppressed s = false.
Proof. exact ReviewP.hook_untouched_before_first_turn. Qed.
Print Assumptions C10_panic_hook_untouched_before_the_first_turn.
