(* Props/C10.v — property C10: panics in user code are contained and reported. *)
From CV Require Proofs.ReviewP5 Proofs.SchedP13 Proofs.SchedP7 Proofs.SchedP4 Proofs.SchedP8 Proofs.SchedP10 Model.Contract.
From CV Require Proofs.ReviewP Model.Sched.
From CV Require Import Model.Base Model.Events Model.Attempt Model.AttemptSpec Proofs.BaseP Proofs.AttemptP.

(* a panicking step becomes the failure carrying exactly its payload ... *)
Theorem C10_step_panic_payload :
  forall i bg a w st p,
    snd (run_step i bg a (Some w) (st, OMatch (Some p))) = inr (FStep (Some (w ++ [st])) bg st (EPanic p)).
Proof. exact step_panic_payload. Qed.

(* ... a World that cannot be created (Err or panic) likewise ... *)
Theorem C10_world_failure_payload :
  forall i bg a st pan, ai_world i <> WOk ->
    snd (run_step i bg a None (st, OMatch pan)) = inr (FStep None bg st (EPanic (world_fail_payload (ai_world i)))).
Proof. exact step_world_failure_payload. Qed.

(* ... every failure is reported as its Failed event, followed by the after-hook pair and Finished:
   the attempt still gets its after hook and its Finished event *)
Theorem C10_failure_is_reported :
  forall i f, snd (phases i) = inr f ->
    exists pre, ao_events (run_attempt i) = pre ++ deferred f ++ after_evs (ai_after i) ++ [ScFinished].
Proof. exact failure_is_reported. Qed.

(* whatever panics, the attempt's events are the canonical sequence (in particular it terminates with Finished) *)
Theorem C10_attempt_still_wellformed :
  forall i, wf_events (is_some (ai_before i)) (is_some (ai_after i)) (all_decl i) (ao_events (run_attempt i)) = true.
Proof. exact attempt_wf. Qed.

Theorem C10_failed_flag :
  forall i, ao_failed (run_attempt i) =
    (match snd (phases i) with inr (FSkipped _) | inl _ => false | inr _ => true end
     || match ai_after i with Some (Some _) => true | _ => false end).
Proof. exact is_failed_spec. Qed.


(* ---------- C10 AT RUN LEVEL (review finding H6): the process panic hook ----------
   `hook_suppressed` is the scheduler model's record of "the process-wide panic hook is replaced by a silent one".
   In EVERY reachable state it is set exactly while the execution loop has begun and not ended — whatever panics
   happen in attempts (`LAttEnd _ true`) in between; the differential check C10b observes the same on the real
   runner (hook generations before / during / after the run). *)
Theorem C10_panic_hook_replaced_exactly_while_the_loop_runs :
  forall c ls s tr, Sched.exec c ls = Some (s, tr) ->
    (Sched.hook_suppressed s = true <-> (Sched.pc s = Sched.Awaiting \/ Sched.pc s = Sched.Yielded)).
Proof. exact ReviewP.hook_suppressed_iff_loop_active. Qed.
Print Assumptions C10_panic_hook_replaced_exactly_while_the_loop_runs.

Theorem C10_panic_hook_restored_when_the_run_ends :
  forall c ls s tr, Sched.exec c ls = Some (s, tr) -> Sched.pc s = Sched.Done -> Sched.hook_suppressed s = false.
Proof. exact ReviewP.hook_restored_after_the_loop. Qed.
Print Assumptions C10_panic_hook_restored_when_the_run_ends.

Theorem C10_panic_hook_untouched_before_the_first_turn :
  forall c ls s tr, ~ In Sched.LTop ls -> Sched.exec c ls = Some (s, tr) ->
    Sched.pc s = Sched.NotBegun /\ Sched.hook_suppressed s = false.
Proof. exact ReviewP.hook_untouched_before_first_turn. Qed.
Print Assumptions C10_panic_hook_untouched_before_the_first_turn.


(* ---------- THE OTHER RUN-LEVEL CLAUSES (second review, M4): the invariant above holds by construction of a field that only
   loop turns write; what the property says at run level is more. ---------- *)

(* "nothing is printed while the run is in progress": every label of every attempt — its start, its events, its end, whatever
   its flag — happens while the process panic hook is replaced, and the hook is still replaced after it *)
Theorem C10_attempts_run_only_while_the_panic_hook_is_replaced :
  forall c l1 l l2 s tr s1 tr1,
    Sched.exec c (l1 ++ l :: l2) = Some (s, tr) -> ReviewP5.is_att_label l = true -> Sched.exec c l1 = Some (s1, tr1) ->
    Sched.hook_suppressed s1 = true /\
    exists s2 o, Sched.step c s1 l = Some (s2, o) /\ Sched.exec c (l1 ++ [l]) = Some (s2, tr1 ++ o) /\
                 Sched.hook_suppressed s2 = true.
Proof. exact ReviewP5.attempt_labels_only_while_hook_replaced. Qed.
Print Assumptions C10_attempts_run_only_while_the_panic_hook_is_replaced.

(* "other scenarios are unaffected", one step: the end of attempt k — failed or not — changes the running entry of no other
   attempt, emits the same event for either flag, differs between the two flags only in the finished-message and the retry queue,
   and leaves every enabled label of another attempt enabled with the same events *)
Theorem C10_a_failed_end_differs_from_a_passed_one_only_in_message_and_queue :
  forall c s k b s1 o, Sched.step c s (Sched.LAttEnd k b) = Some (s1, o) ->
    forall b', exists s2, Sched.step c s (Sched.LAttEnd k b') = Some (s2, o) /\
      Sched.running s2 = Sched.running s1 /\ Sched.fcount s2 = Sched.fcount s1 /\ Sched.rcount s2 = Sched.rcount s1 /\
      Sched.now s2 = Sched.now s1 /\ Sched.pc s2 = Sched.pc s1 /\ Sched.flow s2 = Sched.flow s1 /\
      Sched.hook_suppressed s2 = Sched.hook_suppressed s1 /\ Sched.pdone s2 = Sched.pdone s1 /\
      Sched.perrs s2 = Sched.perrs s1 /\ Sched.pf s2 = Sched.pf s1.
Proof. exact ReviewP5.att_end_flag_only_changes_message_and_queue. Qed.
Print Assumptions C10_a_failed_end_differs_from_a_passed_one_only_in_message_and_queue.

Theorem C10_other_attempts_stay_enabled_across_a_failed_end :
  forall c s k b s1 o l k' s2 o2,
    Sched.step c s (Sched.LAttEnd k b) = Some (s1, o) -> ReviewP5.att_key l = Some k' -> k' <> k ->
    Sched.step c s l = Some (s2, o2) -> exists s3, Sched.step c s1 l = Some (s3, o2).
Proof. exact ReviewP5.att_end_keeps_other_attempts_enabled. Qed.
Print Assumptions C10_other_attempts_stay_enabled_across_a_failed_end.

(* ... whole runs: flip the flag of ONE attempt's end; the labels of every other attempt that was in flight at that moment are
   accepted in both runs and emit the same events up to their own Finished (what is dispatched LATER may differ: the flipped run
   may retry k or trip fail-fast — ReviewP5.exB5_flip_dispatches_a_retry, exB6_flip_trips_fail_fast) *)
Theorem C10_flipping_one_failed_flag_leaves_the_attempts_in_flight_unaffected :
  forall c l1 k b b' l2 l2' s1 h1 s h s' h',
    SchedP13.run c l1 = Some (s1, h1) ->
    SchedP13.run c (l1 ++ Sched.LAttEnd k b :: l2) = Some (s, h) ->
    SchedP13.run c (l1 ++ Sched.LAttEnd k b' :: l2') = Some (s', h') ->
    let live := ReviewP5.others_in_flight s1 k in
    ReviewP5.proj live l2 = ReviewP5.proj live l2' ->
    exists o h2 h2', h = h1 ++ (Sched.LAttEnd k b, o) :: h2 /\ h' = h1 ++ (Sched.LAttEnd k b', o) :: h2' /\
                     ReviewP5.projh live h2 = ReviewP5.projh live h2' /\
                     SchedP13.out_of (ReviewP5.projh live h2) = SchedP13.out_of (ReviewP5.projh live h2').
Proof. exact ReviewP5.flip_failed_flag_others_unaffected. Qed.
Print Assumptions C10_flipping_one_failed_flag_leaves_the_attempts_in_flight_unaffected.

(* "and the run still ends with run-Finished": a run that has ended is complete — contract, exactly one run-Finished, last, the
   hook back — whatever the flags of its attempts; and from every state after the parser's end the run CAN be driven to Done
   with EVERY attempt panicking (`fl` = the flags), within the turn bound of C04 *)
Theorem C10_an_ended_run_is_complete_whatever_panicked :
  forall cf ls s tr,
    Sched.exec cf ls = Some (s, tr) -> Sched.pc s = Sched.Done ->
    NoDup (SchedP7.feature_ids ls) -> NoDup (SchedP4.inserted_ids ls) ->
    Contract.contract tr = true /\ (exists p, tr = p ++ [EvFinished] /\ ~ In EvFinished p) /\ Sched.hook_suppressed s = false.
Proof. exact ReviewP5.ended_run_is_complete_whatever_the_flags. Qed.
Print Assumptions C10_an_ended_run_is_complete_whatever_panicked.

Theorem C10_the_run_can_end_whatever_panics :
  forall c fl ls0 s0 tr0,
    Sched.exec c ls0 = Some (s0, tr0) -> Sched.pdone s0 = true -> Sched.cf_concurrency c <> Some 0%nat ->
    exists ls s tr,
      Forall (ReviewP5.drive_ok fl) ls /\ Sched.exec c (ls0 ++ ls) = Some (s, tr0 ++ tr) /\ Sched.pc s = Sched.Done /\
      N.of_nat (SchedP10.tops ls) <= 3 * SchedP8.pot (fun _ => true) s0 + N.of_nat (length (Sched.running s0)) + 3 /\
      (exists p, tr0 ++ tr = p ++ [EvFinished] /\ ~ In EvFinished p) /\ Sched.hook_suppressed s = false.
Proof. exact ReviewP5.run_can_be_driven_to_done_whatever_the_flags. Qed.
Print Assumptions C10_the_run_can_end_whatever_panics.
