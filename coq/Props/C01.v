(* Props/C01.v — property C01: the run verdict. *)
From CV Require Import Model.Base Model.Events Model.Stats Model.StatsSpec Proofs.BaseP Proofs.StatsP.

(* the verdict of a Summarize over ANY stream is: a parser error, a final step failure or a final hook
   failure occurred — outside known-finding class K01a (a hook failing in an attempt that is retried) *)
Theorem C01_summarize_verdict :
  forall last_own es,
    k_hook_in_retried (before_finished (map snd es)) = false ->
    g_has_failed (sm_getters (sm_final last_own es)) = spec_failed (map snd es).
Proof. exact sm_verdict. Qed.

(* the class is a genuine counterexample to the unrestricted statement *)
Theorem C01_K01a_refuted :
  exists es, g_has_failed (sm_getters (sm_final (fun _ => Some 9) es)) = true /\ spec_failed (map snd es) = false.
Proof. exact sm_verdict_K01a_refuted. Qed.
