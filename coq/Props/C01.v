(* Props/C01.v — property C01: the run verdict. *)
From CV Require Proofs.Compose2.
From CV Require Import Proofs.SchedP5.
From CV Require Import Model.Base Model.Events Model.Contract Model.Combinators Model.Stats Model.StatsSpec Model.Pipeline
  Proofs.BaseP Proofs.StatsP Proofs.PipelineP Proofs.PipelineP2.
From CV Require Model.Exit Proofs.ExitP.
From CV Require Proofs.PipelineP3 Proofs.StatsP3 Proofs.Compose Proofs.SchedP4 Proofs.SchedP7 Model.Sched.

(* the verdict of a Summarize over ANY stream is: a parser error, a final step failure or a final hook
   failure occurred — outside known-finding class K01a (a hook failing in an attempt that is retried) *)
Theorem C01_summarize_verdict :
  forall last_own es,
    k_hook_in_retried (before_finished (map snd es)) = false ->
    g_has_failed (sm_getters (sm_final last_own es)) = spec_failed (map snd es).
Proof. exact sm_verdict. Qed.

(* the class is a genuine counterexample to the unrestricted statement *)
Theorem C01_K01a_refuted :
  exists es, g_has_failed (sm_getters (sm_final (fun _ => Some 9) es)) = true /\ spec_failed (map snd es) = false.
Proof. exact sm_verdict_K01a_refuted. Qed.

(* ---- the verdict through the pipelines users build ---- *)

(* a Summarize on top of ANYTHING (Normalize, Tee, another Summarize, ...): what is below does not matter *)
Theorem C01_summarize_over_any_pipeline :
  forall tags_of last_own q es,
    k_hook_in_retried (before_finished (map snd es)) = false ->
    qfailed (QSumm q) (qfinal tags_of last_own (QSumm q) es) = spec_failed (map snd es).
Proof. exact verdict_summarize_over_anything. Qed.

(* THE DEFAULT PIPELINE SHAPE, `.summarized().normalized()` = Normalize<Summarize<..>>: Summarize sees the stream
   reordered by Normalize; for every complete contract-abiding stream the verdict is still the one of the Runner's
   stream (by C11: the reordering is a permutation that keeps run-Finished last) *)
Theorem C01_default_pipeline :
  forall tags_of last_own q es,
    contract (map snd es) = true ->
    k_hook_in_retried (before_finished (map snd es)) = false ->
    qfailed (QNorm (QSumm q)) (qfinal tags_of last_own (QNorm (QSumm q)) es) = spec_failed (map snd es).
Proof. exact verdict_default_pipeline. Qed.
Print Assumptions C01_default_pipeline.

(* under Repeat the re-delivered events arrive after run-Finished, where Summarize is inert: same verdict *)
Theorem C01_repeat_over_summarize :
  forall tags_of last_own k q es,
    k_hook_in_retried (before_finished (map snd es)) = false ->
    qfailed (QRepeat k (QSumm q)) (qfinal tags_of last_own (QRepeat k (QSumm q)) es) = spec_failed (map snd es).
Proof. exact verdict_repeat_over_summarize. Qed.

(* under FailOnSkipped the verdict is that of the rewritten stream (skipped steps of the selected scenarios count as
   failures) *)
Theorem C01_fail_on_skipped_over_summarize :
  forall tags_of last_own k q es,
    let es' := map (fun e => (fst e, fos_ev (should_fail tags_of k) (snd e))) es in
    k_hook_in_retried (before_finished (map snd es')) = false ->
    qfailed (QFos k (QSumm q)) (qfinal tags_of last_own (QFos k (QSumm q)) es) = spec_failed (map snd es').
Proof. exact verdict_fos_over_summarize. Qed.

(* Tee fails iff one of its sides does; every pipeline's verdict is the default rule on the getters it reports *)
(* [definitional] unfolds the model's own definition: a pinned reading of the model (it breaks when the model is edited),
   not evidence for the property by itself — the model is tied to the code by the correspondence check *)
Theorem C01_tee :
  forall l r sl sr, qfailed (QTee l r) (TTwo sl sr) = qfailed l sl || qfailed r sr.
Proof. exact verdict_tee. Qed.
(* [definitional] unfolds the model's own definition: a pinned reading of the model (it breaks when the model is edited),
   not evidence for the property by itself — the model is tied to the code by the correspondence check *)
Theorem C01_verdict_is_default_rule_on_getters :
  forall p s, qfailed p s = g_has_failed (qgetters p s).
Proof. exact qfailed_getters. Qed.

(* LIBTEST as the statistics writer (it buffers everything until ParsingFinished): for EVERY event list containing
   ParsingFinished its verdict is `a parser error, a final step failure or a failed hook occurred` — buffering loses and
   duplicates nothing (all six getters are the event counts) — and on every contract-abiding stream outside K01a this
   is the specified verdict; without ParsingFinished nothing is ever counted *)
Theorem C01_libtest_verdict :
  forall es, existsb StatsP3.is_parsing_finished es = true ->
    g_has_failed (lt_getters (StatsP3.lt_final es)) =
      existsb is_parse_err es || existsb is_step_failed_final es || existsb is_hook_failed es.
Proof. exact StatsP3.lt_verdict. Qed.
Print Assumptions C01_libtest_verdict.

Theorem C01_libtest_verdict_on_contract_streams :
  forall es, contract es = true -> existsb StatsP3.is_parsing_finished es = true ->
    k_hook_in_retried (before_finished es) = false ->
    g_has_failed (lt_getters (StatsP3.lt_final es)) = spec_failed es.
Proof. exact StatsP3.lt_verdict_contract. Qed.
Print Assumptions C01_libtest_verdict_on_contract_streams.

Theorem C01_libtest_counts_nothing_before_parsing_finished :
  forall es, existsb StatsP3.is_parsing_finished es = false ->
    lt_getters (StatsP3.lt_final es) = mk_getters 0 0 0 0 0 0 /\ lt_buf (StatsP3.lt_final es) = es /\
    g_has_failed (lt_getters (StatsP3.lt_final es)) = false.
Proof. exact StatsP3.lt_nothing_without_parsing_finished. Qed.

(* FROM THE SCHEDULER TO THE VERDICT: for every complete run of the scheduler model (any configuration, any schedule —
   "every interleaving of concurrently running scenarios") the default pipeline reports failed iff the run's own stream
   contains a parser error, a final step failure or a final hook failure (outside K01a) *)
Theorem C01_runner_to_verdict :
  forall tags_of last_own q cf ls s tr (es : list (N * ev)),
    Sched.exec cf ls = Some (s, tr) -> NoDup (SchedP7.feature_ids ls) -> NoDup (SchedP4.inserted_ids ls) ->
    Sched.pc s = Sched.Done -> map snd es = tr ->
    k_hook_in_retried (before_finished tr) = false ->
    qfailed (QNorm (QSumm q)) (qfinal tags_of last_own (QNorm (QSumm q)) es) = spec_failed tr.
Proof. exact Compose.runner_to_verdict. Qed.
Print Assumptions C01_runner_to_verdict.

(* EVERY BUILT-IN STATISTICS PIPELINE. `SP` is the grammar of pipelines: Summarize over anything, Libtest, and Normalize,
   FailOnSkipped, Repeat, Tee and Or around such pipelines, nested arbitrarily (the two sides of an Or free of Normalize:
   PipelineP3 shows by a witness that a Normalize under an Or, which receives a stream that no longer obeys the
   contract, can lose a failure). `plain q`: no FailOnSkipped inside, no Libtest under an Or. For every complete stream
   obeying the Runner contract (with ParsingFinished: Libtest counts nothing before it) the verdict of the whole pipeline
   is the specified one ... *)
Theorem C01_verdict_of_every_pipeline :
  forall tags_of last_own q es,
    PipelineP3.SP q -> PipelineP3.plain q = true -> contract (map snd es) = true ->
    existsb StatsP3.is_parsing_finished (map snd es) = true ->
    k_hook_in_retried (before_finished (map snd es)) = false ->
    qfailed q (qfinal tags_of last_own q es) = spec_failed (map snd es).
Proof. exact PipelineP3.verdict_plain_pipeline_spec. Qed.
Print Assumptions C01_verdict_of_every_pipeline.

(* ... and with FailOnSkipped on top: the specified verdict of the stream in which the skipped steps of the scenarios the
   predicate selects (by default those not tagged @allow.skipped) count as failed *)
Theorem C01_verdict_of_every_pipeline_under_fail_on_skipped :
  forall tags_of last_own k p es,
    PipelineP3.SP p -> PipelineP3.plain p = true -> contract (map snd es) = true ->
    existsb StatsP3.is_parsing_finished (map snd es) = true ->
    k_hook_in_retried (before_finished (map snd es)) = false ->
    qfailed (QFos k p) (qfinal tags_of last_own (QFos k p) es) =
    spec_failed (map (fos_ev (should_fail tags_of k)) (map snd es)).
Proof. exact PipelineP3.verdict_fos_pipeline_spec. Qed.
Print Assumptions C01_verdict_of_every_pipeline_under_fail_on_skipped.

(* the general form: for ANY pipeline of the grammar (FailOnSkipped anywhere, Libtest under Or, ...) the verdict is the
   recursively specified `qspec` *)
Theorem C01_verdict_of_every_pipeline_general :
  forall tags_of last_own q es,
    PipelineP3.SP q -> contract (map snd es) = true ->
    qfailed q (qfinal tags_of last_own q es) = PipelineP3.qspec tags_of q es.
Proof. exact PipelineP3.verdict_of_every_pipeline. Qed.
Print Assumptions C01_verdict_of_every_pipeline_general.

(* THE LAST LINK: `run_and_exit` (Model/Exit.v, tied to src/cucumber.rs:1199-1237 by the `exit` engine) panics — the
   test binary exits non-zero — exactly when the writer's getters say that execution has failed, and its message has a
   part for exactly the non-zero ones of failed steps, parsing errors and hook errors *)
(* [definitional] unfolds the model's own definition: a pinned reading of the model (it breaks when the model is edited),
   not evidence for the property by itself — the model is tied to the code by the correspondence check *)
Theorem C01_run_and_exit_panics_iff_failed :
  forall g, (Exit.run_and_exit g = None <-> g_has_failed g = false) /\
            (forall parts, Exit.run_and_exit g = Some parts ->
               g_has_failed g = true /\ parts <> [] /\
               forall k n, In (k, n) parts <-> (0 < n /\ In (k, n) [(0, g_failed g); (1, g_parsing g); (2, g_hooks g)])).
Proof. exact ExitP.run_and_exit_panics_iff_failed. Qed.
Print Assumptions C01_run_and_exit_panics_iff_failed.


(* ---------- THE VERDICT AND WHAT THE SCHEDULER ACTED ON (review finding H2): for a COMPLETE run whose attempt labels are
   executions of the attempt model (`Compose2.faithful`), the specified verdict of the emitted stream is "failed" exactly
   when a parser error occurred or some attempt ended failed with no retry left — the very end on which the scheduler
   sent the finished-message that trips fail-fast *)
Theorem C01_verdict_iff_parser_error_or_final_failure :
  forall c ls s tr inp,
    Sched.exec c ls = Some (s, tr) -> Compose2.faithful inp ls -> Sched.pc s = Sched.Done ->
    (StatsSpec.spec_failed tr = true <->
     (exists id, In (Sched.LParseErr id) ls) \/
     (exists ls1 k ls2 s1 tr1 s2 f r sc rt m,
        ls = ls1 ++ Sched.LAttEnd k true :: ls2 /\ Sched.exec c ls1 = Some (s1, tr1) /\
        Sched.step c s1 (Sched.LAttEnd k true) = Some (s2, [EvScen f r sc rt ScFinished]) /\
        StatsSpec.retries_left rt = false /\
        Sched.msgs s2 = Sched.msgs s1 ++ [m] /\ (Sched.m_failed m && negb (Sched.m_retried m) = true)%bool)).
Proof. exact Compose2.verdict_iff_final_failure_exec. Qed.
Print Assumptions C01_verdict_iff_parser_error_or_final_failure.
