(* Props/C01.v — property C01: the run verdict. *)
From CV Require Import Proofs.SchedP5.
From CV Require Import Model.Base Model.Events Model.Contract Model.Combinators Model.Stats Model.StatsSpec Model.Pipeline
  Proofs.BaseP Proofs.StatsP Proofs.PipelineP Proofs.PipelineP2.
From CV Require Proofs.StatsP3.

(* the verdict of a Summarize over ANY stream is: a parser error, a final step failure or a final hook
   failure occurred — outside known-finding class K01a (a hook failing in an attempt that is retried) *)
Theorem C01_summarize_verdict :
  forall last_own es,
    k_hook_in_retried (before_finished (map snd es)) = false ->
    g_has_failed (sm_getters (sm_final last_own es)) = spec_failed (map snd es).
Proof. exact sm_verdict. Qed.

(* the class is a genuine counterexample to the unrestricted statement *)
Theorem C01_K01a_refuted :
  exists es, g_has_failed (sm_getters (sm_final (fun _ => Some 9) es)) = true /\ spec_failed (map snd es) = false.
Proof. exact sm_verdict_K01a_refuted. Qed.

(* ---- the verdict through the pipelines users build ---- *)

(* a Summarize on top of ANYTHING (Normalize, Tee, another Summarize, ...): what is below does not matter *)
Theorem C01_summarize_over_any_pipeline :
  forall tags_of last_own q es,
    k_hook_in_retried (before_finished (map snd es)) = false ->
    qfailed (QSumm q) (qfinal tags_of last_own (QSumm q) es) = spec_failed (map snd es).
Proof. exact verdict_summarize_over_anything. Qed.

(* THE DEFAULT PIPELINE SHAPE, `.summarized().normalized()` = Normalize<Summarize<..>>: Summarize sees the stream
   reordered by Normalize; for every complete contract-abiding stream the verdict is still the one of the Runner's
   stream (by C11: the reordering is a permutation that keeps run-Finished last) *)
Theorem C01_default_pipeline :
  forall tags_of last_own q es,
    contract (map snd es) = true ->
    k_hook_in_retried (before_finished (map snd es)) = false ->
    qfailed (QNorm (QSumm q)) (qfinal tags_of last_own (QNorm (QSumm q)) es) = spec_failed (map snd es).
Proof. exact verdict_default_pipeline. Qed.
Print Assumptions C01_default_pipeline.

(* under Repeat the re-delivered events arrive after run-Finished, where Summarize is inert: same verdict *)
Theorem C01_repeat_over_summarize :
  forall tags_of last_own k q es,
    k_hook_in_retried (before_finished (map snd es)) = false ->
    qfailed (QRepeat k (QSumm q)) (qfinal tags_of last_own (QRepeat k (QSumm q)) es) = spec_failed (map snd es).
Proof. exact verdict_repeat_over_summarize. Qed.

(* under FailOnSkipped the verdict is that of the rewritten stream (skipped steps of the selected scenarios count as
   failures) *)
Theorem C01_fail_on_skipped_over_summarize :
  forall tags_of last_own k q es,
    let es' := map (fun e => (fst e, fos_ev (should_fail tags_of k) (snd e))) es in
    k_hook_in_retried (before_finished (map snd es')) = false ->
    qfailed (QFos k (QSumm q)) (qfinal tags_of last_own (QFos k (QSumm q)) es) = spec_failed (map snd es').
Proof. exact verdict_fos_over_summarize. Qed.

(* Tee fails iff one of its sides does; every pipeline's verdict is the default rule on the getters it reports *)
Theorem C01_tee :
  forall l r sl sr, qfailed (QTee l r) (TTwo sl sr) = qfailed l sl || qfailed r sr.
Proof. exact verdict_tee. Qed.
Theorem C01_verdict_is_default_rule_on_getters :
  forall p s, qfailed p s = g_has_failed (qgetters p s).
Proof. exact qfailed_getters. Qed.

(* LIBTEST as the statistics writer (it buffers everything until ParsingFinished): for EVERY event list containing
   ParsingFinished its verdict is `a parser error, a final step failure or a failed hook occurred` — buffering loses and
   duplicates nothing (all six getters are the event counts) — and on every contract-abiding stream outside K01a this
   is the specified verdict; without ParsingFinished nothing is ever counted *)
Theorem C01_libtest_verdict :
  forall es, existsb StatsP3.is_parsing_finished es = true ->
    g_has_failed (lt_getters (StatsP3.lt_final es)) =
      existsb is_parse_err es || existsb is_step_failed_final es || existsb is_hook_failed es.
Proof. exact StatsP3.lt_verdict. Qed.
Print Assumptions C01_libtest_verdict.

Theorem C01_libtest_verdict_on_contract_streams :
  forall es, contract es = true -> existsb StatsP3.is_parsing_finished es = true ->
    k_hook_in_retried (before_finished es) = false ->
    g_has_failed (lt_getters (StatsP3.lt_final es)) = spec_failed es.
Proof. exact StatsP3.lt_verdict_contract. Qed.
Print Assumptions C01_libtest_verdict_on_contract_streams.

Theorem C01_libtest_counts_nothing_before_parsing_finished :
  forall es, existsb StatsP3.is_parsing_finished es = false ->
    lt_getters (StatsP3.lt_final es) = mk_getters 0 0 0 0 0 0 /\ lt_buf (StatsP3.lt_final es) = es /\
    g_has_failed (lt_getters (StatsP3.lt_final es)) = false.
Proof. exact StatsP3.lt_nothing_without_parsing_finished. Qed.
