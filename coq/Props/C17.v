(* Props/C17.v — property C17: step matching. *)
From CV Require Import Model.Base Model.StepMatch Proofs.BaseP Proofs.OrderP Proofs.StepMatchP.
From Coq Require Import Permutation.

Theorem C17_candidates_are_exactly_the_matching_definitions_of_the_keyword :
  forall rx c ty text e g,
    In (e, g) (cands rx c ty text) <-> In e c /\ matching rx ty text e g.
Proof. exact cands_spec. Qed.

Theorem C17_not_found :
  forall rx rx_names c ty text,
    find rx rx_names c ty text = FNone <-> forall e g, In e c -> ~ matching rx ty text e g.
Proof. exact find_none. Qed.

(* [definitional] unfolds the model's own definition: a pinned reading of the model (it breaks when the model is edited),
   not evidence for the property by itself — the model is tied to the code by the correspondence check *)
Theorem C17_unique_match :
  forall rx rx_names c ty text e g,
    cands rx c ty text = [(e, g)] ->
    find rx rx_names c ty text =
      FFound (e_fn e) (snd (e_key e)) (matches_of (rx_names (fst (e_key e))) g).
Proof. exact find_unique. Qed.

Theorem C17_matches_shape :
  forall names groups,
    length names = length groups ->
    map fst (matches_of names groups) = names /\
    map snd (matches_of names groups) = map (fun g => unwrap_or g []) groups.
Proof. exact matches_shape. Qed.

Theorem C17_ambiguous_lists_all_sorted :
  forall rx rx_names c ty text,
    (2 <= length (cands rx c ty text))%nat ->
    exists ks, find rx rx_names c ty text = FAmbiguous ks /\
               sorted key_leb ks /\
               Permutation ks (map (fun eg => e_key (fst eg)) (cands rx c ty text)).
Proof. exact find_ambiguous. Qed.

Theorem C17_keyword_scoped :
  forall rx rx_names c ty text,
    find rx rx_names c ty text = find rx rx_names (filter (fun e => e_ty e =? ty) c) ty text.
Proof. exact find_keyword_scoped. Qed.

Theorem C17_iteration_order_independent :
  forall rx rx_names c c' ty text,
    Permutation c c' -> find rx rx_names c ty text = find rx rx_names c' ty text.
Proof. exact find_perm. Qed.

Theorem C17_registration_order_independent :
  forall rx rx_names regs regs' ty text,
    NoDup (map ekey regs) -> Permutation regs regs' ->
    find rx rx_names (build regs) ty text = find rx rx_names (build regs') ty text.
Proof. exact find_registration_order_independent. Qed.

Theorem C17_reregistration_replaces :
  forall c1 d c2 e,
    ekey d = ekey e -> ~ In (ekey e) (map ekey c1) ->
    insert (c1 ++ d :: c2) e = c1 ++ mk_entry (e_ty d) (e_key d) (e_fn e) :: c2.
Proof. exact insert_existing. Qed.

Theorem C17_key_order_is_total :
  total_order key_leb.
Proof. exact key_leb_order. Qed.

Example C17_nonvacuous :
  let rx := fun re text => if str_eqb re (lit "a") then Some [Some text] else
                           if str_eqb re (lit ".") then Some [Some text; None] else None in
  let names := fun _ : str => [None; Some (lit "n")] in
  let regs := [mk_entry 0 (lit ".", None) 1; mk_entry 0 (lit "a", Some (mk_loc (lit "f.rs") 3 1)) 2;
               mk_entry 1 (lit "a", None) 3] in
  NoDup (map ekey regs) /\
  find rx names (build regs) 0 (lit "a") =
    FAmbiguous [(lit ".", None); (lit "a", Some (mk_loc (lit "f.rs") 3 1))] /\
  find rx names (build regs) 1 (lit "a") = FFound 3 None [(None, lit "a")] /\
  find rx names (build regs) 2 (lit "a") = FNone.
Proof.
  cbv zeta. split; [|vm_compute; auto].
  repeat constructor; cbn; intuition discriminate.
Qed.
