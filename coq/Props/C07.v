(* Props/C07.v — property C07: @serial scenarios run in isolation. *)
From CV Require Import Model.Base Model.Events Model.Sched Proofs.BaseP Proofs.SchedP Proofs.SchedP2.

(* in every reachable state (any configuration, any label list: eager or lazy parser, any completion order,
   first attempts and retries alike) a serial attempt that is dispatched is the ONLY dispatched attempt *)
Theorem C07_serial_alone :
  forall c ls s o e p, exec c ls = Some (s, o) -> In (e, p) (running s) -> e_serial e = true -> running s = [(e, p)].
Proof. exact serial_alone. Qed.

(* hence whatever scenario event the next step emits while a serial attempt is dispatched is that attempt's own *)
Theorem C07_serial_exclusive :
  forall c ls s tr e p l s' o,
    exec c ls = Some (s, tr) -> In (e, p) (running s) -> e_serial e = true ->
    step c s l = Some (s', o) -> emits_for e o.
Proof. exact serial_exclusive. Qed.

(* the unrepaired `get` (Serial preferred regardless of what runs) refutes isolation: kept as the witness of F2 *)
Definition get_unfixed (n : option nat) (s : st) : list entry :=
  match n with
  | Some O => []
  | _ => let '(bs, _, _) := take_ready (Some 1%nat) (now s) None (qS s) in
         match bs with _ :: _ => bs | [] => let '(bc, _, _) := take_ready n (now s) None (qC s) in bc end
  end.
Theorem C07_unfixed_get_refuted :
  exists s, running s <> [] /\ exists e, In e (get_unfixed (Some 1%nat) s) /\ e_serial e = true.
Proof.
  exists (mk_st [mk_entry 1 None 12 true None None None 2 0] [] true true (Cont (Some 1%nat))
               [(mk_entry 1 None 11 false None None None 2 0, Opened)] [] [] [] (0, 0, 0, 0, 0) 0 Awaiting true).
  split; [discriminate|]. eexists. split; [left; reflexivity|reflexivity].
Qed.
