(* Props/C07.v — property C07: @serial scenarios run in isolation. *)
From CV Require Proofs.ReviewP3.
From CV Require Import Model.SchedSpec.
From CV Require Import Model.Base Model.Events Model.Sched Proofs.BaseP Proofs.SchedP Proofs.SchedP2 Proofs.SchedP11.

(* in every reachable state (any configuration, any label list: eager or lazy parser, any completion order,
   first attempts and retries alike) a serial attempt that is dispatched is the ONLY dispatched attempt *)
Theorem C07_serial_alone :
  forall c ls s o e p, exec c ls = Some (s, o) -> In (e, p) (running s) -> e_serial e = true -> running s = [(e, p)].
Proof. exact serial_alone. Qed.

(* hence whatever scenario event the next step emits while a serial attempt is dispatched is that attempt's own *)
Theorem C07_serial_exclusive :
  forall c ls s tr e p l s' o,
    exec c ls = Some (s, tr) -> In (e, p) (running s) -> e_serial e = true ->
    step c s l = Some (s', o) -> emits_for e o.
Proof. exact serial_exclusive. Qed.

(* the unrepaired `get` (Serial preferred regardless of what runs) refutes isolation: kept as the witness of F2 *)
Definition get_unfixed (n : option nat) (s : st) : list entry :=
  match n with
  | Some O => []
  | _ => let '(bs, _, _) := take_ready (Some 1%nat) (now s) None (qS s) in
         match bs with _ :: _ => bs | [] => let '(bc, _, _) := take_ready n (now s) None (qC s) in bc end
  end.
Theorem C07_unfixed_get_refuted :
  exists s, running s <> [] /\ exists e, In e (get_unfixed (Some 1%nat) s) /\ e_serial e = true.
Proof.
  exists (mk_st [mk_entry 1 None 12 true None None None 2 0] [] true true (Cont (Some 1%nat))
               [(mk_entry 1 None 11 false None None None 2 0, Opened)] [] [] [] (0, 0, 0, 0, 0) 0 Awaiting true).
  split; [discriminate|]. eexists. split; [left; reflexivity|reflexivity].
Qed.

(* ON THE EMITTED STREAM OF EVERY RUN (any configuration, any label list — eager or lazy parser, any completion order,
   retries, fail-fast): an attempt of a @serial scenario starts only when no attempt is open, no attempt starts while a
   serial one is open, and every scenario event emitted while a serial attempt is open is that attempt's own
   (`iso_walk`, an executable walker over the event list). `ser` says which scenario ids are serial; the only
   hypothesis is that the features handed over are tagged consistently with it. *)
Theorem C07_stream_serial_isolation :
  forall ser c ls s tr, exec c ls = Some (s, tr) -> tagged ser ls -> iso_walk ser tr = true.
Proof. exact stream_serial_isolation. Qed.
Print Assumptions C07_stream_serial_isolation.

Example C07_stream_nonvacuous :
  let f := mk_sfeature 1 [mk_sscen 11 None false None; mk_sscen 12 None true None] 0 2 in
  let ser := fun x => x =? 12 in
  let ls := [LFeature f; LParserEnd; LTop; LAttStart (12, 0); LAttEnd (12, 0) false; LTop; LAttStart (11, 0)] in
  match exec (mk_cfg (Some 2%nat) false) ls with
  | Some (_, tr) => (iso_walk ser tr, n_started tr)
  | None => (false, 0%nat)
  end = (true, 2%nat)
  /\ iso_walk ser [EvScen 1 None 11 None ScStarted; EvScen 1 None 12 None ScStarted] = false.
Proof. vm_compute. split; reflexivity. Qed.


(* ---------- the same in plain words, on the emitted stream (attempts followed by scenario id AND retry counter) ---------- *)
Theorem C07_serial_attempt_runs_alone :
  forall ser c ls s tr, exec c ls = Some (s, tr) -> tagged ser ls ->
    forall pre f r sid rt mid post,
      tr = pre ++ EvScen f r sid rt ScStarted :: mid ++ post -> ser sid = true ->
      (forall f' r', ~ In (EvScen f' r' sid rt ScFinished) mid) ->
      forall f' r' s' rt' x, In (EvScen f' r' s' rt' x) mid -> s' = sid /\ rt' = rt /\ is_middle x = true.
Proof. exact ReviewP3.serial_attempt_runs_alone. Qed.
Print Assumptions C07_serial_attempt_runs_alone.

Theorem C07_serial_attempt_starts_alone :
  forall ser c ls s tr, exec c ls = Some (s, tr) -> tagged ser ls ->
    forall pre f r sid rt mid f2 r2 s2 rt2 post,
      tr = pre ++ EvScen f r sid rt ScStarted :: mid ++ EvScen f2 r2 s2 rt2 ScStarted :: post -> ser s2 = true ->
      exists f' r', In (EvScen f' r' sid rt ScFinished) mid.
Proof. exact ReviewP3.serial_attempt_starts_alone. Qed.
Print Assumptions C07_serial_attempt_starts_alone.
