(* Props/C13.v — property C13: writer combinators are transparent. *)
From CV Require Import Model.Base Model.Events Model.Combinators Proofs.BaseP Proofs.CombinatorsP.

(* [definitional] unfolds the model's own definition: a pinned reading of the model (it breaks when the model is edited),
   not evidence for the property by itself — the model is tied to the code by the correspondence check *)
Theorem C13_fail_on_skipped_exact :
  forall sf e,
    fos_ev sf e =
      match skipped_step e with
      | Some (f, r, s, e') => if sf f r s then e' else e
      | None => e
      end.
Proof. exact fos_spec. Qed.

Theorem C13_default_predicate :
  forall tags_of f r s,
    default_should_fail tags_of f r s = true <-> ~ In s_allow_skipped (tags_of f r s).
Proof. exact default_should_fail_spec. Qed.

Theorem C13_fail_on_skipped_in_place :
  forall tags_of k q es sq,
    run_from tags_of (PFos k q) (SOne sq) es =
    run_from tags_of q sq (map (fun e => (fst e, fos_ev (should_fail tags_of k) (snd e))) es).
Proof. exact run_fos. Qed.

Theorem C13_repeat_inner_stream :
  forall tags_of k q es buf sq,
    concat (run_from tags_of (PRepeat k q) (SRepeat buf sq) es) =
    concat (run_from tags_of q sq (expand k buf es)).
Proof. exact run_repeat. Qed.

Theorem C13_repeat_once_in_order_after_finished :
  forall k pre fin post,
    (forall e, In e pre -> is_finished (snd e) = false) -> is_finished (snd fin) = true ->
    expand k [] (pre ++ fin :: post) = pre ++ fin :: filter (flt k) (pre ++ [fin]) ++ expand k [] post.
Proof. exact expand_once. Qed.

Theorem C13_builtin_filters_never_replay_finished :
  forall k e, (k = FSkipped \/ k = FFailed) -> is_finished (snd e) = true -> flt k e = false.
Proof. exact builtin_filters_skip_finished. Qed.

Theorem C13_tee_both :
  forall tags_of l r es sl sr,
    run_from tags_of (PTee l r) (STwo sl sr) es =
    zip_app (run_from tags_of l sl es) (run_from tags_of r sr es).
Proof. exact run_tee. Qed.

Theorem C13_or_exactly_one :
  forall tags_of m l r es sl sr,
    run_from tags_of (POr m l r) (STwo sl sr) es =
    merge_or m es (run_from tags_of l sl (filter (goes_left m) es))
                  (run_from tags_of r sr (filter (fun e => negb (goes_left m e)) es)).
Proof. exact run_or. Qed.

Theorem C13_discard_arbitrary_transparent :
  forall tags_of q es sq, run_from tags_of (PDiscardArb q) (SOne sq) es = run_from tags_of q sq es.
Proof. exact run_discard_arb. Qed.

Theorem C13_discard_stats_transparent :
  forall tags_of q es sq, run_from tags_of (PDiscardStats q) (SOne sq) es = run_from tags_of q sq es.
Proof. exact run_discard_stats. Qed.

(* [definitional] unfolds the model's own definition: a pinned reading of the model (it breaks when the model is edited),
   not evidence for the property by itself — the model is tied to the code by the correspondence check *)
Theorem C13_stats_tee_max : forall l r, stats (PTee l r) = cmap2 N.max (stats l) (stats r).
Proof. exact stats_tee. Qed.

(* [definitional] unfolds the model's own definition: a pinned reading of the model (it breaks when the model is edited),
   not evidence for the property by itself — the model is tied to the code by the correspondence check *)
Theorem C13_stats_or_sum : forall m l r, stats (POr m l r) = cmap2 N.add (stats l) (stats r).
Proof. exact stats_or. Qed.

Theorem C13_verdict_tee :
  forall l r, exec_failed (PTee l r) = (has_failed (stats l) || has_failed (stats r))%bool.
Proof. exact failed_tee. Qed.

Theorem C13_verdict_or :
  forall m l r, exec_failed (POr m l r) = (has_failed (stats l) || has_failed (stats r))%bool.
Proof. exact failed_or. Qed.

(* [definitional] unfolds the model's own definition: a pinned reading of the model (it breaks when the model is edited),
   not evidence for the property by itself — the model is tied to the code by the correspondence check *)
Theorem C13_write_tee_both :
  forall l r a b, write_to l = Some a -> write_to r = Some b -> write_to (PTee l r) = Some (a ++ b).
Proof. exact write_tee. Qed.

Example C13_nonvacuous :
  let tags := fun (_ : N) (_ : option N) (s : N) => if s =? 7 then [lit "allow.skipped"] else [] in
  let sk := fun s m => (m, EvScen 1 None s None (ScStep 9 StSkipped)) in
  let c := mk_counters 0 0 0 0 0 0 in
  concat (run tags (PRepeat FSkipped (PFos FosDefault (PLeaf 0 c))) [sk 7 1; sk 8 2; (3, EvFinished)]) =
  [(0, sk 7 1); (0, (2, EvScen 1 None 8 None (ScStep 9 (StFailed ENotFound)))); (0, (3, EvFinished));
   (0, sk 7 1); (0, (2, EvScen 1 None 8 None (ScStep 9 (StFailed ENotFound))))].
Proof. vm_compute. reflexivity. Qed.
