(* Props/C06.v — property C06: never more scenarios in flight than the concurrency limit. *)
From CV Require Proofs.ReviewP3.
From CV Require Proofs.SchedP12.
From CV Require Import Model.Base Model.Events Model.Sched Proofs.BaseP Proofs.SchedP Proofs.SchedP2.

(* for every limit k, every label list (= every input, every completion order, any length): at most k attempts
   are dispatched and not yet consumed ... *)
Theorem C06_running_bounded :
  forall c k ls s o, cf_concurrency c = Some k -> exec c ls = Some (s, o) -> (length (running s) <= k)%nat.
Proof. exact running_bounded. Qed.

(* ... hence on the emitted stream, after any label list (every prefix of a run is a run), the attempts
   between their Started and Finished events number at most k *)
Theorem C06_in_flight_bounded :
  forall c k ls s tr, cf_concurrency c = Some k -> exec c ls = Some (s, tr) ->
    (n_started tr - n_finished tr <= k)%nat.
Proof. exact in_flight_bounded. Qed.

(* the slot counter is exact: free slots + running = k while the flow is not broken *)
Theorem C06_slot_accounting :
  forall c ls s o, exec c ls = Some (s, o) -> slots_ok (cf_concurrency c) s.
Proof. intros c ls s o H. exact (proj1 (exec_from_inv (cf_concurrency c) c ls _ _ _ (init_inv c) H)). Qed.

(* "fills the free slots": a loop turn hands out ready entries up to the number of free slots; entries still
   waiting for a retry delay never block ready ones behind them *)
Theorem C06_ready_entries_not_blocked :
  forall now w n md e t,
    Forall (fun x => left_until now x <> None) w -> left_until now e = None -> n <> Some 0%nat ->
    hd_error (fst (fst (take_ready n now md (w ++ e :: t)))) = Some e.
Proof. exact take_ready_skips_waiting. Qed.

Example C06_nonvacuous :
  let f := mk_sfeature 1 [mk_sscen 11 None false None; mk_sscen 12 None false None; mk_sscen 13 None false None] 0 3 in
  match exec (mk_cfg (Some 2%nat) false) [LFeature f; LParserEnd; LTop; LAttStart (11, 0); LAttStart (12, 0)] with
  | Some (s, tr) => (length (running s), n_started tr)
  | None => (0%nat, 0%nat)
  end = (2%nat, 2%nat).
Proof. vm_compute. reflexivity. Qed.

(* "FILLS THE FREE SLOTS", as a postcondition of every loop turn (any pc, also the turn that has just drained the
   completion notices): if the turn handed out no serial entry, then afterwards either the flow is broken, or no slot
   is free, or every concurrent entry still queued is waiting for its retry delay — a ready entry is never left behind
   next to a free slot. (When nothing is running a ready serial entry is preferred and runs alone: C07.) *)
Theorem C06_loop_turn_fills_the_free_slots :
  forall c s s' o, typed_ok s -> step c s LTop = Some (s', o) ->
    (forall e, In (e, Dispatched) (running s') -> e_serial e = false) ->
    flow s' = Break \/ flow s' = Cont (Some 0%nat) \/ Forall (SchedP12.waiting (now s)) (qC s').
Proof. exact SchedP12.step_top_fills. Qed.
Print Assumptions C06_loop_turn_fills_the_free_slots.

(* what one hand-out takes: exactly the first n ready entries, in order *)
Theorem C06_take_ready_exact :
  forall l n now md a b m, take_ready n now md l = (a, b, m) ->
    a = SchedP12.take_opt n (filter (SchedP12.ready now) l) /\
    ((exists k, n = Some k /\ length a = k) \/ Forall (SchedP12.waiting now) b) /\
    Permutation.Permutation l (a ++ b).
Proof. exact SchedP12.take_ready_post. Qed.


(* ---------- "With a limit of 1 scenario attempts run strictly one after another, so the events of different attempts never
   interleave" — on the EMITTED STREAM of every run, no hypothesis on the input (review L4) ---------- *)
Theorem C06_limit_one_no_interleaving :
  forall c ls s tr, exec c ls = Some (s, tr) -> cf_concurrency c = Some 1%nat -> ReviewP3.no_interleaving tr = true.
Proof. exact ReviewP3.limit_one_no_interleaving. Qed.
Print Assumptions C06_limit_one_no_interleaving.

(* in plain words: between the Started of an attempt and its Finished every scenario event is that attempt's own *)
Theorem C06_limit_one_attempts_never_interleave :
  forall c ls s tr, exec c ls = Some (s, tr) -> cf_concurrency c = Some 1%nat ->
    forall pre f r sid rt mid post, tr = pre ++ EvScen f r sid rt ScStarted :: mid ++ post ->
      (forall f' r', ~ In (EvScen f' r' sid rt ScFinished) mid) ->
      forall f' r' s' rt' x, In (EvScen f' r' s' rt' x) mid -> s' = sid /\ rt' = rt /\ is_middle x = true.
Proof. exact ReviewP3.limit_one_attempts_never_interleave. Qed.
Print Assumptions C06_limit_one_attempts_never_interleave.

(* for EVERY limit K: the open attempts of the stream, followed by key (scenario, retries), never exceed K, every Finished
   and every middle event belongs to an open attempt — no hypothesis on the input (duplicate ids included) *)
Theorem C06_stream_attempt_brackets_within_the_limit :
  forall c ls s tr, exec c ls = Some (s, tr) -> ReviewP3.att_walk (cf_concurrency c) tr = true.
Proof. exact ReviewP3.stream_att_walk. Qed.
Print Assumptions C06_stream_attempt_brackets_within_the_limit.
