(* Props/C05.v — property C05: retries. *)
From CV Require Proofs.Compose2.
From CV Require Proofs.ReviewP.
From CV Require Proofs.SchedP13.
From CV Require Import Model.Base Model.Events Model.Attempt Model.Sched Proofs.BaseP Proofs.AttemptP Proofs.SchedP Proofs.SchedP2
  Proofs.SchedP8.

(* an attempt asks for a retry exactly when it failed (failed step, failed hook, failed World creation) and
   retries are left; the counters move by one: attempt k carries (k, N-k) *)
(* [definitional] unfolds the model's own definition: a pinned reading of the model (it breaks when the model is edited),
   not evidence for the property by itself — the model is tied to the code by the correspondence check *)
Theorem C05_attempt_retry_decision :
  forall i, ao_retry (run_attempt i) =
    match ai_retr i with
    | Some (cur, lft) => if ao_failed (run_attempt i) && (0 <? lft) then Some (cur + 1, lft - 1) else None
    | None => None
    end.
Proof. exact retry_spec. Qed.

(* the scheduler re-queues exactly then, with those counters, stamped with the time the failed attempt ended *)
(* [definitional] unfolds the model's own definition: a pinned reading of the model (it breaks when the model is edited),
   not evidence for the property by itself — the model is tied to the code by the correspondence check *)
Theorem C05_requeue :
  forall e failed now,
    next_try e failed now =
    match e_retr e with
    | Some (c, l) =>
      if failed && (0 <? l)
      then Some (mk_entry (e_f e) (e_r e) (e_s e) (e_serial e) (Some (c + 1, l - 1)) (e_delay e) (Some now) (e_nf e) (e_nr e))
      else None
    | None => None
    end.
Proof. exact next_try_spec. Qed.

(* a re-queued entry is dispatched only after its delay has STRICTLY elapsed since that time *)
Theorem C05_not_before_delay :
  forall s e d b, typed_ok s ->
    In e (fst (fst (fst (get (match flow s with Break => Some 0%nat | Cont k => k end) s)))) ->
    e_delay e = Some d -> e_base e = Some b -> d < now s - b.
Proof. exact dispatched_after_delay. Qed.

(* meanwhile the others keep running: waiting entries never block ready ones *)
Theorem C05_others_keep_running :
  forall now w n md e t,
    Forall (fun x => left_until now x <> None) w -> left_until now e = None -> n <> Some 0%nat ->
    hd_error (fst (fst (take_ready n now md (w ++ e :: t)))) = Some e.
Proof. exact take_ready_skips_waiting. Qed.

(* AT MOST N+1 ATTEMPTS, whole run: for every configuration and every label list (any parser timing, any order of
   completion, any delays), the number of Started events of scenario x never exceeds the budget the input gives it:
   one attempt plus the retries of each supplied scenario with that id ... *)
Theorem C05_at_most_n_plus_1_attempts :
  forall c ls s tr x, exec c ls = Some (s, tr) -> starts_of x tr <= budget_of x ls.
Proof. exact attempts_per_scenario_bounded. Qed.
Print Assumptions C05_at_most_n_plus_1_attempts.

(* ... which, when the id is supplied once, is exactly 1 + its retries *)
Theorem C05_budget_is_n_plus_1 :
  forall x F sc pre post a b,
    sf_scens F = a ++ sc :: b -> ss_id sc = x -> (forall sc', In sc' (a ++ b) -> ss_id sc' <> x) ->
    (forall l, In l (pre ++ post) -> bl (N.eqb x) l = 0) ->
    budget_of x (pre ++ LFeature F :: post) = 1 + match ss_retry sc with Some (l, _) => l | None => 0 end.
Proof. exact budget_of_single. Qed.

Example C05_budget_nonvacuous :
  let f := mk_sfeature 1 [mk_sscen 11 None false (Some (2, None)); mk_sscen 12 None false None] 0 2 in
  let ls := [LFeature f; LParserEnd; LTop; LAttStart (11, 0); LAttEnd (11, 0) true; LTop; LAttStart (11, 1);
             LAttEnd (11, 1) true; LTop; LAttStart (11, 2)] in
  match exec (mk_cfg (Some 1%nat) false) ls with
  | Some (s, tr) => (starts_of 11 tr, budget_of 11 ls, starts_of 12 tr, budget_of 12 ls)
  | None => (0, 0, 0, 0)
  end = (3, 3, 0, 1).
Proof. vm_compute. reflexivity. Qed.

(* "ATTEMPTED AGAIN EXACTLY WHEN IT FAILED AND RETRIES ARE LEFT", on whole runs of the scheduler model, for every
   configuration and label list (duplicate ids included).
   ONLY WHEN: a Started event of attempt cu+1 is preceded in the stream by the Finished event of attempt cu of the
   same scenario, emitted by an LAttEnd label with failed = true ... *)
Theorem C05_retry_only_after_failure :
  forall c ls s tr, exec c ls = Some (s, tr) ->
  forall pre post f r sc cu l,
    tr = pre ++ EvScen f r sc (Some (cu+1, l)) ScStarted :: post ->
    exists ls1 ls2 s1 tr1 s2 mid,
      ls = ls1 ++ LAttEnd (sc, cu) true :: ls2 /\
      exec c ls1 = Some (s1, tr1) /\
      step c s1 (LAttEnd (sc, cu) true) = Some (s2, [EvScen f r sc (Some (cu, l+1)) ScFinished]) /\
      pre = tr1 ++ EvScen f r sc (Some (cu, l+1)) ScFinished :: mid.
Proof. exact SchedP13.retry_only_after_failure. Qed.
Print Assumptions C05_retry_only_after_failure.

(* ... WHENEVER: if the run has ended without being tripped by fail-fast, every failed attempt with retries left is
   followed, after its Finished, by the Started event of the next attempt, carrying (current+1, left-1) *)
Theorem C05_failure_with_retries_left_is_retried :
  forall c ls1 k ls2 s tr s1 tr1 s2 f r sc cu l,
    exec c (ls1 ++ LAttEnd k true :: ls2) = Some (s, tr) -> pc s = Done -> flow s <> Break ->
    exec c ls1 = Some (s1, tr1) ->
    step c s1 (LAttEnd k true) = Some (s2, [EvScen f r sc (Some (cu, l)) ScFinished]) ->
    0 < l ->
    exists mid post,
      tr = tr1 ++ EvScen f r sc (Some (cu, l)) ScFinished
               :: mid ++ EvScen f r sc (Some (cu+1, l-1)) ScStarted :: post.
Proof. exact SchedP13.failure_with_retries_left_is_retried. Qed.
Print Assumptions C05_failure_with_retries_left_is_retried.


(* ---------- the same with "the run was not tripped by fail-fast" stated on the CONFIGURATION (review finding M3):
   without fail-fast the flow never breaks (`C04_without_fail_fast_the_flow_never_breaks`), hence *)
Theorem C05_without_fail_fast_failure_with_retries_left_is_retried :
  forall c ls1 k ls2 s tr s1 tr1 s2 f r sc cu l,
    cf_fail_fast c = false ->
    exec c (ls1 ++ LAttEnd k true :: ls2) = Some (s, tr) -> pc s = Done ->
    exec c ls1 = Some (s1, tr1) ->
    step c s1 (LAttEnd k true) = Some (s2, [EvScen f r sc (Some (cu, l)) ScFinished]) ->
    0 < l ->
    exists mid post,
      tr = tr1 ++ EvScen f r sc (Some (cu, l)) ScFinished
               :: mid ++ EvScen f r sc (Some (cu+1, l-1)) ScStarted :: post.
Proof. exact ReviewP.failure_with_retries_left_is_retried_no_ff. Qed.
Print Assumptions C05_without_fail_fast_failure_with_retries_left_is_retried.


(* ---------- SCHEDULER x ATTEMPT (review finding H2) ----------
   In `Sched.v` the flag of `LAttEnd k failed` and the middle events of an attempt are free labels, so the two theorems
   above say "retried iff the LABEL said failed". `Compose2.faithful inp ls` requires the labels of every attempt k to be
   an execution of the attempt model `run_attempt (inp k)` (its events, in order, and its `ao_failed` flag; an attempt in
   flight has emitted a prefix). Then the flag is what the EVENTS IN THE STREAM show: *)
Theorem C05_attempt_failed_iff_its_events_show_a_failure :
  forall i, ao_failed (run_attempt i) = Compose2.failed_evs (ao_events (run_attempt i)).
Proof. exact Compose2.failed_flag_is_failed_evs. Qed.
Print Assumptions C05_attempt_failed_iff_its_events_show_a_failure.

Theorem C05_flag_is_what_the_stream_shows :
  forall c ls s tr inp k b,
    exec c ls = Some (s, tr) -> Compose2.faithful inp ls -> In (LAttEnd k b) ls ->
    b = Compose2.failed_evs (SchedP9.out_evs k tr).
Proof. exact Compose2.flag_is_what_the_stream_shows. Qed.
Print Assumptions C05_flag_is_what_the_stream_shows.

(* ONLY WHEN, on the stream alone: the Started of attempt cu+1 is preceded by the Finished of attempt cu, and the events
   of attempt cu in the stream contain a Failed step / hook event (failed step, failed hook or failed World creation) *)
Theorem C05_retried_attempt_had_visibly_failed :
  forall c ls s tr inp, exec c ls = Some (s, tr) -> Compose2.faithful inp ls ->
    forall pre post f r sc cu l,
      tr = pre ++ EvScen f r sc (Some (cu + 1, l)) ScStarted :: post ->
      In (EvScen f r sc (Some (cu, l + 1)) ScFinished) pre /\ Compose2.failed_evs (SchedP9.out_evs (sc, cu) pre) = true.
Proof. exact Compose2.retried_attempt_had_visibly_failed. Qed.
Print Assumptions C05_retried_attempt_had_visibly_failed.

Theorem C05_passed_attempt_is_never_retried :
  forall c ls s tr inp sc cu, exec c ls = Some (s, tr) -> Compose2.faithful inp ls ->
    Compose2.failed_evs (SchedP9.out_evs (sc, cu) tr) = false ->
    forall f r l, ~ In (EvScen f r sc (Some (cu + 1, l)) ScStarted) tr.
Proof. exact Compose2.passed_attempt_is_never_retried. Qed.
Print Assumptions C05_passed_attempt_is_never_retried.

(* WHENEVER, on the stream alone: in a complete run not tripped by fail-fast, an attempt whose events show a failure and
   whose Finished carries retries left is followed by the Started of the next attempt with (current+1, left-1) *)
Theorem C05_visible_failure_with_retries_left_is_retried :
  forall c ls s tr inp, exec c ls = Some (s, tr) -> Compose2.faithful inp ls -> pc s = Done -> flow s <> Break ->
    forall pre post f r sc cu l,
      tr = pre ++ EvScen f r sc (Some (cu, l)) ScFinished :: post -> 0 < l ->
      Compose2.failed_evs (SchedP9.out_evs (sc, cu) tr) = true ->
      exists mid post', post = mid ++ EvScen f r sc (Some (cu + 1, l - 1)) ScStarted :: post'.
Proof. exact Compose2.visible_failure_with_retries_left_is_retried. Qed.
Print Assumptions C05_visible_failure_with_retries_left_is_retried.

(* `faithful` is satisfiable (a run with a retried scenario and hooks), decidable (`faithfulb`), and it excludes exactly the
   reviewer's counter-examples: a failing step with a retry left whose label says "not failed", and a passed attempt
   whose label says "failed" *)
Example C05_faithful_nonvacuous :
  Compose2.faithful Compose2.cInp Compose2.cLabels /\
  (forall inp, ~ Compose2.faithful inp Compose2.cx1) /\ (forall inp, ~ Compose2.faithful inp Compose2.cx2).
Proof. exact (conj Compose2.cLabels_faithful (conj Compose2.cx1_is_unfaithful Compose2.cx2_is_unfaithful)). Qed.


(* ... and with "not tripped by fail-fast" on the configuration (the bridge of `C04_without_fail_fast_the_flow_never_breaks`) *)
Theorem C05_without_fail_fast_visible_failure_with_retries_left_is_retried :
  forall c ls s tr inp, cf_fail_fast c = false ->
    exec c ls = Some (s, tr) -> Compose2.faithful inp ls -> pc s = Done ->
    forall pre post f r sc cu l,
      tr = pre ++ EvScen f r sc (Some (cu, l)) ScFinished :: post -> 0 < l ->
      Compose2.failed_evs (SchedP9.out_evs (sc, cu) tr) = true ->
      exists mid post', post = mid ++ EvScen f r sc (Some (cu + 1, l - 1)) ScStarted :: post'.
Proof.
  intros c ls s tr inp FF H F D.
  exact (Compose2.visible_failure_with_retries_left_is_retried c ls s tr inp H F D (ReviewP.no_fail_fast_no_break c ls s tr FF H)).
Qed.
Print Assumptions C05_without_fail_fast_visible_failure_with_retries_left_is_retried.
