(* Props/C05.v — property C05: retries. *)
From CV Require Import Model.Base Model.Events Model.Attempt Model.Sched Proofs.BaseP Proofs.AttemptP Proofs.SchedP Proofs.SchedP2.

(* an attempt asks for a retry exactly when it failed (failed step, failed hook, failed World creation) and
   retries are left; the counters move by one: attempt k carries (k, N-k) *)
Theorem C05_attempt_retry_decision :
  forall i, ao_retry (run_attempt i) =
    match ai_retr i with
    | Some (cur, lft) => if ao_failed (run_attempt i) && (0 <? lft) then Some (cur + 1, lft - 1) else None
    | None => None
    end.
Proof. exact retry_spec. Qed.

(* the scheduler re-queues exactly then, with those counters, stamped with the time the failed attempt ended *)
Theorem C05_requeue :
  forall e failed now,
    next_try e failed now =
    match e_retr e with
    | Some (c, l) =>
      if failed && (0 <? l)
      then Some (mk_entry (e_f e) (e_r e) (e_s e) (e_serial e) (Some (c + 1, l - 1)) (e_delay e) (Some now) (e_nf e) (e_nr e))
      else None
    | None => None
    end.
Proof. exact next_try_spec. Qed.

(* a re-queued entry is dispatched only after its delay has STRICTLY elapsed since that time *)
Theorem C05_not_before_delay :
  forall s e d b, typed_ok s ->
    In e (fst (fst (fst (get (match flow s with Break => Some 0%nat | Cont k => k end) s)))) ->
    e_delay e = Some d -> e_base e = Some b -> d < now s - b.
Proof. exact dispatched_after_delay. Qed.

(* meanwhile the others keep running: waiting entries never block ready ones *)
Theorem C05_others_keep_running :
  forall now w n md e t,
    Forall (fun x => left_until now x <> None) w -> left_until now e = None -> n <> Some 0%nat ->
    hd_error (fst (fst (take_ready n now md (w ++ e :: t)))) = Some e.
Proof. exact take_ready_skips_waiting. Qed.
