(* Props/C03.v — property C03: event stream framing. *)
From CV Require Proofs.FramingP.
From CV Require Import Model.Base Model.Events Model.Contract Model.Sched Proofs.BaseP Proofs.SchedP Proofs.SchedP2 Proofs.SchedP3
  Proofs.SchedP4 Proofs.SchedP7.

(* the counters announced by ParsingFinished are the sums over what was actually ingested, whatever the
   interleaving with execution *)
Theorem C03_parsing_finished_counts :
  forall c ls s tr, exec c ls = Some (s, tr) -> pf s = fold_left pf_add ls (0, 0, 0, 0, 0).
Proof. intros c ls s tr H. exact (pf_counts c ls _ _ _ H). Qed.

(* [definitional] unfolds the model's own definition: a pinned reading of the model (it breaks when the model is edited),
   not evidence for the property by itself — the model is tied to the code by the correspondence check *)
Theorem C03_parsing_finished_event :
  forall c s s' o, step c s LParserEnd = Some (s', o) ->
    o = [let '(a, b, c0, d, e) := pf s in EvParsingFinished a b c0 d e] /\ pdone s = false /\ pdone s' = true.
Proof. exact parser_end_event. Qed.

(* run-Finished is final: once the loop has ended no label emits anything any more *)
Theorem C03_nothing_after_finished :
  forall K c s l s' o, Inv K s -> frame_ok s -> pc s = Done -> step c s l = Some (s', o) -> o = [] /\ pc s' = Done.
Proof. exact done_is_silent. Qed.

(* loop turns emit run / feature / rule brackets only; scenario events come from attempts that are running *)
Theorem C03_scenario_events_only_from_running :
  forall c s l s' o, step c s l = Some (s', o) ->
    (forall x, In x o -> match x with EvScen _ _ _ _ _ => False | _ => True end) \/
    (exists e p, In (e, p) (running s) /\ emits_for e o).
Proof. exact step_scen_events. Qed.

(* THE FRAMING CONTRACT, whole run: whatever the parser delivers (distinct features, distinct scenarios) and however
   it is interleaved with execution, in whatever order attempts are polled, fail, are retried and complete, under any
   concurrency limit and with or without fail-fast, the stream emitted so far is accepted by the contract automaton
   (Model/Contract.v: Started once and first among the brackets, every Feature/Rule Started exactly once before and
   Finished exactly once after all events of its scenarios, every scenario event inside an open attempt of an open
   rule/feature, attempt k+1 only after attempt k closed, nothing after run-Finished) — and once the loop has ended
   the stream is a COMPLETE run: closed by run-Finished with every opened bracket closed *)
Theorem C03_stream_satisfies_the_contract :
  forall cf ls s tr, exec cf ls = Some (s, tr) -> NoDup (feature_ids ls) -> NoDup (inserted_ids ls) ->
    contract_prefix tr = true /\ (pc s = Done -> contract tr = true).
Proof. exact exec_satisfies_contract. Qed.
Print Assumptions C03_stream_satisfies_the_contract.

(* the hypotheses are met by a run with a rule, a retried failing scenario, two concurrent attempts and a normal end *)
Example C03_nonvacuous :
  let f := mk_sfeature 1 [mk_sscen 11 None false (Some (1, None)); mk_sscen 12 (Some 5) false None] 1 3 in
  let ls := [LFeature f; LTop; LAttStart (11, 0); LAttStart (12, 0); LAttEv (11, 0) (ScStep 7 StStarted);
             LAttEnd (11, 0) true; LParserEnd; LTop; LAttEnd (12, 0) false; LTop; LAttStart (11, 1);
             LAttEnd (11, 1) false; LTop] in
  match exec (mk_cfg (Some 2%nat) false) ls with
  | Some (s, tr) => (match pc s with Done => true | _ => false end, contract tr, N.of_nat (length tr))
  | None => (false, false, 0)
  end = (true, true, 14) /\ NoDup (feature_ids ls) /\ NoDup (inserted_ids ls).
Proof.
  split; [vm_compute; reflexivity|]. split; cbn; repeat constructor; cbn; intuition discriminate.
Qed.


(* ---------- THE FRAMING CLAUSES THE CONTRACT AUTOMATON DOES NOT DEMAND (review finding M4) ----------
   `contract` accepts a stream with no ParsingFinished, a parser error after ParsingFinished, and empty brackets.
   `FramingP.framing_ok` is a second executable recogniser for exactly these clauses (parser automaton: at most one
   ParsingFinished, no parser error after it, its error count = the errors seen, none missing at run-Finished, nothing
   after run-Finished; bracket automata: a Feature / Rule Finished only after a scenario event of that feature / rule
   inside the bracket). Every run satisfies it; no hypothesis on the input (duplicate ids included). *)
Theorem C03_framing_of_every_run :
  forall c ls s tr, exec c ls = Some (s, tr) -> FramingP.framing_prefix tr = true.
Proof. exact FramingP.framing_prefix_holds. Qed.
Print Assumptions C03_framing_of_every_run.

Theorem C03_framing_of_every_complete_run :
  forall c ls s tr, exec c ls = Some (s, tr) -> pc s = Done -> FramingP.framing_ok_for ls tr = true.
Proof. exact FramingP.framing_ok_for_holds. Qed.
Print Assumptions C03_framing_of_every_complete_run.

(* the same as plain statements about lists. "Every parser error exactly once and in order": *)
Theorem C03_parser_errors_exactly_once_in_order :
  forall c ls s tr, exec c ls = Some (s, tr) -> FramingP.perrs_tr tr = FramingP.perrs_of ls.
Proof. exact FramingP.parser_errors_exact. Qed.
Print Assumptions C03_parser_errors_exactly_once_in_order.

(* "exactly one ParsingFinished after them whose counts equal the features, rules, scenarios, steps and parser errors
   actually received": at most one in every prefix, nothing of the parser after it, the counts of the INPUT ... *)
Theorem C03_parsing_finished_once_after_the_errors_with_the_counts_of_the_input :
  forall c ls s tr p a b c0 d e q,
    exec c ls = Some (s, tr) -> tr = p ++ EvParsingFinished a b c0 d e :: q ->
    (forall x, In x p -> FramingP.is_pf x = false) /\ (forall x, In x q -> FramingP.parser_ev x = false) /\
    e = N.of_nat (length (FramingP.perrs_tr tr)) /\ FramingP.perrs_tr tr = FramingP.perrs_of ls /\
    (a, b, c0, d, e) = FramingP.counts_of ls.
Proof. exact FramingP.run_parsing_finished_once. Qed.
Print Assumptions C03_parsing_finished_once_after_the_errors_with_the_counts_of_the_input.

(* ... and exactly one in a complete run, then exactly one run-Finished, last *)
Theorem C03_complete_run_shape :
  forall c ls s tr, exec c ls = Some (s, tr) -> pc s = Done ->
    exists p q, let '(a, b, c0, d, e) := FramingP.counts_of ls in
      tr = p ++ EvParsingFinished a b c0 d e :: q ++ [EvFinished] /\
      (forall x, In x p -> FramingP.is_pf x = false /\ x <> EvFinished) /\
      (forall x, In x q -> FramingP.parser_ev x = false /\ x <> EvFinished) /\
      FramingP.perrs_tr p = FramingP.perrs_of ls.
Proof. exact FramingP.run_complete_shape. Qed.
Print Assumptions C03_complete_run_shape.

(* "Features and rules with nothing to run produce no bracket at all": a bracket that closes contains a scenario event *)
Theorem C03_no_empty_feature_bracket :
  forall c ls s tr pre f post, exec c ls = Some (s, tr) -> tr = pre ++ EvFeatF f :: post ->
    exists p1 p2 r sc rt x p3, pre = p1 ++ EvFeatS f :: p2 ++ EvScen f r sc rt x :: p3 /\
      ~ In (EvFeatS f) (p2 ++ EvScen f r sc rt x :: p3) /\ ~ In (EvFeatF f) (p2 ++ EvScen f r sc rt x :: p3).
Proof. exact FramingP.run_feature_bracket_not_empty. Qed.
Print Assumptions C03_no_empty_feature_bracket.

Theorem C03_no_empty_rule_bracket :
  forall c ls s tr pre f r post, exec c ls = Some (s, tr) -> tr = pre ++ EvRuleF f r :: post ->
    exists p1 p2 sc rt x p3, pre = p1 ++ EvRuleS f r :: p2 ++ EvScen f (Some r) sc rt x :: p3 /\
      ~ In (EvRuleS f r) (p2 ++ EvScen f (Some r) sc rt x :: p3) /\ ~ In (EvRuleF f r) (p2 ++ EvScen f (Some r) sc rt x :: p3).
Proof. exact FramingP.run_rule_bracket_not_empty. Qed.
Print Assumptions C03_no_empty_rule_bracket.

(* the three streams the reviewer showed `contract` to accept are rejected; a run with a rule, a retry, two concurrent
   attempts and a parser error is accepted *)
Example C03_framing_is_discriminating :
  FramingP.framing_ok [EvStarted; EvFinished] = false /\
  FramingP.framing_ok [EvStarted; EvParsingFinished 0 0 0 0 0; EvParseErr 1; EvFinished] = false /\
  FramingP.framing_ok [EvStarted; EvFeatS 1; EvRuleS 1 2; EvRuleF 1 2; EvFeatF 1; EvFinished] = false.
Proof. vm_compute. repeat split; reflexivity. Qed.
