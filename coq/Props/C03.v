(* Props/C03.v — property C03: event stream framing. *)
From CV Require Import Model.Base Model.Events Model.Sched Proofs.BaseP Proofs.SchedP Proofs.SchedP2 Proofs.SchedP3.

(* the counters announced by ParsingFinished are the sums over what was actually ingested, whatever the
   interleaving with execution *)
Theorem C03_parsing_finished_counts :
  forall c ls s tr, exec c ls = Some (s, tr) -> pf s = fold_left pf_add ls (0, 0, 0, 0, 0).
Proof. intros c ls s tr H. exact (pf_counts c ls _ _ _ H). Qed.

Theorem C03_parsing_finished_event :
  forall c s s' o, step c s LParserEnd = Some (s', o) ->
    o = [let '(a, b, c0, d, e) := pf s in EvParsingFinished a b c0 d e] /\ pdone s = false /\ pdone s' = true.
Proof. exact parser_end_event. Qed.

(* run-Finished is final: once the loop has ended no label emits anything any more *)
Theorem C03_nothing_after_finished :
  forall K c s l s' o, Inv K s -> frame_ok s -> pc s = Done -> step c s l = Some (s', o) -> o = [] /\ pc s' = Done.
Proof. exact done_is_silent. Qed.

(* loop turns emit run / feature / rule brackets only; scenario events come from attempts that are running *)
Theorem C03_scenario_events_only_from_running :
  forall c s l s' o, step c s l = Some (s', o) ->
    (forall x, In x o -> match x with EvScen _ _ _ _ _ => False | _ => True end) \/
    (exists e p, In (e, p) (running s) /\ emits_for e o).
Proof. exact step_scen_events. Qed.
