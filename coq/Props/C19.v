(* Props/C19.v — property C19: step attributes dispatch functions as written (the generated glue). *)
From CV Require Proofs.ReviewP Check.C19Check.
From CV Require Import Model.Base Model.Glue Proofs.BaseP Proofs.GlueP.

(* on a match the function receives the capture groups parsed with FromStr, in declaration order, one each *)
Theorem C19_args_in_order :
  forall parse tys it i,
    Forall plain it -> (length tys <= length it)%nat ->
    (forall ty c, In ty tys -> In c it -> parse ty (snd c) <> None) ->
    exists ds, extract_args parse i (map ATyped tys) it = ORan ds /\ length ds = length tys /\
               forall k ty c, nth_error tys k = Some ty -> nth_error it k = Some c -> nth_error ds k = parse ty (snd c).
Proof. exact args_in_order. Qed.

(* or all of them as a slice *)
Theorem C19_slice_gets_all :
  forall parse it fuel ty i,
    Forall plain it -> (length it <= fuel)%nat -> (forall c, In c it -> parse ty (snd c) <> None) ->
    exists ds, extract_slice parse fuel i ty it = ORan ds /\ length ds = length it /\
               forall k c, nth_error it k = Some c -> nth_error ds k = parse ty (snd c).
Proof. exact slice_gets_all. Qed.

(* a parse failure makes the step fail rather than being ignored; so do missing groups *)
Theorem C19_parse_failure_panics :
  forall parse tys1 ty tys2 it1 c it2 i,
    Forall plain (it1 ++ c :: it2) -> length it1 = length tys1 ->
    (forall k t x, nth_error tys1 k = Some t -> nth_error it1 k = Some x -> parse t (snd x) <> None) ->
    parse ty (snd c) = None ->
    extract_args parse i (map ATyped (tys1 ++ ty :: tys2)) (it1 ++ c :: it2) = OParseFailed (i + length tys1).
Proof. exact parse_failure_panics. Qed.

Theorem C19_too_few_groups_panics :
  forall parse tys ty it i,
    Forall plain it -> length it = length tys ->
    (forall k t x, nth_error tys k = Some t -> nth_error it k = Some x -> parse t (snd x) <> None) ->
    extract_args parse i (map ATyped (tys ++ [ty])) it = ONotFound (i + length tys).
Proof. exact too_few_groups_panics. Qed.

Example C19_nonvacuous :
  run_glue (fun _ s => Some s) (SArgs [ATyped 5; ATyped 2])
           [(None, lit "an dog and 3"); (Some (lit "__0_0"), []); (Some (lit "__0_1"), lit "dog"); (None, lit "3")]
  = ORan [lit "dog"; lit "3"].
Proof. vm_compute. reflexivity. Qed.


(* ---------- the statements asked for by the review of the statements (finding H5) ----------
   `C19_args_in_order` above demands that EVERY type parses EVERY group; only equal positions matter: *)
Theorem C19_args_positionwise :
  forall parse tys it i,
    Forall plain it -> (length tys <= length it)%nat ->
    (forall k ty c, nth_error tys k = Some ty -> nth_error it k = Some c -> parse ty (snd c) <> None) ->
    exists ds, extract_args parse i (map ATyped tys) it = ORan ds /\ length ds = length tys /\
               forall k ty c, nth_error tys k = Some ty -> nth_error it k = Some c -> nth_error ds k = parse ty (snd c).
Proof. exact ReviewP.args_in_order_nth. Qed.
Print Assumptions C19_args_positionwise.

(* the (u32, String) function on "3 and dog", which the old hypothesis excluded *)
Example C19_positionwise_nonvacuous :
  run_glue ReviewP.ex_parse (SArgs [ATyped 1; ATyped 2]) ((None, lit "3 and dog") :: ReviewP.ex_it) = ORan [lit "3"; lit "dog"]
  /\ ~ (forall ty c, In ty [1; 2] -> In c ReviewP.ex_it -> ReviewP.ex_parse ty (snd c) <> None).
Proof. split; [exact ReviewP.ex_u32_string_runs | exact ReviewP.ex_old_hypothesis_fails]. Qed.

(* THE GENERAL FORM: `#[step]` arguments anywhere among the arguments (they consume no group and receive the step),
   and `__N_`-named group families (a multi-group parameter consumes its whole family and passes the first
   non-empty member: `group_text`). `gs` is the segmentation of the captures into maximal families, which
   always exists (`C19_every_capture_list_segments`); the k-th argument, if typed, gets the parse of group number
   "typed arguments before k". *)
Theorem C19_every_capture_list_segments :
  forall it, exists gs, concat gs = it /\ ReviewP.groups_sep gs [].
Proof. exact ReviewP.segmentation_exists. Qed.
Print Assumptions C19_every_capture_list_segments.

Theorem C19_args_with_step_and_families :
  forall parse args gs rest i,
    ReviewP.groups_sep gs rest -> length gs = ReviewP.count_typed args ->
    (forall k ty g, nth_error args k = Some (ATyped ty) ->
                    nth_error gs (ReviewP.count_typed (firstn k args)) = Some g ->
                    parse ty (ReviewP.group_text g) <> None) ->
    exists ds, extract_args parse i args (concat gs ++ rest) = ORan ds /\
      length ds = length args /\
      (forall k, nth_error args k = Some AStep -> nth_error ds k = Some (lit "<step>")) /\
      (forall k ty, nth_error args k = Some (ATyped ty) ->
         exists g, nth_error gs (ReviewP.count_typed (firstn k args)) = Some g /\
                   nth_error ds k = parse ty (ReviewP.group_text g)).
Proof. exact ReviewP.args_general_nth. Qed.
Print Assumptions C19_args_with_step_and_families.

Theorem C19_parse_failure_panics_general :
  forall parse args1 gs1 ds1, ReviewP.passes parse args1 gs1 ds1 ->
    forall ty args2 g rest i,
      ReviewP.groups_sep (gs1 ++ [g]) rest -> parse ty (ReviewP.group_text g) = None ->
      extract_args parse i (args1 ++ ATyped ty :: args2) (concat gs1 ++ g ++ rest)
      = OParseFailed (i + ReviewP.count_typed args1).
Proof. exact ReviewP.parse_failure_general. Qed.
Print Assumptions C19_parse_failure_panics_general.

(* the groups run out at ANY typed argument (not only the last one) *)
Theorem C19_too_few_groups_panics_general :
  forall parse args1 gs1 ds1, ReviewP.passes parse args1 gs1 ds1 ->
    forall ty args2 i, ReviewP.groups_sep gs1 [] ->
      extract_args parse i (args1 ++ ATyped ty :: args2) (concat gs1) = ONotFound (i + ReviewP.count_typed args1).
Proof. exact ReviewP.too_few_groups_general. Qed.
Print Assumptions C19_too_few_groups_panics_general.

(* the slice variant on `run_glue`, with the `#[step]` argument before or after the slice; and its failure *)
Theorem C19_slice_with_step_and_families :
  forall parse ty sf sl gs ds m0,
    Forall2 (fun g d => parse ty (ReviewP.group_text g) = Some d) gs ds -> ReviewP.groups_sep gs [] ->
    run_glue parse (SSlice ty sf sl) (m0 :: concat gs)
    = ORan ((if sf then [lit "<step>"] else []) ++ [join_comma ds] ++ (if sl then [lit "<step>"] else [])).
Proof. exact ReviewP.run_glue_slice. Qed.
Print Assumptions C19_slice_with_step_and_families.

Theorem C19_slice_parse_failure_panics :
  forall parse ty sf sl gs1 ds1 g rest m0,
    Forall2 (fun g d => parse ty (ReviewP.group_text g) = Some d) gs1 ds1 ->
    ReviewP.groups_sep (gs1 ++ [g]) rest -> parse ty (ReviewP.group_text g) = None ->
    run_glue parse (SSlice ty sf sl) (m0 :: concat gs1 ++ g ++ rest) = OParseFailed (length gs1).
Proof. exact ReviewP.run_glue_slice_parse_failure. Qed.
Print Assumptions C19_slice_parse_failure_panics.

(* "a returned Err makes the step fail": the verdict of the correspondence check (Check/C19Check.v, whose
   `expected` is evaluated against the observation of the real generated code) accepts, for a function that
   ran and returned Err, only the observation "the step failed with that Err"; and the expected observation is
   ObErr EXACTLY when the glue ran the function and it returned Err *)
Theorem C19_err_expected_iff_function_returns_err :
  forall c p a att fn args,
    C19Check.pr_cands p = [a] -> find (fun x => (C19Check.at_id x =? a)%N) (C19Check.g_attrs c) = Some att ->
    (fst (C19Check.expected c p) = C19Check.ObErr fn args <->
     fn = C19Check.at_fn att /\
     run_glue (C19Check.parse_of c) (C19Check.at_sig att) (C19Check.pr_matches p) = ORan args /\
     ReviewP.returns_err att args = true).
Proof. exact ReviewP.err_iff_function_returns_err. Qed.
Print Assumptions C19_err_expected_iff_function_returns_err.

Theorem C19_returned_err_must_fail_the_step :
  forall c p a att args,
    C19Check.pr_cands p = [a] -> find (fun x => (C19Check.at_id x =? a)%N) (C19Check.g_attrs c) = Some att ->
    run_glue (C19Check.parse_of c) (C19Check.at_sig att) (C19Check.pr_matches p) = ORan args ->
    ReviewP.returns_err att args = true ->
    C19Check.obs_eqb (fst (C19Check.expected c p)) (C19Check.pr_obs p) = true ->
    C19Check.pr_obs p = C19Check.ObErr (C19Check.at_fn att) args.
Proof. exact ReviewP.returned_err_must_fail_the_step. Qed.
Print Assumptions C19_returned_err_must_fail_the_step.
