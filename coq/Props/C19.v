(* Props/C19.v — property C19: step attributes dispatch functions as written (the generated glue). *)
From CV Require Import Model.Base Model.Glue Proofs.BaseP Proofs.GlueP.

(* on a match the function receives the capture groups parsed with FromStr, in declaration order, one each *)
Theorem C19_args_in_order :
  forall parse tys it i,
    Forall plain it -> (length tys <= length it)%nat ->
    (forall ty c, In ty tys -> In c it -> parse ty (snd c) <> None) ->
    exists ds, extract_args parse i (map ATyped tys) it = ORan ds /\ length ds = length tys /\
               forall k ty c, nth_error tys k = Some ty -> nth_error it k = Some c -> nth_error ds k = parse ty (snd c).
Proof. exact args_in_order. Qed.

(* or all of them as a slice *)
Theorem C19_slice_gets_all :
  forall parse it fuel ty i,
    Forall plain it -> (length it <= fuel)%nat -> (forall c, In c it -> parse ty (snd c) <> None) ->
    exists ds, extract_slice parse fuel i ty it = ORan ds /\ length ds = length it /\
               forall k c, nth_error it k = Some c -> nth_error ds k = parse ty (snd c).
Proof. exact slice_gets_all. Qed.

(* a parse failure makes the step fail rather than being ignored; so do missing groups *)
Theorem C19_parse_failure_panics :
  forall parse tys1 ty tys2 it1 c it2 i,
    Forall plain (it1 ++ c :: it2) -> length it1 = length tys1 ->
    (forall k t x, nth_error tys1 k = Some t -> nth_error it1 k = Some x -> parse t (snd x) <> None) ->
    parse ty (snd c) = None ->
    extract_args parse i (map ATyped (tys1 ++ ty :: tys2)) (it1 ++ c :: it2) = OParseFailed (i + length tys1).
Proof. exact parse_failure_panics. Qed.

Theorem C19_too_few_groups_panics :
  forall parse tys ty it i,
    Forall plain it -> length it = length tys ->
    (forall k t x, nth_error tys k = Some t -> nth_error it k = Some x -> parse t (snd x) <> None) ->
    extract_args parse i (map ATyped (tys ++ [ty])) it = ONotFound (i + length tys).
Proof. exact too_few_groups_panics. Qed.

Example C19_nonvacuous :
  run_glue (fun _ s => Some s) (SArgs [ATyped 5; ATyped 2])
           [(None, lit "an dog and 3"); (Some (lit "__0_0"), []); (Some (lit "__0_1"), lit "dog"); (None, lit "3")]
  = ORan [lit "dog"; lit "3"].
Proof. vm_compute. reflexivity. Qed.
