(* Props/C08.v — property C08: fail-fast. *)
From CV Require Proofs.FramingP.
From CV Require Proofs.Compose2 Model.StatsSpec.
From CV Require Proofs.SchedP12.
From CV Require Import Model.Base Model.Events Model.Contract Model.Sched Proofs.BaseP Proofs.SchedP Proofs.SchedP2 Proofs.SchedP3
  Proofs.SchedP4 Proofs.SchedP7.

(* the drain of finished-messages trips the flow exactly on a final (not retried) failure ... *)
Theorem C08_trips_on_final_failure :
  forall ms fl fc rc, existsb (fun m => m_failed m && negb (m_retried m)) ms = true ->
    snd (fst (fst (drain true ms fl fc rc))) = Break.
Proof. exact drain_trips. Qed.
Theorem C08_retried_failure_does_not_trip :
  forall ff ms fl fc rc, existsb (fun m => m_failed m && negb (m_retried m)) ms = false ->
    snd (fst (fst (drain ff ms fl fc rc))) = fl.
Proof. exact drain_no_trip. Qed.

(* ... once tripped it stays tripped, for every further label ... *)
Theorem C08_break_is_absorbing :
  forall c s l s' o, flow s = Break -> step c s l = Some (s', o) -> flow s' = Break.
Proof. exact step_break. Qed.

(* ... and a loop turn then dispatches nothing: no attempt is added, no bracket is opened *)
Theorem C08_no_dispatch_after_trip :
  forall s, flow s = Break ->
    running (fst (loop_top s)) = running s /\ flow (fst (loop_top s)) = Break /\
    (forall x, In x (snd (loop_top s)) -> match x with EvFeatS _ | EvRuleS _ _ => False | _ => True end).
Proof. exact loop_top_break. Qed.

(* if nothing fails finally and no parser error occurs, a fail-fast run IS the normal run: same states, same stream *)
Theorem C08_same_if_no_failure :
  forall K ls, Forall harmless ls -> exec (mk_cfg K true) ls = exec (mk_cfg K false) ls.
Proof. intros K ls H. apply ff_irrelevant_without_failures; [constructor | exact H]. Qed.

(* a tripped run still ends properly: when the loop has ended — with a broken flow, scenarios left in the queues and
   retries pending — everything that was started has finished and every opened Feature / Rule bracket has been closed
   (finish_all_rules_and_features) before run-Finished: the stream is a complete run of the contract automaton *)
Theorem C08_tripped_run_closes_properly :
  forall K ls s tr, exec (mk_cfg K true) ls = Some (s, tr) -> NoDup (feature_ids ls) -> NoDup (inserted_ids ls) ->
    pc s = Done -> contract tr = true.
Proof. intros K ls s tr H N1 N2 D. exact (proj2 (exec_satisfies_contract _ ls s tr H N1 N2) D). Qed.
Print Assumptions C08_tripped_run_closes_properly.

(* the premises are met by a fail-fast run that trips with a scenario still queued *)
Example C08_tripped_nonvacuous :
  let f := mk_sfeature 1 [mk_sscen 11 None false None; mk_sscen 12 None false None; mk_sscen 13 None false None] 0 3 in
  let ls := [LFeature f; LParserEnd; LTop; LAttStart (11, 0); LAttStart (12, 0); LAttEnd (11, 0) true; LTop;
             LAttEnd (12, 0) false; LTop] in
  match exec (mk_cfg (Some 2%nat) true) ls with
  | Some (s, tr) => (match pc s with Done => true | _ => false end, match flow s with Break => true | _ => false end,
                     N.of_nat (length (qC s)), contract tr)
  | None => (false, false, 0, false)
  end = (true, true, 1, true).
Proof. vm_compute. reflexivity. Qed.

(* "AT MOST THE ATTEMPTS ALREADY HANDED OUT — FEWER THAN THE LIMIT — STILL BEGIN": on every run of the model under
   fail-fast with limit K, after a FINAL failure (no retry left) the attempts that still start are exactly the entries
   that were already dispatched at that moment, and they number at most K-1; nothing else starts, whatever follows *)
Theorem C08_fewer_than_k_late_starters :
  forall c K l1 k l2 s1 tr1 s tr2,
    cf_fail_fast c = true -> cf_concurrency c = Some K ->
    exec c l1 = Some (s1, tr1) ->
    (forall e r, set_phase k Opened Ended (running s1) = Some (e, r) -> next_try e true (now s1) = None) ->
    exec_from c s1 (LAttEnd k true :: l2) = Some (s, tr2) ->
    (n_started tr2 <= K - 1 /\
     n_started tr2 + SchedP12.n_disp (running s) = SchedP12.n_disp (running s1) /\
     SchedP12.n_disp (running s1) <= K - 1)%nat.
Proof. exact SchedP12.failfast_late_starters. Qed.
Print Assumptions C08_fewer_than_k_late_starters.

Example C08_late_starters_nonvacuous :
  SchedP12.n_disp [(mk_entry 1 None 11 false None None None 1 0, Opened);
                   (mk_entry 1 None 12 false None None None 1 0, Dispatched)] = 1%nat.
Proof. reflexivity. Qed.


(* ---------- "fails finally" in terms of what the attempt's end carries (review finding H2): the end of an attempt
   makes a fail-fast drain trip exactly when its flag says failed and its Finished event carries no retry left; with
   `Compose2.faithful` the flag is what the attempt's events in the stream show (`C05_flag_is_what_the_stream_shows`) *)
Theorem C08_end_trips_iff_failed_with_no_retry_left :
  forall c s1 k b s2 f r sc rt,
    step c s1 (LAttEnd k b) = Some (s2, [EvScen f r sc rt ScFinished]) ->
    exists m, msgs s2 = msgs s1 ++ [m] /\
              (m_failed m && negb (m_retried m))%bool = (b && negb (StatsSpec.retries_left rt))%bool.
Proof. exact Compose2.end_message_trips_iff_final_failure. Qed.
Print Assumptions C08_end_trips_iff_failed_with_no_retry_left.

Theorem C08_final_failure_trips_the_next_drain :
  forall c s1 k s2 f r sc rt,
    step c s1 (LAttEnd k true) = Some (s2, [EvScen f r sc rt ScFinished]) -> StatsSpec.retries_left rt = false ->
    forall fl fc rc, snd (fst (fst (drain true (msgs s2) fl fc rc))) = Break.
Proof. exact Compose2.final_failure_trips_fail_fast. Qed.
Print Assumptions C08_final_failure_trips_the_next_drain.


(* ---------- "after the first parser error no later feature is ingested" (review finding M5) ---------- *)
Theorem C08_no_feature_is_ingested_after_a_parser_error :
  forall c l1 i l2 s tr,
    cf_fail_fast c = true -> exec c (l1 ++ LParseErr i :: l2) = Some (s, tr) ->
    Forall (fun l => match l with LFeature _ => False | _ => True end) l2.
Proof. exact FramingP.C08_no_feature_after_parse_error. Qed.
Print Assumptions C08_no_feature_is_ingested_after_a_parser_error.

(* on the stream: ParsingFinished counts exactly the features delivered BEFORE the error and one parser error, and every
   bracket and scenario event belongs to one of those features *)
Theorem C08_parsing_finished_counts_only_what_came_before_the_error :
  forall c l1 i l2 s tr a b c0 d e,
    cf_fail_fast c = true -> exec c (l1 ++ LParseErr i :: l2) = Some (s, tr) ->
    In (EvParsingFinished a b c0 d e) tr ->
    (a, b, c0, d, e) = (N.of_nat (length (FramingP.feats_of l1)), SchedP8.sumN sf_nrules (FramingP.feats_of l1),
                        SchedP8.sumN scens_of_feature (FramingP.feats_of l1),
                        SchedP8.sumN sf_nsteps (FramingP.feats_of l1), 1).
Proof. exact FramingP.failfast_parsing_finished_counts. Qed.
Print Assumptions C08_parsing_finished_counts_only_what_came_before_the_error.

Theorem C08_only_features_before_the_error_run :
  forall c l1 i l2 s tr,
    cf_fail_fast c = true -> exec c (l1 ++ LParseErr i :: l2) = Some (s, tr) ->
    forall x, In x tr -> FramingP.ev_feat_in (map sf_id (FramingP.feats_of l1)) x.
Proof. exact FramingP.failfast_only_early_features_run. Qed.
Print Assumptions C08_only_features_before_the_error_run.
