(* Props/C08.v — property C08: fail-fast. *)
From CV Require Import Model.Base Model.Events Model.Sched Proofs.BaseP Proofs.SchedP Proofs.SchedP2 Proofs.SchedP3.

(* the drain of finished-messages trips the flow exactly on a final (not retried) failure ... *)
Theorem C08_trips_on_final_failure :
  forall ms fl fc rc, existsb (fun m => m_failed m && negb (m_retried m)) ms = true ->
    snd (fst (fst (drain true ms fl fc rc))) = Break.
Proof. exact drain_trips. Qed.
Theorem C08_retried_failure_does_not_trip :
  forall ff ms fl fc rc, existsb (fun m => m_failed m && negb (m_retried m)) ms = false ->
    snd (fst (fst (drain ff ms fl fc rc))) = fl.
Proof. exact drain_no_trip. Qed.

(* ... once tripped it stays tripped, for every further label ... *)
Theorem C08_break_is_absorbing :
  forall c s l s' o, flow s = Break -> step c s l = Some (s', o) -> flow s' = Break.
Proof. exact step_break. Qed.

(* ... and a loop turn then dispatches nothing: no attempt is added, no bracket is opened *)
Theorem C08_no_dispatch_after_trip :
  forall s, flow s = Break ->
    running (fst (loop_top s)) = running s /\ flow (fst (loop_top s)) = Break /\
    (forall x, In x (snd (loop_top s)) -> match x with EvFeatS _ | EvRuleS _ _ => False | _ => True end).
Proof. exact loop_top_break. Qed.

(* if nothing fails finally and no parser error occurs, a fail-fast run IS the normal run: same states, same stream *)
Theorem C08_same_if_no_failure :
  forall K ls, Forall harmless ls -> exec (mk_cfg K true) ls = exec (mk_cfg K false) ls.
Proof. intros K ls H. apply ff_irrelevant_without_failures; [constructor | exact H]. Qed.
