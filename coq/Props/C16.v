(* Props/C16.v — property C16: scenario outline expansion. *)
From CV Require Import Model.Base Model.Outline Proofs.BaseP Proofs.OutlineP.

(* The scanner is THE leftmost non-overlapping scan for <name>, name non-empty without '>' / white space *)
Theorem C16_tokenize_is_leftmost_scan : forall s, Tok s (tokenize s).
Proof. exact tokenize_is_leftmost_scan. Qed.

Theorem C16_scan_is_unique : forall s t1 t2, Tok s t1 -> Tok s t2 -> t1 = t2.
Proof. exact Tok_fun. Qed.

Theorem C16_untokenize : forall s, flat_map tok_src (tokenize s) = s.
Proof. exact untokenize. Qed.

(* every placeholder replaced by the row's value, verbatim (no re-scan, no `$` expansion), the rest copied *)
Theorem C16_subst :
  forall r s, Forall (known r) (tokenize s) -> subst r s = inl (flat_map (tok_out r) (tokenize s)).
Proof. exact subst_known. Qed.

Theorem C16_subst_plain : forall r s, ~ In c_lt s -> subst r s = inl s.
Proof. exact subst_plain. Qed.

Theorem C16_unknown_is_error :
  forall r s, ~ Forall (known r) (tokenize s) -> exists name, subst r s = inr name.
Proof. exact subst_unknown. Qed.

Theorem C16_error_names_unknown_placeholder :
  forall r s name, subst r s = inr name -> In (TPh name) (tokenize s) /\ row_find name r = None.
Proof. exact subst_error. Qed.

Theorem C16_no_examples_unchanged :
  forall sc, o_examples sc = [] -> expand_scenario sc = [inl sc].
Proof. exact no_examples_unchanged. Qed.

(* one scenario per data row, in row order *)
Theorem C16_rows_count :
  forall sc ex h vals id, length (zip_rows sc ex h vals id) = length vals.
Proof. exact zip_rows_length. Qed.

Theorem C16_row_i :
  forall sc ex h vals id i v,
    nth_error vals i = Some v ->
    nth_error (zip_rows sc ex h vals id) i = Some (instantiate sc ex (id + N.of_nat i) (combine h v)).
Proof. exact zip_rows_nth. Qed.

Theorem C16_instantiated :
  forall sc ex id r sc',
    instantiate sc ex id r = inl sc' ->
    subst r (o_name sc) = inl (o_name sc') /\
    o_tags sc' = o_tags sc ++ ex_tags ex /\
    o_line sc' = ex_line ex + (id + 2) /\ o_col sc' = ex_col ex /\
    length (o_steps sc') = length (o_steps sc).
Proof. exact instantiate_ok. Qed.

(* feature level: all rows, or exactly one error which is one of the rows' errors *)
Theorem C16_all_or_one_error_ok :
  forall (l : list (oscen + xerr)) xs, collect l = inl xs -> l = map inl xs.
Proof. exact (@collect_inl oscen). Qed.

Theorem C16_all_or_one_error_err :
  forall (l : list (oscen + xerr)) e, collect l = inr e -> In (inr e) l.
Proof. exact (@collect_inr oscen). Qed.

Theorem C16_any_error_fails_feature :
  forall (l : list (oscen + xerr)) e, In (inr e) l -> exists e', collect l = inr e'.
Proof. exact (@collect_some_err oscen). Qed.

(* positions, under the layout hypothesis about parsed files *)
Theorem C16_positions_distinct : forall tabs, layout_ok tabs -> NoDup (table_lines tabs).
Proof. exact positions_distinct. Qed.

Example C16_nonvacuous :
  let r := [(lit "n", lit "1"); (lit "what", lit "x<n>$0")] in
  subst r (lit "eat <n><what> < n> <>") = inl (lit "eat 1x<n>$0 < n> <>") /\
  subst r (lit "<<n>") = inr (lit "<n") /\
  subst r (lit "<a> <n> <b>") = inr (lit "b") /\
  layout_ok [(12, 2); (17, 0); (20, 3)] /\ table_lines [(12, 2); (17, 0); (20, 3)] = [14; 15; 22; 23; 24].
Proof.
  cbv zeta. split; [vm_compute; reflexivity|]. split; [vm_compute; reflexivity|].
  split; [vm_compute; reflexivity|].
  split; [|vm_compute; reflexivity].
  cbn. repeat split; intros l' n' H;
    repeat (destruct H as [H|H]; [inversion H; subst; vm_compute; discriminate|]); destruct H.
Qed.
