(* Props/C16.v — property C16: scenario outline expansion. *)
From CV Require Proofs.OutlineP2.
From CV Require Import Model.Base Model.Outline Proofs.BaseP Proofs.OutlineP.

(* The scanner is THE leftmost non-overlapping scan for <name>, name non-empty without '>' / white space *)
Theorem C16_tokenize_is_leftmost_scan : forall s, Tok s (tokenize s).
Proof. exact tokenize_is_leftmost_scan. Qed.

Theorem C16_scan_is_unique : forall s t1 t2, Tok s t1 -> Tok s t2 -> t1 = t2.
Proof. exact Tok_fun. Qed.

Theorem C16_untokenize : forall s, flat_map tok_src (tokenize s) = s.
Proof. exact untokenize. Qed.

(* every placeholder replaced by the row's value, verbatim (no re-scan, no `$` expansion), the rest copied *)
Theorem C16_subst :
  forall r s, Forall (known r) (tokenize s) -> subst r s = inl (flat_map (tok_out r) (tokenize s)).
Proof. exact subst_known. Qed.

Theorem C16_subst_plain : forall r s, ~ In c_lt s -> subst r s = inl s.
Proof. exact subst_plain. Qed.

Theorem C16_unknown_is_error :
  forall r s, ~ Forall (known r) (tokenize s) -> exists name, subst r s = inr name.
Proof. exact subst_unknown. Qed.

Theorem C16_error_names_unknown_placeholder :
  forall r s name, subst r s = inr name -> In (TPh name) (tokenize s) /\ row_find name r = None.
Proof. exact subst_error. Qed.

(* [definitional] unfolds the model's own definition: a pinned reading of the model (it breaks when the model is edited),
   not evidence for the property by itself — the model is tied to the code by the correspondence check *)
Theorem C16_no_examples_unchanged :
  forall sc, o_examples sc = [] -> expand_scenario sc = [inl sc].
Proof. exact no_examples_unchanged. Qed.

(* one scenario per data row, in row order *)
Theorem C16_rows_count :
  forall sc ex h vals id, length (zip_rows sc ex h vals id) = length vals.
Proof. exact zip_rows_length. Qed.

Theorem C16_row_i :
  forall sc ex h vals id i v,
    nth_error vals i = Some v ->
    nth_error (zip_rows sc ex h vals id) i = Some (instantiate sc ex (id + N.of_nat i) (combine h v)).
Proof. exact zip_rows_nth. Qed.

Theorem C16_instantiated :
  forall sc ex id r sc',
    instantiate sc ex id r = inl sc' ->
    subst r (o_name sc) = inl (o_name sc') /\
    o_tags sc' = o_tags sc ++ ex_tags ex /\
    o_line sc' = ex_line ex + (id + 2) /\ o_col sc' = ex_col ex /\
    length (o_steps sc') = length (o_steps sc).
Proof. exact instantiate_ok. Qed.

(* feature level: all rows, or exactly one error which is one of the rows' errors *)
Theorem C16_all_or_one_error_ok :
  forall (l : list (oscen + xerr)) xs, collect l = inl xs -> l = map inl xs.
Proof. exact (@collect_inl oscen). Qed.

Theorem C16_all_or_one_error_err :
  forall (l : list (oscen + xerr)) e, collect l = inr e -> In (inr e) l.
Proof. exact (@collect_inr oscen). Qed.

Theorem C16_any_error_fails_feature :
  forall (l : list (oscen + xerr)) e, In (inr e) l -> exists e', collect l = inr e'.
Proof. exact (@collect_some_err oscen). Qed.

(* positions, under the layout hypothesis about parsed files *)
Theorem C16_positions_distinct : forall tabs, layout_ok tabs -> NoDup (table_lines tabs).
Proof. exact positions_distinct. Qed.

Example C16_nonvacuous :
  let r := [(lit "n", lit "1"); (lit "what", lit "x<n>$0")] in
  subst r (lit "eat <n><what> < n> <>") = inl (lit "eat 1x<n>$0 < n> <>") /\
  subst r (lit "<<n>") = inr (lit "<n") /\
  subst r (lit "<a> <n> <b>") = inr (lit "b") /\
  layout_ok [(12, 2); (17, 0); (20, 3)] /\ table_lines [(12, 2); (17, 0); (20, 3)] = [14; 15; 22; 23; 24].
Proof.
  cbv zeta. split; [vm_compute; reflexivity|]. split; [vm_compute; reflexivity|].
  split; [vm_compute; reflexivity|].
  split; [|vm_compute; reflexivity].
  cbn. repeat split; intros l' n' H;
    repeat (destruct H as [H|H]; [inversion H; subst; vm_compute; discriminate|]); destruct H.
Qed.


(* ---------- THE WHOLE EXPANSION (review finding H1: `C16_instantiated` above states only the NUMBER of steps;
   `expand_list` / `expand_feature` were in no theorem). The vocabulary (`step_inst`, `inst_out`, `expand_out`,
   `scen_known`, `data_rows`, `inst_pstrs` ...) is defined at the top of Proofs/OutlineP2.v. ---------- *)

(* substitution, both directions: success iff every placeholder names a column, and then the result is the token-wise
   replacement; failure names an unknown placeholder of that string after which every placeholder is known *)
Theorem C16_subst_succeeds_iff :
  forall r s out, subst r s = inl out <-> OutlineP2.str_known r s /\ out = OutlineP2.subst_out r s.
Proof. exact OutlineP2.subst_inl_iff. Qed.
Print Assumptions C16_subst_succeeds_iff.

Theorem C16_subst_fails_iff :
  forall r s name, subst r s = inr name <->
    exists ts1 ts2, tokenize s = ts1 ++ TPh name :: ts2 /\ row_find name r = None /\ Forall (known r) ts2.
Proof. exact OutlineP2.subst_inr_iff. Qed.
Print Assumptions C16_subst_fails_iff.

(* "that row's value": the value in the first column of that name *)
Theorem C16_row_value_is_first_column_of_that_name :
  forall n h v x, row_find n (combine h v) = Some x <->
    exists i, nth_error h i = Some n /\ nth_error v i = Some x /\ forall j, (j < i)%nat -> nth_error h j <> Some n.
Proof. exact OutlineP2.row_find_combine. Qed.
Print Assumptions C16_row_value_is_first_column_of_that_name.

(* WHAT AN INSTANTIATED ROW IS, completely: name, EVERY step text, doc string and table cell substituted
   (`step_inst`: text, doc, cells related by `subst r _ = inl _`, position unchanged), tags appended, position of
   the row; and nothing else *)
Theorem C16_instantiated_row :
  forall sc ex id r sc',
    instantiate sc ex id r = inl sc' <->
    OutlineP2.sub_ok r (o_name sc) (o_name sc') /\
    o_tags sc' = o_tags sc ++ ex_tags ex /\
    Forall2 (OutlineP2.step_inst r) (o_steps sc) (o_steps sc') /\
    o_examples sc' = o_examples sc /\
    o_line sc' = ex_line ex + (id + 2) /\ o_col sc' = ex_col ex.
Proof. exact OutlineP2.instantiate_inl_iff. Qed.
Print Assumptions C16_instantiated_row.

(* ... in closed form: it succeeds iff every placeholder of the name and of every step string is a column, and
   the result is then `inst_out` *)
Theorem C16_instantiated_row_closed_form :
  forall sc ex id r sc',
    instantiate sc ex id r = inl sc' <-> OutlineP2.all_known r sc /\ sc' = OutlineP2.inst_out sc ex id r.
Proof. exact OutlineP2.instantiate_inl_known_iff. Qed.
Print Assumptions C16_instantiated_row_closed_form.

(* ... and the error of a row is that of the FIRST string, in document order (name; then per step its text, doc
   string, cells row by row), whose substitution fails, at that string's position *)
Theorem C16_row_error :
  forall sc ex id r e,
    instantiate sc ex id r = inr e <->
    exists l1 line col s n l2,
      OutlineP2.inst_pstrs sc ex id = l1 ++ (line, col, s) :: l2 /\ Forall (OutlineP2.sub_succeeds r) l1 /\
      subst r s = inr n /\ e = mk_xerr line col n.
Proof. exact OutlineP2.instantiate_inr_iff. Qed.
Print Assumptions C16_row_error.

(* one scenario per data row of each table, tables in order, rows in order; header-only / absent tables give none *)
Theorem C16_expand_scenario_count :
  forall sc, o_examples sc <> [] ->
    length (expand_scenario sc) = list_sum (map OutlineP2.n_data_rows (o_examples sc)).
Proof. exact OutlineP2.expand_scenario_length. Qed.
Print Assumptions C16_expand_scenario_count.

Theorem C16_header_only_table_yields_nothing :
  forall ex h, ex_table ex = Some [h] -> OutlineP2.data_rows ex = [].
Proof. exact OutlineP2.data_rows_header_only. Qed.

Theorem C16_expand_scenario_all_rows_in_order :
  forall sc, o_examples sc <> [] ->
    expand_scenario sc = map (OutlineP2.inst_row sc) (OutlineP2.all_rows sc).
Proof. exact OutlineP2.expand_scenario_rows. Qed.
Print Assumptions C16_expand_scenario_all_rows_in_order.

Theorem C16_expand_scenario_succeeds_iff :
  forall sc l, expand_scenario sc = map inl l <-> OutlineP2.scen_known sc /\ l = OutlineP2.expand_out sc.
Proof. exact OutlineP2.expand_scenario_inl_iff. Qed.
Print Assumptions C16_expand_scenario_succeeds_iff.

(* the scenario list of a feature or rule: every outline replaced IN ITS PLACE by its rows, other scenarios
   untouched; or the FIRST error, and only that *)
Theorem C16_expand_list_succeeds_iff :
  forall scs out, expand_list scs = inl out <->
    Forall OutlineP2.scen_known scs /\ out = flat_map OutlineP2.expand_out scs.
Proof. exact OutlineP2.expand_list_inl_iff. Qed.
Print Assumptions C16_expand_list_succeeds_iff.

Theorem C16_expand_list_fails_iff :
  forall scs e, expand_list scs = inr e <->
    exists scs1 sc scs2,
      scs = scs1 ++ sc :: scs2 /\ Forall OutlineP2.scen_known scs1 /\ collect (expand_scenario sc) = inr e.
Proof. exact OutlineP2.expand_list_inr_iff. Qed.
Print Assumptions C16_expand_list_fails_iff.

Theorem C16_expand_list_error_names_an_unknown_placeholder :
  forall scs e, expand_list scs = inr e ->
    exists sc ex id r s,
      In sc scs /\ In ex (o_examples sc) /\ In (id, r) (OutlineP2.data_rows ex) /\
      instantiate sc ex id r = inr e /\
      In s (OutlineP2.outline_strs sc) /\ In (TPh (xe_name e)) (tokenize s) /\ row_find (xe_name e) r = None.
Proof. exact OutlineP2.expand_list_error_names_placeholder. Qed.
Print Assumptions C16_expand_list_error_names_an_unknown_placeholder.

(* the feature: all rules and the top level expanded, or a SINGLE error (rules are expanded first, in order) *)
Theorem C16_expand_feature_succeeds_iff :
  forall rules top rs t, expand_feature rules top = inl (rs, t) <->
    Forall (Forall OutlineP2.scen_known) rules /\ Forall OutlineP2.scen_known top /\
    rs = map (flat_map OutlineP2.expand_out) rules /\ t = flat_map OutlineP2.expand_out top.
Proof. exact OutlineP2.expand_feature_inl_known_iff. Qed.
Print Assumptions C16_expand_feature_succeeds_iff.

Theorem C16_expand_feature_fails_iff :
  forall rules top e, expand_feature rules top = inr e <->
    (exists rs1 r rs2,
       rules = rs1 ++ r :: rs2 /\ Forall (Forall OutlineP2.scen_known) rs1 /\ expand_list r = inr e) \/
    (Forall (Forall OutlineP2.scen_known) rules /\ expand_list top = inr e).
Proof. exact OutlineP2.expand_feature_inr_iff. Qed.
Print Assumptions C16_expand_feature_fails_iff.

(* non-vacuity: three tables (one header-only), placeholders in name, step text, doc string and cells *)
Example C16_whole_expansion_nonvacuous :
  expand_list [OutlineP2.Examples.plain1; OutlineP2.Examples.sc; OutlineP2.Examples.plain2]
  = inl [OutlineP2.Examples.plain1; OutlineP2.Examples.row1; OutlineP2.Examples.row2; OutlineP2.Examples.row3;
         OutlineP2.Examples.plain2].
Proof. exact OutlineP2.Examples.in_place. Qed.
