(* Props/C02.v — property C02: each scenario attempt emits the canonical, declaration-ordered event sequence. *)
From CV Require Proofs.ReviewP2.
From CV Require Proofs.Compose2.
From CV Require Import Model.Base Model.Events Model.Attempt Model.AttemptSpec Proofs.BaseP Proofs.AttemptP.
From CV Require Model.Sched Proofs.SchedP9.

(* for every shape, every outcome assignment, with and without hooks: Started; before pair; the declared steps in
   order, each Started + exactly one result, stopping after the first non-Passed; a Failed event before the
   after-hook pair; Finished last *)
Theorem C02_attempt_wf :
  forall i, wf_events (is_some (ai_before i)) (is_some (ai_after i)) (all_decl i) (ao_events (run_attempt i)) = true.
Proof. exact attempt_wf. Qed.

Example C02_nonvacuous :
  ao_events (run_attempt (mk_attempt_in (Some None) (Some (Some 7)) WOk [(10, OMatch None)] [] [(11, OMatch (Some 5)); (12, OMatch None)] (Some (0, 1))))
  = [ScStarted; ScHook true HStarted; ScHook true HPassed; ScBg 10 StStarted; ScBg 10 StPassed;
     ScStep 11 StStarted; ScStep 11 (StFailed (EPanic 5)); ScHook false HStarted; ScHook false (HFailed 7); ScFinished].
Proof. vm_compute. reflexivity. Qed.

(* INSIDE ANY INTERLEAVING: in every run of the scheduler model — any number of attempts in flight, any order in
   which they are polled — the events of attempt k found in the emitted stream are exactly, and in the same order,
   what attempt k itself produced (its own labels) ... *)
Theorem C02_projection_of_the_stream_on_an_attempt :
  forall c ls s tr k, Sched.exec c ls = Some (s, tr) -> SchedP9.out_evs k tr = SchedP9.lab_evs k ls.
Proof. exact SchedP9.attempt_projection. Qed.
Print Assumptions C02_projection_of_the_stream_on_an_attempt.

(* ... so when attempt k is an execution of run_scenario (Attempt.run_attempt) its events appear in the stream in the
   canonical order recognised by wf_events, whatever else is interleaved with them *)
Theorem C02_canonical_in_every_interleaving :
  forall c ls s tr k i,
    Sched.exec c ls = Some (s, tr) -> SchedP9.lab_evs k ls = ao_events (run_attempt i) ->
    wf_events (is_some (ai_before i)) (is_some (ai_after i)) (all_decl i) (SchedP9.out_evs k tr) = true.
Proof.
  intros c ls s tr k i H L. rewrite (SchedP9.attempt_projection c ls s tr k H), L. apply attempt_wf.
Qed.


(* ---------- with the attempt's labels tied to the attempt model (review finding H2): for every run of the scheduler
   whose attempt labels are executions of `run_attempt` (`Compose2.faithful`), the events of EVERY ended attempt, projected
   out of the interleaved stream, are exactly the attempt model's events — hence canonical; an attempt in flight has
   emitted a prefix of a canonical sequence *)
Theorem C02_stream_carries_the_attempt :
  forall c ls s tr inp k b,
    Sched.exec c ls = Some (s, tr) -> Compose2.faithful inp ls -> In (Sched.LAttEnd k b) ls ->
    SchedP9.out_evs k tr = ao_events (run_attempt (inp k)) /\ b = ao_failed (run_attempt (inp k)).
Proof. exact Compose2.stream_carries_the_attempt. Qed.
Print Assumptions C02_stream_carries_the_attempt.

Theorem C02_canonical_in_every_interleaving_of_a_faithful_run :
  forall c ls s tr inp k b,
    Sched.exec c ls = Some (s, tr) -> Compose2.faithful inp ls -> In (Sched.LAttEnd k b) ls ->
    wf_events (is_some (ai_before (inp k))) (is_some (ai_after (inp k))) (all_decl (inp k)) (SchedP9.out_evs k tr) = true.
Proof. exact Compose2.canonical_in_every_interleaving_faithful. Qed.
Print Assumptions C02_canonical_in_every_interleaving_of_a_faithful_run.

Theorem C02_attempt_in_flight_has_emitted_a_canonical_prefix :
  forall c ls s tr inp k,
    Sched.exec c ls = Some (s, tr) -> Compose2.faithful inp ls ->
    exists full, Compose2.is_prefix (SchedP9.out_evs k tr) full /\
      wf_events (is_some (ai_before (inp k))) (is_some (ai_after (inp k))) (all_decl (inp k)) full = true.
Proof. exact Compose2.canonical_prefix_in_every_interleaving_faithful. Qed.
Print Assumptions C02_attempt_in_flight_has_emitted_a_canonical_prefix.


(* ---------- THE OUTCOME -> EVENT MAPPING OF THE PROPERTY TEXT (review finding M8) ----------
   `wf_events` takes only the declared steps, never their outcomes. `ReviewP2.RB.spec_events i` is written from the
   property text: `step_result`: no matching definition -> Skipped; several -> Failed as ambiguous; a match that panics ->
   Failed with the payload; a match when the World cannot be created -> Failed with the World's payload; otherwise Passed;
   execution stops after the first non-passed step; a failure event precedes the after-hook events. *)
Theorem C02_events_are_determined_by_the_outcomes :
  forall i, ao_events (run_attempt i) = ReviewP2.RB.spec_events i.
Proof. exact ReviewP2.C02_events_are_determined_by_the_outcomes. Qed.
Print Assumptions C02_events_are_determined_by_the_outcomes.

Theorem C02_outcome_event_mapping :
  forall i bev we0 (pre : list ReviewP2.RB.tstep) bg st o (post : list ReviewP2.RB.tstep),
    ReviewP2.RB.before_lets_steps_run i = Some (bev, we0) ->
    ReviewP2.RB.tagged i = pre ++ (bg, (st, o)) :: post ->
    ReviewP2.RB.passes we0 (ai_world i) pre = true ->
    let a := ScStarted :: bev ++ ReviewP2.RB.passed_evs pre in
    let tail := AttemptP.after_evs (ai_after i) ++ [ScFinished] in
    match ReviewP2.RB.step_result (we0 || negb (ReviewP2.RB.is_nil pre)) (ai_world i) o with
    | StPassed => exists b, ao_events (run_attempt i) = a ++ step_ev bg st StStarted :: step_ev bg st StPassed :: b
    | StSkipped => ao_events (run_attempt i) = a ++ step_ev bg st StStarted :: step_ev bg st StSkipped :: tail
    | StFailed k => ao_events (run_attempt i) = a ++ step_ev bg st StStarted :: step_ev bg st (StFailed k) :: tail
    | StStarted => False
    end.
Proof. exact ReviewP2.C02_outcome_event_mapping. Qed.
Print Assumptions C02_outcome_event_mapping.

(* the executable form (also demanded of the REAL runner's events, Check/AttemptCheck.v) is stronger than `wf_events`: the
   reviewer's list — an after hook that panics reported as Passed — is accepted by `wf_events` and rejected by it *)
Theorem C02_events_match_outcomes :
  forall i, ReviewP2.RB.events_match_outcomes i (ao_events (run_attempt i)) = true.
Proof. exact ReviewP2.C02_events_match_outcomes. Qed.
Print Assumptions C02_events_match_outcomes.

Example C02_outcome_mapping_is_discriminating :
  ReviewP2.RB.events_match_outcomes ReviewP2.RB.i8 ReviewP2.RB.witness8 = false /\
  ReviewP2.RB.witness8 <> ao_events (run_attempt ReviewP2.RB.i8).
Proof. exact ReviewP2.C02_reviewers_witness_is_not_produced. Qed.
