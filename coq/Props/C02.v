(* Props/C02.v — property C02: each scenario attempt emits the canonical, declaration-ordered event sequence. *)
From CV Require Import Model.Base Model.Events Model.Attempt Model.AttemptSpec Proofs.BaseP Proofs.AttemptP.
From CV Require Model.Sched Proofs.SchedP9.

(* for every shape, every outcome assignment, with and without hooks: Started; before pair; the declared steps in
   order, each Started + exactly one result, stopping after the first non-Passed; a Failed event before the
   after-hook pair; Finished last *)
Theorem C02_attempt_wf :
  forall i, wf_events (is_some (ai_before i)) (is_some (ai_after i)) (all_decl i) (ao_events (run_attempt i)) = true.
Proof. exact attempt_wf. Qed.

Example C02_nonvacuous :
  ao_events (run_attempt (mk_attempt_in (Some None) (Some (Some 7)) WOk [(10, OMatch None)] [] [(11, OMatch (Some 5)); (12, OMatch None)] (Some (0, 1))))
  = [ScStarted; ScHook true HStarted; ScHook true HPassed; ScBg 10 StStarted; ScBg 10 StPassed;
     ScStep 11 StStarted; ScStep 11 (StFailed (EPanic 5)); ScHook false HStarted; ScHook false (HFailed 7); ScFinished].
Proof. vm_compute. reflexivity. Qed.

(* INSIDE ANY INTERLEAVING: in every run of the scheduler model — any number of attempts in flight, any order in
   which they are polled — the events of attempt k found in the emitted stream are exactly, and in the same order,
   what attempt k itself produced (its own labels) ... *)
Theorem C02_projection_of_the_stream_on_an_attempt :
  forall c ls s tr k, Sched.exec c ls = Some (s, tr) -> SchedP9.out_evs k tr = SchedP9.lab_evs k ls.
Proof. exact SchedP9.attempt_projection. Qed.
Print Assumptions C02_projection_of_the_stream_on_an_attempt.

(* ... so when attempt k is an execution of run_scenario (Attempt.run_attempt) its events appear in the stream in the
   canonical order recognised by wf_events, whatever else is interleaved with them *)
Theorem C02_canonical_in_every_interleaving :
  forall c ls s tr k i,
    Sched.exec c ls = Some (s, tr) -> SchedP9.lab_evs k ls = ao_events (run_attempt i) ->
    wf_events (is_some (ai_before i)) (is_some (ai_after i)) (all_decl i) (SchedP9.out_evs k tr) = true.
Proof.
  intros c ls s tr k i H L. rewrite (SchedP9.attempt_projection c ls s tr k H), L. apply attempt_wf.
Qed.
