(* Props/C02.v — property C02: each scenario attempt emits the canonical, declaration-ordered event sequence. *)
From CV Require Import Model.Base Model.Events Model.Attempt Model.AttemptSpec Proofs.BaseP Proofs.AttemptP.

(* for every shape, every outcome assignment, with and without hooks: Started; before pair; the declared steps in
   order, each Started + exactly one result, stopping after the first non-Passed; a Failed event before the
   after-hook pair; Finished last *)
Theorem C02_attempt_wf :
  forall i, wf_events (is_some (ai_before i)) (is_some (ai_after i)) (all_decl i) (ao_events (run_attempt i)) = true.
Proof. exact attempt_wf. Qed.

Example C02_nonvacuous :
  ao_events (run_attempt (mk_attempt_in (Some None) (Some (Some 7)) WOk [(10, OMatch None)] [] [(11, OMatch (Some 5)); (12, OMatch None)] (Some (0, 1))))
  = [ScStarted; ScHook true HStarted; ScHook true HPassed; ScBg 10 StStarted; ScBg 10 StPassed;
     ScStep 11 StStarted; ScStep 11 (StFailed (EPanic 5)); ScHook false HStarted; ScHook false (HFailed 7); ScFinished].
Proof. vm_compute. reflexivity. Qed.
