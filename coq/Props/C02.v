(* Props/C02.v — property C02: each scenario attempt emits the canonical, declaration-ordered event sequence. *)
From CV Require Proofs.Compose2.
From CV Require Import Model.Base Model.Events Model.Attempt Model.AttemptSpec Proofs.BaseP Proofs.AttemptP.
From CV Require Model.Sched Proofs.SchedP9.

(* for every shape, every outcome assignment, with and without hooks: Started; before pair; the declared steps in
   order, each Started + exactly one result, stopping after the first non-Passed; a Failed event before the
   after-hook pair; Finished last *)
Theorem C02_attempt_wf :
  forall i, wf_events (is_some (ai_before i)) (is_some (ai_after i)) (all_decl i) (ao_events (run_attempt i)) = true.
Proof. exact attempt_wf. Qed.

Example C02_nonvacuous :
  ao_events (run_attempt (mk_attempt_in (Some None) (Some (Some 7)) WOk [(10, OMatch None)] [] [(11, OMatch (Some 5)); (12, OMatch None)] (Some (0, 1))))
  = [ScStarted; ScHook true HStarted; ScHook true HPassed; ScBg 10 StStarted; ScBg 10 StPassed;
     ScStep 11 StStarted; ScStep 11 (StFailed (EPanic 5)); ScHook false HStarted; ScHook false (HFailed 7); ScFinished].
Proof. vm_compute. reflexivity. Qed.

(* INSIDE ANY INTERLEAVING: in every run of the scheduler model — any number of attempts in flight, any order in
   which they are polled — the events of attempt k found in the emitted stream are exactly, and in the same order,
   what attempt k itself produced (its own labels) ... *)
Theorem C02_projection_of_the_stream_on_an_attempt :
  forall c ls s tr k, Sched.exec c ls = Some (s, tr) -> SchedP9.out_evs k tr = SchedP9.lab_evs k ls.
Proof. exact SchedP9.attempt_projection. Qed.
Print Assumptions C02_projection_of_the_stream_on_an_attempt.

(* ... so when attempt k is an execution of run_scenario (Attempt.run_attempt) its events appear in the stream in the
   canonical order recognised by wf_events, whatever else is interleaved with them *)
Theorem C02_canonical_in_every_interleaving :
  forall c ls s tr k i,
    Sched.exec c ls = Some (s, tr) -> SchedP9.lab_evs k ls = ao_events (run_attempt i) ->
    wf_events (is_some (ai_before i)) (is_some (ai_after i)) (all_decl i) (SchedP9.out_evs k tr) = true.
Proof.
  intros c ls s tr k i H L. rewrite (SchedP9.attempt_projection c ls s tr k H), L. apply attempt_wf.
Qed.


(* ---------- with the attempt's labels tied to the attempt model (review finding H2): for every run of the scheduler
   whose attempt labels are executions of `run_attempt` (`Compose2.faithful`), the events of EVERY ended attempt, projected
   out of the interleaved stream, are exactly the attempt model's events — hence canonical; an attempt in flight has
   emitted a prefix of a canonical sequence *)
Theorem C02_stream_carries_the_attempt :
  forall c ls s tr inp k b,
    Sched.exec c ls = Some (s, tr) -> Compose2.faithful inp ls -> In (Sched.LAttEnd k b) ls ->
    SchedP9.out_evs k tr = ao_events (run_attempt (inp k)) /\ b = ao_failed (run_attempt (inp k)).
Proof. exact Compose2.stream_carries_the_attempt. Qed.
Print Assumptions C02_stream_carries_the_attempt.

Theorem C02_canonical_in_every_interleaving_of_a_faithful_run :
  forall c ls s tr inp k b,
    Sched.exec c ls = Some (s, tr) -> Compose2.faithful inp ls -> In (Sched.LAttEnd k b) ls ->
    wf_events (is_some (ai_before (inp k))) (is_some (ai_after (inp k))) (all_decl (inp k)) (SchedP9.out_evs k tr) = true.
Proof. exact Compose2.canonical_in_every_interleaving_faithful. Qed.
Print Assumptions C02_canonical_in_every_interleaving_of_a_faithful_run.

Theorem C02_attempt_in_flight_has_emitted_a_canonical_prefix :
  forall c ls s tr inp k,
    Sched.exec c ls = Some (s, tr) -> Compose2.faithful inp ls ->
    exists full, Compose2.is_prefix (SchedP9.out_evs k tr) full /\
      wf_events (is_some (ai_before (inp k))) (is_some (ai_after (inp k))) (all_decl (inp k)) full = true.
Proof. exact Compose2.canonical_prefix_in_every_interleaving_faithful. Qed.
Print Assumptions C02_attempt_in_flight_has_emitted_a_canonical_prefix.
