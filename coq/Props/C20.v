(* Props/C20.v — property C20: tracing logs are attributed to the scenario and step that emitted them. *)
From CV Require Import Model.Base Model.Tracing Model.TracingStart Proofs.BaseP Proofs.TracingP.
From CV Require Proofs.TracingP2 Proofs.TracingP3.

(* WHAT THESE THEOREMS DO NOT SAY (review finding H3). The label `TEmit sc m x` already names the scenario `sc` a message
   belongs to; the model has no table from spans to scenarios (the real layer finds the scenario id in the span's
   extensions and the collector maps it to feature / rule / scenario / retries). So "to the scenario it was emitted for"
   below means: the forwarder does not CHANGE the attribution it was handed, loses nothing, duplicates nothing, reorders
   nothing and delivers before the result. WHICH scenario a span belongs to is decided on the real code only: the
   harness makes every message name its own scenario, attempt and step, and Check/C20Check.v compares that with the
   scenario / attempt of the Log event it arrives in. C20 is claimed as partial for this reason. *)

(* for every interleaving of step tasks and forwarder (every label list): when a step's result event is emitted,
   every log sent inside its span has already been forwarded, to the scenario it was emitted for *)
Theorem C20_logs_before_result :
  forall ls1 x s1 out1 sc m,
    texec tinit ls1 = Some (s1, out1) ->
    (exists s2 o, tstep s1 (TResult x) = Some (s2, o)) ->
    In (TEmit sc m x) ls1 ->
    In (TLog sc m) out1.
Proof. exact logs_before_result. Qed.

(* a run of the forwarder loop forwards ALL queued logs, each once, in order, each to its own scenario *)
Theorem C20_forwarder_drains_in_order :
  forall fuel s, spans_ok s -> (length (t_logs s) < fuel)%nat ->
    t_logs (fst (fwd_loop fuel s)) = [] /\
    snd (fwd_loop fuel s) = map (fun l => TLog (l_scen l) (l_msg l)) (t_logs s).
Proof. intros fuel s OK LT. destruct (fwd_loop_spec fuel s OK LT) as (_ & _ & _ & A & B). auto. Qed.

(* a task is released only after its span closed (so no further log of that span can follow) *)
Theorem C20_released_spans_are_closed :
  forall ls s out, texec tinit ls = Some (s, out) -> forall x, memN x (t_released s) = true -> memN x (t_closed s) = true.
Proof.
  intros ls s out H x Hx. pose proof (texec_inv ls [] tinit [] s out init_inv H) as ((_ & _ & L) & _). exact (L x Hx).
Qed.

Example C20_nonvacuous :
  match texec tinit [TEmit 11 1 2; TEmit 11 2 2; TClose 2; TSub 2; TFwd; TResult 2] with
  | Some (_, out) => out
  | None => []
  end = [TLog 11 1; TLog 11 2; TRes 2].
Proof. vm_compute. reflexivity. Qed.

(* EXACTLY ONCE, IN ORDER, NONE LOST: for every interleaving of tasks and forwarder, what has been forwarded so far
   followed by what is still queued is exactly the sequence of logs that were emitted — no log is lost, duplicated
   or overtaken; in particular, once the queue is empty every emitted log has been delivered exactly once *)
Theorem C20_logs_exactly_once_in_order :
  forall ls s out, texec tinit ls = Some (s, out) ->
    logs_of out ++ map as_out (t_logs s) = map as_out (emitted ls).
Proof. exact logs_exactly_once_in_order. Qed.
Print Assumptions C20_logs_exactly_once_in_order.

(* "POSITIONED AFTER THE STARTED EVENT OF THE STEP OR HOOK THAT EMITTED IT AND BEFORE ITS RESULT EVENT" — on the layer
   with Started events (Model/TracingStart.v, replayed on every observed run): for every interleaving, when the result of a
   step or Before-hook span x is emitted, every log emitted inside x has been delivered, and the Started event of x
   precedes it (messages pairwise distinct, which the harness guarantees; TracingP2 also has a positional formulation
   without that hypothesis) *)
Theorem C20_log_between_started_and_result :
  forall is_after ls1 s1 out1 x sc m s2 o,
    texec2 is_after tinit2 ls1 = Some (s1, out1) ->
    tstep2 is_after s1 (LBase (TResult x)) = Some (s2, o) ->
    NoDup (map TracingP2.log_key (emitted (TracingP2.base_labels ls1))) ->
    In (LBase (TEmit sc m x)) ls1 ->
    is_after x = false ->
    o = [OBase (TRes x)] /\
    exists a b, out1 = a ++ OBase (TLog sc m) :: b /\ In (OStart x) a.
Proof. exact TracingP2.log_between_started_and_result. Qed.
Print Assumptions C20_log_between_started_and_result.

(* every theorem about the base protocol carries over to the layer *)
Theorem C20_layer_projects_on_the_protocol :
  forall is_after ls2 s2 out2,
    texec2 is_after tinit2 ls2 = Some (s2, out2) ->
    texec tinit (TracingP2.base_labels ls2) = Some (t2_base s2, TracingP2.base_outs out2).
Proof. exact TracingP2.projection. Qed.

(* K20a, REFUTED for After hooks: the runner runs the After hook before it emits the hook's Started event, so a log of
   the hook is delivered BEFORE that event — a witness run of the faithful model (the same shape is observed on the real
   code: known/C20_K20a.json) *)
Theorem C20_K20a_after_hook_logs_precede_started_refuted :
  exists is_after ls2 s2 out2 x sc m a b,
    texec2 is_after tinit2 ls2 = Some (s2, out2) /\ is_after x = true /\
    In (LBase (TEmit sc m x)) ls2 /\ out2 = a ++ OBase (TLog sc m) :: b /\ ~ In (OStart x) a /\ In (OStart x) b.
Proof. exact TracingP2.after_hook_logs_precede_started_refuted. Qed.
Print Assumptions C20_K20a_after_hook_logs_precede_started_refuted.

(* LIVENESS OF THE SPAN-CLOSE HANDSHAKE ("no such log is lost", "the step's result follows"): for every reachable state,
   a span that has been closed and subscribed to — in either order: a span may outlive its future — IS released after
   at most one forwarder run per pending close notice plus one; the forwarder runs always succeed, and in the state
   reached the waiting task can emit its result *)
Theorem C20_waiter_is_released :
  forall ls s out x s' o,
    texec tinit ls = Some (s, out) ->
    memN x (t_closed s) = true ->
    In (TSub x) ls ->
    texec s (repeat TFwd (S (length (t_closes s)))) = Some (s', o) ->
    memN x (t_released s') = true.
Proof. exact TracingP3.waiter_released. Qed.
Print Assumptions C20_waiter_is_released.

Theorem C20_forwarder_runs_never_block :
  forall k s, exists s' o, texec s (repeat TFwd k) = Some (s', o).
Proof. exact TracingP3.texec_fwd_total. Qed.
