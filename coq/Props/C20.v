(* Props/C20.v — property C20: tracing logs are attributed to the scenario and step that emitted them. *)
From CV Require Import Model.Base Model.Tracing Model.TracingStart Proofs.BaseP Proofs.TracingP.
From CV Require Proofs.TracingP2 Proofs.TracingP3.
From CV Require Model.TracingAttr Proofs.TracingAttrP.
From CV Require Model.TracingFull Proofs.TracingFullP.

(* WHAT THESE THEOREMS DO NOT SAY (review finding H3). The label `TEmit sc m x` already names the scenario `sc` a message
   belongs to; the model has no table from spans to scenarios (the real layer finds the scenario id in the span's
   extensions and the collector maps it to feature / rule / scenario / retries). So "to the scenario it was emitted for"
   below means: the forwarder does not CHANGE the attribution it was handed, loses nothing, duplicates nothing, reorders
   nothing and delivers before the result. WHICH scenario an event belongs to is the subject of a second model,
   Model/TracingAttr.v (span tree, `scope_lookup` = the id of the OUTERMOST span of the event's scope that carries one,
   the collector's registry, the broadcast of unknown ids): the theorems at the end of this file are about it, and
   Check/C20bCheck.v compares its lookup with the id the REAL `format_event` resolved for every formatted event
   (trace points of hook 921cc91). The two models are COMPOSED in the layer Model/TracingFull.v (last block of this file):
   there the registration hypothesis of the attribution theorem is a consequence of the protocol. C20 stays partial for the
   runtime reasons named there (granularity of the forwarder run, logs from other threads, After hooks: K20a). *)

(* for every interleaving of step tasks and forwarder (every label list): when a step's result event is emitted,
   every log sent inside its span has already been forwarded, to the scenario it was emitted for *)
Theorem C20_logs_before_result :
  forall ls1 x s1 out1 sc m,
    texec tinit ls1 = Some (s1, out1) ->
    (exists s2 o, tstep s1 (TResult x) = Some (s2, o)) ->
    In (TEmit sc m x) ls1 ->
    In (TLog sc m) out1.
Proof. exact logs_before_result. Qed.

(* a run of the forwarder loop forwards ALL queued logs, each once, in order, each to its own scenario *)
Theorem C20_forwarder_drains_in_order :
  forall fuel s, spans_ok s -> (length (t_logs s) < fuel)%nat ->
    t_logs (fst (fwd_loop fuel s)) = [] /\
    snd (fwd_loop fuel s) = map (fun l => TLog (l_scen l) (l_msg l)) (t_logs s).
Proof. intros fuel s OK LT. destruct (fwd_loop_spec fuel s OK LT) as (_ & _ & _ & A & B). auto. Qed.

(* a task is released only after its span closed (so no further log of that span can follow) *)
Theorem C20_released_spans_are_closed :
  forall ls s out, texec tinit ls = Some (s, out) -> forall x, memN x (t_released s) = true -> memN x (t_closed s) = true.
Proof.
  intros ls s out H x Hx. pose proof (texec_inv ls [] tinit [] s out init_inv H) as ((_ & _ & L) & _). exact (L x Hx).
Qed.

Example C20_nonvacuous :
  match texec tinit [TEmit 11 1 2; TEmit 11 2 2; TClose 2; TSub 2; TFwd; TResult 2] with
  | Some (_, out) => out
  | None => []
  end = [TLog 11 1; TLog 11 2; TRes 2].
Proof. vm_compute. reflexivity. Qed.

(* EXACTLY ONCE, IN ORDER, NONE LOST: for every interleaving of tasks and forwarder, what has been forwarded so far
   followed by what is still queued is exactly the sequence of logs that were emitted — no log is lost, duplicated
   or overtaken; in particular, once the queue is empty every emitted log has been delivered exactly once *)
Theorem C20_logs_exactly_once_in_order :
  forall ls s out, texec tinit ls = Some (s, out) ->
    logs_of out ++ map as_out (t_logs s) = map as_out (emitted ls).
Proof. exact logs_exactly_once_in_order. Qed.
Print Assumptions C20_logs_exactly_once_in_order.

(* "POSITIONED AFTER THE STARTED EVENT OF THE STEP OR HOOK THAT EMITTED IT AND BEFORE ITS RESULT EVENT" — on the layer
   with Started events (Model/TracingStart.v, replayed on every observed run): for every interleaving, when the result of a
   step or Before-hook span x is emitted, every log emitted inside x has been delivered, and the Started event of x
   precedes it (messages pairwise distinct, which the harness guarantees; TracingP2 also has a positional formulation
   without that hypothesis) *)
Theorem C20_log_between_started_and_result :
  forall is_after ls1 s1 out1 x sc m s2 o,
    texec2 is_after tinit2 ls1 = Some (s1, out1) ->
    tstep2 is_after s1 (LBase (TResult x)) = Some (s2, o) ->
    NoDup (map TracingP2.log_key (emitted (TracingP2.base_labels ls1))) ->
    In (LBase (TEmit sc m x)) ls1 ->
    is_after x = false ->
    o = [OBase (TRes x)] /\
    exists a b, out1 = a ++ OBase (TLog sc m) :: b /\ In (OStart x) a.
Proof. exact TracingP2.log_between_started_and_result. Qed.
Print Assumptions C20_log_between_started_and_result.

(* every theorem about the base protocol carries over to the layer *)
Theorem C20_layer_projects_on_the_protocol :
  forall is_after ls2 s2 out2,
    texec2 is_after tinit2 ls2 = Some (s2, out2) ->
    texec tinit (TracingP2.base_labels ls2) = Some (t2_base s2, TracingP2.base_outs out2).
Proof. exact TracingP2.projection. Qed.

(* K20a, REFUTED for After hooks: the runner runs the After hook before it emits the hook's Started event, so a log of
   the hook is delivered BEFORE that event — a witness run of the faithful model (the same shape is observed on the real
   code: known/C20_K20a.json) *)
Theorem C20_K20a_after_hook_logs_precede_started_refuted :
  exists is_after ls2 s2 out2 x sc m a b,
    texec2 is_after tinit2 ls2 = Some (s2, out2) /\ is_after x = true /\
    In (LBase (TEmit sc m x)) ls2 /\ out2 = a ++ OBase (TLog sc m) :: b /\ ~ In (OStart x) a /\ In (OStart x) b.
Proof. exact TracingP2.after_hook_logs_precede_started_refuted. Qed.
Print Assumptions C20_K20a_after_hook_logs_precede_started_refuted.

(* LIVENESS OF THE SPAN-CLOSE HANDSHAKE ("no such log is lost", "the step's result follows"): for every reachable state,
   a span that has been closed and subscribed to — in either order: a span may outlive its future — IS released after
   at most one forwarder run per pending close notice plus one; the forwarder runs always succeed, and in the state
   reached the waiting task can emit its result *)
Theorem C20_waiter_is_released :
  forall ls s out x s' o,
    texec tinit ls = Some (s, out) ->
    memN x (t_closed s) = true ->
    In (TSub x) ls ->
    texec s (repeat TFwd (S (length (t_closes s)))) = Some (s', o) ->
    memN x (t_released s') = true.
Proof. exact TracingP3.waiter_released. Qed.
Print Assumptions C20_waiter_is_released.

Theorem C20_forwarder_runs_never_block :
  forall k s, exists s' o, texec s (repeat TFwd k) = Some (s', o).
Proof. exact TracingP3.texec_fwd_total. Qed.


(* ---------- WHICH SCENARIO (review finding H3): the attribution model Model/TracingAttr.v ----------
   `tbl`: the spans the cucumber layer has seen (parent, own scenario id if any); `scope_lookup t (Some x)`: what
   `format_event` resolves for an event whose scope starts at span x; `top_span t a k`: span a carries id k and nothing
   above it carries one (how the runner creates the span of a scenario attempt); `below t x a`: x is a or a descendant
   of a, at any depth, through spans with or without ids of their own (user spans, the spans of a NESTED runner). *)
Theorem C20_lookup_is_the_outermost_id :
  forall t x k, TracingAttrP.wf_tbl t ->
    (TracingAttr.scope_lookup t (Some x) = Some k <-> exists a, TracingAttrP.below t x a /\ TracingAttrP.top_span t a k).
Proof. exact TracingAttrP.lookup_some_iff. Qed.
Print Assumptions C20_lookup_is_the_outermost_id.

Theorem C20_lookup_unknown_iff_no_id_on_the_path :
  forall t x, TracingAttrP.wf_tbl t ->
    (TracingAttr.scope_lookup t (Some x) = None <->
     forall y sy, TracingAttrP.below t x y -> alookup y t = Some sy -> TracingAttr.sp_sid sy = None).
Proof. exact TracingAttrP.lookup_none_iff. Qed.
Print Assumptions C20_lookup_unknown_iff_no_id_on_the_path.

(* THE ATTRIBUTION THEOREM: an event logged anywhere below the span of a registered attempt of scenario sc resolves to that
   attempt's id and its fan-out list `recipients` is exactly [(sc, rt)] — no other scenario is in it — whatever ids the spans in between
   carry (nested scenario spans included) *)
Theorem C20_attribution :
  forall t reg a sid sc rt x,
    TracingAttrP.wf_tbl t -> TracingAttrP.top_span t a sid -> alookup sid reg = Some (sc, rt) ->
    TracingAttrP.below t x a ->
    TracingAttr.scope_lookup t (Some x) = Some sid /\
    TracingAttr.recipients reg (TracingAttr.scope_lookup t (Some x)) = [(sc, rt)].
Proof. exact TracingAttrP.attribution. Qed.
Print Assumptions C20_attribution.

(* ... along every history of the shape the layer sees (fresh spans, known parents, ids given at creation): a top span stays
   a top span, whatever is created later *)
Theorem C20_attribution_along_every_history :
  forall pre post a sid x sc rt,
    TracingAttr.shaped (pre ++ post) = true ->
    TracingAttrP.top_span (TracingAttr.tbl_of pre) a sid ->
    let st := TracingAttr.arun (pre ++ post) in
    TracingAttrP.below (TracingAttr.a_tbl st) x a ->
    alookup sid (TracingAttr.a_reg st) = Some (sc, rt) ->
    TracingAttr.scope_lookup (TracingAttr.a_tbl st) (Some x) = Some sid /\
    TracingAttr.recipients (TracingAttr.a_reg st) (TracingAttr.scope_lookup (TracingAttr.a_tbl st) (Some x)) = [(sc, rt)].
Proof. exact TracingAttrP.attribution_history. Qed.
Print Assumptions C20_attribution_along_every_history.

(* the broadcast rule, which is what makes a wrongly resolved id visible: an id that is not registered (or no id at all)
   sends a copy to EVERY registered scenario *)
Theorem C20_unregistered_id_is_broadcast :
  forall t reg scope k,
    TracingAttr.scope_lookup t scope = Some k -> alookup k reg = None ->
    TracingAttr.recipients reg (TracingAttr.scope_lookup t scope) = map snd reg.
Proof. exact TracingAttrP.broadcast_unregistered. Qed.
Print Assumptions C20_unregistered_id_is_broadcast.

(* what an ACCEPTED observation guarantees: the id the real code resolved is the model's lookup, and a harness message of
   scenario sc logged at or below the span of a registered attempt was resolved to that attempt's id, which stands for sc *)
Theorem C20_accepted_run_resolves_like_the_model :
  forall pre scope resolved post,
    TracingAttr.attr_ok (pre ++ TracingAttr.AFmt scope resolved :: post) = true ->
    resolved = TracingAttr.scope_lookup (TracingAttr.tbl_of pre) scope /\
    forall sc m, TracingAttr.a_pending (TracingAttr.arun pre) = Some (sc, m) ->
      exists k rt, resolved = Some k /\ alookup k (TracingAttr.a_reg (TracingAttr.arun pre)) = Some (sc, rt).
Proof. exact TracingAttrP.attr_ok_fmt. Qed.
Print Assumptions C20_accepted_run_resolves_like_the_model.

Theorem C20_monitor_agrees_with_attribution :
  forall pre post x resolved a sid sc m sc' rt',
    TracingAttr.attr_ok (pre ++ TracingAttr.AFmt (Some x) resolved :: post) = true ->
    TracingAttr.stream_wf pre = true ->
    TracingAttr.a_pending (TracingAttr.arun pre) = Some (sc, m) ->
    TracingAttrP.top_span (TracingAttr.tbl_of pre) a sid -> TracingAttrP.below (TracingAttr.tbl_of pre) x a ->
    alookup sid (TracingAttr.a_reg (TracingAttr.arun pre)) = Some (sc', rt') ->
    resolved = Some sid /\ sc' = sc.
Proof. exact TracingAttrP.monitor_agrees_with_attribution. Qed.
Print Assumptions C20_monitor_agrees_with_attribution.


(* ---------- THE TWO MODELS COMPOSED (second review, M2): Model/TracingFull.v ----------
   A layer over BOTH models. Labels: `FAttempt sid sc rt a p` (the collector registers the fresh id sid for scenario sc with
   retries rt, the attempt's span a is created carrying sid, nothing above it carries an id), `FStepSpan x sid` (the span of a step
   or hook of that attempt), `FSpan y p id` (any other span: user spans, nested scenario spans with ANY id), `FEmit m y x` (an
   event logged in span y at or below the step span x; what is queued is the id the lookup RESOLVES), `FBase l` (the protocol:
   close, subscribe, forwarder run, result; a forwarded log is delivered to `recipients registry id` AT THAT MOMENT) and
   `FFinish sid` (the collector forgets sid — enabled only after the results of all steps and hooks of the attempt, which is the
   runner's order). A run of the layer projects onto a run of the protocol model and onto a well-shaped record stream of the
   attribution model, so the theorems of both apply. THE COMPOSED THEOREM: a message logged in the span of a step of attempt
   sid of scenario sc (anywhere below it, nested scenario spans included) is delivered EXACTLY ONCE, as a log of (sc, rt) and of
   no other scenario or retry counter, BEFORE the step's result — the id is still registered whenever one of its logs is queued
   (that was the hypothesis of `C20_attribution`; here it follows from `C20_logs_before_result` and the rule of `FFinish`). *)
Theorem C20_full_projects_on_the_protocol :
  forall ls s out, TracingFull.fexec TracingFull.finit ls = Some (s, out) ->
    exists bout, texec tinit (TracingFull.fproj TracingFull.finit ls) = Some (TracingFull.f_base s, bout) /\
      TracingFullP.fres out = TracingFullP.tres bout /\
      (forall sc rt m, In (TracingFull.FDeliver sc rt m) out -> exists k, In (TLog k m) bout).
Proof. exact TracingFullP.projection. Qed.
Print Assumptions C20_full_projects_on_the_protocol.

Theorem C20_full_projects_on_the_attribution_model :
  forall ls s out, TracingFull.fexec TracingFull.finit ls = Some (s, out) ->
    TracingAttr.shaped (TracingFull.frecs TracingFull.finit ls) = true /\
    TracingFull.f_tbl s = TracingAttr.tbl_of (TracingFull.frecs TracingFull.finit ls) /\
    TracingFull.f_reg s = TracingAttr.a_reg (TracingAttr.arun (TracingFull.frecs TracingFull.finit ls)) /\
    TracingFull.f_tbl s = TracingAttr.a_tbl (TracingAttr.arun (TracingFull.frecs TracingFull.finit ls)).
Proof. exact TracingFullP.projection_attr. Qed.
Print Assumptions C20_full_projects_on_the_attribution_model.

(* the registration hypothesis is now a consequence: a queued log of a step span of attempt sid carries sid, sid is still
   registered, and its recipients are exactly [(sc, rt)] *)
Theorem C20_still_registered_while_a_log_is_queued :
  forall ls s out lg sid sc rt a p,
    TracingFull.fexec TracingFull.finit ls = Some (s, out) -> In lg (t_logs (TracingFull.f_base s)) ->
    In (TracingFull.FStepSpan (l_span lg) sid) ls -> In (TracingFull.FAttempt sid sc rt a p) ls ->
    l_scen lg = TracingFull.enc (Some sid) /\ alookup sid (TracingFull.f_reg s) = Some (sc, rt) /\
    TracingAttr.recipients (TracingFull.f_reg s) (TracingFull.dec (l_scen lg)) = [(sc, rt)].
Proof. exact TracingFullP.still_registered_while_queued. Qed.
Print Assumptions C20_still_registered_while_a_log_is_queued.

(* at most once and to no other scenario or retry counter, in EVERY run (message ids unique) ... *)
Theorem C20_delivered_at_most_once_and_only_to_its_attempt :
  forall ls s out m y x sid sc rt a p,
    TracingFull.fexec TracingFull.finit ls = Some (s, out) -> NoDup (TracingFull.fmsgs ls) ->
    In (TracingFull.FEmit m y x) ls -> In (TracingFull.FStepSpan x sid) ls -> In (TracingFull.FAttempt sid sc rt a p) ls ->
    (TracingFull.dels m out = [] \/ TracingFull.dels m out = [TracingFull.FDeliver sc rt m]) /\
    (forall sc' rt', In (TracingFull.FDeliver sc' rt' m) out -> sc' = sc /\ rt' = rt).
Proof. exact TracingFullP.delivered_at_most_once_to_emitter. Qed.
Print Assumptions C20_delivered_at_most_once_and_only_to_its_attempt.

(* ... EXACTLY once, before the result of its step, nothing of it after *)
Theorem C20_delivered_exactly_once_before_the_result :
  forall ls s out m y x sid sc rt a p o1 o2,
    TracingFull.fexec TracingFull.finit ls = Some (s, out) -> NoDup (TracingFull.fmsgs ls) ->
    In (TracingFull.FEmit m y x) ls -> In (TracingFull.FStepSpan x sid) ls -> In (TracingFull.FAttempt sid sc rt a p) ls ->
    out = o1 ++ TracingFull.FRes x :: o2 ->
    TracingFull.dels m o1 = [TracingFull.FDeliver sc rt m] /\ TracingFull.dels m o2 = [] /\
    TracingFull.dels m out = [TracingFull.FDeliver sc rt m].
Proof. exact TracingFullP.delivered_once_before_result. Qed.
Print Assumptions C20_delivered_exactly_once_before_the_result.

(* ... never after the collector has forgotten the attempt *)
Theorem C20_delivered_before_the_attempt_is_forgotten :
  forall l1 l2 s out m y x sid sc rt a p,
    let ls := l1 ++ TracingFull.FFinish sid :: l2 in
    TracingFull.fexec TracingFull.finit ls = Some (s, out) -> NoDup (TracingFull.fmsgs ls) ->
    In (TracingFull.FEmit m y x) ls -> In (TracingFull.FStepSpan x sid) ls -> In (TracingFull.FAttempt sid sc rt a p) ls ->
    exists s1 o1 o2, TracingFull.fexec TracingFull.finit l1 = Some (s1, o1) /\ out = o1 ++ o2 /\
      In (TracingFull.FEmit m y x) l1 /\ TracingFull.dels m o1 = [TracingFull.FDeliver sc rt m] /\ TracingFull.dels m o2 = [].
Proof. exact TracingFullP.delivered_before_finish. Qed.
Print Assumptions C20_delivered_before_the_attempt_is_forgotten.

(* the reviewer's run (resolve to id 1, forget id 1, then deliver to another scenario) is not a run of the layer; a run with two
   concurrent attempts, a retry with a new id, a user span and a nested scenario span carrying ANOTHER scenario's registered id is *)
Example C20_full_nonvacuous :
  TracingFull.fexec TracingFull.finit TracingFullP.ex_full <> None.
Proof. vm_compute. discriminate. Qed.
