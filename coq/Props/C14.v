(* Props/C14.v — property C14: built-in reports state exactly the facts of the event stream (structure). *)
From CV Require Import Model.Base Model.Events Model.Stats Model.Reporters Model.ReportersSpec Proofs.BaseP Proofs.ReportersP.
From Coq Require Import Lia.

(* terminal output: at most one line per event; exactly one for a step result, a failed hook, a parser error *)
Theorem C14_basic_one_line_per_result :
  forall e, (length (basic_line e) <= 1)%nat.
Proof.
  intros e. destruct e as [| | | | | | | |f r s rt x]; cbn; try lia.
  destruct x as [|b h|st y|st y|m|]; cbn; try lia.
  - destruct h; cbn; lia.
  - destruct y; cbn; lia.
  - destruct y; cbn; lia.
Qed.

Theorem C14_basic_result_has_its_line :
  forall f r s rt st y, y <> StStarted ->
    basic_line (EvScen f r s rt (ScStep st y)) = [RLStep (match y with StPassed => 1 | StFailed _ => 2 | _ => 3 end) false st] /\
    basic_line (EvScen f r s rt (ScBg st y)) = [RLStep (match y with StPassed => 1 | StFailed _ => 2 | _ => 3 end) true st].
Proof. intros f r s rt st y H. destruct y; try congruence; split; reflexivity. Qed.

(* libtest: once parsing has finished, a step event yields exactly one line of the kind of its status, named
   after feature / rule / scenario / attempt / step; a failed hook and a parser error yield a started+failed pair *)
Theorem C14_libtest_step_line :
  forall has_path w f r s rt st y,
    exists nm, snd (lt_expand has_path w (EvScen f r s rt (ScStep st y))) =
               [RTest (match y with StStarted => 0 | StPassed => 1 | StFailed _ => 2 | StSkipped => 3 end) nm]
               /\ nth 0 nm 0 = f /\ nth 4 nm 0 = s /\ nth 9 nm 0 = st /\ nth 8 nm 0 = 0.
Proof.
  intros. unfold lt_expand. destruct (has_path f); cbn; eexists; (split; [reflexivity|]); cbn; auto.
Qed.

Theorem C14_libtest_hook_failure_pair :
  forall has_path w f r s rt b p,
    exists nm, snd (lt_expand has_path w (EvScen f r s rt (ScHook b (HFailed p)))) = [RTest 0 nm; RTest 2 nm].
Proof. intros. unfold lt_expand. destruct (has_path f); cbn; eexists; reflexivity. Qed.

Theorem C14_libtest_parse_error_pair :
  forall has_path w i,
    exists nm, snd (lt_expand has_path w (EvParseErr i)) = [RTest 0 nm; RTest 2 nm].
Proof. intros. cbn. eexists; reflexivity. Qed.

(* libtest: with a source path the name does not depend on how many names were produced before
   (K14a is exactly the failure of this for path-less features) *)
Theorem C14_libtest_name_stable_with_path :
  forall has_path w w' f r s rt st y, has_path f = true ->
    snd (lt_expand has_path w (EvScen f r s rt (ScStep st y))) = snd (lt_expand has_path w' (EvScen f r s rt (ScStep st y))).
Proof. intros. unfold lt_expand. rewrite H. reflexivity. Qed.

Theorem C14_K14a_refuted :
  exists has_path w f r s rt st,
    snd (lt_expand has_path w (EvScen f r s rt (ScStep st StStarted))) <>
    map (fun x => match x with RTest _ n => RTest 0 n | y => y end)
        (snd (lt_expand has_path (fst (lt_expand has_path w (EvScen f r s rt (ScStep st StStarted)))) (EvScen f r s rt (ScStep st StPassed)))).
Proof. exists (fun _ => false), ltw_init, 1, None, 2, None, 3. cbn. discriminate. Qed.

(* JUnit: classification of an attempt by its last relevant event *)
Theorem C14_junit_classification :
  forall evs, junit_status evs =
    match find junit_relevant (rev evs) with
    | Some (ScBg _ StSkipped) | Some (ScStep _ StSkipped) => 2
    | Some (ScHook _ (HFailed _)) | Some (ScBg _ (StFailed _)) | Some (ScStep _ (StFailed _)) => 1
    | _ => 0
    end.
Proof. reflexivity. Qed.

(* LIBTEST, WHOLE DOCUMENT: for EVERY event list (contract-abiding or not, with or without the pre-ParsingFinished
   buffering) every suite-result line of the report states totals that agree with the individual entries written
   before it: passed = number of `ok` lines, ignored = number of `ignored` lines, failed <= number of `failed` lines
   (the difference being the step failures that are retried), and the verdict is `ok` iff failed = 0 *)
Theorem C14_libtest_totals_agree_with_entries :
  forall has_path es pre ok p f i post,
    libtest_lines has_path es = pre ++ RSuiteResult ok p f i :: post ->
    p = kcount 1 pre /\ i = kcount 3 pre /\ f <= kcount 2 pre /\ ok = (f =? 0).
Proof. intros has_path es. exact (libtest_totals_agree has_path es). Qed.
Print Assumptions C14_libtest_totals_agree_with_entries.

Example C14_libtest_totals_nonvacuous :
  libtest_lines (fun _ => true)
    [EvParsingFinished 1 0 1 2 0; EvStarted; EvFeatS 1; EvScen 1 None 2 None ScStarted;
     EvScen 1 None 2 None (ScStep 3 StStarted); EvScen 1 None 2 None (ScStep 3 StPassed);
     EvScen 1 None 2 None (ScStep 4 StStarted); EvScen 1 None 2 None (ScStep 4 (StFailed (EPanic 1)));
     EvScen 1 None 2 None ScFinished; EvFeatF 1; EvFinished]
  = [RSuiteStarted 2; RTest 0 [1; 0; 0; 0; 2; 0; 0; 0; 0; 3]; RTest 1 [1; 0; 0; 0; 2; 0; 0; 0; 0; 3];
     RTest 0 [1; 0; 0; 0; 2; 0; 0; 0; 0; 4]; RTest 2 [1; 0; 0; 0; 2; 0; 0; 0; 0; 4]; RSuiteResult false 1 1 0].
Proof. vm_compute. reflexivity. Qed.
