(* Props/C14.v — property C14: built-in reports state exactly the facts of the event stream (structure). *)
From CV Require Import Model.Base Model.Events Model.Contract Model.Stats Model.StatsSpec Model.Reporters Model.ReportersSpec Proofs.BaseP Proofs.ReportersP Proofs.ReportersP2 Proofs.ReportersP3.
From CV Require Model.ReportersSpec4 Proofs.ReportersP8 Model.ReportersSpec5 Proofs.ReportersP9.
From CV Require Model.ReportersSpec2 Proofs.ReportersP6 Model.ReportersSpec3 Proofs.ReportersP7 Model.AttemptSpec Model.Attempt.
From CV Require Proofs.ReportersP4 Proofs.ReportersP5 Proofs.Compose Proofs.SchedP4 Proofs.SchedP7 Model.Sched.
From Coq Require Import Lia.

(* terminal output: at most one line per event; exactly one for a step result, a failed hook, a parser error *)
(* [definitional] unfolds the model's own definition: a pinned reading of the model (it breaks when the model is edited),
   not evidence for the property by itself — the model is tied to the code by the correspondence check *)
Theorem C14_basic_one_line_per_result :
  forall e, (length (basic_line e) <= 1)%nat.
Proof.
  intros e. destruct e as [| | | | | | | |f r s rt x]; cbn; try lia.
  destruct x as [|b h|st y|st y|m|]; cbn; try lia.
  - destruct h; cbn; lia.
  - destruct y; cbn; lia.
  - destruct y; cbn; lia.
Qed.

(* [definitional] unfolds the model's own definition: a pinned reading of the model (it breaks when the model is edited),
   not evidence for the property by itself — the model is tied to the code by the correspondence check *)
Theorem C14_basic_result_has_its_line :
  forall f r s rt st y, y <> StStarted ->
    basic_line (EvScen f r s rt (ScStep st y)) = [RLStep (match y with StPassed => 1 | StFailed _ => 2 | _ => 3 end) false st] /\
    basic_line (EvScen f r s rt (ScBg st y)) = [RLStep (match y with StPassed => 1 | StFailed _ => 2 | _ => 3 end) true st].
Proof. intros f r s rt st y H. destruct y; try congruence; split; reflexivity. Qed.

(* libtest: once parsing has finished, a step event yields exactly one line of the kind of its status whose name tuple
   has the feature, scenario, kind and step at positions 0, 4, 8, 9 (the rule and attempt components of the name are
   covered by the whole-document theorems below, through `lt_fact`); a failed hook and a parser error yield a
   started+failed pair of one (here unconstrained) name *)
Theorem C14_libtest_step_line :
  forall has_path w f r s rt st y,
    exists nm, snd (lt_expand has_path w (EvScen f r s rt (ScStep st y))) =
               [RTest (match y with StStarted => 0 | StPassed => 1 | StFailed _ => 2 | StSkipped => 3 end) nm]
               /\ nth 0 nm 0 = f /\ nth 4 nm 0 = s /\ nth 9 nm 0 = st /\ nth 8 nm 0 = 0.
Proof.
  intros. unfold lt_expand. destruct (has_path f); cbn; eexists; (split; [reflexivity|]); cbn; auto.
Qed.

Theorem C14_libtest_hook_failure_pair :
  forall has_path w f r s rt b p,
    exists nm, snd (lt_expand has_path w (EvScen f r s rt (ScHook b (HFailed p)))) = [RTest 0 nm; RTest 2 nm].
Proof. intros. unfold lt_expand. destruct (has_path f); cbn; eexists; reflexivity. Qed.

Theorem C14_libtest_parse_error_pair :
  forall has_path w i,
    exists nm, snd (lt_expand has_path w (EvParseErr i)) = [RTest 0 nm; RTest 2 nm].
Proof. intros. cbn. eexists; reflexivity. Qed.

(* libtest: with a source path the name does not depend on how many names were produced before
   (K14a is exactly the failure of this for path-less features) *)
Theorem C14_libtest_name_stable_with_path :
  forall has_path w w' f r s rt st y, has_path f = true ->
    snd (lt_expand has_path w (EvScen f r s rt (ScStep st y))) = snd (lt_expand has_path w' (EvScen f r s rt (ScStep st y))).
Proof. intros. unfold lt_expand. rewrite H. reflexivity. Qed.

Theorem C14_K14a_refuted :
  exists has_path w f r s rt st,
    snd (lt_expand has_path w (EvScen f r s rt (ScStep st StStarted))) <>
    map (fun x => match x with RTest _ n => RTest 0 n | y => y end)
        (snd (lt_expand has_path (fst (lt_expand has_path w (EvScen f r s rt (ScStep st StStarted)))) (EvScen f r s rt (ScStep st StPassed)))).
Proof. exists (fun _ => false), ltw_init, 1, None, 2, None, 3. cbn. discriminate. Qed.

(* JUnit: classification of an attempt by its last relevant event *)
(* [definitional] unfolds the model's own definition: a pinned reading of the model (it breaks when the model is edited),
   not evidence for the property by itself — the model is tied to the code by the correspondence check *)
Theorem C14_junit_classification :
  forall evs, junit_status evs =
    match find junit_relevant (rev evs) with
    | Some (ScBg _ StSkipped) | Some (ScStep _ StSkipped) => 2
    | Some (ScHook _ (HFailed _)) | Some (ScBg _ (StFailed _)) | Some (ScStep _ (StFailed _)) => 1
    | _ => 0
    end.
Proof. reflexivity. Qed.

(* LIBTEST, WHOLE DOCUMENT: for EVERY event list (contract-abiding or not, with or without the pre-ParsingFinished
   buffering) every suite-result line of the report states totals that agree with the individual entries written
   before it: passed = number of `ok` lines, ignored = number of `ignored` lines, failed <= number of `failed` lines
   (the difference being the step failures that are retried), and the verdict is `ok` iff failed = 0 *)
Theorem C14_libtest_totals_agree_with_entries :
  forall has_path es pre ok p f i post,
    libtest_lines has_path es = pre ++ RSuiteResult ok p f i :: post ->
    p = kcount 1 pre /\ i = kcount 3 pre /\ f <= kcount 2 pre /\ ok = (f =? 0).
Proof. intros has_path es. exact (libtest_totals_agree has_path es). Qed.
Print Assumptions C14_libtest_totals_agree_with_entries.

Example C14_libtest_totals_nonvacuous :
  libtest_lines (fun _ => true)
    [EvParsingFinished 1 0 1 2 0; EvStarted; EvFeatS 1; EvScen 1 None 2 None ScStarted;
     EvScen 1 None 2 None (ScStep 3 StStarted); EvScen 1 None 2 None (ScStep 3 StPassed);
     EvScen 1 None 2 None (ScStep 4 StStarted); EvScen 1 None 2 None (ScStep 4 (StFailed (EPanic 1)));
     EvScen 1 None 2 None ScFinished; EvFeatF 1; EvFinished]
  = [RSuiteStarted 2; RTest 0 [1; 0; 0; 0; 2; 0; 0; 0; 0; 3]; RTest 1 [1; 0; 0; 0; 2; 0; 0; 0; 0; 3];
     RTest 0 [1; 0; 0; 0; 2; 0; 0; 0; 0; 4]; RTest 2 [1; 0; 0; 0; 2; 0; 0; 0; 0; 4]; RSuiteResult false 1 1 0].
Proof. vm_compute. reflexivity. Qed.

(* LIBTEST, THE WHOLE OF C14 on the stream the writer receives (it sits behind Normalize): if the stream is accepted by
   the sequential contract (so run-Finished, if any, is last), contains ParsingFinished (until then the writer only
   buffers), every step Started is followed by its own result before any other step event (`steps_bracketed`) and all
   features have a path (K14a otherwise), then the report states EXACTLY the facts of the stream (as a multiset in this statement; the order of the fact lines is
   `C14_libtest_facts_in_order` below), every
   started line has exactly one result line of the same name, and the totals and the verdict agree with the entries.
   ReportersP3 shows by witnesses that none of the hypotheses can be dropped. *)
Theorem C14_libtest_whole_document :
  forall has_path es,
    (forall f, has_path f = true) -> normalized_prefix es = true -> has_pf es = true -> steps_bracketed es = true ->
    c14_libtest_ok es (libtest_lines has_path es) = true.
Proof. exact libtest_c14_normalized. Qed.
Print Assumptions C14_libtest_whole_document.

(* the facts part needs neither paths nor bracketing, and holds as LIST equality (order included) *)
Theorem C14_libtest_facts_in_order :
  forall has_path es, has_pf es = true -> fin_only_last es = true ->
    libtest_facts (libtest_lines has_path es) = map anon_parse (stream_facts true es).
Proof. exact libtest_facts_exact. Qed.
Print Assumptions C14_libtest_facts_in_order.

Example C14_libtest_whole_document_nonvacuous :
  normalized ReportersP3.ex_stream = true /\ has_pf ReportersP3.ex_stream = true /\
  steps_bracketed ReportersP3.ex_stream = true /\
  length (libtest_facts (libtest_lines all_paths ReportersP3.ex_stream)) = 7%nat.
Proof. vm_compute. repeat split; reflexivity. Qed.

(* CUCUMBER JSON, THE WHOLE OF C14 on the stream the writer receives: for every stream accepted by the sequential
   contract and closed by run-Finished, whose scenario events carry non-zero feature ids (0 is the pseudo feature of
   parser errors) of features with a path (K14b otherwise): the facts of the document are exactly the facts of the
   stream as a multiset (retries of a scenario share one element, background steps sit in their own element), and
   every feature and element appears once. Without run-Finished nothing is written. *)
Theorem C14_json_whole_document :
  forall has_path es,
    normalized es = true -> fids_nonzero es = true -> fids_have_path has_path es = true ->
    c14_json_ok es (json_doc has_path es) = true.
Proof. exact c14_json_normalized. Qed.
Print Assumptions C14_json_whole_document.

(* the facts half holds for every event list whose feature ids are non-zero (`fids_nonzero`: 0 is the model's code for
   "no feature"), contract-abiding or not, with or without paths: the document built so far states a permutation of
   the facts of the events handled so far *)
Theorem C14_json_facts_of_any_list :
  forall has_path handled, fids_nonzero handled = true ->
    Permutation.Permutation
      (json_facts 0 None (flatten_json (fold_left (json_handle has_path) handled [])))
      (flat_map (facts_of_event false) handled).
Proof. exact json_facts_invariant. Qed.
Print Assumptions C14_json_facts_of_any_list.

Theorem C14_json_nothing_without_finished :
  forall has_path es, no_finished es = true -> json_doc has_path es = [].
Proof. exact json_doc_unfinished. Qed.

Example C14_json_whole_document_nonvacuous :
  normalized ReportersP2.ex_stream = true /\ fids_nonzero ReportersP2.ex_stream = true /\
  fids_have_path ex_has_path ReportersP2.ex_stream = true /\
  length (json_facts 0 None (json_doc ex_has_path ReportersP2.ex_stream)) = 8%nat.
Proof. vm_compute. repeat split; reflexivity. Qed.

(* TERMINAL LISTING, THE WHOLE OF C14: for every stream accepted by the sequential contract (every prefix of a run
   included) the lines, each attributed to the scenario header printed above it, state exactly the step results, failed
   hooks and parser errors of the stream — in order *)
Theorem C14_basic_whole_document :
  forall es, normalized_prefix es = true ->
    line_facts 0 0 (basic_lines es) = stream_line_facts es /\ c14_basic_ok es (basic_lines es) = true.
Proof. intros es H. split; [exact (ReportersP4.C14_basic_lines_state_the_stream es H)|exact (ReportersP4.C14_basic_ok es H)]. Qed.
Print Assumptions C14_basic_whole_document.

(* JUNIT, THE WHOLE OF C14: for every complete stream accepted by the sequential contract: one testcase per finished
   attempt, in order, classified by exactly that attempt's events; the Errors suites list the parser errors in order;
   and — when no attempt is classified skipped (K14c otherwise: the listing of a skipped case is dropped) — the listings
   inside the testcases state the step results and failed hooks of the stream (as a multiset in `c14_junit_ok`; that each
   listing stands in the testcase of its own scenario and feature is `C14_junit_attributed` below) *)
Theorem C14_junit_cases_are_the_attempts :
  forall es, normalized es = true ->
    junit_cases (junit_doc es) false = attempt_outcomes es /\
    map (fun c => snd (fst c)) (junit_cases (junit_doc es) true)
    = flat_map (fun e => match e with EvParseErr i => [i] | _ => [] end) (before_finished es).
Proof. intros es H. split; [exact (ReportersP4.C14_junit_cases es H)|exact (ReportersP4.C14_junit_errors es H)]. Qed.
Print Assumptions C14_junit_cases_are_the_attempts.

Theorem C14_junit_whole_document :
  forall es, normalized_prefix es = true ->
    forallb (fun o => negb (snd o =? 2)) (attempt_outcomes es) = true ->
    c14_junit_ok es (junit_doc es) = true.
Proof. exact ReportersP4.C14_junit_ok. Qed.
Print Assumptions C14_junit_whole_document.

Theorem C14_junit_nothing_without_finished :
  forall es, existsb is_finished es = false -> junit_doc es = [].
Proof. exact ReportersP4.junit_doc_without_finished. Qed.

Example C14_junit_whole_document_nonvacuous :
  normalized ReportersP4.ex_stream = true /\
  forallb (fun o => negb (snd o =? 2)) (attempt_outcomes ReportersP4.ex_stream) = true /\
  Nat.leb 2 (length (attempt_outcomes ReportersP4.ex_stream)) = true /\
  (* K14c: the hypothesis is needed *)
  normalized ReportersP4.ex_skipped = true /\ c14_junit_ok ReportersP4.ex_skipped (junit_doc ReportersP4.ex_skipped) = false.
Proof. vm_compute. repeat split; reflexivity. Qed.

(* ==================================================================================================================
   END TO END: every built-in reporter sits BEHIND Normalize. For every complete RAW stream obeying the Runner contract
   (any interleaving the contract allows), the report computed from what Normalize forwards states exactly the facts of
   the RAW stream. ReportersP5 transfers the whole-document theorems above along the three C11 theorems (lossless,
   sequential order, per-attempt order) and a new one (pass-through events keep their order, for EVERY event list).
   `raw_of es = map snd es`, `ns_of es = map snd (concat (nrun es))` — the latter is what Check/C14Check.v feeds the models.
   ================================================================================================================== *)
Theorem C14_terminal_end_to_end :
  forall es, contract (ReportersP5.raw_of es) = true ->
    c14_basic_ok (ReportersP5.raw_of es) (basic_lines (ReportersP5.ns_of es)) = true.
Proof. exact ReportersP5.C14_basic_end_to_end. Qed.
Print Assumptions C14_terminal_end_to_end.

Theorem C14_json_end_to_end :
  forall es, contract (ReportersP5.raw_of es) = true -> forall has_path,
    fids_nonzero (ReportersP5.raw_of es) = true -> fids_have_path has_path (ReportersP5.raw_of es) = true ->
    c14_json_ok (ReportersP5.raw_of es) (json_doc has_path (ReportersP5.ns_of es)) = true.
Proof. exact ReportersP5.C14_json_end_to_end. Qed.
Print Assumptions C14_json_end_to_end.

(* the bracketing hypothesis is on the RAW stream, attempt by attempt: globally the raw stream need not be bracketed *)
Theorem C14_libtest_end_to_end :
  forall es, contract (ReportersP5.raw_of es) = true -> forall has_path,
    (forall f, has_path f = true) -> has_pf (ReportersP5.raw_of es) = true ->
    ReportersP5.attempts_bracketed (ReportersP5.raw_of es) = true ->
    c14_libtest_ok (ReportersP5.raw_of es) (libtest_lines has_path (ReportersP5.ns_of es)) = true.
Proof. exact ReportersP5.C14_libtest_end_to_end. Qed.
Print Assumptions C14_libtest_end_to_end.

(* `rule_of_scen_unique`: within a feature a scenario id occurs under one rule only (the specification keys attempts
   without the rule; ReportersP5 shows by a witness that the hypothesis is needed) *)
Theorem C14_junit_end_to_end :
  forall es, contract (ReportersP5.raw_of es) = true ->
    ReportersP5.rule_of_scen_unique (ReportersP5.raw_of es) = true ->
    forallb (fun o => negb (snd o =? 2)) (attempt_outcomes (ReportersP5.raw_of es)) = true ->
    c14_junit_ok (ReportersP5.raw_of es) (junit_doc (ReportersP5.ns_of es)) = true.
Proof. exact ReportersP5.C14_junit_end_to_end. Qed.
Print Assumptions C14_junit_end_to_end.

(* the parser errors keep their relative order through Normalize — for EVERY event list, no contract needed (stated for
   the parser errors only; run-Started and ParsingFinished are single events) *)
Theorem C14_parser_errors_keep_their_order :
  forall es, ReportersP4.perrs (ReportersP5.ns_of es) = ReportersP4.perrs (ReportersP5.raw_of es).
Proof. exact ReportersP5.parse_errors_order_preserved. Qed.

Example C14_end_to_end_nonvacuous :
  contract (ReportersP5.raw_of ReportersP5.ex5) = true /\
  normalized (ReportersP5.raw_of ReportersP5.ex5) = false /\
  ReportersP5.attempts_bracketed (ReportersP5.raw_of ReportersP5.ex5) = true /\
  steps_bracketed (ReportersP5.raw_of ReportersP5.ex5) = false /\
  ReportersP5.rule_of_scen_unique (ReportersP5.raw_of ReportersP5.ex5) = true.
Proof. vm_compute. repeat split; reflexivity. Qed.

(* FROM THE SCHEDULER TO THE REPORT: the terminal listing of every complete run of the scheduler model (any
   configuration, any schedule) states exactly the step results, failed hooks and parser errors of the run's own
   stream — the C03 contract theorem, the C11 theorems and the whole-document theorem composed *)
Theorem C14_runner_to_terminal_report :
  forall cf ls s tr (es : list (N * ev)),
    Sched.exec cf ls = Some (s, tr) -> NoDup (SchedP7.feature_ids ls) -> NoDup (SchedP4.inserted_ids ls) ->
    Sched.pc s = Sched.Done -> map snd es = tr ->
    c14_basic_ok tr (basic_lines (ReportersP5.ns_of es)) = true.
Proof. exact Compose.runner_to_terminal_report. Qed.
Print Assumptions C14_runner_to_terminal_report.


(* ---------- UNDER WHICH feature / rule / testcase (review finding H4) ----------
   The terminal and JUnit facts of `ReportersSpec.v` carry neither feature nor rule, and the JUnit listings are not tied
   to the testcase they are printed in: a listing with the scenarios under the wrong `Feature:` lines, or with the
   listings of two testcases swapped, satisfies `c14_basic_ok` / `c14_junit_ok`. `Model/ReportersSpec2.v` states the
   attributed facts: terminal — every result line stands under the header of its own scenario and attempt, under the
   `Feature:` line of its own feature, and a scenario of rule r stands under `Rule: r` (last rule line since the feature
   line); JUnit — every testcase stands in the suite of its feature, its listing has exactly one header, that of the
   case's own scenario, with the attempt number whose status the case states, and the result lines are that attempt's.
   Both are now ALSO demanded of the real reporters' output by Check/C14Check.v. *)
Theorem C14_basic_attributed :
  forall es, normalized_prefix es = true ->
    ReportersSpec2.line_facts2 None None (basic_lines es) = ReportersSpec2.stream_line_facts2 es /\
    ReportersSpec2.c14_basic_attr_ok es (basic_lines es) = true.
Proof. intros es H. split; [exact (ReportersP6.C14_basic_lines_attributed es H)|exact (ReportersP6.C14_basic_attr_ok es H)]. Qed.
Print Assumptions C14_basic_attributed.

Theorem C14_junit_attributed :
  forall es, normalized_prefix es = true ->
    forallb (fun o => negb (snd o =? 2)) (attempt_outcomes es) = true ->
    ReportersSpec2.c14_junit_attr_ok es (junit_doc es) = true.
Proof. exact ReportersP6.C14_junit_attr_ok. Qed.
Print Assumptions C14_junit_attributed.

(* ... end to end: the facts read from the RAW stream, the report computed from what Normalize forwards *)
Theorem C14_basic_attributed_end_to_end :
  forall es : list mev, contract (ReportersP5.raw_of es) = true ->
    ReportersSpec2.c14_basic_attr_ok (ReportersP5.raw_of es) (basic_lines (ReportersP5.ns_of es)) = true.
Proof. exact ReportersP6.C14_basic_attr_end_to_end. Qed.
Print Assumptions C14_basic_attributed_end_to_end.

Theorem C14_junit_attributed_end_to_end :
  forall es : list mev, contract (ReportersP5.raw_of es) = true ->
    forallb (fun o => negb (snd o =? 2)) (attempt_outcomes (ReportersP5.ns_of es)) = true ->
    ReportersSpec2.c14_junit_attr_ok (ReportersP5.raw_of es) (junit_doc (ReportersP5.ns_of es)) = true.
Proof. exact ReportersP6.C14_junit_attr_end_to_end_ns. Qed.
Print Assumptions C14_junit_attributed_end_to_end.

(* the reviewer's witnesses: accepted by the old predicates, rejected by the attributed ones *)
Example C14_attribution_is_discriminating :
  (c14_basic_ok ReportersP6.ex_w ReportersP6.w_basic = true /\ c14_junit_ok ReportersP6.ex_w ReportersP6.w_junit = true) /\
  ReportersSpec2.c14_basic_attr_ok ReportersP6.ex_w ReportersP6.w_basic = false /\
  ReportersSpec2.c14_junit_attr_ok ReportersP6.ex_w ReportersP6.w_junit = false.
Proof. vm_compute. repeat split; reflexivity. Qed.


(* ---------- THE JUNIT CLASSIFICATION AGAINST AN INDEPENDENT SPECIFICATION (review finding M2) ----------
   `attempt_outcomes` above classifies with the reporter's own `junit_status` (the last relevant event decides).
   `ReportersSpec3.attempt_class_spec` reads like the property: failure if the attempt's events contain a Failed step or a
   Failed hook, else skipped if they contain a Skipped step, else success. On the events of a canonical attempt (the C02
   shape, logs allowed) BEFORE its Finished the two agree — and only there: on the list WITH the Finished event
   `junit_status` is always 0 (the real writer, like the model, never stores Finished), and on non-canonical lists they differ. *)
Theorem C14_junit_status_is_the_class_of_a_canonical_attempt :
  forall evs, ReportersSpec3.canonical_attempt (evs ++ [ScFinished]) = true ->
    junit_status evs = ReportersSpec3.attempt_class_spec evs.
Proof. exact ReportersP7.junit_status_is_the_class_canonical. Qed.
Print Assumptions C14_junit_status_is_the_class_of_a_canonical_attempt.

(* ... for every execution of the attempt model, no hypothesis *)
Theorem C14_junit_status_of_every_model_attempt :
  forall i, junit_status (removelast (Attempt.ao_events (Attempt.run_attempt i)))
            = ReportersSpec3.attempt_class_spec (Attempt.ao_events (Attempt.run_attempt i)).
Proof. exact ReportersP7.junit_status_of_run_attempt. Qed.
Print Assumptions C14_junit_status_of_every_model_attempt.

Theorem C14_junit_cases_are_the_attempts_classified :
  forall es, normalized es = true -> ReportersSpec3.attempts_canonical es = true ->
    junit_cases (junit_doc es) false = ReportersSpec3.attempt_outcomes_spec es /\
    map (fun c => snd (fst c)) (junit_cases (junit_doc es) true)
    = flat_map (fun e => match e with EvParseErr i => [i] | _ => [] end) (before_finished es).
Proof. exact ReportersP7.C14_junit_cases_are_the_attempts_classified. Qed.
Print Assumptions C14_junit_cases_are_the_attempts_classified.

Theorem C14_junit_end_to_end_classified :
  forall es : list mev,
    contract (ReportersP5.raw_of es) = true ->
    ReportersP5.rule_of_scen_unique (ReportersP5.raw_of es) = true ->
    ReportersSpec3.attempts_canonical (ReportersP5.raw_of es) = true ->
    forallb (fun o => negb (snd o =? 2)) (ReportersSpec3.attempt_outcomes_spec (ReportersP5.raw_of es)) = true ->
    ReportersSpec3.c14_junit_ok3 (ReportersP5.raw_of es) (junit_doc (ReportersP5.ns_of es)) = true.
Proof. exact ReportersP7.C14_junit_end_to_end_classified. Qed.
Print Assumptions C14_junit_end_to_end_classified.

(* ---------- CUCUMBER JSON: THE EXACT STATUS AND THE PASSED HOOKS (review finding H4, last part) ----------
   `json_facts` collapses the report statuses failed / undefined / ambiguous and ignores passed hooks: a document showing
   the panicked step as "ambiguous" plus two passed hooks that never ran satisfies `c14_json_ok`. The finer facts carry
   the status code the report must show (passed 0, failed 1, skipped 2, undefined 3, ambiguous 4) and passed hooks. *)
Theorem C14_json_whole_document_exact_statuses :
  forall has_path es,
    normalized es = true -> fids_nonzero es = true -> fids_have_path has_path es = true ->
    ReportersSpec3.c14_json_ok2 es (json_doc has_path es) = true.
Proof. exact ReportersP7.c14_json_normalized2. Qed.
Print Assumptions C14_json_whole_document_exact_statuses.

Theorem C14_json_end_to_end_exact_statuses :
  forall (es : list mev) has_path,
    contract (ReportersP5.raw_of es) = true ->
    fids_nonzero (ReportersP5.raw_of es) = true -> fids_have_path has_path (ReportersP5.raw_of es) = true ->
    ReportersSpec3.c14_json_ok2 (ReportersP5.raw_of es) (json_doc has_path (ReportersP5.ns_of es)) = true.
Proof. exact ReportersP7.C14_json_end_to_end2. Qed.
Print Assumptions C14_json_end_to_end_exact_statuses.


(* ---------- THE `Feature:` AND `Rule:` LINES ARE FACTS TOO, AND THE LISTING IS IN STREAM ORDER (second review, M5) ----------
   `c14_basic_attr_ok` gives the header lines no fact of their own: an invented `Rule:` line, invented or repeated `Feature:`
   lines, a rule line under the wrong feature and a scrambled listing were still accepted. `ReportersSpec4`: every
   `Feature: f` line is the fact [50; f], every `Rule: r` line the fact [51; f; r] with f the feature line above it; the
   header facts equal those of the stream as multisets, and the WHOLE listing (headers, scenario headers, result lines,
   parser errors, as one list in document order) equals the list computed from the stream the writer receives. *)
Theorem C14_basic_headers_and_order :
  forall es, normalized_prefix es = true -> ReportersSpec4.c14_basic_hdr_ok es (basic_lines es) = true.
Proof. exact ReportersP8.C14_basic_hdr_ok. Qed.
Print Assumptions C14_basic_headers_and_order.

Theorem C14_basic_listing_is_in_stream_order :
  forall es, normalized_prefix es = true -> ReportersSpec4.doc_facts (basic_lines es) = ReportersSpec4.stream_doc_facts es.
Proof. exact ReportersP8.C14_basic_doc_in_stream_order. Qed.
Print Assumptions C14_basic_listing_is_in_stream_order.

(* end to end: header multiset against the RAW stream; the order against what Normalize forwards (against the raw,
   interleaved stream the ordered clause is false: ReportersP8.ex5_order_not_raw) *)
Theorem C14_basic_headers_end_to_end :
  forall es : list mev, contract (ReportersP5.raw_of es) = true ->
    ReportersSpec4.hdr_multiset_ok (ReportersP5.raw_of es) (basic_lines (ReportersP5.ns_of es)) = true /\
    ReportersSpec4.doc_order_ok (ReportersP5.ns_of es) (basic_lines (ReportersP5.ns_of es)) = true.
Proof.
  intros es C. split; [exact (ReportersP8.C14_basic_hdr_multiset_end_to_end es C)
                      |exact (ReportersP8.C14_basic_doc_order_behind_normalize es C)].
Qed.
Print Assumptions C14_basic_headers_end_to_end.


(* ---------- THE CONTAINERS ARE EXACTLY THOSE OF THE RUN (second review, L7) ----------
   JSON: one feature entry per feature of which a hook result, an own-step EVENT or a background-step EVENT occurs, one scenario
   element / background element per scenario accordingly (the writer creates the element on the step's Started: a started
   step without result leaves an EMPTY element — ReportersP9.started_step_creates_empty_element), one path-less pseudo feature
   per parser error; none invented, none repeated; every hook stands in a scenario element; the uri flag is the feature's.
   JUnit: one suite per FINISHED feature, in stream order (a feature without attempts still gets its — empty — suite:
   ReportersP9.empty_feature_suite_written), one Errors suite per parser error holding exactly that error as a failure. *)
Theorem C14_json_containers_exact :
  forall has_path es,
    normalized es = true -> fids_nonzero es = true -> fids_have_path has_path es = true ->
    ReportersSpec5.c14_json_containers_ok has_path es (json_doc has_path es) = true.
Proof. exact ReportersP9.C14_json_containers. Qed.
Print Assumptions C14_json_containers_exact.

Theorem C14_junit_suites_exact :
  forall es, normalized_prefix es = true -> ReportersSpec5.c14_junit_suites_ok es (junit_doc es) = true.
Proof. exact ReportersP9.C14_junit_suites. Qed.
Print Assumptions C14_junit_suites_exact.
