(* Props/C11.v — property C11: Normalize reorders any contract-abiding stream losslessly
   into sequential order. *)
From CV Require Import Model.Base Model.Events Model.Contract Model.Normalize Proofs.BaseP Proofs.NormalizeP.

Theorem C11_immediate :
  forall s e, is_emitted (ns_state s) = false -> is_pass (snd e) = true ->
    exists o, snd (nhandle s e) = e :: o.
Proof. exact nhandle_pass. Qed.

Theorem C11_passthrough_after_finished :
  forall s e, is_emitted (ns_state s) = true -> nhandle s e = (s, [e]).
Proof. exact nhandle_after_finished. Qed.
