(* Props/C11.v — property C11: Normalize reorders any contract-abiding stream losslessly into sequential order. *)
From CV Require Proofs.ReviewP2 Proofs.NormalizeP7 Proofs.ReviewP4.
From CV Require Import Proofs.SchedP5.
From CV Require Import Model.Base Model.Events Model.Contract Model.Normalize Proofs.BaseP Proofs.NormalizeP Proofs.NormalizeP2
  Proofs.NormalizeP3 Proofs.NormalizeP5 Proofs.NormalizeP6.
From CV Require Proofs.NormalizeP4h Proofs.NormalizeP7 Proofs.StatsP3.
From CV Require Proofs.Compose Proofs.PipelineP2.
From Coq Require Import Permutation.

(* LOSSLESS. `accepts_run` is the queue discipline the Runner contract guarantees (every event belongs to an
   entity that is buffered and not yet finished; a bracket closes only when everything inside it is finished;
   nothing follows an attempt's Finished). That the Runner contract implies it is PROVED below
   (C11_contract_implies_the_queue_discipline, by a simulation between the contract automaton and the buffered
   structure) and additionally validated on every generated stream by Check/C11Check.v (sub-check 2). *)

(* the emission loops only ever move a PREFIX of the buffer to the inner writer: nothing is dropped,
   duplicated or reordered inside the buffer *)
Theorem C11_emission_moves_a_prefix :
  forall s1, nwf s1 = true ->
    let '(o1, fs) := emit_feats (ns_feats s1) in
    let '(fin, st) := take_fin (ns_state s1) in
    let s' := mk_ns fs st in
    let out := o1 ++ match fin with Some m => [(m, EvFinished)] | None => [] end in
    out ++ pending s' = pending s1 /\ nwf s' = true /\ (fin_pending (ns_state s1) = true -> pending s' = []).
Proof. exact emit_moves_a_prefix. Qed.

(* queueing adds exactly the new event to the buffer *)
Theorem C11_queueing_adds_exactly_the_event :
  forall s e, nwf s = true -> is_pass (snd e) = false -> naccept s (snd e) = true ->
    nwf (enqueue s e) = true /\ Permutation (pending (enqueue s e)) (pending s ++ [e]).
Proof. exact enqueue_adds_one. Qed.

(* per call: delivered ++ still buffered  ~  previously buffered ++ [new event] *)
Theorem C11_lossless_per_call :
  forall s e, nwf s = true -> resting s = true -> accepts s (snd e) = true ->
    Permutation (snd (nhandle s e) ++ pending (fst (nhandle s e))) (pending s ++ [e]).
Proof. intros s e W R A. destruct (handle_lossless s e W R A) as (_ & _ & P & _). exact P. Qed.

(* whole run: the inner writer receives exactly the same multiset of events, and nothing stays buffered
   once run-Finished has been handled (it is forwarded in the call that queues it, after everything else) *)
Theorem C11_lossless :
  forall es, accepts_run ninit es = true -> existsb (fun e => is_finished (snd e)) es = true ->
    Permutation (concat (nrun es)) es.
Proof. exact run_lossless_complete. Qed.

Theorem C11_nothing_left_after_finished :
  forall es, accepts_run ninit es = true -> existsb (fun e => is_finished (snd e)) es = true ->
    pending (nfinal ninit es) = [].
Proof. intros es A F. exact (pending_after_finished es ninit eq_refl eq_refl A eq_refl F). Qed.

(* IMMEDIATE. run-Started, ParsingFinished and parser errors are forwarded first thing in the same call;
   after run-Finished everything is passed through *)
Theorem C11_immediate :
  forall s e, is_emitted (ns_state s) = false -> is_pass (snd e) = true ->
    exists o, snd (nhandle s e) = e :: o.
Proof. exact nhandle_pass. Qed.

Theorem C11_passthrough_after_finished :
  forall s e, is_emitted (ns_state s) = true -> nhandle s e = (s, [e]).
Proof. exact nhandle_after_finished. Qed.

Example C11_nonvacuous :
  let es := [(1, EvStarted); (2, EvFeatS 1); (3, EvFeatS 2); (4, EvScen 2 None 7 None ScStarted);
             (5, EvScen 1 None 5 None ScStarted); (6, EvScen 2 None 7 None ScFinished); (7, EvFeatF 2);
             (8, EvScen 1 None 5 None ScFinished); (9, EvFeatF 1); (10, EvFinished)] in
  accepts_run ninit es = true /\ contract (map snd es) = true /\
  concat (nrun es) = [(1, EvStarted); (2, EvFeatS 1); (5, EvScen 1 None 5 None ScStarted); (8, EvScen 1 None 5 None ScFinished);
                      (9, EvFeatF 1); (3, EvFeatS 2); (4, EvScen 2 None 7 None ScStarted); (6, EvScen 2 None 7 None ScFinished);
                      (7, EvFeatF 2); (10, EvFinished)].
Proof. vm_compute. auto. Qed.

(* THE RUNNER CONTRACT IS ENOUGH. Every stream accepted by the contract automaton (any interleaving the contract
   allows, any length, retries, rules, pass-through events anywhere) respects Normalize's queue discipline: each
   event finds its queue (none of the `expect`s / `unreachable!` of the real code is reached on the model) ... *)
Theorem C11_contract_implies_the_queue_discipline :
  forall es, contract_prefix (map snd es) = true -> accepts_run ninit es = true.
Proof. exact contract_implies_accepts. Qed.
Print Assumptions C11_contract_implies_the_queue_discipline.

(* ... hence LOSSLESS holds for every complete contract-abiding stream, with no further hypothesis *)
Theorem C11_lossless_on_every_contract_stream :
  forall es, contract (map snd es) = true -> Permutation (concat (nrun es)) es.
Proof. exact contract_lossless. Qed.
Print Assumptions C11_lossless_on_every_contract_stream.

(* assume/guarantee closed across the models: whatever the scheduler model (C03) emits in a complete run — any
   input, schedule, concurrency, retries, fail-fast — goes through Normalize without loss *)
Theorem C11_runner_stream_is_normalized_losslessly :
  forall cf ls s tr (es : list mev),
    Sched.exec cf ls = Some (s, tr) -> NoDup (SchedP7.feature_ids ls) -> NoDup (SchedP4.inserted_ids ls) ->
    Sched.pc s = Sched.Done -> map snd es = tr -> Permutation (concat (nrun es)) es.
Proof. exact Compose.runner_stream_is_normalized_losslessly. Qed.
Print Assumptions C11_runner_stream_is_normalized_losslessly.

(* AN ALREADY SEQUENTIAL STREAM PASSES THROUGH UNCHANGED, EVENT BY EVENT: on every stream accepted by the SEQUENTIAL
   contract automaton (one feature, one rule, one attempt open at a time; any length, rules, retries, pass-through
   events anywhere) every handle_event call forwards exactly the event it was given — nothing is held back *)
Theorem C11_sequential_stream_passes_through :
  forall es, normalized_prefix (map snd es) = true -> nrun es = map (fun e => [e]) es.
Proof. exact sequential_stream_passes_through. Qed.
Print Assumptions C11_sequential_stream_passes_through.

Example C11_sequential_nonvacuous :
  let es := [(1, EvStarted); (2, EvFeatS 1); (3, EvRuleS 1 4); (4, EvScen 1 (Some 4) 5 (Some (0, 1)) ScStarted);
             (5, EvScen 1 (Some 4) 5 (Some (0, 1)) (ScStep 9 (StFailed (EPanic 1)))); (6, EvScen 1 (Some 4) 5 (Some (0, 1)) ScFinished);
             (7, EvParsingFinished 1 1 1 1 0);
             (8, EvScen 1 (Some 4) 5 (Some (1, 0)) ScStarted); (9, EvScen 1 (Some 4) 5 (Some (1, 0)) ScFinished);
             (10, EvRuleF 1 4); (11, EvScen 1 None 6 None ScStarted); (12, EvScen 1 None 6 None ScFinished);
             (13, EvFeatF 1); (14, EvFeatS 2); (15, EvFeatF 2); (16, EvFinished)] in
  normalized (map snd es) = true.
Proof. vm_compute. reflexivity. Qed.

(* HEAD-LIVENESS: events of the entity currently at the head of the output are forwarded without waiting for it to
   finish — after every call, everything that can be forwarded has been: flushing the queues again yields nothing *)
Theorem C11_nothing_forwardable_is_held_back :
  forall s e, nwf s = true -> resting s = true -> accepts s (snd e) = true -> is_emitted (ns_state s) = false ->
    fst (emit_feats (ns_feats (fst (nhandle s e)))) = [].
Proof. exact nothing_forwardable_is_held_back. Qed.
Print Assumptions C11_nothing_forwardable_is_held_back.

(* RUN-FINISHED COMES LAST, after everything else has been forwarded: on every complete contract-abiding stream the
   forwarded stream ends with its only run-Finished *)
Theorem C11_run_finished_comes_last :
  forall es, contract (map snd es) = true ->
    exists X m, concat (nrun es) = X ++ [(m, EvFinished)] /\ existsb is_finished (map snd X) = false.
Proof. exact PipelineP2.finished_comes_last. Qed.
Print Assumptions C11_run_finished_comes_last.

(* SEQUENTIAL ORDER, THE GENERAL CLAUSE: for EVERY complete stream obeying the Runner contract — every linearisation
   of the events of any set of features / rules / scenarios / retry attempts that respects happened-before,
   including interleavings runner::Basic does not produce — what Normalize forwards is accepted by the SEQUENTIAL
   contract automaton: each feature's events contiguous, each rule's contiguous inside its feature, each attempt's
   contiguous (attempt k before k+1), brackets properly nested, run-Finished last (NormalizeP4..P4h: the buffered
   structure is, at every call, a valid continuation of the output automaton's state — `feats_static` /
   `feats_open` — and the four nested emission loops replay a prefix of it) *)
Theorem C11_output_is_in_sequential_order :
  forall es, contract (map snd es) = true -> normalized (map snd (concat (nrun es))) = true.
Proof. exact NormalizeP4h.normalize_output_is_sequential. Qed.
Print Assumptions C11_output_is_in_sequential_order.

(* ... so for every complete run of the scheduler model *)
Theorem C11_runner_stream_comes_out_sequential :
  forall cf ls s tr (es : list mev),
    Sched.exec cf ls = Some (s, tr) -> NoDup (SchedP7.feature_ids ls) -> NoDup (SchedP4.inserted_ids ls) ->
    Sched.pc s = Sched.Done -> map snd es = tr ->
    normalized (map snd (concat (nrun es))) = true.
Proof. exact Compose.runner_stream_is_normalized_into_sequential_order. Qed.
Print Assumptions C11_runner_stream_comes_out_sequential.

Example C11_sequential_order_nonvacuous :
  let es := [(1, EvStarted); (2, EvFeatS 1); (3, EvFeatS 2); (4, EvScen 2 None 7 None ScStarted);
             (5, EvScen 1 None 5 (Some (0, 1)) ScStarted); (6, EvScen 2 None 7 None ScFinished);
             (7, EvScen 1 None 5 (Some (0, 1)) ScFinished); (8, EvScen 1 None 5 (Some (1, 0)) ScStarted);
             (9, EvFeatF 2); (10, EvScen 1 None 5 (Some (1, 0)) ScFinished); (11, EvFeatF 1); (12, EvFinished)] in
  contract (map snd es) = true /\ normalized (map snd es) = false /\
  map fst (concat (nrun es)) = [1; 2; 5; 7; 8; 10; 11; 3; 4; 6; 9; 12].
Proof. vm_compute. repeat split; reflexivity. Qed.

(* "... AND IN THEIR ORIGINAL RELATIVE ORDER": for every complete stream obeying the Runner contract and every attempt
   (feature, rule, scenario, retries), the projection of the forwarded stream on that attempt EQUALS the projection of
   the input stream on it — same events with their metadata tags, same order (NormalizeP7: queueing puts an event at the
   end of its own attempt's queue, all buffered events of an attempt sit in that one queue, emission moves a prefix) *)
Theorem C11_attempt_order_preserved :
  forall es f r s rt, contract (map snd es) = true ->
    filter (fun e => NormalizeP7.same_att f r s rt (snd e)) (concat (nrun es))
    = filter (fun e => NormalizeP7.same_att f r s rt (snd e)) es.
Proof. exact NormalizeP7.attempt_order_preserved. Qed.
Print Assumptions C11_attempt_order_preserved.

Example C11_attempt_order_nonvacuous :
  contract (map snd NormalizeP7.ex7) = true /\
  length (filter (fun e => NormalizeP7.same_att 1 None 10 (Some (1, 0)) (snd e)) NormalizeP7.ex7) <> 0%nat.
Proof. vm_compute. split; [reflexivity|discriminate]. Qed.

(* ... and even PER SCENARIO PATH (all attempts of one scenario together): the contract fixes the order of attempts only
   along a retry chain; that Normalize keeps it needs a queue-order invariant (an unfinished attempt queue is the last
   queue of its scenario) — StatsP3.path_order_preserved *)
Theorem C11_path_order_preserved :
  forall es f r s, contract (map snd es) = true ->
    filter (fun e => StatsP3.same_path f r s (snd e)) (concat (nrun es))
    = filter (fun e => StatsP3.same_path f r s (snd e)) es.
Proof. exact StatsP3.path_order_preserved. Qed.
Print Assumptions C11_path_order_preserved.


(* ---------- HEAD-LIVENESS IN OBSERVABLE FORM (review finding M6) ----------
   `C11_nothing_forwardable_is_held_back` above is idempotence of the model's own flush: a normalizer that held every
   event until its feature finished would satisfy the same sentence. Here the HEAD is computed from the input prefix `es`
   and the output so far `out` ONLY (ReviewP2.RA): head feature = first feature, in the order of the Feature-Started
   events of `es`, whose Finished is not in `out`; head item = first rule / top-level attempt of it, in the order of their
   Started events, whose Finished is not in `out`; head attempt = that attempt, or the first unfinished attempt of the
   head rule. For every contract-abiding prefix: the head feature's and head rule's Started are in the output, and the
   events of the head attempt in the output ARE its events in the input — all of them, in order. A lazy normalizer
   (post-processing that holds a feature until its Finished) violates it (ReviewP2.RA.lazy_variant_violates_the_statement).
   The executable form `head_ok` is also demanded of the REAL writer's output after every call (Check/C11Check.v). *)
Theorem C11_head_is_never_held_back :
  forall es : list mev, contract_prefix (map snd es) = true ->
    let out := concat (nrun es) in
    (forall f m, ReviewP2.RA.head_feat es out = Some f -> In (m, EvFeatS f) es -> In (m, EvFeatS f) out) /\
    (forall f r m, ReviewP2.RA.head_feat es out = Some f -> ReviewP2.RA.head_item f es out = Some (KRule r) ->
       In (m, EvRuleS f r) es -> In (m, EvRuleS f r) out) /\
    (forall f ro sc rt, ReviewP2.RA.head_attempt es out = Some (f, ro, sc, rt) ->
       filter (fun e => NormalizeP7.same_att f ro sc rt (snd e)) out = filter (fun e => NormalizeP7.same_att f ro sc rt (snd e)) es).
Proof. exact ReviewP2.C11_head_is_never_held_back. Qed.
Print Assumptions C11_head_is_never_held_back.

Theorem C11_nothing_of_the_head_is_held :
  forall es : list mev, contract_prefix (map snd es) = true ->
    let out := concat (nrun es) in
    (forall f m, ReviewP2.RA.head_feat es out = Some f -> ~ In (m, EvFeatS f) (ReviewP2.RA.held es out)) /\
    (forall f r m, ReviewP2.RA.head_feat es out = Some f -> ReviewP2.RA.head_item f es out = Some (KRule r) ->
       ~ In (m, EvRuleS f r) (ReviewP2.RA.held es out)) /\
    (forall f ro sc rt e, ReviewP2.RA.head_attempt es out = Some (f, ro, sc, rt) -> In e (ReviewP2.RA.held es out) ->
       NormalizeP7.same_att f ro sc rt (snd e) = false).
Proof. exact ReviewP2.C11_nothing_of_the_head_is_held. Qed.
Print Assumptions C11_nothing_of_the_head_is_held.

Theorem C11_head_ok_after_every_call :
  forall (es : list mev) n, contract (map snd es) = true ->
    ReviewP2.RA.head_ok (firstn n es) (concat (firstn n (nrun es))) = true.
Proof. exact ReviewP2.C11_head_ok_after_every_call. Qed.
Print Assumptions C11_head_ok_after_every_call.

Example C11_head_liveness_is_discriminating :
  ReviewP2.RA.head_ok ReviewP2.RA.exA (ReviewP2.RA.lazy_out ReviewP2.RA.exA) = false /\
  ReviewP2.RA.head_ok ReviewP2.RA.exA (concat (nrun ReviewP2.RA.exA)) = true.
Proof. vm_compute. split; reflexivity. Qed.


(* ---------- ... INCLUDING THE CLOSING BRACKETS OF THE HEAD (second review, finding H1) ----------
   The head is defined by "its Finished is not yet in the output", so a writer that WITHHOLDS a closing bracket of the head
   keeps the head where it is, `head_item` / `head_attempt` become None and the three theorems above demand nothing more:
   a writer that behaves like the model until the first Feature-Finished and then holds it and everything behind it until
   run-Finished passes `head_ok` at every prefix (ReviewP4.RA2.stall_passes_head_ok_at_every_prefix). The obligations that
   exclude it: for every contract-abiding prefix the closing bracket of the head feature / head rule HAS NOT BEEN RECEIVED
   YET (so whenever it has been received and everything inside is finished in the output, it is in the output), and once
   run-Finished has been received everything received is in the output. *)
Theorem C11_head_closing_bracket_not_yet_received :
  forall es : list mev, contract_prefix (map snd es) = true ->
    let out := concat (nrun es) in
    (forall f, ReviewP2.RA.head_feat es out = Some f -> ~ In (EvFeatF f) (map snd es)) /\
    (forall f r, ReviewP2.RA.head_feat es out = Some f -> ReviewP2.RA.head_item f es out = Some (KRule r) ->
       ~ In (EvRuleF f r) (map snd es)) /\
    (In EvFinished (map snd es) -> forall x, In x es -> In x out).
Proof. exact ReviewP4.RA2.head_closing_bracket_not_yet_received. Qed.
Print Assumptions C11_head_closing_bracket_not_yet_received.

Theorem C11_head_ok2_after_every_call :
  forall (es : list mev) n, contract (map snd es) = true ->
    ReviewP4.RA2.head_ok2 (firstn n es) (concat (firstn n (nrun es))) = true.
Proof. exact ReviewP4.RA2.head_ok2_after_every_call. Qed.
Print Assumptions C11_head_ok2_after_every_call.

Theorem C11_head_ok2_says :
  forall es out,
    ReviewP4.RA2.head_ok2 es out = true <->
    ReviewP2.RA.head_ok es out = true /\ ReviewP4.RA2.feat_close_P es out /\ ReviewP4.RA2.rule_close_P es out /\
    ReviewP4.RA2.run_close_P es out.
Proof. exact ReviewP4.RA2.head_ok2_spec. Qed.
Print Assumptions C11_head_ok2_says.
