(* Props/C18.v — property C18: retry options resolve by nearest tag, then CLI,
   then builder, then defaults.  Only statements, `exact`, Check pins,
   Print Assumptions and non-vacuity examples live here. *)
From CV Require Import Model.Base Model.TagExpr Model.RetryOpts Model.RetryOptsSpec
  Proofs.BaseP Proofs.RetryOptsP.
From CV Require Model.RetryOptsSpec2 Proofs.RetryOptsP2.

(* The transcription of `parse_from_tags` equals the specification for every
   input outside known-finding class K18a, for every duration parser. *)
Theorem C18_resolve :
  forall (parse_dur : str -> option N) ftags rtags stags c,
    k18a parse_dur ftags rtags stags = false ->
    parse_from_tags parse_dur ftags rtags stags c = spec_resolve parse_dur ftags rtags stags c.
Proof. exact resolve_correct. Qed.

Theorem C18_model_satisfies_monitor :
  forall (parse_dur : str -> option N) ftags rtags stags c,
    k18a parse_dur ftags rtags stags = false ->
    c18_ok parse_dur ftags rtags stags c (parse_from_tags parse_dur ftags rtags stags c) = true.
Proof. exact model_satisfies_monitor. Qed.

(* The strict recogniser accepts exactly the four documented forms. *)
Theorem C18_four_forms :
  forall (parse_dur : str -> option N) tag on od,
    retry_form parse_dur tag = Some (on, od) <-> RetryForm parse_dur tag on od.
Proof. exact retry_form_iff. Qed.

(* The specification, read declaratively: the nearest level wins. *)
Theorem C18_scenario_level :
  forall parse_dur ftags rtags l1 t l2 c on od,
    no_retry_tag l1 -> RetryForm parse_dur t on od ->
    spec_resolve parse_dur ftags rtags (l1 ++ t :: l2) c = resolved c on od.
Proof. exact spec_scenario_level. Qed.

Theorem C18_rule_level :
  forall parse_dur ftags l1 t l2 stags c on od,
    no_retry_tag stags -> no_retry_tag l1 -> RetryForm parse_dur t on od ->
    spec_resolve parse_dur ftags (Some (l1 ++ t :: l2)) stags c = resolved c on od.
Proof. exact spec_rule_level. Qed.

Theorem C18_feature_level :
  forall parse_dur l1 t l2 rtags stags c on od,
    no_retry_tag stags -> no_retry_tag (opt_tags rtags) -> no_retry_tag l1 ->
    RetryForm parse_dur t on od ->
    spec_resolve parse_dur (l1 ++ t :: l2) rtags stags c = resolved c on od.
Proof. exact spec_feature_level. Qed.

Theorem C18_no_tag :
  forall parse_dur ftags rtags stags c,
    no_retry_tag stags -> no_retry_tag (opt_tags rtags) -> no_retry_tag ftags ->
    spec_resolve parse_dur ftags rtags stags c =
      if match c_filter c with
         | Some op => tag_eval op (ftags ++ opt_tags rtags ++ stags)
         | None => is_some (c_retry c) || is_some (c_retry_after c)
         end
      then Some (unwrap_or (c_retry c) 1, c_retry_after c) else None.
Proof. exact spec_no_tag. Qed.

(* Tag filters are ordinary boolean formulas over tag membership. *)
Theorem C18_filter_is_boolean :
  forall op tags, tag_eval op tags = true <-> tag_interp op (fun t => In t tags).
Proof. exact tag_eval_bool. Qed.

(* CLI over builder (src/runner/basic.rs:762-766). *)
(* [definitional] unfolds the model's own definition: a pinned reading of the model (it breaks when the model is edited),
   not evidence for the property by itself — the model is tied to the code by the correspondence check *)
Theorem C18_merge :
  forall c b,
    c_retry (merge c b) = or_else (c_retry c) (b_retries b) /\
    c_retry_after (merge c b) = or_else (c_retry_after c) (b_retry_after b) /\
    c_filter (merge c b) = or_else (c_filter c) (b_filter b) /\
    c_concurrency (merge c b) = or_else (c_concurrency c) (b_concurrency b) /\
    c_fail_fast (merge c b) = (c_fail_fast c || b_fail_fast b)%bool.
Proof. intros; repeat split. Qed.

(* What the code does with ANY tag that starts with "retry" (so that a change
   there is still caught by the correspondence check). *)
Theorem C18_prefix_always_retry :
  forall parse_dur tag rest,
    strip_prefix s_retry tag = Some rest ->
    exists on od, parse_tag parse_dur tag = Some (on, od).
Proof. exact retry_prefix_always_some. Qed.

(* Known finding K18a: the full statement (without the k18a hypothesis) is FALSE. *)
Theorem C18_prefix_refuted :
  exists parse_dur ftags rtags stags c,
    k18a parse_dur ftags rtags stags = true /\
    parse_from_tags parse_dur ftags rtags stags c <> spec_resolve parse_dur ftags rtags stags c.
Proof.
  exists no_dur, [], None, [lit "retrying"],
    {| c_retry := None; c_retry_after := None; c_filter := None;
       c_concurrency := None; c_fail_fast := false |}.
  split; [reflexivity|]. destruct k18a_witness as (_ & -> & ->). discriminate.
Qed.

(* non-vacuity: a concrete well-formed input meets the hypotheses *)
Definition ex_dur : str -> option N := fun s => if str_eqb s (lit "1s") then Some 1000000000 else None.
Example C18_nonvacuous :
  k18a ex_dur [lit "retry(5)"] (Some [lit "x"]) [lit "flaky"; lit "retry(2).after(1s)"] = false /\
  parse_from_tags ex_dur [lit "retry(5)"] (Some [lit "x"]) [lit "flaky"; lit "retry(2).after(1s)"]
    {| c_retry := Some 7; c_retry_after := None; c_filter := None;
       c_concurrency := None; c_fail_fast := false |} = Some (2, Some 1000000000).
Proof. vm_compute. auto. Qed.

Check C18_resolve :
  forall (parse_dur : str -> option N) ftags rtags stags c,
    k18a parse_dur ftags rtags stags = false ->
    parse_from_tags parse_dur ftags rtags stags c = spec_resolve parse_dur ftags rtags stags c.

Print Assumptions C18_resolve.
Print Assumptions C18_model_satisfies_monitor.
Print Assumptions C18_four_forms.
Print Assumptions C18_scenario_level.
Print Assumptions C18_rule_level.
Print Assumptions C18_feature_level.
Print Assumptions C18_no_tag.
Print Assumptions C18_filter_is_boolean.
Print Assumptions C18_merge.
Print Assumptions C18_prefix_always_retry.
Print Assumptions C18_prefix_refuted.


(* ---------- THE KNOWN-FINDING CLASS, NARROWED (review finding L2) ----------
   K18a as stated above ("SOME tag at SOME level starts with retry but is none of the four forms") over-excludes: the code
   only ever consults ONE tag — the first tag with prefix "retry" of the scenario tags, else of the rule tags, else of the
   feature tags (`RetryOptsSpec2.consulted`) — and agrees with the specification whenever THAT tag is well-formed, whatever
   malformed tags stand elsewhere. `k18a_narrow` = "the consulted tag exists and is malformed". The theorem for the narrow
   class subsumes `C18_resolve`; Check/C18Check.v now records only the narrow class as known. *)
Theorem C18_resolve_outside_the_narrow_class :
  forall (parse_dur : str -> option N) ftags rtags stags c,
    RetryOptsSpec2.k18a_narrow parse_dur ftags rtags stags = false ->
    parse_from_tags parse_dur ftags rtags stags c = spec_resolve parse_dur ftags rtags stags c.
Proof. exact RetryOptsP2.resolve_correct_narrow. Qed.
Print Assumptions C18_resolve_outside_the_narrow_class.

Theorem C18_model_satisfies_monitor_outside_the_narrow_class :
  forall (parse_dur : str -> option N) ftags rtags stags c,
    RetryOptsSpec2.k18a_narrow parse_dur ftags rtags stags = false ->
    c18_ok parse_dur ftags rtags stags c (parse_from_tags parse_dur ftags rtags stags c) = true.
Proof. exact RetryOptsP2.model_satisfies_monitor_narrow. Qed.
Print Assumptions C18_model_satisfies_monitor_outside_the_narrow_class.

Theorem C18_narrow_class_is_narrower :
  forall (parse_dur : str -> option N) ftags rtags stags,
    RetryOptsSpec2.k18a_narrow parse_dur ftags rtags stags = true -> k18a parse_dur ftags rtags stags = true.
Proof. exact RetryOptsP2.k18a_narrow_implies_k18a. Qed.
Print Assumptions C18_narrow_class_is_narrower.

(* strictly narrower (the reviewer's witness); still needed (code and specification differ inside it); and "may differ",
   not "does differ" (inputs inside it on which they agree for every CLI) *)
Theorem C18_narrow_class_witnesses :
  (exists parse_dur ftags rtags stags,
     k18a parse_dur ftags rtags stags = true /\ RetryOptsSpec2.k18a_narrow parse_dur ftags rtags stags = false) /\
  (exists parse_dur ftags rtags stags c,
     RetryOptsSpec2.k18a_narrow parse_dur ftags rtags stags = true /\
     parse_from_tags parse_dur ftags rtags stags c <> spec_resolve parse_dur ftags rtags stags c) /\
  (exists parse_dur ftags rtags stags,
     RetryOptsSpec2.k18a_narrow parse_dur ftags rtags stags = true /\
     forall c, parse_from_tags parse_dur ftags rtags stags c = spec_resolve parse_dur ftags rtags stags c).
Proof.
  exact (conj RetryOptsP2.k18a_narrow_strictly_narrower
           (conj RetryOptsP2.narrow_class_refuted RetryOptsP2.narrow_class_may_agree)).
Qed.
Print Assumptions C18_narrow_class_witnesses.
