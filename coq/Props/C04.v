(* Props/C04.v — property C04: every supplied scenario runs, nothing else runs, the run terminates. *)
From CV Require Import Model.Base Model.Events Model.Sched Proofs.BaseP Proofs.SchedP Proofs.SchedP2 Proofs.SchedP3 Proofs.SchedP4 Proofs.SchedP8.

(* nothing runs that was not dispatched: a scenario event always belongs to an entry of `running` *)
Theorem C04_only_dispatched_run :
  forall c s l s' o, step c s l = Some (s', o) ->
    (forall x, In x o -> match x with EvScen _ _ _ _ _ => False | _ => True end) \/
    (exists e p, In (e, p) (running s) /\ emits_for e o).
Proof. exact step_scen_events. Qed.

(* the loop only ends when the parser is finished (and, without a broken flow, the queues are empty);
   after that nothing happens any more *)
Theorem C04_end_is_final :
  forall K c s l s' o, Inv K s -> frame_ok s -> pc s = Done -> step c s l = Some (s', o) -> o = [] /\ pc s' = Done.
Proof. exact done_is_silent. Qed.

(* conservation, whole run: for every parser schedule (any label list the model accepts), once the loop has
   ended without a broken flow every scenario handed to the runner has had its Started event emitted *)
Theorem C04_every_supplied_scenario_starts :
  forall c ls s tr, exec c ls = Some (s, tr) -> pc s = Done -> flow s <> Break ->
    forall x, In x (inserted_ids ls) -> In x (started_ids tr).
Proof. exact all_supplied_started. Qed.
Print Assumptions C04_every_supplied_scenario_starts.

(* ... and at every point of every run, a scenario whose Started was emitted had been handed to the runner *)
Theorem C04_nothing_else_starts :
  forall c ls s tr, exec c ls = Some (s, tr) -> forall x, In x (started_ids tr) -> In x (inserted_ids ls).
Proof. exact only_supplied_started. Qed.
Print Assumptions C04_nothing_else_starts.

(* bounded work: the number of attempts a run starts is bounded by the input alone (one per supplied scenario plus
   its retries), whatever the schedule — the loop cannot keep dispatching for ever *)
Theorem C04_attempts_bounded_by_input :
  forall c ls s tr, exec c ls = Some (s, tr) -> starts (fun _ => true) tr <= budget (fun _ => true) ls.
Proof. exact attempts_total_bounded. Qed.
Print Assumptions C04_attempts_bounded_by_input.
