(* Props/C04.v — property C04: every supplied scenario runs, nothing else runs, the run terminates. *)
From CV Require Proofs.ReviewP3.
From CV Require Proofs.ReviewP.
From CV Require Proofs.SchedP10.
From CV Require Import Model.Base Model.Events Model.Sched Proofs.BaseP Proofs.SchedP Proofs.SchedP2 Proofs.SchedP3 Proofs.SchedP4 Proofs.SchedP8.

(* nothing runs that was not dispatched: a scenario event always belongs to an entry of `running` *)
Theorem C04_only_dispatched_run :
  forall c s l s' o, step c s l = Some (s', o) ->
    (forall x, In x o -> match x with EvScen _ _ _ _ _ => False | _ => True end) \/
    (exists e p, In (e, p) (running s) /\ emits_for e o).
Proof. exact step_scen_events. Qed.

(* the loop only ends when the parser is finished (and, without a broken flow, the queues are empty);
   after that nothing happens any more *)
Theorem C04_end_is_final :
  forall K c s l s' o, Inv K s -> frame_ok s -> pc s = Done -> step c s l = Some (s', o) -> o = [] /\ pc s' = Done.
Proof. exact done_is_silent. Qed.

(* conservation, whole run: for every parser schedule (any label list the model accepts), once the loop has
   ended without a broken flow every scenario handed to the runner has had its Started event emitted *)
Theorem C04_every_supplied_scenario_starts :
  forall c ls s tr, exec c ls = Some (s, tr) -> pc s = Done -> flow s <> Break ->
    forall x, In x (inserted_ids ls) -> In x (started_ids tr).
Proof. exact all_supplied_started. Qed.
Print Assumptions C04_every_supplied_scenario_starts.

(* ... and at every point of every run, a scenario whose Started was emitted had been handed to the runner *)
Theorem C04_nothing_else_starts :
  forall c ls s tr, exec c ls = Some (s, tr) -> forall x, In x (started_ids tr) -> In x (inserted_ids ls).
Proof. exact only_supplied_started. Qed.
Print Assumptions C04_nothing_else_starts.

(* bounded work: the number of attempts a run starts is bounded by the input alone (one per supplied scenario plus
   its retries), whatever the schedule — the loop cannot keep dispatching for ever *)
Theorem C04_attempts_bounded_by_input :
  forall c ls s tr, exec c ls = Some (s, tr) -> starts (fun _ => true) tr <= budget (fun _ => true) ls.
Proof. exact attempts_total_bounded. Qed.
Print Assumptions C04_attempts_bounded_by_input.

(* NO DEADLOCK: in every reachable state that is not Done the runner itself (not the parser, not the clock) can take
   a step: a loop turn, the start of a dispatched attempt or the end of an opened one. No hypothesis beyond
   reachability. *)
Theorem C04_no_deadlock :
  forall c ls s tr, exec c ls = Some (s, tr) -> pc s <> Done ->
    exists l, SchedP10.runner_label l = true /\ step c s l <> None.
Proof. exact SchedP10.no_deadlock. Qed.
Print Assumptions C04_no_deadlock.

(* TERMINATION, "instead of spinning forever": once the parser has ended the scheduling loop takes a BOUNDED number of
   turns, whatever the attempts do and however the clock ticks — at most 3 per attempt the input allows (one that
   dispatches it, one that consumes its completion, one idle turn that sleeps until its retry delay has elapsed)
   plus the limit plus 3. An idle turn jumps the clock past the smallest deadline, so the next turn dispatches. *)
Theorem C04_loop_turns_bounded_after_parsing :
  forall c k ls0 s0 tr0 ls s tr,
    cf_concurrency c = Some (S k) -> exec c ls0 = Some (s0, tr0) -> pdone s0 = true ->
    exec_from c s0 ls = Some (s, tr) ->
    N.of_nat (SchedP10.tops ls) <= 3 * budget (fun _ => true) ls0 + N.of_nat (S k) + 3.
Proof. exact SchedP10.turns_bounded_input. Qed.
Print Assumptions C04_loop_turns_bounded_after_parsing.

Theorem C04_loop_turns_bounded_from_any_state :
  forall c ls0 s0 tr0 ls s tr,
    exec c ls0 = Some (s0, tr0) -> pdone s0 = true -> cf_concurrency c <> Some 0%nat ->
    exec_from c s0 ls = Some (s, tr) ->
    N.of_nat (SchedP10.tops ls) <= 3 * pot (fun _ => true) s0 + N.of_nat (length (running s0)) + 3.
Proof. exact SchedP10.turns_bounded. Qed.

Example C04_turns_nonvacuous :
  match exec SchedP10.ex_c SchedP10.ex_ls0 with
  | Some (s0, _) =>
    match exec_from SchedP10.ex_c s0 SchedP10.ex_ls with
    | Some (s, _) => (pdone s0, match pc s with Done => true | _ => false end, SchedP10.tops SchedP10.ex_ls)
    | None => (false, false, 0%nat)
    end
  | None => (false, false, 0%nat)
  end = (true, true, 5%nat).
Proof. vm_compute. reflexivity. Qed.


(* ---------- "WITHOUT FAIL-FAST" as a hypothesis on the configuration (review finding M3) ----------
   `C04_every_supplied_scenario_starts` assumes `flow s <> Break`, an internal-state fact. The bridge: *)
Theorem C04_without_fail_fast_the_flow_never_breaks :
  forall c ls s tr, cf_fail_fast c = false -> exec c ls = Some (s, tr) -> flow s <> Break.
Proof. exact ReviewP.no_fail_fast_no_break. Qed.
Print Assumptions C04_without_fail_fast_the_flow_never_breaks.

Theorem C04_without_fail_fast_every_supplied_scenario_starts :
  forall c ls s tr, cf_fail_fast c = false -> exec c ls = Some (s, tr) -> pc s = Done ->
    forall x, In x (inserted_ids ls) -> In x (started_ids tr).
Proof. exact ReviewP.all_supplied_started_no_ff. Qed.
Print Assumptions C04_without_fail_fast_every_supplied_scenario_starts.


(* ---------- NO SPINNING, beyond enabledness (review finding M9): once the parser has ended (limit not 0, as the property
   quantifies), an idle loop turn has moved the clock, after it nothing but clock ticks can happen before the next turn, and
   that next turn DISPATCHES: two idle turns never occur in a row. Before the parser has ended the loop may turn idly any
   number of times while the parser is silent (ReviewP3.spin_while_the_parser_is_silent and two more witnesses: the real
   runner yields to the executor at each such turn — repair F1 — which the harness observes as polls that return) ---------- *)
Theorem C04_after_parsing_an_idle_turn_is_followed_by_a_dispatch :
  forall c pre s0 tr0 s1 o1 mid s2 tr2 s3 o3,
    exec c pre = Some (s0, tr0) -> In LParserEnd pre -> cf_concurrency c <> Some 0%nat ->
    step c s0 LTop = Some (s1, o1) -> pc s1 = Yielded ->
    exec_from c s1 mid = Some (s2, tr2) -> SchedP10.tops mid = 0%nat ->
    step c s2 LTop = Some (s3, o3) ->
    now s0 < now s1 /\ Forall ReviewP3.tick_label mid /\ pc s3 = Awaiting /\ running s3 <> [].
Proof. exact ReviewP3.after_parsing_an_idle_turn_is_followed_by_a_dispatch. Qed.
Print Assumptions C04_after_parsing_an_idle_turn_is_followed_by_a_dispatch.

(* on label lists only: two loop turns in a row that both leave the loop idle happen only with limit 0 or before the parser
   has ended *)
Theorem C04_two_idle_turns_only_while_waiting_for_the_parser :
  forall c pre mid s1 tr1 s3 tr3,
    exec c (pre ++ [LTop]) = Some (s1, tr1) -> pc s1 = Yielded ->
    SchedP10.tops mid = 0%nat ->
    exec c ((pre ++ [LTop]) ++ mid ++ [LTop]) = Some (s3, tr3) -> pc s3 = Yielded ->
    cf_concurrency c = Some 0%nat \/ ~ In LParserEnd (pre ++ [LTop] ++ mid).
Proof. exact ReviewP3.two_idle_turns_labels. Qed.
Print Assumptions C04_two_idle_turns_only_while_waiting_for_the_parser.
