(* Props/C12.v — property C12: summary counters equal what the event stream contains. *)
From CV Require Import Model.Base Model.Events Model.Stats Model.StatsSpec Proofs.BaseP Proofs.StatsP Proofs.StatsP2.
From CV Require Model.Contract Model.Pipeline Proofs.StatsP3.

(* features, rules, the four step counters, parsing errors and hook errors are the numbers of
   matching events before run-Finished — for EVERY event list, contract-abiding or not *)
Theorem C12_stateless_counters :
  forall last_own es,
    core_of (sm_final last_own es) = core_count (before_finished (map snd es)).
Proof. exact sm_final_core. Qed.

(* events replayed after run-Finished change nothing *)
Theorem C12_replay_inert :
  forall last_own s es, sm_state s = FinishedAndOutput -> final_from last_own s es = s.
Proof. intros; apply final_from_inert; assumption. Qed.

(* the summary is written exactly once if the stream contains run-Finished, never otherwise ... *)
Theorem C12_summary_written_once :
  forall last_own es,
    n_writes (all_ops (sm_run_from last_own summ_init es)) =
      if existsb (fun e => is_finished (snd e)) es then 1%nat else 0%nat.
Proof. intros; apply summary_written_once; reflexivity. Qed.

(* ... namely right after run-Finished has been forwarded, in the same call, stating the final counters *)
Theorem C12_summary_right_after_finished :
  forall last_own s e, sm_state s = InProgress -> snd e = EvFinished ->
    snd (sm_handle last_own s e) = [OEv e; OWrite (fst (sm_handle last_own s e))].
Proof. exact summary_right_after_finished. Qed.

(* the four SCENARIO counters (passed, skipped, failed, retried) equal the classification of the spec, for every
   stream outside the recorded classes K12a-d whose attempts are well-formed (wf_attempts: Started, optional before
   hook, the declared steps in order up to the first Skipped/Failed, optional after hook, Finished; Retries values
   do not come back), whose Retries are consistent, and whose `last_own` oracle names the last declared step.
   Scenarios may interleave arbitrarily. StatsP2 also shows by witnesses that none of the three can be dropped. *)
Theorem C12_scenario_counters :
  forall last_own steps_of es,
    let evs := before_finished (map snd es) in
    k12_class last_own steps_of (map snd es) = 0 ->
    retry_consistent evs = true ->
    wf_attempts steps_of evs = true ->
    last_own_consistent last_own steps_of evs = true ->
    let s := sm_final last_own es in
    [n_passed (sm_scenarios s); n_skipped (sm_scenarios s); n_failed (sm_scenarios s); n_retried (sm_scenarios s)]
    = firstn 4 (skipn 2 (spec_counts (map snd es))).
Proof. exact scenario_counters_correct. Qed.

Example C12_scenario_counters_nonvacuous :
  k12_class ex_last_own ex_steps_of (map snd ex_stream) = 0 /\
  retry_consistent (before_finished (map snd ex_stream)) = true /\
  wf_attempts ex_steps_of (before_finished (map snd ex_stream)) = true /\
  last_own_consistent ex_last_own ex_steps_of (before_finished (map snd ex_stream)) = true /\
  firstn 4 (skipn 2 (spec_counts (map snd ex_stream))) = [1; 0; 1; 1].
Proof. vm_compute. repeat split; reflexivity. Qed.

Example C12_nonvacuous :
  let es := [(1, EvStarted); (2, EvFeatS 1); (3, EvScen 1 None 2 None ScStarted);
             (4, EvScen 1 None 2 None (ScStep 9 StStarted)); (5, EvScen 1 None 2 None (ScStep 9 StPassed));
             (6, EvScen 1 None 2 None ScFinished); (7, EvFeatF 1); (8, EvFinished);
             (9, EvScen 1 None 2 None (ScStep 9 StPassed))] in
  spec_counts (map snd es) = [1; 0; 1; 0; 0; 0; 1; 0; 0; 0; 0; 0] /\
  n_passed (sm_scenarios (sm_final (fun _ => Some 9) es)) = 1.
Proof. vm_compute. split; reflexivity. Qed.

(* THE SUMMARY BEHIND NORMALIZE (the default pipeline Normalize<Summarize<..>>), ON THE RAW STREAM: for every complete
   raw stream obeying the Runner contract — any interleaving — all TWELVE numbers of the summary equal the specification
   computed on the RAW stream, under the hypotheses of C12_scenario_counters stated on the raw stream. StatsP3 shows
   that the specification and every hypothesis only depend on per-scenario-path projections and on the multiset of
   events, and proves that Normalize preserves the order of events PER PATH (all attempts of a scenario), a
   strengthening of the per-attempt statement of C11 that needs a new queue-order invariant. *)
Theorem C12_summary_behind_normalize_is_the_spec :
  forall tags_of last_own steps_of q es,
    Contract.contract (map snd es) = true ->
    let evs := before_finished (map snd es) in
    k12_class last_own steps_of (map snd es) = 0 ->
    retry_consistent evs = true ->
    wf_attempts steps_of evs = true ->
    last_own_consistent last_own steps_of evs = true ->
    Pipeline.summary_nums (StatsP3.summ_behind_norm (Pipeline.qfinal tags_of last_own (Pipeline.QNorm (Pipeline.QSumm q)) es))
    = spec_counts (map snd es).
Proof. exact StatsP3.summary_behind_normalize_is_spec. Qed.
Print Assumptions C12_summary_behind_normalize_is_the_spec.

(* the eight stateless counters need no hypothesis beyond the contract *)
Theorem C12_stateless_counters_behind_normalize :
  forall tags_of last_own q es, Contract.contract (map snd es) = true ->
    core_of (StatsP3.summ_behind_norm (Pipeline.qfinal tags_of last_own (Pipeline.QNorm (Pipeline.QSumm q)) es))
    = core_count (before_finished (map snd es)).
Proof. exact StatsP3.summary_core_behind_normalize. Qed.
Print Assumptions C12_stateless_counters_behind_normalize.
