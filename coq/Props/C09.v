(* Props/C09.v — property C09: World lifecycle and hook contract within an attempt. *)
From CV Require Proofs.ReviewP2.
From CV Require Import Model.Base Model.Events Model.Attempt Model.AttemptSpec Proofs.BaseP Proofs.AttemptP Proofs.AttemptP2.

(* the after hook runs exactly once iff it is set — also after a failed or skipped step or a failed
   before hook — and it is the last callback of the attempt *)
Theorem C09_after_hook_once_and_last :
  forall i,
    match ai_after i with
    | Some _ => exists cs r w, ao_calls (run_attempt i) = cs ++ [CAfter r w] /\ existsb is_after cs = false
    | None => existsb is_after (ao_calls (run_attempt i)) = false
    end.
Proof. exact after_hook_once_and_last. Qed.

(* it receives the World the attempt ended with (if any) and the reason the step phase ended *)
Theorem C09_after_hook_arguments :
  forall i,
    ao_calls (run_attempt i) =
    a_calls (fst (phases i)) ++
    match ai_after i with
    | Some _ => [CAfter (final_reason (snd (phases i))) (final_world_of (snd (phases i)))]
    | None => []
    end.
Proof. exact calls_shape. Qed.

Example C09_nonvacuous :
  ao_calls (run_attempt (mk_attempt_in (Some None) (Some None) WOk [(10, OMatch None)] [] [(11, OMatch (Some 5)); (12, OMatch None)] None))
  = [CWorldNew; CBefore []; CStep 10 [0]; CStep 11 [0; 10]; CAfter (RStepFailed (EPanic 5)) (Some [0; 10; 11])].
Proof. vm_compute. reflexivity. Qed.

(* THE WHOLE LIFECYCLE CONTRACT on the model: for every attempt — any combination of hooks (absent, passing,
   panicking), any outcome of World::new (ok, Err, panic), any background and own steps with any outcome (no match,
   ambiguous, passing, panicking) — the callback log and the events satisfy the independent recogniser c09_ok:
   a World is created at most once and exactly when a before hook is set or a step matched; the before hook runs
   first, on the fresh World; every step sees exactly the mutations of everything before it; the after hook runs
   exactly once iff set, last, with the final World (if one exists) and the true reason the step phase ended *)
Theorem C09_model_satisfies_the_lifecycle_contract :
  forall i,
    c09_ok (is_some (ai_before i)) (is_some (ai_after i)) (ao_events (run_attempt i))
           (map (fun c => (c, None)) (ao_calls (run_attempt i))) = true.
Proof. exact attempt_c09. Qed.
Print Assumptions C09_model_satisfies_the_lifecycle_contract.


(* ---------- WITH WORLD INSTANCE IDS, AND THE STEP CALLBACKS TIED TO THE EVENTS (review finding M7) ----------
   `C09_model_satisfies_the_lifecycle_contract` feeds no instance ids, so `same_instance` is trivially satisfied there. *)
Theorem C09_lifecycle_contract_with_the_attempts_world :
  forall i w,
    c09_ok (is_some (ai_before i)) (is_some (ai_after i)) (ao_events (run_attempt i))
      (ReviewP2.RC.tag_calls w (ao_calls (run_attempt i))) = true.
Proof. exact ReviewP2.C09_lifecycle_contract_with_the_attempts_world. Qed.
Print Assumptions C09_lifecycle_contract_with_the_attempts_world.

(* the recogniser rejects ANY log in which two different World instances appear *)
Theorem C09_two_world_instances_are_rejected :
  forall hb ha evs (ocs : list ocall) c1 c2 w1 w2,
    In (c1, Some w1) ocs -> In (c2, Some w2) ocs -> w1 <> w2 -> c09_ok hb ha evs ocs = false.
Proof. exact ReviewP2.C09_two_world_instances_are_rejected. Qed.
Print Assumptions C09_two_world_instances_are_rejected.

(* `c09_ok` does not relate the ids of the step callbacks to the events (a log calling steps 77, 78, 79 for events about
   steps 10 and 11 is accepted). `calls_match_events`: the step callbacks are, in order, exactly the steps the events
   report as Passed or Failed with a panic payload; the model satisfies it, and it is demanded of the real runner's
   callback log as well (Check/AttemptCheck.v) *)
Theorem C09_step_callbacks_match_the_events :
  forall i, ReviewP2.RC.calls_match_events (ao_events (run_attempt i)) (ao_calls (run_attempt i)) = true.
Proof. exact ReviewP2.C09_step_callbacks_match_the_events. Qed.
Print Assumptions C09_step_callbacks_match_the_events.
