(* Props/C15.v — property C15: filtering by name, tags or closure. *)
From CV Require Import Model.Base Model.TagExpr Model.Gherkin Model.Filter
  Proofs.BaseP Proofs.RetryOptsP Proofs.FilterP.

Theorem C15_top_level_exactly_accepted :
  forall re_match user re_given tags f,
    kept (accept re_match user re_given tags f None) (f_scens f)
         (f_scens (filter_feature re_match user re_given tags f)).
Proof. exact top_level_kept. Qed.

Theorem C15_rules_exactly_accepted :
  forall re_match user re_given tags f,
    Forall2 (fun r r' =>
               r_id r' = r_id r /\ r_name r' = r_name r /\ r_tags r' = r_tags r /\ r_bg r' = r_bg r /\
               kept (accept re_match user re_given tags f (Some r)) (r_scens r) (r_scens r'))
            (f_rules f) (f_rules (filter_feature re_match user re_given tags f)).
Proof. exact rules_kept. Qed.

(* `kept p l l'` determines l' uniquely: exactly the accepted ones, in order, nothing else *)
Theorem C15_kept_is_unique :
  forall (A : Type) (p : A -> bool) l l1 l2, kept p l l1 -> kept p l l2 -> l1 = l2.
Proof. exact @kept_unique. Qed.

Theorem C15_rest_intact :
  forall re_match user re_given tags f,
    let f' := filter_feature re_match user re_given tags f in
    f_id f' = f_id f /\ f_name f' = f_name f /\ f_tags f' = f_tags f /\ f_bg f' = f_bg f.
Proof. exact rest_intact. Qed.

(* [definitional] unfolds the model's own definition: a pinned reading of the model (it breaks when the model is edited),
   not evidence for the property by itself — the model is tied to the code by the correspondence check *)
Theorem C15_name_wins :
  forall re_match user tags f r s, accept re_match user true tags f r s = re_match (s_name s).
Proof. exact accept_name. Qed.

Theorem C15_tags_then :
  forall re_match user t f r s,
    accept re_match user false (Some t) f r s = true <->
    tag_interp t (fun x => In x (f_tags f) \/ In x (rule_tags r) \/ In x (s_tags s)).
Proof. exact accept_tags. Qed.

(* [definitional] unfolds the model's own definition: a pinned reading of the model (it breaks when the model is edited),
   not evidence for the property by itself — the model is tied to the code by the correspondence check *)
Theorem C15_closure_last :
  forall re_match user f r s, accept re_match user false None f r s = user f r s.
Proof. exact accept_closure. Qed.

Theorem C15_eval_is_boolean :
  forall op tags, tag_eval op tags = true <-> tag_interp op (fun t => In t tags).
Proof. exact tag_eval_bool. Qed.

Example C15_nonvacuous :
  let s1 := mk_scen 3 (lit "a") [lit "x"] [] in
  let s2 := mk_scen 5 (lit "b") [] [] in
  let f := mk_feature 1 (lit "F") [lit "y"] [] [s1; s2] [mk_rule 7 (lit "R") [lit "x"] [] [s2; s1]] in
  let f' := filter_feature (fun _ => true) (fun _ _ _ => true) false
              (Some (TAnd (TTag (lit "x")) (TTag (lit "y")))) f in
  map s_id (f_scens f') = [3] /\ map (fun r => map s_id (r_scens r)) (f_rules f') = [[5; 3]].
Proof. vm_compute. auto. Qed.
