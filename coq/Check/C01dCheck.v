(* C01dCheck.v — `run_and_exit` around a writer with scripted Stats getters: panics iff the default verdict rule
   says failed, with the message the model assembles. *)
From CV Require Import Model.Base Model.Events Model.Stats Model.Exit Check.Verdict.

Record ecase := mk_ecase {
  ec_getters : getters;
  ec_panicked : bool;
  ec_parts : option (list (N * N)) }.      (* the parsed panic message; None: unparsable or no panic *)

Definition parts_eqb (a b : list (N * N)) : bool := list_eqb (pair_eqb N.eqb N.eqb) a b.

(* the property: the process fails iff the statistics say execution has failed *)
Definition c01d_ok (c : ecase) : bool := Bool.eqb (ec_panicked c) (g_has_failed (ec_getters c)).

Definition same_as_model (c : ecase) : bool :=
  match run_and_exit (ec_getters c), ec_panicked c with
  | None, false => true
  | Some p, true => match ec_parts c with Some q => parts_eqb p q | None => false end
  | _, _ => false
  end.

Definition verdict (id : N) (c : ecase) : list (list N) :=
  [vrow id 1 (judge (c01d_ok c) (same_as_model c) 0)].
