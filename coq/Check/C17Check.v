(* C17Check.v — judges `step::Collection::find` on observed cases. *)
From CV Require Import Model.Base Model.StepMatch Check.Verdict.

Definition found_eqb (a b : found) : bool :=
  match a, b with
  | FNone, FNone => true
  | FFound f l m, FFound f' l' m' =>
    (f =? f') && option_eqb loc_eqb l l' &&
    list_eqb (pair_eqb (option_eqb str_eqb) str_eqb) m m'
  | FAmbiguous k, FAmbiguous k' => list_eqb key_eqb k k'
  | _, _ => false
  end.

Record smcase := mk_smcase {
  sm_regs_a : list entry;                               (* registration order A *)
  sm_regs_b : list entry;                               (* registration order B *)
  sm_rx : list (str * list (str * option (list (option str))));  (* regex -> text -> captures *)
  sm_names : list (str * list (option str));            (* regex -> capture_names *)
  sm_steps : list (N * str * found * found);            (* keyword, text, observed on A, observed on B *)
}.

Definition verdict (id : N) (c : smcase) : list (list N) :=
  let rx := fun re text =>
    match slookup re (sm_rx c) with
    | Some t => match slookup text t with Some r => r | None => None end
    | None => None
    end in
  let names := fun re => match slookup re (sm_names c) with Some n => n | None => [] end in
  let ca := build (sm_regs_a c) in
  let cb := build (sm_regs_b c) in
  let fix go (i : N) (l : list (N * str * found * found)) : list (list N) :=
    match l with
    | [] => []
    | (ty, text, oa, ob) :: l' =>
      let sa := found_eqb (find rx names ca ty text) oa in
      let sb := found_eqb (find rx names cb ty text) ob in
      vrow id (10 * i + 1) (judge sa sa 0) :: vrow id (10 * i + 2) (judge sb sb 0) :: go (i + 1) l'
    end in
  go 1 (sm_steps c).
