(* C13Check.v — judges observed deliveries of real combinator pipelines. *)
From CV Require Import Model.Base Model.Events Model.Gherkin Model.Combinators Check.Verdict.

Record ccase := mk_ccase {
  cc_features : list feature;
  cc_pipe : pipe;
  cc_events : list mev;
  cc_calls : list (list (N * mev));      (* observed deliveries per handle_event call *)
  cc_writes : option (list N);           (* leaves that received the arbitrary write; None: write unsupported *)
  cc_stats : counters;
  cc_failed : bool;
}.

(* inherited tags in the order the default predicate chains them: scenario, rule, feature *)
Definition tags_of_features (fs : list feature) (f : N) (r : option N) (s : N) : list str :=
  match find (fun x => f_id x =? f) fs with
  | None => []
  | Some ft =>
    let rl := match r with
              | Some rid => find (fun x => r_id x =? rid) (f_rules ft)
              | None => None end in
    let scs := match rl with Some x => r_scens x | None => f_scens ft end in
    let stags := match find (fun x => s_id x =? s) scs with Some x => s_tags x | None => [] end in
    stags ++ (match rl with Some x => r_tags x | None => [] end) ++ f_tags ft
  end.

Definition counters_eqb (a b : counters) : bool :=
  (k_passed a =? k_passed b) && (k_skipped a =? k_skipped b) && (k_failed a =? k_failed b) &&
  (k_retried a =? k_retried b) && (k_parsing a =? k_parsing b) && (k_hooks a =? k_hooks b).

Definition verdict (id : N) (c : ccase) : list (list N) :=
  let m := run (tags_of_features (cc_features c)) (cc_pipe c) (cc_events c) in
  let same := list_eqb (list_eqb (pair_eqb N.eqb mev_eqb)) m (cc_calls c) in
  let w := option_eqb (list_eqb N.eqb) (write_to (cc_pipe c)) (cc_writes c) in
  let st := counters_eqb (stats (cc_pipe c)) (cc_stats c) &&
            Bool.eqb (exec_failed (cc_pipe c)) (cc_failed c) in
  [vrow id 1 (judge same same 0); vrow id 2 (judge w w 0); vrow id 3 (judge st st 0)].
