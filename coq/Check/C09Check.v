(* C09Check.v — see AttemptCheck.v *)
From CV Require Import Model.Base Check.AttemptCheck.
Definition verdict := verdict_with c09_ok_case.
