(* C01Check.v — judges execution_has_failed of real statistics pipelines against the
   declarative verdict of StatsSpec.v. *)
From CV Require Import Model.Base Model.Events Model.Gherkin Model.Combinators Model.Stats Model.Pipeline
  Model.StatsSpec Model.Contract Check.Verdict Check.StatsCase.

Definition c01_ok (c : scase) : bool :=
  match rev (sc_stats c) with
  | (_, failed) :: _ => Bool.eqb failed (spec_failed (effective c))
  | [] => true
  end.

Definition verdict (id : N) (c : scase) : list (list N) :=
  if contract (map snd (sc_events c)) && retry_consistent (effective c)
     && (count (fun e => match e with EvParsingFinished _ _ _ _ _ => true | _ => false end) (map snd (sc_events c)) =? 1) then [vrow id 1 (judge (c01_ok c) (same_as_model c) (k01_class (effective c)))]
  else [vrow id 1 (4, 0)].
