(* C20bCheck.v — WHICH scenario a tracing event is attributed to (review finding H3): the observed span tree, the scenario
   id the real `format_event` resolved for every formatted event, the collector's registry and the delivered Log events,
   judged by the attribution model Model/TracingAttr.v:
     (a) the resolved id equals the model's `scope_lookup` on the observed span tree      [model = implementation]
     (b) a message the harness emitted for scenario sc resolves to a REGISTERED id that stands for sc
     (c) every delivered message reaches the registered scenario of its id (with its retries), or — id unknown — a
         registered one.                                                                   [(b), (c): the property]
   What this check does NOT judge (second review, M1): that a message is delivered EXACTLY ONCE and that none is lost — a
   message delivered three times or never passes here; those clauses, and "between the Started and the result of its step",
   are judged on the same history by Check/C20Check.v (`c20_ok`). Clause (c) looks the id up in the registry AT DELIVERY
   TIME: a message whose scenario was unregistered before the delivery may go to any registered scenario (the real
   collector's broadcast rule); that the runner forwards a span's logs BEFORE `finish_scenario` is again the ordering
   judged by C20Check.
   Where "delivery time" is measured (third review, M2): an `ADeliver` record is made by the trace point at which the RUNNER hands
   the Log event over (`send_event`, the same thread-local trace as the `reg` / `unreg` records of the collector), not where a
   writer receives it: the order of `ADeliver` and `AUnreg` records is the order of the collector's own actions. *)
From CV Require Import Model.Base Model.Events Model.TracingAttr Check.Verdict.

Record acase20 := mk_acase20 { a20_recs : list arec }.

Definition clause (c : acase20) : N := match attr_first_bad_why (a20_recs c) with Some (_, k) => k | None => 0 end.

(* (d) a message of an attempt is delivered WHILE THE ATTEMPT IS STILL REGISTERED (the composed theorem
   `C20_delivered_before_the_attempt_is_forgotten`, Props/C20.v: the collector forgets an attempt only after the results of all
   its steps and hooks, and every log is forwarded before its step's result). Clause (c) alone would accept a delivery after
   the unregistration as long as it reaches SOME registered scenario (second review, M1). *)
Fixpoint late_walk (st : astate) (rs : list arec) : bool :=
  match rs with
  | [] => true
  | r :: t =>
    (match r with
     | ADeliver _ _ (Some m) =>
       match alookup m (a_known st) with
       | Some k => is_some (alookup k (a_reg st))
       | None => true
       end
     | _ => true
     end) && late_walk (astep st r) t
  end.
Definition not_late (c : acase20) : bool := late_walk ainit (a20_recs c).

(* clause (a) failing is a disagreement between model and implementation; (b) / (c) failing is the property failing *)
Definition verdict (id : N) (c : acase20) : list (list N) :=
  let k := clause c in
  [vrow id 1 (judge (negb ((k =? 2) || (k =? 3)) && not_late c) (negb (k =? 1)) 0);
   (* informational: the hypotheses of the attribution theorem (Props/C20.v: `shaped`: fresh spans, known parents, ids given
      at creation) hold of the observed records *)
   [id; 90; 0; if shaped (a20_recs c) then 1 else 0]].
