(* C20Check.v — trace validation of the REAL tracing integration against Model/Tracing.v, and the C20
   monitor, written against the property text on the totally ordered history of a run. *)
From CV Require Import Model.Base Model.Events Model.Tracing Model.TracingStart Check.Verdict.

Inductive trec :=
| RCb (s st k span : N)                 (* a step body starts: scenario, step, attempt, its span *)
| REmit (s m span : N)                  (* the step body logs message m *)
| RClose (x : N) | RSub (x : N) | RFwd
| RLogEv (s : N) (rt : retr) (m : option N)   (* a Log event of scenario s (None: not one of the harness's messages) *)
| REv (e : ev).

Record tcase := mk_tcase { tc_history : list trec }.

Definition cur_of (rt : retr) : N := match rt with Some (c, _) => c | None => 0 end.

Definition is_logev (r : trec) : bool := match r with RLogEv _ _ _ => true | _ => false end.
(* the harness gives the logging hooks the step ids 90001 (before) and 90002 (after) *)
Definition hook_id (before : bool) : N := if before then 90001 else 90002.
Definition step_result (e : ev) : option (N * N * N) :=       (* scenario, step, attempt *)
  match e with
  | EvScen _ _ s rt (ScStep st x) | EvScen _ _ s rt (ScBg st x) =>
    match x with StStarted => None | _ => Some (s, st, cur_of rt) end
  | EvScen _ _ s rt (ScHook b h) =>
    match h with HStarted => None | _ => Some (s, hook_id b, cur_of rt) end
  | _ => None
  end.
Definition step_started (e : ev) : option (N * N * N) :=
  match e with
  | EvScen _ _ s rt (ScStep st StStarted) | EvScen _ _ s rt (ScBg st StStarted) => Some (s, st, cur_of rt)
  | EvScen _ _ s rt (ScHook b HStarted) => Some (s, hook_id b, cur_of rt)
  | _ => None
  end.

Definition span_of (cbs : list (N * N * N * N)) (s st k : N) : option N :=
  match find (fun c => match c with (s', st', k', _) => (s' =? s) && (st' =? st) && (k' =? k) end) cbs with
  | Some (_, _, _, x) => Some x
  | None => None
  end.

(* labels and expected outputs read off the history *)
Fixpoint labels_of (cbs : list (N * N * N * N)) (inloop : bool) (h : list trec) : list tlabel * list tout :=
  match h with
  | [] => ([], [])
  | r :: t =>
    match r with
    | RCb s st k x => labels_of ((s, st, k, x) :: cbs) false t
    | REmit s m x => let '(ls, os) := labels_of cbs false t in (TEmit s m x :: ls, os)
    | RClose x => let '(ls, os) := labels_of cbs false t in (TClose x :: ls, os)
    | RSub x => let '(ls, os) := labels_of cbs false t in (TSub x :: ls, os)
    | RFwd =>
      let continues := match t with r' :: _ => is_logev r' | [] => false end in
      let '(ls, os) := labels_of cbs continues t in
      ((if inloop then ls else TFwd :: ls), os)
    | RLogEv s _ m =>
      let '(ls, os) := labels_of cbs inloop t in
      (ls, TLog s (match m with Some x => x | None => 0 end) :: os)
    | REv e =>
      match step_result e with
      | Some (s, st, k) =>
        match span_of cbs s st k with
        | Some x => let '(ls, os) := labels_of cbs false t in (TResult x :: ls, TRes x :: os)
        | None => labels_of cbs false t
        end
      | None => labels_of cbs false t
      end
    end
  end.

Definition tout_eqb (a b : tout) : bool :=
  match a, b with
  | TLog s m, TLog s' m' => (s =? s') && (m =? m')
  | TRes x, TRes y => x =? y
  | _, _ => false
  end.

Definition same_as_model (c : tcase) : bool :=
  let '(ls, os) := labels_of [] false (tc_history c) in
  match texec tinit ls with
  | Some (_, out) => list_eqb tout_eqb out os
  | None => false
  end.

(* ---- the same history against the layer with Started events (TracingStart.v) ---- *)
Definition all_cbs (h : list trec) : list (N * N * N * N) :=
  flat_map (fun r => match r with RCb s st k x => [(s, st, k, x)] | _ => [] end) h.
Definition after_spans (h : list trec) : list N :=
  flat_map (fun r => match r with RCb _ st _ x => if st =? hook_id false then [x] else [] | _ => [] end) h.
Definition tout2_eqb (a b : tout2) : bool :=
  match a, b with
  | OBase x, OBase y => tout_eqb x y
  | OStart x, OStart y => x =? y
  | _, _ => false
  end.
(* the Started event of a step / hook comes BEFORE the record that tells its span: spans are looked up in all records *)
Fixpoint labels_of2 (cbs : list (N * N * N * N)) (inloop : bool) (h : list trec) : list tlabel2 * list tout2 :=
  match h with
  | [] => ([], [])
  | r :: t =>
    match r with
    | RCb _ _ _ _ => labels_of2 cbs false t
    | REmit s m x => let '(ls, os) := labels_of2 cbs false t in (LBase (TEmit s m x) :: ls, os)
    | RClose x => let '(ls, os) := labels_of2 cbs false t in (LBase (TClose x) :: ls, os)
    | RSub x => let '(ls, os) := labels_of2 cbs false t in (LBase (TSub x) :: ls, os)
    | RFwd =>
      let continues := match t with r' :: _ => is_logev r' | [] => false end in
      let '(ls, os) := labels_of2 cbs continues t in
      ((if inloop then ls else LBase TFwd :: ls), os)
    | RLogEv s _ m =>
      let '(ls, os) := labels_of2 cbs inloop t in
      (ls, OBase (TLog s (match m with Some x => x | None => 0 end)) :: os)
    | REv e =>
      match step_started e with
      | Some (s, st, k) =>
        match span_of cbs s st k with
        | Some x => let '(ls, os) := labels_of2 cbs false t in (LStart x :: ls, OStart x :: os)
        | None => labels_of2 cbs false t
        end
      | None =>
        match step_result e with
        | Some (s, st, k) =>
          match span_of cbs s st k with
          | Some x => let '(ls, os) := labels_of2 cbs false t in (LBase (TResult x) :: ls, OBase (TRes x) :: os)
          | None => labels_of2 cbs false t
          end
        | None => labels_of2 cbs false t
        end
      end
    end
  end.
Definition same_as_model2 (c : tcase) : bool :=
  let h := tc_history c in
  let afters := after_spans h in
  let '(ls, os) := labels_of2 (all_cbs h) false h in
  match texec2 (fun x => memN x afters) tinit2 ls with
  | Some (_, out) => list_eqb tout2_eqb out os
  | None => false
  end.

(* ---- the monitor ---- *)
Record mon := mk_mon {
  m_cbs : list (N * N * N * N);          (* scenario, step, attempt, span *)
  m_emitted : list (N * N * N);          (* message, scenario, span *)
  m_delivered : list N;
  m_open : list (N * N * N) }.           (* (scenario, attempt, step) between Started and result *)

Definition k3_eqb (a b : N * N * N) : bool :=
  match a, b with (x, y, z), (x', y', z') => (x =? x') && (y =? y') && (z =? z') end.

(* `relaxed`: a message emitted inside an AFTER hook is not required to arrive while that hook is open (K20a) *)
Fixpoint mon_walk (relaxed : bool) (m : mon) (h : list trec) : bool :=
  match h with
  | [] => forallb (fun e => match e with (msg, _, _) => memN msg (m_delivered m) end) (m_emitted m)
  | r :: t =>
    match r with
    | RCb s st k x => mon_walk relaxed (mk_mon ((s, st, k, x) :: m_cbs m) (m_emitted m) (m_delivered m) (m_open m)) t
    | REmit s msg x => mon_walk relaxed (mk_mon (m_cbs m) ((msg, s, x) :: m_emitted m) (m_delivered m) (m_open m)) t
    | RLogEv s rt (Some msg) =>
      (* delivered once, to the scenario and attempt that emitted it, while the emitting step is open *)
      match find (fun e => match e with (msg', _, _) => msg' =? msg end) (m_emitted m) with
      | Some (_, s', x) =>
        (s' =? s) && negb (memN msg (m_delivered m))
        && match find (fun c => match c with (_, _, _, x') => x' =? x end) (m_cbs m) with
           | Some (s2, st, k, _) =>
             (s2 =? s) && (k =? cur_of rt)
             && (existsb (k3_eqb (s, k, st)) (m_open m) || (relaxed && (st =? hook_id false)))
           | None => false
           end
        && mon_walk relaxed (mk_mon (m_cbs m) (m_emitted m) (msg :: m_delivered m) (m_open m)) t
      | None => false
      end
    | RLogEv _ _ None => false              (* a Log event nobody emitted *)
    | REv e =>
      match step_started e with
      | Some (s, st, k) => mon_walk relaxed (mk_mon (m_cbs m) (m_emitted m) (m_delivered m) ((s, k, st) :: m_open m)) t
      | None =>
      match step_result e with
      | Some (s, st, k) =>
        (* the result comes after every log emitted inside the step *)
        forallb (fun em => match em with (msg, _, x) =>
                   match span_of (m_cbs m) s st k with
                   | Some x' => negb (x =? x') || memN msg (m_delivered m)
                   | None => true end end) (m_emitted m)
        && mon_walk relaxed (mk_mon (m_cbs m) (m_emitted m) (m_delivered m)
                                    (filter (fun o => negb (k3_eqb o (s, k, st))) (m_open m))) t
      | None => mon_walk relaxed m t
      end
      end
    | _ => mon_walk relaxed m t
    end
  end.

Definition c20_ok (c : tcase) : bool := mon_walk false (mk_mon [] [] [] []) (tc_history c).

(* K20a: the After hook is RUN before any of its events is emitted (and before the failure event of the step or Before
   hook that failed: src/runner/basic.rs:1711-1727 explains why), so whatever it logs is delivered BEFORE its own
   Started event. Class 1 = some message was emitted inside an after hook; such a run must still satisfy everything
   else (the relaxed monitor) and be replayed by the protocol model to count as failing "in the recorded way". *)
Definition known20 (c : tcase) : N :=
  let h := tc_history c in
  let after_spans := flat_map (fun r => match r with RCb _ st _ x => if st =? hook_id false then [x] else [] | _ => [] end) h in
  if existsb (fun r => match r with REmit _ _ x => memN x after_spans | _ => false end) h then 1 else 0.
Definition c20_relaxed_ok (c : tcase) : bool := mon_walk true (mk_mon [] [] [] []) (tc_history c).

Definition verdict (id : N) (c : tcase) : list (list N) :=
  [vrow id 1 (judge (c20_ok c) (same_as_model c && same_as_model2 c && c20_relaxed_ok c) (known20 c))].
