(* C05cCheck.v — C05 on runs WITH the tracing integration switched on (Cucumber::init_tracing()): an attempt then
   parks between its last user code and its Finished event until its span has closed, and other attempts complete
   meanwhile. The raw event stream of such a run must still satisfy the ordering contract — in particular
   "attempts of one scenario never overlap" (Contract: a Started is refused while an attempt of the same scenario is
   open, and attempt k+1 needs attempt k closed) — and the retry chain of every scenario must be current = 0, 1, 2, ..
   with current + left constant. The model side is the replay of the protocol model of C20. *)
From CV Require Import Model.Base Model.Events Model.Contract Model.Tracing Check.Verdict Check.C20Check.

Definition evs_of (h : list trec) : list ev :=
  flat_map (fun r => match r with REv e => [e] | _ => [] end) h.

(* the retries of the Started events of scenario s, in stream order *)
Definition starts_of (s : N) (es : list ev) : list retr :=
  flat_map (fun e => match e with EvScen _ _ s' rt ScStarted => if s' =? s then [rt] else [] | _ => [] end) es.

Fixpoint chain_from (k total : N) (l : list retr) : bool :=
  match l with
  | [] => true
  | Some (c, lft) :: t => (c =? k) && (c + lft =? total) && chain_from (k + 1) total t
  | None :: t => false
  end.
Definition chain_ok (l : list retr) : bool :=
  match l with
  | [] => true
  | [None] => true
  | Some (c, lft) :: _ => chain_from 0 (c + lft) l
  | _ => false
  end.

Definition scen_ids (es : list ev) : list N :=
  nodup N.eq_dec (flat_map (fun e => match e with EvScen _ _ s _ ScStarted => [s] | _ => [] end) es).

Definition c05c_ok (c : tcase) : bool :=
  let es := evs_of (tc_history c) in
  contract es && forallb (fun s => chain_ok (starts_of s es)) (scen_ids es).

Definition verdict (id : N) (c : tcase) : list (list N) :=
  [vrow id 1 (judge (c05c_ok c) (same_as_model c) 0)].
