(* C18Check.v — judges observed behaviour of `parse_from_tags` and of the CLI/builder merge. *)
From CV Require Import Model.Base Model.TagExpr Model.RetryOpts Model.RetryOptsSpec Check.Verdict.
From CV Require Model.RetryOptsSpec2.

Fixpoint tagop_eqb (a b : tagop) : bool :=
  match a, b with
  | TAnd l r, TAnd l' r' => tagop_eqb l l' && tagop_eqb r r'
  | TOr l r, TOr l' r' => tagop_eqb l l' && tagop_eqb r r'
  | TNot t, TNot t' => tagop_eqb t t'
  | TTag t, TTag t' => str_eqb t t'
  | _, _ => false
  end.

Record rcase := mk_rcase {
  rc_ftags : list str;
  rc_rtags : option (list str);
  rc_stags : list str;
  rc_cli : cli;
  rc_builder : builder;
  rc_table : list (str * option N);        (* observed humantime::parse_duration facts *)
  rc_direct : option retry_opts;           (* parse_from_tags called directly *)
  rc_direct_current : N;                   (* `Retries::current` of that result (0 if None) *)
  rc_m_retry : option N;                   (* merged cli as seen by the retry_options closure *)
  rc_m_after : option N;
  rc_m_filter : option tagop;
  rc_e2e : option retry_opts;              (* parse_from_tags inside the runner *)
  rc_first : option (N * N);               (* retries of the first Scenario::Started event *)
}.

Definition oracle (t : list (str * option N)) (s : str) : option N :=
  match slookup s t with Some r => r | None => None end.

Definition verdict (id : N) (c : rcase) : list (list N) :=
  let pd := oracle (rc_table c) in
  (* K18a, narrowed to the inputs on which the code CAN disagree: the one tag it consults is malformed (Props/C18.v) *)
  let known := if RetryOptsSpec2.k18a_narrow pd (rc_ftags c) (rc_rtags c) (rc_stags c) then 1 else 0 in
  (* sub-check 1: direct call *)
  let m1 := parse_from_tags pd (rc_ftags c) (rc_rtags c) (rc_stags c) (rc_cli c) in
  let v1 := judge (c18_ok pd (rc_ftags c) (rc_rtags c) (rc_stags c) (rc_cli c) (rc_direct c)
                   && (rc_direct_current c =? 0))
                  (retry_opts_eqb m1 (rc_direct c)) known in
  (* sub-check 2: merged CLI (C18 "CLI over builder") — the monitor is the merge law itself *)
  let mc := merge (rc_cli c) (rc_builder c) in
  let merged_ok :=
    option_eqb N.eqb (c_retry mc) (rc_m_retry c) &&
    option_eqb N.eqb (c_retry_after mc) (rc_m_after c) &&
    option_eqb tagop_eqb (c_filter mc) (rc_m_filter c) in
  let v2 := judge merged_ok merged_ok 0 in
  (* sub-check 3: resolution inside the runner, with the merged CLI *)
  let m3 := parse_from_tags pd (rc_ftags c) (rc_rtags c) (rc_stags c) mc in
  let first_ok :=
    option_eqb (pair_eqb N.eqb N.eqb)
      (match rc_e2e c with Some (l, _) => Some (0, l) | None => None end) (rc_first c) in
  let v3 := judge (c18_ok pd (rc_ftags c) (rc_rtags c) (rc_stags c) mc (rc_e2e c) && first_ok)
                  (retry_opts_eqb m3 (rc_e2e c)) known in
  [vrow id 1 v1; vrow id 2 v2; vrow id 3 v3].
