(* Verdict.v — the uniform judgement of one observed case.
   code 0: implementation output satisfies the property monitor and equals the model
   code 1: monitor false (property violated on this input) and not explained by a known class
   code 2: monitor false, input in known-finding class `cls`, implementation still equals the model
           (i.e. it fails in exactly the recorded way)
   code 3: monitor true but implementation differs from the model (correspondence broken) *)
From CV Require Import Model.Base.

Definition judge (monitor_ok : bool) (same_as_model : bool) (known_class : N) : N * N :=
  if monitor_ok then (if same_as_model then (0, 0) else (3, 0))
  else if negb (known_class =? 0) && same_as_model then (2, known_class)
  else (1, known_class).

(* one row per sub-check: [case id; sub-check id; code; class] *)
Definition vrow (id sub : N) (v : N * N) : list N := [id; sub; fst v; snd v].
