(* C10dCheck.v — the process panic hook on the REAL clock (engine `realclock`): the other engines replace the waits for retry
   deadlines by a virtual clock, so what the runner does with the panic hook AROUND a real wait (the production sleeping path)
   is dead code for them. A counting hook is installed before the run: nothing may reach it while the run is in progress, and
   once the run has ended it must be back in place (a probe panic is counted by it). Monitor only. *)
From CV Require Import Model.Base Check.Verdict.

Record rc10case := mk_rc10case { r10_calls : N; r10_restored : bool; r10_terminated : bool }.

Definition c10d_ok (c : rc10case) : bool := (r10_calls c =? 0) && (negb (r10_terminated c) || r10_restored c).

Definition verdict (id : N) (c : rc10case) : list (list N) := [vrow id 1 (judge (c10d_ok c) true 0)].
