(* C04dCheck.v — see RealClockCheck.v *)
From CV Require Import Model.Base Check.RealClockCheck.
Definition verdict := verdict04.
