(* C02Check.v — see AttemptCheck.v *)
From CV Require Import Model.Base Check.AttemptCheck.
Definition verdict := verdict_with c02_ok.
