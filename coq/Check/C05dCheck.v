(* C05dCheck.v — see RealClockCheck.v *)
From CV Require Import Model.Base Check.RealClockCheck.
Definition verdict := verdict05.
