(* C10bCheck.v — C10 on whole runs of the scheduler (several attempts in flight, panics while others are running):
   the process panic hook installed by the embedding program must see NOTHING while the run is in progress and
   must be back in place afterwards. The scheduler model keeps the hook suppressed from the first loop turn to
   the end (Sched.hook_suppressed); here the observation is judged directly. *)
From CV Require Import Model.Base Model.Events Model.Sched Model.SchedSpec Check.Verdict Check.SchedCheck Check.C02bCheck.

Record hcase := mk_hcase {
  hc_run : sdcase;
  hc_calls : N;            (* invocations of the embedding program's panic hook during the run *)
  hc_restored : bool }.    (* after the run the hook is the one installed before it *)

Definition n_panics (h : hist) : N :=
  N.of_nat (length (filter (fun r => match fst r with
                                     | HEv (EvScen _ _ _ _ (ScStep _ (StFailed _)))
                                     | HEv (EvScen _ _ _ _ (ScBg _ (StFailed _)))
                                     | HEv (EvScen _ _ _ _ (ScHook _ (HFailed _))) => true
                                     | _ => false end) h)).

(* ... and "other scenarios are unaffected, the attempt still gets its after hook and Finished event": whatever fails in
   one attempt, every attempt of the run keeps the canonical shape and is finished once the run has ended *)
Definition c10b_ok (c : hcase) : bool := (hc_calls c =? 0) && hc_restored c && c02b_ok (hc_run c).

(* the model: the hook is suppressed exactly from the first loop turn until the loop has ended *)
Definition model_suppressed (c : hcase) : bool :=
  match replay (hc_run c) with
  | Some (s, _) => match pc s with Done => negb (hook_suppressed s) | NotBegun => negb (hook_suppressed s) | _ => hook_suppressed s end
  | None => false
  end.

Definition verdict (id : N) (c : hcase) : list (list N) :=
  if sd_hang (hc_run c) then [vrow id 1 (4, 0)]
  else [vrow id 1 (judge (c10b_ok c) (model_suppressed c) 0)].
