(* C18bCheck.v — C18, last clause, end to end on whole runs: `--concurrency` overrides and `--fail-fast` adds to
   the builder settings. The effective values are computed in Coq (SchedCheck.effective_k / effective_ff) and the
   run is judged with the concurrency bound (C06) and the fail-fast behaviour (C08) they imply. *)
From CV Require Import Model.Base Check.SchedCheck.
Definition verdict := verdict_with (fun c => mon06 c && mon08 c).
