(* AttemptCheck.v — judges what the REAL runner did with one scripted scenario (engine `attempt`).
   Shared by C02, C05, C09, C10. *)
From CV Require Import Model.Base Model.Events Model.Contract Model.Attempt Model.AttemptSpec Check.Verdict.
From CV Require Import Check.C11Check.
From CV Require Proofs.ReviewP2.

Record acase := mk_acase {
  ac_inputs : list attempt_in;                 (* the script, one entry per potential attempt *)
  ac_stream : list ev;                         (* the whole event stream *)
  ac_calls : list (list ocall);                (* callbacks per attempt *)
  ac_hook_during : N;                          (* process panic hook invocations while the run was in progress *)
  ac_hook_restored : bool }.

(* the model's chain of attempts: attempt k+1 runs iff attempt k asks for a retry *)
Fixpoint run_chain (rt : retr) (inputs : list attempt_in) : list (retr * attempt_out) :=
  match inputs with
  | [] => []
  | i :: t =>
    let i' := mk_attempt_in (ai_before i) (ai_after i) (ai_world i) (ai_fbg i) (ai_rbg i) (ai_steps i) rt in
    let o := run_attempt i' in
    (rt, o) :: match ao_retry o with Some r => run_chain (Some r) t | None => [] end
  end.

(* consecutive groups of scenario events carrying the same retries *)
Fixpoint group_attempts (cur : option (retr * list scev)) (es : list ev) : list (retr * list scev) :=
  match es with
  | [] => match cur with Some g => [g] | None => [] end
  | EvScen _ _ _ rt x :: t =>
    match cur with
    | Some (rt0, l) =>
      if retr_eqb rt0 rt then group_attempts (Some (rt0, l ++ [x])) t
      else (rt0, l) :: group_attempts (Some (rt, [x])) t
    | None => group_attempts (Some (rt, [x])) t
    end
  | _ :: t => group_attempts cur t
  end.

Definition decl_of (i : attempt_in) : list (bool * N) :=
  map (fun s => (true, fst s)) (ai_fbg i ++ ai_rbg i) ++ map (fun s => (false, fst s)) (ai_steps i).

Definition first_input (c : acase) : attempt_in :=
  match ac_inputs c with i :: _ => i | [] => mk_attempt_in None None WOk [] [] [] None end.
Definition has_before (c : acase) := is_some (ai_before (first_input c)).
Definition has_after (c : acase) := is_some (ai_after (first_input c)).

Definition groups (c : acase) := group_attempts None (ac_stream c).

Definition same_as_model (c : acase) : bool :=
  let m := run_chain (ai_retr (first_input c)) (ac_inputs c) in
  list_eqb (pair_eqb retr_eqb (list_eqb scev_eqb)) (map (fun ro => (fst ro, ao_events (snd ro))) m) (groups c)
  && list_eqb (list_eqb callback_eqb) (map (fun ro => ao_calls (snd ro)) m) (map (map fst) (ac_calls c)).

(* the run as a whole is framed and closed (contract automaton), whatever panicked *)
Definition framed (c : acase) : bool := contract (ac_stream c).

Definition budget (c : acase) : option N :=
  match ai_retr (first_input c) with Some (_, n) => Some n | None => None end.

(* C02: every attempt's events form the canonical sequence; attempts do not interleave *)
Definition c02_ok (c : acase) : bool :=
  forallb (fun g => wf_events (has_before c) (has_after c) (decl_of (first_input c)) (snd g)) (groups c)
  && framed c
  (* the outcome -> event mapping of the property text (Proofs/ReviewP2.v, module RB: no match -> Skipped, ambiguous ->
     Failed, panic / World failure -> Failed with the payload, stop after the first non-passed step, failure before the
     after-hook events), for the k-th attempt against the k-th entry of the script *)
  && forallb (fun ig => ReviewP2.RB.events_match_outcomes (fst ig) (snd (snd ig))) (combine (ac_inputs c) (groups c))
  (* (`combine` truncates: a script with attempts must have produced at least one observed attempt, and never more than scripted) *)
  && (match ac_inputs c, groups c with _ :: _, [] => false | _, _ => true end)
  && Nat.leb (length (groups c)) (length (ac_inputs c)).

(* C09: per attempt the callback log obeys the World / hook contract; no World instance is shared *)
Definition c09_ok_case (c : acase) : bool :=
  Nat.eqb (length (groups c)) (length (ac_calls c))
  && forallb (fun gc => c09_ok (has_before c) (has_after c) (snd (fst gc)) (snd gc)) (combine (groups c) (ac_calls c))
  (* the step callbacks are those of the steps the events report as executed, in order (ReviewP2, module RC) *)
  && forallb (fun gc => ReviewP2.RC.calls_match_events (snd (fst gc)) (map fst (snd gc))) (combine (groups c) (ac_calls c))
  && nodup_N (flat_map (fun cs => match flat_map (fun oc => match snd oc with Some w => [w] | None => [] end) cs with
                                  | w :: _ => [w] | [] => [] end) (ac_calls c)).

(* C05: the chain of attempts *)
Definition c05_ok (c : acase) : bool :=
  chain_ok (budget c) 0 (groups c)
  && c09_ok_case c.      (* fresh World per attempt *)

(* C10: nothing reaches the process panic hook during the run, the hook is restored, the run closes *)
Definition unrecoverable : N := 999999.     (* what the harness reports for a payload it cannot downcast *)
Definition payload_recovered (e : ev) : bool :=
  match e with
  | EvScen _ _ _ _ (ScBg _ (StFailed (EPanic p))) | EvScen _ _ _ _ (ScStep _ (StFailed (EPanic p)))
  | EvScen _ _ _ _ (ScHook _ (HFailed p)) => negb (p =? unrecoverable)
  | _ => true
  end.
Definition c10_ok (c : acase) : bool :=
  (ac_hook_during c =? 0) && ac_hook_restored c && framed c && forallb payload_recovered (ac_stream c)
  && forallb (fun g => wf_events (has_before c) (has_after c) (decl_of (first_input c)) (snd g)) (groups c).

Definition verdict_with (mon : acase -> bool) (id : N) (c : acase) : list (list N) :=
  [vrow id 1 (judge (mon c) (same_as_model c) 0)].
