(* C07Check.v — see SchedCheck.v *)
From CV Require Import Model.Base Check.SchedCheck.
Definition verdict := verdict_with mon07.
