(* C11Check.v — judges observed per-call deliveries of the real writer::Normalize.
   The monitor `c11_ok` is written against the property text, independently of Model/Normalize.v. *)
From CV Require Import Model.Base Model.Events Model.Contract Model.Normalize Proofs.NormalizeP2 Check.Verdict.
From CV Require Proofs.ReviewP2 Proofs.ReviewP4.

Record ncase := mk_ncase {
  nc_events : list mev;
  nc_calls : list (list mev);      (* events the inner writer received during each handle_event call *)
}.

(* ---- multiset helpers ---- *)
Fixpoint mremove (x : mev) (l : list mev) : option (list mev) :=
  match l with
  | [] => None
  | y :: t => if mev_eqb x y then Some t
              else match mremove x t with Some t' => Some (y :: t') | None => None end
  end.
(* l minus the elements of d; None when d is not a sub-multiset of l *)
Fixpoint mdiff (l d : list mev) : option (list mev) :=
  match d with
  | [] => Some l
  | x :: d' => match mremove x l with Some l' => mdiff l' d' | None => None end
  end.

Definition ev_atkey (e : ev) : option atkey :=
  match e with EvScen f r s rt _ => Some (f, r, s, rt) | _ => None end.
Definition ev_feat (e : ev) : option N :=
  match e with
  | EvFeatS f | EvFeatF f | EvRuleS f _ | EvRuleF f _ | EvScen f _ _ _ _ => Some f
  | _ => None
  end.
Definition ev_rule (e : ev) : option rkey :=
  match e with
  | EvRuleS f r | EvRuleF f r | EvScen f (Some r) _ _ _ => Some (f, r)
  | _ => None
  end.

Definition open_att (c : cstate) : option atkey :=
  match filter (fun ka => status_eqb (snd ka) Open) (c_atts c) with (k, _) :: _ => Some k | [] => None end.
Definition open_rule (c : cstate) : option rkey :=
  match filter (fun kr => status_eqb (snd kr) Open) (c_rules c) with (k, _) :: _ => Some k | [] => None end.
Definition open_feat (c : cstate) : option N :=
  match filter (fun kf => status_eqb (snd kf) Open) (c_feats c) with (k, _) :: _ => Some k | [] => None end.

(* "events of the entity currently at the head of the output are forwarded without waiting":
   given the recogniser state of the output so far, nothing of the innermost open entity is held back;
   with nothing open, nothing at all is held back *)
Definition head_live (c : cstate) (pend : list mev) : bool :=
  match open_att c with
  | Some k => negb (existsb (fun e => option_eqb atkey_eqb (ev_atkey (snd e)) (Some k)) pend)
  | None =>
    match open_rule c with
    | Some k => negb (existsb (fun e => option_eqb rkey_eqb (ev_rule (snd e)) (Some k)) pend)
    | None =>
      match open_feat c with
      | Some f => negb (existsb (fun e => option_eqb N.eqb (ev_feat (snd e)) (Some f)) pend)
      | None => match pend with [] => true | _ => false end
      end
    end
  end.

(* walks the calls: seen inputs, outputs so far (recogniser state), pending multiset *)
Fixpoint walk (c : option cstate) (pend : list mev) (es : list mev) (calls : list (list mev)) : bool :=
  match es, calls with
  | [], [] => true
  | e :: es', call :: calls' =>
    let c' := match c with Some c0 => crun true c0 (map snd call) | None => None end in
    match mdiff (pend ++ [e]) call, c' with
    | Some pend', Some c1 =>
      (* pass-through events are forwarded within the same call *)
      (negb (is_passthrough (snd e)) || existsb (mev_eqb e) call)
      && (c_finished c1 || head_live c1 (filter (fun x => negb (is_passthrough (snd x))) pend'))
      && walk (Some c1) pend' es' calls'
    | _, _ => false      (* an event was invented/duplicated, or the output is not sequential *)
    end
  | _, _ => false
  end.

Definition att_keys (es : list mev) : list atkey :=
  fold_right (fun e acc => match ev_atkey (snd e) with
                           | Some k => if existsb (atkey_eqb k) acc then acc else k :: acc
                           | None => acc end) [] es.
Definition of_att (k : atkey) (es : list mev) : list mev :=
  filter (fun e => option_eqb atkey_eqb (ev_atkey (snd e)) (Some k)) es.

Definition c11_ok (es : list mev) (calls : list (list mev)) : bool :=
  let out := concat calls in
  let complete := contract (map snd es) in
  walk (Some cinit) [] es calls
  (* relative order inside every attempt is kept *)
  && forallb (fun k => list_eqb mev_eqb (of_att k out) (firstn (length (of_att k out)) (of_att k es))) (att_keys es)
  (* complete stream: nothing is lost, Finished is last *)
  && (negb complete ||
      (match mdiff es out with Some [] => true | _ => false end
       && match rev out with (_, EvFinished) :: _ => true | _ => false end
       && normalized (map snd out)))
  (* an already sequential stream passes through unchanged, event by event *)
  && (negb (normalized_prefix (map snd es)) || list_eqb (list_eqb mev_eqb) calls (map (fun e => [e]) es))
  (* head-liveness in the observable form of Proofs/ReviewP2.v (module RA: the head feature / rule / attempt is computed
     from the input prefix and the output so far only), after every call *)
  (* (`head_ok2` = `head_ok` plus the CLOSING brackets: a received Feature- / Rule- / run-Finished of the head whose
     content is finished in the output is in the output — a writer that withholds a closing bracket keeps the head where
     it is and would satisfy `head_ok` alone) *)
  && forallb (fun n => ReviewP4.RA2.head_ok2 (firstn n es) (concat (firstn n calls))) (seq 1 (length es)).

Definition verdict (id : N) (c : ncase) : list (list N) :=
  let m := nrun (nc_events c) in
  let same := list_eqb (list_eqb mev_eqb) m (nc_calls c) in
  let valid := contract_prefix (map snd (nc_events c)) in
  if valid then
    (* sub-check 2: the hypothesis of the lossless theorems (Props/C11.v) holds on this contract-abiding stream *)
    [vrow id 1 (judge (c11_ok (nc_events c) (nc_calls c)) same 0);
     vrow id 2 (if accepts_run ninit (nc_events c) then (0, 0) else (3, 0))]
  else [vrow id 1 (4, 0)].
