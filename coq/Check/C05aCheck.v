(* C05aCheck.v — see AttemptCheck.v *)
From CV Require Import Model.Base Check.AttemptCheck.
Definition verdict := verdict_with c05_ok.
