(* C15Check.v — judges the features a recording Runner received from `filter_run`. *)
From CV Require Import Model.Base Model.TagExpr Model.Gherkin Model.Filter Check.Verdict.

Record fcase := mk_fcase {
  fc_features : list feature;
  fc_re : option (list (str * bool));   (* --name given: observed `is_match` per scenario name *)
  fc_tags : option tagop;
  fc_user : list (N * bool);            (* the closure's decision per scenario id *)
  fc_observed : list feature;           (* what the runner was handed, in order *)
}.

Definition verdict (id : N) (c : fcase) : list (list N) :=
  let re_match := fun s => match fc_re c with
                           | Some t => match slookup s t with Some b => b | None => false end
                           | None => false end in
  let user := fun (_ : feature) (_ : option rule) (s : scen) =>
                match alookup (s_id s) (fc_user c) with Some b => b | None => false end in
  let m := map (filter_feature re_match user (is_some (fc_re c)) (fc_tags c)) (fc_features c) in
  let same := list_eqb feature_eqb m (fc_observed c) in
  (* for a pure function the monitor IS agreement with the proved-correct model *)
  [vrow id 1 (judge same same 0)].
