(* StatsCase.v — the observed case shared by the C12 and C01 checks (engine `combinators`
   run on statistics pipelines). *)
From CV Require Import Model.Base Model.Events Model.Gherkin Model.Combinators Model.Normalize Model.Stats
  Model.Pipeline Model.StatsSpec Check.Verdict Check.C13Check.

Record scase := mk_scase {
  sc_features : list feature;
  sc_pipe : spipe;
  sc_events : list mev;
  sc_calls : list qouts;                       (* deliveries to the leaves, per call *)
  sc_stats : list (getters * bool);            (* the six getters and execution_has_failed, after each call *)
}.

Definition all_scens (fs : list feature) : list (feature * option rule * scen) :=
  flat_map (fun f => map (fun s => (f, None, s)) (f_scens f) ++
                     flat_map (fun r => map (fun s => (f, Some r, s)) (r_scens r)) (f_rules f)) fs.

Definition find_scen (fs : list feature) (s : N) : option (feature * option rule * scen) :=
  find (fun x => s_id (snd x) =? s) (all_scens fs).

Definition last_own_of (fs : list feature) (s : N) : option N :=
  match find_scen fs s with
  | Some (_, _, sc) => match rev (s_steps sc) with x :: _ => Some (st_id x) | [] => None end
  | None => None
  end.
Definition steps_of_fs (fs : list feature) (s : N) : list N :=
  match find_scen fs s with
  | Some (f, r, sc) =>
    map st_id (f_bg f ++ (match r with Some r' => r_bg r' | None => [] end) ++ s_steps sc)
  | None => []
  end.

Definition getters_eqb (a b : getters) : bool :=
  (g_passed a =? g_passed b) && (g_skipped a =? g_skipped b) && (g_failed a =? g_failed b) &&
  (g_retried a =? g_retried b) && (g_parsing a =? g_parsing b) && (g_hooks a =? g_hooks b).
Definition qop_eqb (a b : qop) : bool :=
  match a, b with
  | QEv x, QEv y => mev_eqb x y
  | QWrite x, QWrite y => list_eqb N.eqb x y
  | _, _ => false
  end.

Definition model_rows (c : scase) :=
  qrun (tags_of_features (sc_features c)) (last_own_of (sc_features c)) (sc_pipe c) (sc_events c).

Definition same_as_model (c : scase) : bool :=
  let m := model_rows c in
  list_eqb (list_eqb (pair_eqb N.eqb qop_eqb)) (map (fun x => fst (fst x)) m) (sc_calls c) &&
  list_eqb (pair_eqb getters_eqb Bool.eqb) (map (fun x => (snd (fst x), snd x)) m) (sc_stats c).

(* the stream as the statistics writers see it: a FailOnSkipped on top rewrites it *)
Definition top_fos (p : spipe) : option fosk :=
  match p with
  | QFos k _ => Some k
  | QRepeat _ (QFos k _) => Some k
  | _ => None
  end.
Definition effective (c : scase) : list ev :=
  match top_fos (sc_pipe c) with
  | Some k => map (fun e => fos_ev (should_fail (tags_of_features (sc_features c)) k) (snd e)) (sc_events c)
  | None => map snd (sc_events c)
  end.
