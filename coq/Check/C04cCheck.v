(* C04cCheck.v — C04 ("the run terminates") with the tracing integration switched on: every attempt then waits for its
   spans to close before it goes on (wait_for_span_close), a handshake through the collector that must never be lost.
   Observation: did the run end (the harness's watchdog reports a run that has not ended after 20 s), and did its raw
   stream close properly (Contract.contract). The model side is the protocol replay of C20. *)
From CV Require Import Model.Base Model.Events Model.Contract Model.Tracing Check.Verdict Check.C20Check Check.C05cCheck.

Record wcase := mk_wcase { wc_hang : bool; wc_run : tcase }.

Definition c04c_ok (c : wcase) : bool := negb (wc_hang c) && contract (evs_of (tc_history (wc_run c))).

Definition verdict (id : N) (c : wcase) : list (list N) :=
  if wc_hang c then [vrow id 1 (1, 0)]
  else [vrow id 1 (judge (c04c_ok c) (same_as_model (wc_run c)) 0)].
