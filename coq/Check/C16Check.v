(* C16Check.v — judges `Feature::expand_examples` on observed cases. *)
From CV Require Import Model.Base Model.Outline Check.Verdict.

Definition table_eqb := option_eqb (list_eqb (list_eqb str_eqb)).
Definition ostep_eqb (a b : ostep) : bool :=
  str_eqb (os_value a) (os_value b) && option_eqb str_eqb (os_doc a) (os_doc b) &&
  table_eqb (os_table a) (os_table b) && (os_line a =? os_line b) && (os_col a =? os_col b).
Definition example_eqb (a b : example) : bool :=
  (ex_line a =? ex_line b) && (ex_col a =? ex_col b) && list_eqb str_eqb (ex_tags a) (ex_tags b) &&
  table_eqb (ex_table a) (ex_table b).
Definition oscen_eqb (a b : oscen) : bool :=
  str_eqb (o_name a) (o_name b) && list_eqb str_eqb (o_tags a) (o_tags b) &&
  list_eqb ostep_eqb (o_steps a) (o_steps b) && list_eqb example_eqb (o_examples a) (o_examples b) &&
  (o_line a =? o_line b) && (o_col a =? o_col b).
Definition xerr_eqb (a b : xerr) : bool :=
  (xe_line a =? xe_line b) && (xe_col a =? xe_col b) && str_eqb (xe_name a) (xe_name b).

(* names of placeholders that some row of some table cannot resolve *)
Definition unknown_in (r : row) (s : str) : list str :=
  flat_map (fun t => match t with
                     | TPh n => match row_find n r with None => [n] | Some _ => [] end
                     | TLit _ => [] end) (tokenize s).
Definition strings_of (sc : oscen) : list str :=
  o_name sc :: flat_map (fun s => os_value s :: (match os_doc s with Some d => [d] | None => [] end)
                                   ++ (match os_table s with Some t => concat t | None => [] end)) (o_steps sc).
Definition unknown_names (sc : oscen) : list str :=
  flat_map (fun ex => match ex_table ex with
                      | Some (h :: vals) =>
                        flat_map (fun v => flat_map (unknown_in (combine h v)) (strings_of sc)) vals
                      | _ => [] end) (o_examples sc).

Record ocase := mk_ocase {
  oc_rules : list (list oscen);
  oc_top : list oscen;
  oc_obs : (list (list oscen) * list oscen) + xerr;
  oc_parsed : bool;     (* the input came out of the gherkin parser: positions must be distinct *)
}.

Fixpoint nodup_pairs (l : list (N * N)) : bool :=
  match l with
  | [] => true
  | x :: l' => negb (existsb (pair_eqb N.eqb N.eqb x) l') && nodup_pairs l'
  end.

Definition verdict (id : N) (c : ocase) : list (list N) :=
  let m := expand_feature (oc_rules c) (oc_top c) in
  let all := concat (oc_rules c) ++ oc_top c in
  let v1 :=
    match m, oc_obs c with
    | inl (mr, mt), inl (orr, ot) =>
      let same := list_eqb (list_eqb oscen_eqb) mr orr && list_eqb oscen_eqb mt ot in
      judge same same 0
    | inr e, inr e' =>
      judge (mem_str (xe_name e') (flat_map unknown_names all)) (xerr_eqb e e') 0
    | _, _ => judge false false 0
    end in
  let v2 :=
    match oc_obs c with
    | inl (orr, ot) =>
      if oc_parsed c then
        let expanded := filter (fun s => negb (match o_examples s with [] => true | _ => false end))
                               (concat orr ++ ot) in
        let ok := nodup_pairs (map (fun s => (o_line s, o_col s)) expanded) in
        judge ok ok 0
      else judge true true 0
    | inr _ => judge true true 0
    end in
  [vrow id 1 v1; vrow id 2 v2].
