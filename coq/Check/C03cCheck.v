(* C03cCheck.v — C03 on parser items that are EQUAL BY VALUE (the same feature delivered several times): the runner must
   keep such items apart (it wraps each in its own `Source`, compared by pointer). The harness numbers features, rules
   and scenarios by the pointer the events carry, so the stream judged here has INSTANCE ids. Monitor: the ordering
   contract on that stream (one Started before / one Finished after all events of every instance, run-Finished last),
   every copy got its bracket, every scenario of every copy ran once, ParsingFinished counts everything received.
   No model replay (the scheduler model assumes pairwise distinct ids: the instance ids ARE distinct). *)
From CV Require Import Model.Base Model.Events Model.Contract Check.Verdict.

Record twcase := mk_twcase {
  tw_copies : N; tw_scens : N; tw_rules : N;       (* copies delivered; scenarios and rules of ONE copy *)
  tw_panicked : bool;
  tw_events : list ev }.

Definition count_ev (p : ev -> bool) (es : list ev) : N := N.of_nat (length (filter p es)).

Definition c03c_ok (c : twcase) : bool :=
  let es := tw_events c in
  negb (tw_panicked c) && contract es
  && (count_ev (fun e => match e with EvFeatS _ => true | _ => false end) es =? tw_copies c)
  && (count_ev (fun e => match e with EvFeatF _ => true | _ => false end) es =? tw_copies c)
  && (count_ev (fun e => match e with EvRuleS _ _ => true | _ => false end) es =? tw_copies c * tw_rules c)
  && (count_ev (fun e => match e with EvScen _ _ _ _ ScStarted => true | _ => false end) es =? tw_copies c * tw_scens c)
  && (count_ev (fun e => match e with EvScen _ _ _ _ ScFinished => true | _ => false end) es =? tw_copies c * tw_scens c)
  && forallb (fun e => match e with
                       | EvParsingFinished f r s st er =>
                         (f =? tw_copies c) && (r =? tw_copies c * tw_rules c) && (s =? tw_copies c * tw_scens c)
                         && (st =? tw_copies c * tw_scens c) && (er =? 0)
                       | _ => true end) es.

Definition verdict (id : N) (c : twcase) : list (list N) := [vrow id 1 (judge (c03c_ok c) true 0)].
