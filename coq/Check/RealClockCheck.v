(* RealClockCheck.v — observations of the REAL runner on the REAL clock (engine `realclock`: the hook's clock switched to
   real time, so the production path — a helper thread sleeping for the smallest retry deadline while the executor task is
   parked — is the one that runs). There is no real-time model: the observation is judged by the monitors only.
   Times are microseconds since the start of the run, taken when the poll that produced the event returned. *)
From CV Require Import Model.Base Model.Events Model.Contract Check.Verdict.

Record rccase := mk_rccase {
  rc_delay : N;                          (* the configured retry delay, microseconds *)
  rc_delayed : list N;                   (* scenarios whose retries carry that delay *)
  rc_events : list (ev * N);
  rc_max_poll : N;                       (* the longest single poll of the event stream *)
  rc_late_at : option N;                 (* when the late feature was made available to the parser *)
  rc_pf_at : option N;                   (* when ParsingFinished was received *)
  rc_terminated : bool }.

Definition memNl (x : N) (l : list N) : bool := existsb (N.eqb x) l.
Definition slack : N := 50000.           (* 50 ms: receipt times lag behind emission times by at most a poll *)

(* C05 on the real clock: a delayed retry does not start before the delay has elapsed since the failed attempt ended
   (one-sided, with the slack above), attempts of a scenario are numbered 0,1,2.., the stream closes properly *)
Fixpoint gaps_ok (d : N) (delayed : list N) (fin : list (N * N)) (es : list (ev * N)) : bool :=
  match es with
  | [] => true
  | (EvScen _ _ s (Some (c, _)) ScStarted, t) :: rest =>
    (if (0 <? c) && memNl s delayed then
       match find (fun p => fst p =? s) fin with
       | Some (_, tf) => tf + d <=? t + slack
       | None => false
       end
     else true) && gaps_ok d delayed fin rest
  | (EvScen _ _ s _ ScFinished, t) :: rest => gaps_ok d delayed ((s, t) :: fin) rest
  | _ :: rest => gaps_ok d delayed fin rest
  end.
Definition c05d_ok (c : rccase) : bool :=
  rc_terminated c && contract (map fst (rc_events c)) && gaps_ok (rc_delay c) (rc_delayed c) [] (rc_events c).

(* C04 on the real clock, "while it waits for the parser or for a retry delay it lets the other side make progress":
   no single poll of the stream lasts half the retry delay (the task parks, it does not sleep on the executor thread),
   a feature the parser delivers while a retry waits is ingested at once (ParsingFinished within half the delay), and
   the run ends *)
Definition c04d_ok (c : rccase) : bool :=
  rc_terminated c && (2 * rc_max_poll c <? rc_delay c)
  && match rc_late_at c, rc_pf_at c with
     | Some a, Some b => 2 * (b - a) <? rc_delay c
     | Some _, None => false
     | None, _ => true
     end.

Definition verdict05 (id : N) (c : rccase) : list (list N) := [vrow id 1 (judge (c05d_ok c) true 0)].
Definition verdict04 (id : N) (c : rccase) : list (list N) := [vrow id 1 (judge (c04d_ok c) true 0)].
