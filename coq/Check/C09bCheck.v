(* C09bCheck.v — C09 on WHOLE CONCURRENT RUNS (second review, M3: at theorem level a World id is a free variable and sharing
   ACROSS attempts or scenarios is not expressible; the `attempt` engine judges one scenario at a time). The `sched` engine's
   World carries an instance number (the order in which the real `World::new()` created it) and a mutation counter; every
   callback of every attempt — before hook, steps, after hook, of all the scenarios in flight — records
   (scenario, attempt, which, instance | 0, mutations the instance had seen). Monitor, over the callbacks in the order they ran:
     - all callbacks of one attempt that were handed a World were handed THE SAME instance            (one World per attempt)
     - the k-th of them saw exactly k mutations: those of the attempt's earlier callbacks, no others   (state threads, nothing leaks in)
     - an instance first seen in one attempt is never seen in another attempt or scenario              (no sharing)
   whatever the interleaving. An after hook that was handed no World (instance 0) imposes nothing here (whether it must get
   one is the attempt-level contract `c09_ok`). Monitor only: the scheduler model has no callbacks.
   Harness conventions this monitor relies on (third review, M1): every callback of the `sched` engine records the instance and
   mutates it (counter + 1) as its VERY FIRST action, before it waits for its gate and before any scripted panic — so a callback
   that panics has still mutated the World it was handed; the order of the before hook, the steps and the after hook within
   an attempt, and whether a step may run without a World, are judged by the attempt-level contract, not here. *)
From CV Require Import Model.Base Check.Verdict.

Record wrec := mk_wrec { w_sc : N; w_att : N; w_which : N; w_wid : N; w_cnt : N }.
Record wcase09 := mk_wcase09 { w9_recs : list wrec; w9_terminated : bool; w9_after : bool (* an after hook is installed *) }.

(* per attempt seen so far: (scenario, attempt, instance, mutations so far) *)
Definition went := (N * N * N * N)%type.
Definition same_key (r : wrec) (e : went) : bool :=
  match e with (sc, att, _, _) => (sc =? w_sc r) && (att =? w_att r) end.
Definition has_wid (w : N) (e : went) : bool := match e with (_, _, wid, _) => wid =? w end.
Fixpoint bump (r : wrec) (l : list went) : list went :=
  match l with
  | [] => []
  | e :: t => if same_key r e then (match e with (sc, att, wid, n) => (sc, att, wid, n + 1) end) :: t else e :: bump r t
  end.

Fixpoint worlds_walk (seen : list went) (l : list wrec) : bool :=
  match l with
  | [] => true
  | r :: t =>
    if w_wid r =? 0 then worlds_walk seen t
    else match find (same_key r) seen with
         | Some (_, _, wid, n) => (wid =? w_wid r) && (n =? w_cnt r) && worlds_walk (bump r seen) t
         | None => (w_cnt r =? 0) && negb (existsb (has_wid (w_wid r)) seen)
                   && worlds_walk ((w_sc r, w_att r, w_wid r, 1) :: seen) t
         end
  end.
(* "the after hook runs exactly once after the last executed step", for every attempt IN FLIGHT TOGETHER WITH OTHERS: once the
   run has ended, every attempt that entered user code (a before hook or a step) has exactly one after-hook call, and it is
   the last callback of that attempt — an attempt abandoned because another scenario failed for good never gets one *)
Definition same_att (a b : wrec) : bool := (w_sc a =? w_sc b) && (w_att a =? w_att b).
Fixpoint after_once (l : list wrec) : bool :=
  match l with
  | [] => true
  | r :: t =>
    (if w_which r =? 2 then negb (existsb (same_att r) t)                       (* nothing of the attempt after its after hook *)
     else N.of_nat (length (filter (fun x => same_att r x && (w_which x =? 2)) t)) =? 1)
    && after_once t
  end.
Definition worlds_ok (c : wcase09) : bool :=
  worlds_walk [] (w9_recs c)
  && (negb (w9_terminated c && w9_after c) || after_once (w9_recs c)).

Definition verdict (id : N) (c : wcase09) : list (list N) := [vrow id 1 (judge (worlds_ok c) true 0)].
