(* C14Check.v — judges the parsed-back output of the REAL built-in reporters. *)
From CV Require Import Model.Base Model.Events Model.Contract Model.Normalize Model.Stats Model.StatsSpec
  Model.Reporters Model.ReportersSpec Model.ReportersSpec2 Model.ReportersSpec3 Model.ReportersSpec4 Model.ReportersSpec5 Check.Verdict.
From CV Require Proofs.ReportersP2 Proofs.ReportersP3 Proofs.ReportersP4.

Record rcase14 := mk_rcase14 {
  r_pathless : list N;            (* features without a source path *)
  r_events : list mev;
  r_writer : N;                   (* 0 libtest, 1 json, 2 junit, 3 basic *)
  r_wellformed : bool;            (* did the independent parser (json / xml / line grammar) accept the document *)
  r_text_ok : bool;               (* names / step texts found in the document are exactly those of the features *)
  r_cdata_break : bool;           (* some rendered text contains "]]>" *)
  r_report : list rf }.

Definition is_none_N (o : option N) : bool := match o with None => true | Some _ => false end.
Definition has_path_of (c : rcase14) (f : N) : bool := negb (existsb (N.eqb f) (r_pathless c)).
Definition normalized_stream (c : rcase14) : list ev := map snd (concat (nrun (r_events c))).

Definition model_report (c : rcase14) : list rf :=
  let es := normalized_stream c in
  match r_writer c with
  | 0 => libtest_lines (has_path_of c) es
  | 1 => json_doc (has_path_of c) es
  | 2 => junit_doc es
  | _ => basic_lines es
  end.

(* the testcases of an `Errors` suite are failures without a rule (second review, L7: `c14_junit_ok` compares only their ids) *)
Fixpoint junit_errors_ok (in_err : bool) (rfs : list rf) : bool :=
  match rfs with
  | [] => true
  | RSuite e _ :: t => junit_errors_ok e t
  | RCase r _ st :: t => (negb in_err || (is_none_N r && (st =? 1))) && junit_errors_ok in_err t
  | _ :: t => junit_errors_ok in_err t
  end.

Definition c14_ok (c : rcase14) : bool :=
  let es := map snd (r_events c) in
  r_wellformed c && r_text_ok c &&
  match r_writer c with
  | 0 => c14_libtest_ok es (r_report c)
  (* JSON: also the exact status code of every step and the passed hooks (ReportersSpec3) *)
  | 1 => c14_json_ok es (r_report c) && c14_json_ok2 es (r_report c)
         (* the containers are exactly those of the run (no invented or empty-by-invention feature / element), hooks stand in
            scenario elements, the uri flag is the feature's (ReportersSpec5) *)
         && c14_json_containers_ok (has_path_of c) es (r_report c)
  (* terminal and JUnit: also UNDER WHICH feature / rule / testcase every fact stands (ReportersSpec2); JUnit: the
     classification of every testcase by the INDEPENDENT reading of the property (failure if a step or hook of the attempt
     failed, else skipped if a step was skipped, else success), whenever the attempts of the stream are canonical *)
  | 2 => c14_junit_ok es (r_report c) && c14_junit_attr_ok es (r_report c)
         && (negb (attempts_canonical es) || c14_junit_ok3 es (r_report c))
         && junit_errors_ok false (r_report c)
         (* one suite per finished feature in the order Normalize forwards them, one Errors suite per parser error holding
            exactly that error (ReportersSpec5) *)
         && c14_junit_suites_ok (normalized_stream c) (r_report c)
  (* terminal, further: every `Feature:` / `Rule:` line is a fact of its own (none invented, none repeated, a rule under its
     own feature: multiset against the raw stream), and the whole listing — headers, scenario headers, result lines, parser
     errors — stands in the order of the stream the writer receives, i.e. of what Normalize forwards (ReportersSpec4) *)
  | _ => c14_basic_ok es (r_report c) && c14_basic_attr_ok es (r_report c)
         (* (the header multiset is judged on complete runs only: before run-Finished Normalize may still hold a started
            feature back, third review L3) *)
         && (negb (existsb is_finished_ev es) || hdr_multiset_ok es (r_report c))
         && doc_order_ok (normalized_stream c) (r_report c)
  end.

Definition pathless_with_events (c : rcase14) (only_scen : bool) : bool :=
  existsb (fun e => match snd e with
                    | EvScen f _ _ _ x =>
                      negb (has_path_of c f) &&
                      match x with
                      | ScBg _ _ | ScStep _ _ | ScHook _ (HFailed _) => true
                      | ScHook _ HPassed => only_scen
                      | _ => false end
                    | _ => false end) (r_events c).

Definition known14 (c : rcase14) : N :=
  match r_writer c with
  | 0 => if pathless_with_events c false then 1 else 0
  | 1 => if pathless_with_events c true then 2 else 0
  | 2 => if r_cdata_break c then 4
         else if existsb (fun o => snd o =? 2) (attempt_outcomes (map snd (r_events c))) then 3 else 0
  | _ => 0
  end.

Definition theorem_applies (c : rcase14) : bool :=
  let ns := normalized_stream c in
  match r_writer c with
  | 0 => forallb (fun e => match e with EvScen f _ _ _ _ => has_path_of c f | _ => true end) ns
         && normalized_prefix ns && ReportersP3.has_pf ns && ReportersP3.steps_bracketed ns
  | 1 => normalized ns && ReportersP2.fids_nonzero ns && ReportersP2.fids_have_path (has_path_of c) ns
  | 2 => normalized_prefix ns && forallb (fun o => negb (snd o =? 2)) (attempt_outcomes ns)
  | _ => normalized_prefix ns
  end.

Definition verdict (id : N) (c : rcase14) : list (list N) :=
  if contract_prefix (map snd (r_events c)) && retry_consistent (map snd (r_events c)) then
    (* K14d fails "in the recorded way" when the document is not well-formed (nothing can then be parsed back) *)
    let recorded := list_eqb rf_eqb (model_report c) (r_report c)
                    || ((known14 c =? 4) && negb (r_wellformed c)) in
    [vrow id 1 (judge (c14_ok c) recorded (known14 c));
     (* informational row (sub-check 90, never a failure): do the hypotheses of the whole-document theorem of this
        writer (Props/C14.v) hold of the stream it receives? *)
     [id; 90; 0; if theorem_applies c then 1 else 0]]
  else [vrow id 1 (4, 0)].
