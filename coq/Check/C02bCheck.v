(* C02bCheck.v — C02 on whole runs of the real scheduler, "inside every interleaving with other running scenarios":
   the projection of the observed stream on every attempt (scenario, retries) has the canonical shape — Started;
   the before-hook pair if any; step Started / result pairs, background steps before own steps, nothing after the
   first Skipped or Failed result; the after-hook pair if any; Finished, and nothing after it — and once the run has
   ended every attempt that was Started has been Finished (no attempt is cut short by what happens to OTHER scenarios:
   fail-fast, retries, completions). The model side is the trace validation of the scheduler (SchedCheck). *)
From CV Require Import Model.Base Model.Events Model.Contract Model.Sched Model.SchedSpec Check.Verdict Check.SchedCheck.

Inductive cstate02 :=
| Q0                          (* nothing yet *)
| QStarted                    (* Started seen *)
| QBefore                     (* before hook started *)
| QSteps (own : bool)         (* between steps; own: an own step has been seen (no background step may follow) *)
| QInStep (bg : bool) (st : N) (own : bool)
| QStopped                    (* a step was Skipped / Failed, or the before hook failed: no more steps *)
| QAfter                      (* after hook started *)
| QAfterDone
| QDone.

Definition canon_step (q : cstate02) (x : scev) : option cstate02 :=
  match x with
  | ScLog _ => match q with Q0 | QDone => None | _ => Some q end
  | ScStarted => match q with Q0 => Some QStarted | _ => None end
  | ScHook true HStarted => match q with QStarted => Some QBefore | _ => None end
  | ScHook true HPassed => match q with QBefore => Some (QSteps false) | _ => None end
  | ScHook true (HFailed _) => match q with QBefore => Some QStopped | _ => None end
  | ScBg st StStarted =>
    match q with QStarted => Some (QInStep true st false) | QSteps false => Some (QInStep true st false) | _ => None end
  | ScStep st StStarted =>
    match q with QStarted | QSteps _ => Some (QInStep false st true) | _ => None end
  | ScBg st y =>
    match q with
    | QInStep true st' own => if st =? st' then Some (match y with StPassed => QSteps own | _ => QStopped end) else None
    | _ => None end
  | ScStep st y =>
    match q with
    | QInStep false st' own => if st =? st' then Some (match y with StPassed => QSteps own | _ => QStopped end) else None
    | _ => None end
  | ScHook false HStarted => match q with QStarted | QSteps _ | QStopped => Some QAfter | _ => None end
  | ScHook false _ => match q with QAfter => Some QAfterDone | _ => None end
  | ScFinished => match q with QStarted | QSteps _ | QStopped | QAfterDone => Some QDone | _ => None end
  end.

Fixpoint canon_run (q : cstate02) (xs : list scev) : option cstate02 :=
  match xs with
  | [] => Some q
  | x :: t => match canon_step q x with Some q' => canon_run q' t | None => None end
  end.

Definition att_keys (es : list ev) : list (N * retr) :=
  flat_map (fun e => match e with EvScen _ _ s rt ScStarted => [(s, rt)] | _ => [] end) es.
Definition proj_att (k : N * retr) (es : list ev) : list scev :=
  flat_map (fun e => match e with
                     | EvScen _ _ s rt x => if (s =? fst k) && retr_eqb rt (snd k) then [x] else []
                     | _ => [] end) es.
(* every scenario event belongs to an attempt that was Started *)
Definition all_keyed (es : list ev) : bool :=
  forallb (fun e => match e with
                    | EvScen _ _ s rt _ => existsb (fun k => (s =? fst k) && retr_eqb rt (snd k)) (att_keys es)
                    | _ => true end) es.

Definition c02b_ok (c : sdcase) : bool :=
  let es := events_of (sd_history c) in
  all_keyed es &&
  forallb (fun k => match canon_run Q0 (proj_att k es) with
                    | Some QDone => true
                    | Some _ => negb (sd_terminated c)       (* still running only while the run is *)
                    | None => false
                    end) (att_keys es).

Definition verdict := verdict_with c02b_ok.
