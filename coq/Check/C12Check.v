(* C12Check.v — judges the observed behaviour of real pipelines [Repeat][FailOnSkipped] Summarize<...>
   against the declarative counters of StatsSpec.v. *)
From CV Require Import Model.Base Model.Events Model.Gherkin Model.Combinators Model.Stats Model.Pipeline
  Model.StatsSpec Model.Contract Check.Verdict Check.StatsCase.
From CV Require Proofs.StatsP2.

Definition writes_in (call : qouts) : list (list N) :=
  flat_map (fun d => match snd d with QWrite w => [w] | _ => [] end) call.

Fixpoint index_of_finished (es : list mev) (i : nat) : option nat :=
  match es with
  | [] => None
  | e :: t => if is_finished (snd e) then Some i else index_of_finished t (S i)
  end.

(* in the call that handles run-Finished: exactly one write, immediately after Finished was forwarded *)
Fixpoint write_right_after_finished (call : qouts) : bool :=
  match call with
  | (_, QEv (_, EvFinished)) :: (_, QWrite _) :: t => match writes_in t with [] => true | _ => false end
  | (_, QWrite _) :: _ => false
  | _ :: t => write_right_after_finished t
  | [] => false
  end.

Definition nth_call (calls : list qouts) (i : nat) : qouts := nth i calls [].

Definition c12_ok (c : scase) : bool :=
  let eff := effective c in
  let spec := spec_counts eff in
  let all_writes := flat_map writes_in (sc_calls c) in
  let step_spec := mk_getters (nth 6 spec 0) (nth 7 spec 0) (nth 8 spec 0) (nth 9 spec 0) (nth 10 spec 0) (nth 11 spec 0) in
  (* the getters after the last call (replays included) state the stream's step-level facts *)
  match rev (sc_stats c) with
  | (g, _) :: _ => getters_eqb g step_spec
  | [] => true
  end
  &&
  match index_of_finished (sc_events c) 0 with
  | Some i =>
    (* the summary is written exactly once, right after run-Finished, and states the spec'd numbers *)
    list_eqb (list_eqb N.eqb) all_writes [spec]
    && write_right_after_finished (nth_call (sc_calls c) i)
  | None => match all_writes with [] => true | _ => false end
  end.

(* K12e (found by an independent review of the specification): a scenario whose LAST attempt completed with a retry still
   pending — a retried step failure (or a hook failure with retries left) and no later attempt: the run was cut, e.g. by
   fail-fast — is counted in NONE of passed / skipped / failed, only as "retried". C12 says "each scenario whose last
   attempt completed is counted once, in exactly one of passed / skipped / failed according to that last attempt".
   `StatsSpec.classify` describes what the code does (CNone for such a scenario), so the monitor adds the clause here. *)
Definition k12e (es : list ev) : bool :=
  let evs := before_finished es in
  existsb (fun p =>
    let pe := filter (on_path p) evs in
    match rev pe with
    | l :: _ =>
      let att := filter (fun e => retr_eqb (ev_retr e) (ev_retr l)) pe in
      existsb is_sc_fin att
      && (existsb is_step_failed_retried att || (existsb is_hook_failed att && retries_left (ev_retr l)))
    | [] => false
    end) (paths evs).

Definition theorem_applies (c : scase) : bool :=
  let fs := sc_features c in
  let evs := before_finished (effective c) in
  (k12_class (last_own_of fs) (steps_of_fs fs) (effective c) =? 0)
  && retry_consistent evs
  && StatsP2.wf_attempts (steps_of_fs fs) evs
  && StatsP2.last_own_consistent (last_own_of fs) (steps_of_fs fs) evs.

Definition verdict (id : N) (c : scase) : list (list N) :=
  let fs := sc_features c in
  let k := k12_class (last_own_of fs) (steps_of_fs fs) (effective c) in
  let complete := existsb is_finished (effective c) in
  let e := complete && k12e (effective c) in
  let known := if k =? 0 then (if e then 5 else 0) else k in
  if contract_prefix (map snd (sc_events c)) && retry_consistent (effective c) then
    [vrow id 1 (judge (c12_ok c && negb e) (same_as_model c) known);
     (* informational row (sub-check 90, never a failure): do the hypotheses of the scenario-counter theorem
        (Props/C12.v: C12_scenario_counters) hold of this stream? *)
     [id; 90; 0; if theorem_applies c then 1 else 0]]
  else [vrow id 1 (4, 0)].
