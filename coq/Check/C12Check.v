(* C12Check.v — judges the observed behaviour of real pipelines [Repeat][FailOnSkipped] Summarize<...>
   against the declarative counters of StatsSpec.v. *)
From CV Require Import Model.Base Model.Events Model.Gherkin Model.Combinators Model.Stats Model.Pipeline
  Model.StatsSpec Model.Contract Check.Verdict Check.StatsCase.
From CV Require Proofs.StatsP2.

Definition writes_in (call : qouts) : list (list N) :=
  flat_map (fun d => match snd d with QWrite w => [w] | _ => [] end) call.

Fixpoint index_of_finished (es : list mev) (i : nat) : option nat :=
  match es with
  | [] => None
  | e :: t => if is_finished (snd e) then Some i else index_of_finished t (S i)
  end.

(* in the call that handles run-Finished: exactly one write, immediately after Finished was forwarded *)
Fixpoint write_right_after_finished (call : qouts) : bool :=
  match call with
  | (_, QEv (_, EvFinished)) :: (_, QWrite _) :: t => match writes_in t with [] => true | _ => false end
  | (_, QWrite _) :: _ => false
  | _ :: t => write_right_after_finished t
  | [] => false
  end.

Definition nth_call (calls : list qouts) (i : nat) : qouts := nth i calls [].

Definition c12_ok (c : scase) : bool :=
  let eff := effective c in
  let spec := spec_counts eff in
  let all_writes := flat_map writes_in (sc_calls c) in
  let step_spec := mk_getters (nth 6 spec 0) (nth 7 spec 0) (nth 8 spec 0) (nth 9 spec 0) (nth 10 spec 0) (nth 11 spec 0) in
  (* the getters after the last call (replays included) state the stream's step-level facts *)
  match rev (sc_stats c) with
  | (g, _) :: _ => getters_eqb g step_spec
  | [] => true
  end
  &&
  match index_of_finished (sc_events c) 0 with
  | Some i =>
    (* the summary is written exactly once, right after run-Finished, and states the spec'd numbers *)
    list_eqb (list_eqb N.eqb) all_writes [spec]
    && write_right_after_finished (nth_call (sc_calls c) i)
  | None => match all_writes with [] => true | _ => false end
  end.

Definition theorem_applies (c : scase) : bool :=
  let fs := sc_features c in
  let evs := before_finished (effective c) in
  (k12_class (last_own_of fs) (steps_of_fs fs) (effective c) =? 0)
  && retry_consistent evs
  && StatsP2.wf_attempts (steps_of_fs fs) evs
  && StatsP2.last_own_consistent (last_own_of fs) (steps_of_fs fs) evs.

Definition verdict (id : N) (c : scase) : list (list N) :=
  let fs := sc_features c in
  let known := k12_class (last_own_of fs) (steps_of_fs fs) (effective c) in
  if contract_prefix (map snd (sc_events c)) && retry_consistent (effective c) then
    [vrow id 1 (judge (c12_ok c) (same_as_model c) known);
     (* informational row (sub-check 90, never a failure): do the hypotheses of the scenario-counter theorem
        (Props/C12.v: C12_scenario_counters) hold of this stream? *)
     [id; 90; 0; if theorem_applies c then 1 else 0]]
  else [vrow id 1 (4, 0)].
