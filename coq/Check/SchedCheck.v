(* SchedCheck.v — trace validation of the REAL runner against Model/Sched.v, and the C03..C08 monitors.
   The observed, totally ordered history is turned into the label list it determines; the model must
   replay it, regenerate exactly the observed event stream and end in `Done`. *)
From CV Require Import Model.Base Model.Events Model.Contract Model.AttemptSpec Model.Sched Model.SchedSpec Check.Verdict.
From CV Require Proofs.FramingP.

Record sdcase := mk_sdcase {
  sd_conc_cli : option nat; sd_conc_builder : option (option nat);   (* builder: None = default (64), Some None = unlimited *)
  sd_ff_cli : bool; sd_ff_builder : bool;
  sd_items : list item;
  sd_history : hist;
  sd_terminated : bool;
  sd_hang : bool }.

(* CLI over builder (C06 / C18 merge, basic.rs:762-766); Basic::default() allows 64 concurrent scenarios *)
Definition effective_k (c : sdcase) : option nat :=
  match sd_conc_cli c with
  | Some k => Some k
  | None => match sd_conc_builder c with Some b => b | None => Some 64%nat end
  end.
Definition effective_ff (c : sdcase) : bool := sd_ff_cli c || sd_ff_builder c.
Definition cfg_of (c : sdcase) : cfg := mk_cfg (effective_k c) (effective_ff c).

(* label inference: deterministic, from the ordered history *)
Fixpoint labels_of (feats : list sfeature) (failed : list (akey * bool)) (h : hist) : list label :=
  match h with
  | [] => []
  | (r, _) :: t =>
    match r with
    | HFeat => match feats with
               | f :: fs => LFeature f :: labels_of fs failed t
               | [] => labels_of feats failed t
               end
    | HTop _ => LTop :: labels_of feats failed t
    | HStimT d => LTick d :: labels_of feats failed t
    | HEv (EvParseErr i) => LParseErr i :: labels_of feats failed t
    | HEv (EvParsingFinished _ _ _ _ _) => LParserEnd :: labels_of feats failed t
    | HEv (EvScen _ _ s rt x) =>
      let k := (s, cur_of rt) in
      match x with
      | ScStarted => LAttStart k :: labels_of feats ((k, false) :: failed) t
      | ScFinished =>
        let fl := match find (fun kv => Sched.akey_eqb (fst kv) k) failed with Some (_, b) => b | None => false end in
        LAttEnd k fl :: labels_of feats failed t
      | _ =>
        let bad := match x with
                   | ScBg _ (StFailed _) | ScStep _ (StFailed _) | ScHook _ (HFailed _) => true
                   | _ => false end in
        LAttEv k x :: labels_of feats (if bad then (k, true) :: failed else failed) t
      end
    | _ => labels_of feats failed t
    end
  end.

(* HashMap drain order of finish_all_rules_and_features is arbitrary: closing brackets directly in
   front of run-Finished are compared as a sorted run (rules of a feature before the feature) *)
Definition close_key (e : ev) : option (N * N * N) :=
  match e with
  | EvRuleF f r => Some (f, 0, r)
  | EvFeatF f => Some (f, 1, 0)
  | _ => None
  end.
Definition key_leb (a b : N * N * N) : bool :=
  match a, b with
  | (f, x, r), (f', x', r') =>
    (f <? f') || ((f =? f') && ((x <? x') || ((x =? x') && (r <=? r'))))
  end.
Fixpoint insert_sorted (e : ev) (l : list ev) : list ev :=
  match l with
  | [] => [e]
  | x :: t => match close_key e, close_key x with
              | Some a, Some b => if key_leb a b then e :: l else x :: insert_sorted e t
              | _, _ => e :: l
              end
  end.
(* sorts the maximal run of closing brackets that precedes a final run-Finished *)
Fixpoint canon_rev (l : list ev) (acc : list ev) : list ev :=   (* l: reversed stream after its head Finished *)
  match l with
  | e :: t => match close_key e with
              | Some _ => canon_rev t (insert_sorted e acc)
              | None => rev l ++ acc
              end
  | [] => acc
  end.
Definition canon (es : list ev) : list ev :=
  match rev es with
  | EvFinished :: t => canon_rev t [] ++ [EvFinished]
  | _ => es
  end.

Definition replay (c : sdcase) : option (st * list ev) :=
  exec (cfg_of c) (labels_of (feature_items (sd_items c)) [] (sd_history c)).

Definition last_time (h : hist) : N := match rev h with (_, t) :: _ => t | [] => 0 end.

Definition same_as_model (c : sdcase) : bool :=
  match replay c with
  | Some (s, tr) =>
    list_eqb ev_eqb (canon tr) (canon (events_of (sd_history c)))
    && (negb (sd_terminated c) || match pc s with Done => true | _ => false end)
    && (now s =? last_time (sd_history c))
  | None => false
  end.

Definition valid (c : sdcase) : bool := true.

(* informational (sub-check 90, never a failure): do the whole-run theorems about the scheduler model speak about this
   run? They quantify over every label list the model accepts; the contract / conservation / order theorems additionally
   assume pairwise distinct feature ids and scenario ids among the features handed over. *)
Fixpoint nodupN (l : list N) : bool :=
  match l with [] => true | x :: t => negb (existsb (N.eqb x) t) && nodupN t end.
Definition theorem_applies (c : sdcase) : bool :=
  let fs := firstn (n_feats (sd_history c)) (feature_items (sd_items c)) in
  is_some (replay c) && nodupN (map sf_id fs) && nodupN (flat_map (fun f => map ss_id (sf_scens f)) fs).

Definition verdict_with (mon : sdcase -> bool) (id : N) (c : sdcase) : list (list N) :=
  if sd_hang c then [vrow id 1 (1, 0)]        (* a poll of the event stream that never returned *)
  else [vrow id 1 (judge (mon c) (same_as_model c) 0); [id; 90; 0; if theorem_applies c then 1 else 0]].

(* ... and the framing recogniser of Proofs/FramingP.v (proved of every run of the model: at most one ParsingFinished, no
   parser error after it, its counts those of the input, no empty bracket; a finished run has exactly one) *)
Definition framing_mon (c : sdcase) : bool :=
  let evs := events_of (sd_history c) in
  FramingP.framing_prefix evs
  && FramingP.inputs_ok (labels_of (feature_items (sd_items c)) [] (sd_history c)) evs
  && (negb (sd_terminated c) || FramingP.framing_ok evs).
Definition mon03 c := c03_ok (sd_items c) (sd_history c) (sd_terminated c)
                      && (negb (sd_terminated c) || c03_complete_ok (effective_ff c) (sd_items c) (sd_history c))
                      && framing_mon c.
Definition mon04 c := c04_ok (effective_ff c) (sd_items c) (sd_history c) (sd_terminated c)
                      && c04_progress_ok (effective_ff c) (sd_items c) (sd_history c).
Definition mon05 c := c05_ok (effective_ff c) (sd_items c) (sd_history c).
Definition mon06 c := c06_ok (effective_k c) (effective_ff c) (sd_items c) (sd_history c).
Definition mon07 c := c07_ok (sd_items c) (sd_history c).
Definition mon08 c := c08_ok (effective_k c) (effective_ff c) (sd_history c) (sd_terminated c).
