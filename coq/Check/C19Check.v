(* C19Check.v — judges what the REAL attribute-generated glue did on a zoo of annotated functions. *)
From CV Require Import Model.Base Model.Glue Check.Verdict.

Record attr := mk_attr { at_id : N; at_fn : N; at_sig : sigk; at_err_unless : option str }.
Inductive obs :=
| ObNone | ObAmb
| ObRan (fn : N) (args : list str)
| ObNotFound (fn : N) | ObParse (fn : N)
| ObErr (fn : N) (args : list str).          (* the function ran and returned Err: the step panics *)

Record probe := mk_probe {
  pr_cands : list N;               (* attributes of this World and keyword that match the text (independent oracle) *)
  pr_matches : list cap;           (* `Context::matches` as observed *)
  pr_def : option N;               (* the attribute the chosen definition's Location points at *)
  pr_obs : obs }.

Record gcase := mk_gcase {
  g_attrs : list attr;
  g_parse : list ((N * str) * option str);     (* FromStr oracle: (type, text) -> displayed value or failure *)
  g_registry_ok : bool;                        (* exactly one entry per attribute, under its keyword, per World *)
  g_probes : list probe }.

Definition obs_eqb (a b : obs) : bool :=
  match a, b with
  | ObNone, ObNone | ObAmb, ObAmb => true
  | ObRan f x, ObRan g y | ObErr f x, ObErr g y => (f =? g) && list_eqb str_eqb x y
  | ObNotFound f, ObNotFound g | ObParse f, ObParse g => f =? g
  | _, _ => false
  end.

Definition parse_of (c : gcase) (ty : N) (s : str) : option str :=
  match find (fun kv => (fst (fst kv) =? ty) && str_eqb (snd (fst kv)) s) (g_parse c) with
  | Some (_, r) => r
  | None => None
  end.

Definition expected (c : gcase) (p : probe) : obs * option N :=
  match pr_cands p with
  | [] => (ObNone, None)
  | [a] =>
    match find (fun x => at_id x =? a) (g_attrs c) with
    | Some att =>
      (match run_glue (parse_of c) (at_sig att) (pr_matches p) with
       | ORan args =>
         match at_err_unless att, args with
         | Some ok, first :: _ => if str_eqb first ok then ObRan (at_fn att) args else ObErr (at_fn att) args
         | _, _ => ObRan (at_fn att) args
         end
       | ONotFound _ => ObNotFound (at_fn att)
       | OParseFailed _ => ObParse (at_fn att)
       end, Some a)
    | None => (ObNone, None)
    end
  | _ => (ObAmb, None)
  end.

Definition verdict (id : N) (c : gcase) : list (list N) :=
  let ok := forallb (fun p => let '(o, d) := expected c p in
                              obs_eqb o (pr_obs p) && option_eqb N.eqb d (pr_def p)) (g_probes c) in
  [vrow id 1 (judge (ok && g_registry_ok c) ok 0)].
