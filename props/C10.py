"""C10 — engine `attempt` (one scripted scenario through the real runner)."""
import attemptgen
from attemptgen import term, panic_result, nontrivial, describe, gen_one  # noqa: F401

id = "C10"
engine = "attempt"
coq_imports = ["Model.Base", "Model.Events", "Model.Attempt", "Model.AttemptSpec", "Check.AttemptCheck", "Check.C10Check"]
case_type = "acase"
model_name = "Attempt.run_attempt (chained over retries)"
monitor_name = "AttemptCheck (AttemptSpec recognisers)"
sub_names = {1: "event stream and callback log of every attempt"}
rule = attemptgen.RULE
trusted_base = attemptgen.TRUSTED
also = ["C10b", "C10c", "C10d"]   # panics while other attempts are in flight: the process panic hook over whole scheduler runs
assumptions = ["outcomes of user code are scripted per attempt; futures inside an attempt complete without waiting"]


def gen(rng, tier):
    n = 6000 if tier == "thorough" else 600
    return [gen_one(rng) for _ in range(n)]
