"""C02 (second engine) — the canonical per-attempt sequence INSIDE EVERY INTERLEAVING: whole runs of the real
scheduler (engine `sched`: several attempts in flight, retries, hooks, fail-fast, completions in every order); the
projection of the observed stream on every attempt must have the canonical shape and every started attempt must be
finished once the run has ended."""
import schedgen
from schedgen import term, panic_result, nontrivial, describe  # noqa: F401

id = "C02"
engine = "sched"
coq_imports = ["Model.Base", "Model.Events", "Model.Contract", "Model.Sched", "Model.SchedSpec", "Check.SchedCheck", "Check.C02bCheck"]
case_type = "sdcase"
model_name = "Sched.exec (trace validation)"
monitor_name = "C02bCheck.c02b_ok (canonical shape of every attempt's projection)"
sub_names = {1: "the ordered history of the run"}
rule = "ALSO whole runs of the scheduler, every attempt projected out of the interleaved stream: " + schedgen.RULE
trusted_base = schedgen.TRUSTED
assumptions = []
harness_timeout = 600
coq_per_file = 20


def gen(rng, tier):
    n = 1500 if tier == "thorough" else 150
    return [schedgen.gen_one(rng) for _ in range(n)]
