"""C04 (second engine) — "the run terminates" WITH the tracing integration on: every attempt waits for its spans to close
(a handshake through the collector) before it goes on; if a close or a subscription is lost the run never ends although
every step has run. Engine `tracing` (one run per process, watchdog for runs that do not end)."""
import importlib
_C05c = importlib.import_module("props.C05c")
_C20 = importlib.import_module("props.C20")
from vcheck import cbool

id = "C04"
engine = "tracing"
harness_crate = "harness-tracing"
harness_binname = "vht"
harness_one_per_process = True
harness_timeout = 60
coq_imports = ["Model.Base", "Model.Events", "Model.Contract", "Model.Tracing", "Check.C20Check", "Check.C05cCheck", "Check.C04cCheck"]
case_type = "wcase"
model_name = _C20.model_name
monitor_name = "C04cCheck.c04c_ok (the run ends and its stream closes properly)"
sub_names = {1: "termination of one run with init_tracing()"}
rule = ("ALSO with the tracing integration on: " + _C05c.rule + " Here the observation is termination: a run that has not "
        "ended after 20 s (they take milliseconds) is a violation with the case as replay.")
trusted_base = _C20.trusted_base
assumptions = []
describe = _C20.describe
nontrivial = _C05c.nontrivial
gen_one = _C05c.gen_one


def gen(rng, tier):
    n = 160 if tier == "thorough" else 32
    return [gen_one(rng) for _ in range(n)]


def term(case, res):
    if res.get("hang"):
        return "(mk_wcase true (mk_tcase []))"
    return "(mk_wcase false %s)" % _C20.term(case, res)


def panic_result(case):
    return dict(hang=True)
