"""C16 — scenario outline expansion. Engine `outline`."""
from vcheck import cN, cstr, cbool, copt, clist, cpair

id = "C16"
engine = "outline"
coq_imports = ["Model.Base", "Model.Outline", "Check.C16Check"]
case_type = "ocase"
model_name = "Outline.expand_feature"
monitor_name = ("agreement with Outline.expand_feature on success; on failure: a single error naming an unresolvable placeholder; "
                "for parsed files: pairwise distinct positions of expanded scenarios")
sub_names = {1: "expand_examples result", 2: "distinct positions of expanded scenarios (parsed input)"}
rule = ("three streams: (a) hand-built features with 0-3 outlines in rules/top level, 0-3 Examples tables (absent, header-only, "
        "ragged, tagged, duplicate columns), placeholders in names / step texts / doc strings / table cells, values containing "
        "<, >, $0, regex metacharacters, unknown placeholders (~25%); (b) scanner cases: one string over {<,>,$,\\,space,NBSP,"
        "U+2003,a,b,e-acute} as outline name with every substring as a column mapped to a unique marker, which exposes the real "
        "TEMPLATE_REGEX tokenisation; (c) generated .feature texts parsed by the gherkin parser (model input = the parser's "
        "output). Non-trivial = at least one outline with at least one data row; distinct = SHA-1 of case JSON.")
trusted_base = [
    "Coq 8.16.1 kernel; vm_compute for evaluating the model on cases",
    "hand-written model coq/Model/Outline.v of src/feature.rs:55-170 incl. a Gallina scanner for the regex <([^>\\s]+)> "
    "(Unicode White_Space table written out), tied by this differential check",
    "the gherkin parser's line layout (Examples keyword at line L, data row i at line >= L+2+i) is a hypothesis of the "
    "positions theorem; it is validated on the parsed stream, not proved",
    "Rust harness /verif/harness (engine outline), python orchestrator /verif/lib",
]
assumptions = ["layout hypothesis for C16_positions_distinct (a fact about the third-party gherkin parser)"]

# every Unicode White_Space character and the code points right next to the ranges (what `\s` means for the regex
# crate: the placeholder-name scanner of the model has the same table)
WS = [9, 10, 11, 12, 13, 32, 133, 160, 5760, 8192, 8197, 8202, 8232, 8233, 8239, 8287, 12288]
NEAR = [8, 14, 31, 33, 132, 134, 159, 161, 5759, 5761, 8191, 8203, 8231, 8234, 8238, 8240, 8286, 8288, 12287, 12289]
ALPHA = ["<", ">", "$", "\\", " ", "\u00a0", "\u2003", "a", "b", "é", "<", ">", "n", "<", ">"] + \
        [chr(c) for c in WS + NEAR]
COLS = ["n", "what", "a b", "é", "x", "<n", "n>", "$0"]
VALS = ["1", "x<n>", "$0", ".*", "", "<what>", "a>b", "é é", "\\1", "v"]
TEMPL = ["eat <n>", "<n><what>", "no placeholders", "<a b>", "<>", "x <é> y", "<<n>", "<n> and <n>", "< n>", "<n", "n>", "<$0>",
         "<unknown>", "<what> <zz>", "a<x>b<x>"]


def gen_table(rng, allow_none=True):
    k = rng.randrange(10)
    if k == 0 and allow_none:
        return None
    if k == 1:
        return []
    ncol = rng.randrange(0, 4)
    header = [rng.choice(COLS) for _ in range(ncol)]
    if rng.random() < 0.7 and ncol:
        header[0] = "n"
    if rng.random() < 0.5 and ncol > 1:
        header[1] = "what"
    rows = [header]
    for _ in range(rng.randrange(0, 4)):
        w = ncol if rng.random() < 0.85 else rng.randrange(0, 5)
        rows.append([rng.choice(VALS) for _ in range(w)])
    return rows


def templ(rng, safe):
    pool = ["eat <n>", "<n><what>", "plain", "<n> and <n>", "< n>", "<>", "a <what> b"] if safe else TEMPL
    return rng.choice(pool)


def gen_oscen(rng, line):
    safe = rng.random() < 0.7
    steps = []
    for i in range(rng.randrange(0, 4)):
        steps.append(dict(value=templ(rng, safe), doc=(templ(rng, safe) if rng.random() < 0.3 else None),
                          table=([[templ(rng, safe) for _ in range(rng.randrange(1, 3))] for _ in range(rng.randrange(1, 3))]
                                 if rng.random() < 0.3 else None),
                          line=line + 1 + i, col=5))
    exs = []
    l = line + 10
    for _ in range(rng.randrange(0, 4) if rng.random() < 0.85 else 0):
        t = gen_table(rng)
        exs.append(dict(line=l, col=rng.choice([5, 7]), tags=[rng.choice(["t1", "t2", "x"]) for _ in range(rng.randrange(3))], table=t))
        l += 2 + (len(t) if t else 0)
    return dict(name=templ(rng, safe), tags=[rng.choice(["o1", "o2"]) for _ in range(rng.randrange(3))], steps=steps,
                examples=exs, line=line, col=3)


def gen_built(rng):
    line = [1]

    def nxt():
        line[0] += 40
        return line[0]
    return dict(kind="built", rules=[[gen_oscen(rng, nxt()) for _ in range(rng.randrange(3))] for _ in range(rng.randrange(3))],
                top=[gen_oscen(rng, nxt()) for _ in range(rng.randrange(4))])


def substrings(s):
    out = []
    for i in range(len(s)):
        for j in range(i + 1, len(s) + 1):
            t = s[i:j]
            if t not in out:
                out.append(t)
    return out


def gen_scanner(rng):
    if rng.random() < 0.4:
        # a would-be placeholder whose name contains one white-space character or one of its neighbours: whether it IS a
        # placeholder depends on exactly that character
        c = chr(rng.choice(WS + NEAR))
        s = rng.choice(["", "x", "<"]) + "<" + rng.choice(["", "a", "é"]) + c + rng.choice(["", "b"]) + ">" + rng.choice(["", "y", ">"])
    else:
        s = "".join(rng.choice(ALPHA) for _ in range(rng.randrange(1, 11)))
    cols = substrings(s)
    rng.shuffle(cols)
    header = cols
    vals = ["\u0001%d\u0002" % i for i in range(len(cols))]
    if rng.random() < 0.3 and cols:      # drop some columns: unknown placeholders
        k = rng.randrange(len(cols))
        header, vals = header[:k], vals[:k]
    sc = dict(name=s, tags=[], steps=[dict(value=s[::-1], doc=None, table=None, line=2, col=5)],
              examples=[dict(line=10, col=5, tags=[], table=[header, vals])], line=1, col=3)
    return dict(kind="scanner", rules=[], top=[sc])


def gen_text(rng):
    lines = ["Feature: parsed"]

    def outline(ind):
        pad = " " * ind
        lines.append("")
        if rng.random() < 0.4:
            lines.append(pad + "@o1 @o2")
        is_outline = rng.random() < 0.8
        lines.append(pad + ("Scenario Outline: " if is_outline else "Scenario: ") + rng.choice(["eat <n>", "plain", "<n> <what>", "x"]))
        for _ in range(rng.randrange(1, 4)):
            lines.append(pad + "  Given " + rng.choice(["<n> things", "foo", "a <what> b", "<what><n>"]))
            if rng.random() < 0.25:
                lines.extend([pad + '    """', pad + "    doc <n>", pad + '    """'])
            if rng.random() < 0.25:
                lines.extend([pad + "    | c <n> | <what> |", pad + "    | 1 | 2 |"])
        if is_outline:
            for _ in range(rng.randrange(1, 4)):
                lines.append("")
                if rng.random() < 0.4:
                    lines.append(pad + "  @t%d" % rng.randrange(3))
                lines.append(pad + "  Examples:" + rng.choice(["", " named"]))
                if rng.random() < 0.2:
                    lines.append(pad + "    some description")
                lines.append(pad + "    | n | what |")
                for _ in range(rng.randrange(0, 4)):
                    lines.append(pad + "    | %s | %s |" % (rng.choice(["1", "2", "x<n>", "$0"]), rng.choice(["a", "b c", ".*", "é"])))
                    if rng.random() < 0.15:
                        lines.append("")
    for _ in range(rng.randrange(0, 3)):
        outline(2)
    for r in range(rng.randrange(0, 3)):
        lines.append("")
        lines.append("  Rule: r%d" % r)
        for _ in range(rng.randrange(1, 3)):
            outline(4)
    return dict(kind="text", text="\n".join(lines) + "\n")


def gen(rng, tier):
    n = 10 if tier == "thorough" else 1
    out = [gen_built(rng) for _ in range(300 * n)]
    out += [gen_scanner(rng) for _ in range(400 * n)]
    out += [gen_text(rng) for _ in range(150 * n)]
    return out


def ctable(t):
    return copt(t, lambda rows: clist(rows, lambda r: clist(r, cstr)))


def costep(s):
    return "(mk_ostep %s %s %s %s %s)" % (cstr(s["value"]), copt(s["doc"], cstr), ctable(s["table"]), cN(s["line"]), cN(s["col"]))


def cexample(e):
    return "(mk_example %s %s %s %s)" % (cN(e["line"]), cN(e["col"]), clist(e["tags"], cstr), ctable(e["table"]))


def coscen(s):
    return "(mk_oscen %s %s %s %s %s %s)" % (cstr(s["name"]), clist(s["tags"], cstr), clist(s["steps"], costep),
                                            clist(s["examples"], cexample), cN(s["line"]), cN(s["col"]))


def term(case, res):
    if "parse_error" in res:
        raise ValueError("generated text does not parse: " + res["parse_error"])
    src = res["parsed"] if case.get("kind") == "text" else case
    ex = res["expanded"]
    if "ok" in ex:
        obs = "(inl (%s, %s))" % (clist(ex["ok"]["rules"], lambda r: clist(r, coscen)), clist(ex["ok"]["top"], coscen))
    else:
        e = ex["err"]
        obs = "(inr (mk_xerr %s %s %s))" % (cN(e["line"]), cN(e["col"]), cstr(e["name"]))
    return "(mk_ocase %s %s %s %s)" % (clist(src["rules"], lambda r: clist(r, coscen)), clist(src["top"], coscen), obs,
                                      cbool(case.get("kind") == "text"))


def nontrivial(case, res):
    src = res.get("parsed") if res else None
    if not src:
        return False
    for sc in [s for r in src["rules"] for s in r] + src["top"]:
        for e in sc["examples"]:
            if e["table"] and len(e["table"]) >= 2:
                return True
    return False


def describe(case, res):
    keys = ["kind=" + case.get("kind", "?")]
    if res and "expanded" in res:
        keys.append("result=" + ("ok" if "ok" in res["expanded"] else "err"))
    if res and "parse_error" in res:
        keys.append("result=unparsable")
    return keys
