"""C11 — Normalize reorders any contract-abiding stream losslessly. Engine `combinators` (pipe = Normalize<recorder>)."""
from vcheck import cN, clist
import gens
import evgen

id = "C11"
engine = "combinators"
coq_imports = ["Model.Base", "Model.Events", "Model.Contract", "Model.Normalize", "Proofs.NormalizeP2", "Check.C11Check"]
case_type = "ncase"
model_name = "Normalize.nrun"
monitor_name = "C11Check.c11_ok"
sub_names = {1: "events handed to the inner writer during each handle_event call",
             2: "the queue-discipline hypothesis of the lossless theorems (implied by the contract) holds on this stream"}
rule = ("cases = 1-3 generated features (rules, backgrounds, retries, hooks, logs, parser errors) x a random linearisation of their "
        "events that respects the Runner contract: 20% already sequential, 40% runner-like (brackets opened lazily, up to 4 attempts "
        "in flight), 40% wild (any interleaving the contract allows: several features open, rule and top-level scenarios "
        "alternating, late Finished brackets, pass-through events mid-run); 10% are truncated before run-Finished. The REAL "
        "Normalize wraps a recording writer; compared after every handle_event call. Non-trivial = at least two attempts whose "
        "events interleave in the input; distinct = SHA-1 of the canonical case JSON.")
trusted_base = [
    "Coq 8.16.1 kernel; vm_compute for evaluating the model on cases",
    "hand-written model coq/Model/Normalize.v of src/writer/normalize.rs, tied by this differential check",
    "the executable contract automaton coq/Model/Contract.v (transcribes src/runner/mod.rs:27-56)",
    "Rust harness /verif/harness (engine combinators, dynpipe.rs), python orchestrator /verif/lib",
]
assumptions = ["input streams obey the Runner ordering contract (the real Normalize panics on streams that do not)"]


def gen_one(rng):
    feats = evgen.small_features(rng, nmax=3)
    mode = rng.choice(["seq", "runner", "runner", "wild", "wild"])
    events = evgen.contract_stream(rng, feats, mode=mode, drop_tail=True)
    if rng.random() < 0.1 and len(events) > 3:
        events = events[:rng.randrange(1, len(events))]
    return dict(features=feats, pipe={"normalize": {"leaf": 0, "stats": [0] * 6}}, events=events, mode=mode)


def gen(rng, tier):
    n = 6000 if tier == "thorough" else 600
    return [gen_one(rng) for _ in range(n)]


def term(case, res):
    calls = clist(res["calls"], lambda call: clist(call, evgen.cmev))
    return "(mk_ncase %s %s)" % (evgen.cmevs(case["events"]), calls)


def interleaved(case):
    last = None
    seen_closed = set()
    switches = 0
    for e in case["events"]:
        ev = e["ev"]
        if ev[0] != "Scen":
            continue
        k = (ev[1], ev[2], ev[3], tuple(ev[4]) if ev[4] else None)
        if last is not None and k != last and last not in seen_closed:
            switches += 1
        if ev[5][0] == "Finished":
            seen_closed.add(k)
        last = k
    return switches


def nontrivial(case, res):
    return interleaved(case) >= 1


def describe(case, res):
    n = len(case["events"])
    return ["mode=%s" % case.get("mode"), "events=%s" % ("<20" if n < 20 else "<60" if n < 60 else ">=60"),
            "interleaved=%s" % (interleaved(case) > 0)]


def panic_result(case):
    return dict(calls=[], writes=[], stats=[0] * 6, failed=False, stats_seq=[], extra_seq=[])
