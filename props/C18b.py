"""C18 (second engine) — `--concurrency` overrides / `--fail-fast` adds to the builder settings, engine `sched`."""
import schedgen
from schedgen import term, panic_result, nontrivial, describe  # noqa: F401

id = "C18"
engine = "sched"
coq_imports = ["Model.Base", "Model.Events", "Model.Contract", "Model.Sched", "Model.SchedSpec", "Check.SchedCheck", "Check.C18bCheck"]
case_type = "sdcase"
model_name = "Sched.exec with the effective limit / fail-fast computed from CLI and builder"
monitor_name = "SchedSpec.c06_ok && SchedSpec.c08_ok under the effective settings"
sub_names = {1: "the ordered history of the run"}
rule = "ALSO whole runs with CLI and/or builder concurrency and fail-fast (parser errors included): " + schedgen.RULE
trusted_base = schedgen.TRUSTED
assumptions = []
harness_timeout = 600
coq_per_file = 20


def gen(rng, tier):
    n = 1500 if tier == "thorough" else 200
    out = []
    while len(out) < n:
        c = schedgen.gen_one(rng)
        if c["ff_cli"] or c["ff_builder"] or c["conc_cli"] is not None:
            out.append(c)
    return out
