"""C18 — retry option resolution. Engine `retryopts`."""
from vcheck import cN, cstr, cbool, copt, clist, cpair, ctagop

id = "C18"
engine = "retryopts"
coq_imports = ["Model.Base", "Model.TagExpr", "Model.RetryOpts", "Model.RetryOptsSpec", "Check.C18Check"]
also = ["C18b"]   # last clause: --concurrency overrides / --fail-fast adds, on whole runs
case_type = "rcase"
model_name = "RetryOpts.parse_from_tags / RetryOpts.merge"
monitor_name = "RetryOptsSpec.c18_ok"
sub_names = {1: "direct parse_from_tags", 2: "CLI/builder merge seen by retry_options", 3: "resolution inside Basic::run"}
rule = ("cases = (feature/rule/scenario tag lists, CLI, builder); 75% drawn from a well-formed stream (plain tags + the four "
        "retry forms with assorted counts/durations), 25% from a malformed stream (prefix-only, bad numbers, junk suffixes, "
        "overflowing counts); tag filters are random formulas of depth <= 4 whose atoms are in 60% tags the case itself carries (on the feature, the rule or the scenario). Non-trivial = at least one tag starting with "
        "'retry' or a CLI/builder retry setting present; distinct = SHA-1 of the canonical case JSON.")
trusted_base = [
    "Coq 8.16.1 kernel (coqc; coqchk in the thorough tier); vm_compute for evaluating the model on cases",
    "hand-written model coq/Model/RetryOpts.v of src/runner/basic.rs:142-195 and :762-766, tied by this differential check",
    "oracle: humantime::parse_duration (observed table handed to the model); usize::from_str is modelled, not an oracle",
    "Rust harness /verif/harness (engine retryopts), python orchestrator /verif/lib, rustc/cargo",
]
assumptions = [
    "humantime::parse_duration is treated as an oracle (theorems hold for every such function)",
    "known-finding class K18a (a tag with prefix 'retry' that is none of the four forms) is excluded by hypothesis",
]

PLAIN = ["flaky", "x", "serial", "retr", "re", "slow", "allow.skipped", "wip", "retr y", "é", "Retry"]
DURS = ["1s", "500ms", "2min", "1h 30m", "0s", "15ns", "3sec", "1m1s", "2 s", "100us"]
BAD_DURS = ["", "1x", "s", "1", "-1s", "1s)", "1.5s", "999999999999999999999s"]
NUMS = ["0", "1", "2", "3", "10", "007", "+4", "18446744073709551615"]
BAD_NUMS = ["", "abc", "-1", " 3", "3 ", "18446744073709551616", "99999999999999999999999", "1.0", "+", "٣"]


def wf_tag(rng):
    k = rng.randrange(4)
    if k == 0:
        return "retry"
    if k == 1:
        return "retry(%s)" % rng.choice(NUMS)
    if k == 2:
        return "retry.after(%s)" % rng.choice(DURS)
    return "retry(%s).after(%s)" % (rng.choice(NUMS), rng.choice(DURS))


def bad_tag(rng):
    k = rng.randrange(12)
    n, d = rng.choice(NUMS), rng.choice(DURS)
    return [
        "retrying", "retry(%s)" % rng.choice(BAD_NUMS), "retry(%s)x.after(%s)" % (n, d), "retry(%s" % n,
        "retry.after", "retry.after(%s)" % rng.choice(BAD_DURS), "retry(%s).after(%s)junk" % (n, d),
        "retry.after(%s).after(%s)" % (d, rng.choice(DURS)), "retry(%s)(%s)" % (n, rng.choice(NUMS)),
        "retry(%s).after(%s" % (n, d), "retry (%s)" % n, "retry.after(%s)(%s)" % (d, n),
    ][k]


def tags(rng, malformed, p_retry):
    out = [rng.choice(PLAIN) for _ in range(rng.randrange(3))]
    if rng.random() < p_retry:
        t = bad_tag(rng) if (malformed and rng.random() < 0.7) else wf_tag(rng)
        out.insert(rng.randrange(len(out) + 1), t)
        if rng.random() < 0.2:
            out.insert(rng.randrange(len(out) + 1), wf_tag(rng))
    return out


def tagexpr(rng, depth, pool=None):
    if depth == 0 or rng.random() < 0.3:
        # mostly tags that the case itself carries (so that the filter's verdict depends on where a tag sits)
        if pool and rng.random() < 0.6:
            return {"tag": rng.choice(pool)}
        return {"tag": rng.choice(PLAIN + ["retry", "retry(2)"])}
    k = rng.randrange(3)
    if k == 0:
        return {"and": [tagexpr(rng, depth - 1, pool), tagexpr(rng, depth - 1, pool)]}
    if k == 1:
        return {"or": [tagexpr(rng, depth - 1, pool), tagexpr(rng, depth - 1, pool)]}
    return {"not": tagexpr(rng, depth - 1, pool)}


def opt(rng, p, f):
    return f() if rng.random() < p else None


def gen_one(rng):
    malformed = rng.random() < 0.25
    p = rng.choice([0.0, 0.3, 0.6])
    ftags, rtags, stags = tags(rng, malformed, p), opt(rng, 0.5, lambda: tags(rng, malformed, p)), tags(rng, malformed, p)
    pool = sorted(set(ftags + (rtags or []) + stags))
    cli = dict(retry=opt(rng, 0.4, lambda: rng.choice([0, 1, 2, 5, 100])),
               retry_after=opt(rng, 0.3, lambda: rng.choice([0, 1, 1000000, 2500000000])),
               filter=opt(rng, 0.35, lambda: tagexpr(rng, rng.randrange(1, 5), pool)),
               concurrency=opt(rng, 0.3, lambda: rng.choice([1, 2, 8])), fail_fast=rng.random() < 0.3)
    builder = dict(retries=opt(rng, 0.4, lambda: rng.choice([0, 1, 3, 7])),
                   retry_after=opt(rng, 0.3, lambda: rng.choice([0, 5, 777000000])),
                   filter=opt(rng, 0.3, lambda: tagexpr(rng, rng.randrange(1, 4), pool)),
                   concurrency=opt(rng, 0.6, lambda: rng.choice([1, 3, 64])), fail_fast=rng.random() < 0.3)
    return dict(ftags=ftags, rtags=rtags, stags=stags, cli=cli, builder=builder)


def gen(rng, tier):
    n = 6000 if tier == "thorough" else 600
    return [gen_one(rng) for _ in range(n)]


def c_opts(o):
    if o is None:
        return "None"
    return "(Some (%s, %s))" % (cN(o["left"]), copt(o["after"]))


def term(case, res):
    cli, b = case["cli"], case["builder"]
    m = res["merged"]
    if m is None:
        raise ValueError("retry_options closure was never called")
    c_cli = "(Build_cli %s %s %s %s %s)" % (copt(cli["retry"]), copt(cli["retry_after"]), copt(cli["filter"], ctagop),
                                          copt(cli["concurrency"]), cbool(cli["fail_fast"]))
    c_b = "(Build_builder %s %s %s %s %s)" % (copt(b["retries"]), copt(b["retry_after"]), copt(b["filter"], ctagop),
                                            copt(b["concurrency"]), cbool(b["fail_fast"]))
    table = clist(res["dur_table"], lambda kv: cpair(cstr(kv[0]), copt(kv[1])))
    first = res["first_started"]
    first = None if first is None else first.get("retries")
    return "(mk_rcase %s %s %s %s %s %s %s %s %s %s %s %s %s)" % (
        clist(case["ftags"], cstr), copt(case["rtags"], lambda t: clist(t, cstr)), clist(case["stags"], cstr),
        c_cli, c_b, table, c_opts(res["direct"]), cN(res["direct"]["current"] if res["direct"] else 0),
        copt(m["retry"]), copt(m["retry_after"]), copt(m["filter"], ctagop), c_opts(m["result"]),
        copt(first, lambda r: cpair(cN(r[0]), cN(r[1]))))


def all_tags(case):
    return case["ftags"] + (case["rtags"] or []) + case["stags"]


def nontrivial(case, res):
    return any(t.startswith("retry") for t in all_tags(case)) or \
        any(case["cli"][k] is not None for k in ("retry", "retry_after", "filter")) or \
        any(case["builder"][k] is not None for k in ("retries", "retry_after", "filter"))


def describe(case, res):
    keys = []
    ts = all_tags(case)
    keys.append("retry_tags=%d" % min(3, sum(t.startswith("retry") for t in ts)))
    keys.append("rule=%s" % (case["rtags"] is not None))
    keys.append("cli_filter=%s" % (case["cli"]["filter"] is not None))
    if res is not None and "direct" in res:
        keys.append("result=%s" % ("some" if res["direct"] else "none"))
    return keys
