"""C05 (third engine) — the retry BUDGET a scenario gets (N >= 0, from tags, CLI and builder) as resolved inside
Basic::run, engine `retryopts` (the resolution check of C18)."""
import importlib
_C18 = importlib.import_module("props.C18")

id = "C05"
engine = "retryopts"
coq_imports = _C18.coq_imports
case_type = _C18.case_type
model_name = _C18.model_name
monitor_name = _C18.monitor_name
sub_names = _C18.sub_names
rule = "ALSO the budget resolution: " + _C18.rule
trusted_base = _C18.trusted_base
assumptions = []
term = _C18.term
nontrivial = _C18.nontrivial
describe = _C18.describe
if hasattr(_C18, "panic_result"):
    panic_result = _C18.panic_result


import re
_WF = re.compile(r"^retry(\((%s)\))?(\.after\((%s)\))?$" % ("|".join(re.escape(n) for n in _C18.NUMS), "|".join(re.escape(d) for d in _C18.DURS)))


def _wellformed(case):
    # class K18a of C18 (a tag with prefix `retry` that is none of the four forms) is a finding about tag parsing,
    # not about budgets: only well-formed retry tags here
    tags = case["ftags"] + (case["rtags"] or []) + case["stags"]
    return all(_WF.match(t) for t in tags if t.startswith("retry"))


def gen(rng, tier):
    n = 2000 if tier == "thorough" else 200
    out = []
    while len(out) < n:
        c = _C18.gen_one(rng)
        if _wellformed(c):
            out.append(c)
    return out
