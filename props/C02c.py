"""C02 (third engine) — "a step with no matching definition is Skipped, one matching several definitions is Failed as
ambiguous": which definition a step finds (engine `stepmatch`, the lookup check of C17), on sequences of lookups against
ONE collection — a lookup must not depend on the lookups made before it."""
import importlib
_C17 = importlib.import_module("props.C17")

id = "C02"
engine = "stepmatch"
coq_imports = _C17.coq_imports
case_type = _C17.case_type
model_name = _C17.model_name
monitor_name = _C17.monitor_name
sub_names = _C17.sub_names
rule = "ALSO the step lookup behind every step event: " + _C17.rule
trusted_base = _C17.trusted_base
assumptions = _C17.assumptions
term = _C17.term
describe = _C17.describe
nontrivial = _C17.nontrivial
if hasattr(_C17, "panic_result"):
    panic_result = _C17.panic_result


def gen(rng, tier):
    n = 1500 if tier == "thorough" else 150
    return [_C17.gen_one(rng) for _ in range(n)]
