"""C10 (second engine) — panics of attempts that run WHILE OTHER ATTEMPTS ARE IN FLIGHT, engine `sched`: the embedding
program's panic hook sees nothing during the run and is back in place after it."""
import schedgen
from vcheck import cN, cbool

id = "C10"
engine = "sched"
coq_imports = ["Model.Base", "Model.Events", "Model.Sched", "Model.SchedSpec", "Check.SchedCheck", "Check.C02bCheck", "Check.C10bCheck"]
case_type = "hcase"
model_name = "Sched.hook_suppressed along the replayed run"
monitor_name = "C10bCheck.c10b_ok (counting process panic hook)"
sub_names = {1: "panic-hook invocations during the run and the hook in place after it"}
rule = ("ALSO on whole scheduler runs: " + schedgen.RULE + " A counting panic hook is installed before the run: it must not be "
        "invoked while the run is in progress (steps and after hooks panic while other attempts are in flight, in every "
        "completion order the stimuli produce) and must be the installed hook again after the run.")
trusted_base = schedgen.TRUSTED
assumptions = []
harness_timeout = 600
coq_per_file = 20


def gen(rng, tier):
    n = 1500 if tier == "thorough" else 200
    out = []
    while len(out) < n:
        c = schedgen.gen_one(rng)
        scs = [sc for it in c["items"] for sc in it.get("scenarios", [])]
        if any(sc["fails"] or sc.get("afails") or sc.get("bfails") for sc in scs):
            out.append(c)
    return out


def term(case, res):
    if "hook_calls_during_run" not in res:
        raise ValueError("no panic-hook observation")
    return "(mk_hcase %s %s %s)" % (schedgen.term(case, res), cN(res["hook_calls_during_run"]), cbool(res["hook_restored"]))


def panic_result(case):
    return dict(schedgen.panic_result(case), hook_calls_during_run=0, hook_restored=True)


nontrivial = schedgen.nontrivial
describe = schedgen.describe
