"""C14 (second engine) — the plain terminal report ends with the [Summary] that writer::Summarize prints: its totals and
its verdict must agree with the entries. Engine `combinators`: the summary check of C12 (the twelve numbers parsed
back from the summary text, the getters, the verdict) on real Summarize pipelines."""
import importlib
_C12 = importlib.import_module("props.C12")

id = "C14"
engine = "combinators"
coq_imports = _C12.coq_imports
case_type = _C12.case_type
model_name = _C12.model_name
monitor_name = _C12.monitor_name
sub_names = _C12.sub_names
rule = "ALSO the [Summary] of the terminal report: " + _C12.rule
trusted_base = _C12.trusted_base
assumptions = _C12.assumptions
term = _C12.term
describe = _C12.describe
nontrivial = _C12.nontrivial
if hasattr(_C12, "panic_result"):
    panic_result = _C12.panic_result


def gen(rng, tier):
    n = 1500 if tier == "thorough" else 150
    return [_C12.gen_one(rng) for _ in range(n)]
known_of = "C12"   # classes K12a-d are findings of C12 (reported there)
