"""C13 — writer combinators are transparent. Engine `combinators`."""
from vcheck import cN, cstr, cbool, copt, clist, cpair
import gens
import evgen

id = "C13"
engine = "combinators"
coq_imports = ["Model.Base", "Model.Events", "Model.Gherkin", "Model.Combinators", "Check.C13Check"]
case_type = "ccase"
model_name = "Combinators.run / stats / exec_failed / write_to"
monitor_name = "agreement with Combinators.run (proved transparent: Props/C13.v)"
sub_names = {1: "deliveries to the recording leaves after every handle_event call",
             2: "leaves receiving an Arbitrary::write", 3: "Stats getters and execution_has_failed"}
rule = ("cases = 1-2 generated features x a random nesting (depth <= 4) of the REAL FailOnSkipped (default and custom predicate), "
        "Repeat (skipped / failed / custom filter), Tee, Or, discard::Arbitrary, discard::Stats around recording leaves with "
        "random counters x an event list: 50% arbitrary (not contract-abiding, events of every kind incl. several Finished), "
        "50% contract-abiding streams. Non-trivial = at least one combinator and at least 3 events and at least one of "
        "(a Skipped step, a Failed step/hook/parse error, a Finished); distinct = SHA-1 of the canonical case JSON.")
trusted_base = [
    "Coq 8.16.1 kernel; vm_compute for evaluating the model on cases",
    "hand-written model coq/Model/Combinators.v of src/writer/{fail_on_skipped,repeat,tee,or,discard}.rs, tied by this differential check",
    "custom predicates / filters / Or predicates are tables keyed by scenario id or event metadata",
    "Rust harness /verif/harness (engine combinators, dynpipe.rs), python orchestrator /verif/lib",
]
assumptions = ["user predicates are pure functions of (feature, rule, scenario) resp. of the event"]


def gen_pipe(rng, depth, leaf_ids, metas, scen_ids):
    def leaf():
        i = len(leaf_ids)
        leaf_ids.append(i)
        st = [rng.choice([0, 0, 1, 2, 5]) for _ in range(6)]
        return {"leaf": i, "stats": st}

    if depth == 0 or rng.random() < 0.2:
        return leaf()
    k = rng.randrange(7)
    if k == 0:
        pred = None if rng.random() < 0.6 else [s for s in scen_ids if rng.random() < 0.5]
        return {"fos": pred, "p": gen_pipe(rng, depth - 1, leaf_ids, metas, scen_ids)}
    if k == 1:
        f = rng.choice(["skipped", "failed", "custom"])
        if f == "custom":
            f = [m for m in metas if rng.random() < 0.4]
        return {"repeat": f, "p": gen_pipe(rng, depth - 1, leaf_ids, metas, scen_ids)}
    if k in (2, 3):
        return {"tee": [gen_pipe(rng, depth - 1, leaf_ids, metas, scen_ids),
                        gen_pipe(rng, depth - 1, leaf_ids, metas, scen_ids)]}
    if k == 4:
        return {"or": [m for m in metas if rng.random() < 0.5],
                "l": gen_pipe(rng, depth - 1, leaf_ids, metas, scen_ids),
                "r": gen_pipe(rng, depth - 1, leaf_ids, metas, scen_ids)}
    if k == 5:
        return {"discard_arb": gen_pipe(rng, depth - 1, leaf_ids, metas, scen_ids)}
    return {"discard_stats": gen_pipe(rng, depth - 1, leaf_ids, metas, scen_ids)}


def gen_one(rng):
    feats = evgen.small_features(rng, tags=["x", "allow.skipped", "y", "allow.skipped "])
    if rng.random() < 0.5:
        events = evgen.arbitrary_stream(rng, feats)
    else:
        events = evgen.contract_stream(rng, feats, fail_bias=rng.choice([0.6, 1.0]))
    metas = [e["meta"] for e in events]
    scen_ids = [s["id"] for f in feats for _, s in gens.all_scenarios(f)]
    pipe = gen_pipe(rng, rng.randrange(1, 5), [], metas, scen_ids)
    return dict(features=feats, pipe=pipe, events=events)


def gen(rng, tier):
    n = 6000 if tier == "thorough" else 600
    return [gen_one(rng) for _ in range(n)]


def ccounters(st):
    st = (list(st) + [0] * 6)[:6]
    return "(mk_counters %s)" % " ".join(cN(x) for x in st)


def cpipe(p):
    if "leaf" in p:
        return "(PLeaf %s %s)" % (cN(p["leaf"]), ccounters(p["stats"]))
    if "fos" in p:
        k = "FosDefault" if p["fos"] is None else "(FosCustom %s)" % clist(p["fos"], cN)
        return "(PFos %s %s)" % (k, cpipe(p["p"]))
    if "repeat" in p:
        f = p["repeat"]
        k = {"skipped": "FSkipped", "failed": "FFailed"}.get(f) if isinstance(f, str) else "(FCustom %s)" % clist(f, cN)
        return "(PRepeat %s %s)" % (k, cpipe(p["p"]))
    if "tee" in p:
        return "(PTee %s %s)" % (cpipe(p["tee"][0]), cpipe(p["tee"][1]))
    if "or" in p:
        return "(POr %s %s %s)" % (clist(p["or"], cN), cpipe(p["l"]), cpipe(p["r"]))
    if "discard_arb" in p:
        return "(PDiscardArb %s)" % cpipe(p["discard_arb"])
    if "discard_stats" in p:
        return "(PDiscardStats %s)" % cpipe(p["discard_stats"])
    raise ValueError("pipe")


def term(case, res):
    calls = clist(res["calls"], lambda call: clist(call, lambda d: cpair(cN(d["leaf"]), evgen.cmev(d))))
    ws = res["writes"]
    if any("unsupported_write" in w for w in ws):
        writes = None
    else:
        writes = [w["leaf"] for w in ws]
    return "(mk_ccase %s %s %s %s %s %s %s)" % (
        clist(case["features"], gens.cfeature), cpipe(case["pipe"]), evgen.cmevs(case["events"]), calls,
        copt(writes, lambda l: clist(l, cN)), ccounters(res["stats"]), cbool(res["failed"]))


def nontrivial(case, res):
    evs = [e["ev"] for e in case["events"]]
    if "leaf" in case["pipe"] or len(evs) < 3:
        return False
    return any(e[0] in ("Finished", "ParseErr") or (e[0] == "Scen" and isinstance(e[5][-1], (list, str))
               and (e[5][-1] == "Skipped" or isinstance(e[5][-1], list))) for e in evs)


def top(p):
    return next(iter(k for k in p if k in ("leaf", "fos", "repeat", "tee", "or", "discard_arb", "discard_stats")))


def describe(case, res):
    evs = [e["ev"] for e in case["events"]]
    return ["top=%s" % top(case["pipe"]), "events=%s" % ("<8" if len(evs) < 8 else "<30" if len(evs) < 30 else ">=30"),
            "finished=%d" % min(2, sum(e[0] == "Finished" for e in evs))]


def panic_result(case):
    return dict(calls=[], writes=[], stats=[0] * 6, failed=False, stats_seq=[], extra_seq=[])
