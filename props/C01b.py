"""C01 (second engine) — what the statistics writers are GIVEN: every parser error the parser yields reaches the
stream (also under fail-fast), engine `sched` (the framing monitor of C03 on whole runs)."""
import schedgen
from schedgen import term, panic_result, nontrivial, describe  # noqa: F401

id = "C01"
engine = "sched"
coq_imports = ["Model.Base", "Model.Events", "Model.Contract", "Model.Sched", "Model.SchedSpec", "Check.SchedCheck", "Check.C03Check"]
case_type = "sdcase"
model_name = "Sched.exec (trace validation)"
monitor_name = "SchedSpec.c03_ok (parser errors delivered exactly once, in order; counters)"
sub_names = {1: "the ordered history of the run"}
rule = "ALSO whole runs with parser errors, with and without fail-fast: " + schedgen.RULE
trusted_base = schedgen.TRUSTED
assumptions = []
harness_timeout = 600
coq_per_file = 20


def gen(rng, tier):
    n = 1500 if tier == "thorough" else 150
    out = []
    while len(out) < n:
        c = schedgen.gen_one(rng)
        if any("error" in it for it in c["items"]):
            out.append(c)
    return out
