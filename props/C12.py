"""C12 — summary counters equal what the event stream contains. Engine `combinators` on Summarize pipelines."""
import gens
import evgen
import statspipe
from statspipe import term, panic_result  # noqa: F401

id = "C12"
engine = "combinators"
coq_imports = ["Model.Base", "Model.Events", "Model.Gherkin", "Model.Combinators", "Model.Stats", "Model.Pipeline",
               "Model.StatsSpec", "Check.StatsCase", "Check.C12Check"]
case_type = "scase"
model_name = "Pipeline.qrun over Stats.sm_handle"
monitor_name = "C12Check.c12_ok (StatsSpec.spec_counts)"
sub_names = {1: "summary numbers, write position, getters after every call"}
rule = ("cases = 1-2 generated features (6% scenarios without own steps, 6% with a duplicated last step) x a contract-abiding "
        "stream (sequential, runner-like or wild; retries, hook failures, background failures, skipped steps, parser errors, "
        "30% of the incomplete tail dropped) x one of the pipelines Summarize<rec>, Summarize<Normalize<rec>>, "
        "FailOnSkipped<Summarize<..>>, Repeat<Summarize<..>>, Repeat<FailOnSkipped<Summarize<..>>> around the REAL writers; "
        "compared after every call: deliveries (events and the parsed summary text) and the six getters. Non-trivial = the "
        "stream holds at least two scenarios and at least one of (retried failure, hook failure, skipped step, final failure); "
        "distinct = SHA-1 of the canonical case JSON.")
trusted_base = [
    "Coq 8.16.1 kernel; vm_compute for evaluating model, spec and known-class predicates on cases",
    "hand-written models coq/Model/Stats.v (summarize.rs:163-445) and Pipeline.v, tied by this differential check",
    "structural equality of gherkin::Step is modelled as equality of ids (the position is part of a step)",
    "the summary text is parsed back by a regular expression in lib/statspipe.py",
    "Rust harness /verif/harness (engine combinators, dynpipe.rs), python orchestrator /verif/lib",
]
assumptions = ["streams obey the Runner contract", "known-finding classes K12a-K12d are excluded by hypothesis and reported"]


def gen_pipe(rng, scen_ids, events=()):
    inner = statspipe.LEAF if rng.random() < 0.5 else {"normalize": statspipe.LEAF}
    p = {"summarize": inner}
    if rng.random() < 0.35:
        p = {"fos": None if rng.random() < 0.6 else [s for s in scen_ids if rng.random() < 0.5], "p": p}
    if rng.random() < 0.3:
        f = rng.choice(["skipped", "failed", "custom"])
        if f == "custom":
            # a user filter: any events, often including the run-level brackets (run-Finished is then re-delivered)
            f = [e["meta"] for e in events if rng.random() < 0.3 or (e["ev"][0] in ("Started", "Finished") and rng.random() < 0.7)]
        p = {"repeat": f, "p": p}
    return p


def gen_one(rng):
    feats = statspipe.stats_features(rng)
    events = statspipe.stats_stream(rng, feats)
    scen_ids = [s["id"] for f in feats for _, s in gens.all_scenarios(f)]
    return dict(features=feats, pipe=gen_pipe(rng, scen_ids, events), events=events)


def gen(rng, tier):
    n = 6000 if tier == "thorough" else 600
    return [gen_one(rng) for _ in range(n)]


def facts(case):
    evs = [e["ev"] for e in case["events"]]
    sc = [e for e in evs if e[0] == "Scen"]
    scen = {(e[1], e[2], e[3]) for e in sc}
    retried = any(e[5][0] in ("Bg", "Step") and isinstance(e[5][2], list) and e[4] and e[4][1] > 0 for e in sc)
    hookf = any(e[5][0] == "Hook" and isinstance(e[5][2], list) for e in sc)
    skipped = any(e[5][0] in ("Bg", "Step") and e[5][2] == "Skipped" for e in sc)
    failed = any(e[5][0] in ("Bg", "Step") and isinstance(e[5][2], list) for e in sc)
    return len(scen), retried, hookf, skipped, failed


def nontrivial(case, res):
    n, retried, hookf, skipped, failed = facts(case)
    return n >= 2 and (retried or hookf or skipped or failed)


def describe(case, res):
    n, retried, hookf, skipped, failed = facts(case)
    top = next(iter(k for k in case["pipe"] if k in ("summarize", "fos", "repeat")))
    return ["top=%s" % top, "retried=%s" % retried, "hookfail=%s" % hookf, "scenarios=%d" % min(n, 4)]
