"""C10 on the REAL clock (engine `realclock`): what the runner does with the process panic hook around a REAL wait for a retry
deadline — the production sleeping path, which the virtual clock of the other engines replaces. A counting hook is installed
before the run; nothing may reach it during the run (attempts panic before and after the waits), and it must be back afterwards."""
import realgen
from realgen import panic_result, nontrivial, describe, gen_one  # noqa: F401
from vcheck import cN, cbool

id = "C10"
engine = "realclock"
coq_imports = ["Model.Base", "Check.C10dCheck"]
case_type = "rc10case"
model_name = "none: a runtime observation, judged by the monitor only"
monitor_name = "C10dCheck.c10d_ok (no call of the process panic hook during the run, the hook back afterwards)"
sub_names = {1: "one run on the real clock"}
rule = "ALSO on the real clock, the panic hook around real waits for retry deadlines: " + realgen.RULE
trusted_base = realgen.TRUSTED
assumptions = []
harness_timeout = 300


def gen(rng, tier):
    n = 48 if tier == "thorough" else 8
    return [gen_one(rng) for _ in range(n)]


def term(case, res):
    if res is None or "hook_calls_during_run" not in res:
        raise ValueError("no observation")
    return "(mk_rc10case %s %s %s)" % (cN(res["hook_calls_during_run"]), cbool(bool(res["hook_restored"])), cbool(bool(res["terminated"])))
