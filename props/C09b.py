"""C09 (second engine) — the World contract on WHOLE CONCURRENT RUNS: engine `sched` (several attempts in flight, retries,
hooks, completions in every order). The engine's World carries an instance number and a mutation counter; every callback
of every attempt records which instance it was handed and how many mutations it had seen: one World per attempt, the state
threads through the attempt's callbacks, and no instance is ever seen by two attempts or scenarios — whatever the
interleaving (the `attempt` engine judges one scenario at a time)."""
import schedgen
from schedgen import panic_result, nontrivial, describe  # noqa: F401
from vcheck import cN, cbool, clist

id = "C09"
engine = "sched"
coq_imports = ["Model.Base", "Check.C09bCheck"]
case_type = "wcase09"
model_name = "(monitor only: the scheduler model has no callbacks)"
monitor_name = "C09bCheck.worlds_ok (one World instance per attempt, mutations thread, no instance shared across attempts or scenarios; the after hook exactly once, last, for every attempt that entered user code)"
sub_names = {1: "the World instances seen by every callback of the run, in the order the callbacks ran"}
rule = ("ALSO on whole runs of the scheduler (several attempts in flight): every callback records the World instance it was "
        "handed (instances numbered by the real World::new() calls) and the mutations that instance had seen: " + schedgen.RULE)
trusted_base = schedgen.TRUSTED
assumptions = []
harness_timeout = 600
coq_per_file = 40


def gen_one(rng):
    case = schedgen.gen_one(rng)
    # 40 %: directed at "the after hook runs exactly once ... for every interleaving": an after hook is installed, fail-fast is
    # on, several attempts are in flight and one scenario fails for good while others are still running
    if rng.random() < 0.4:
        scs = [sc for it in case["items"] for sc in it.get("scenarios", [])]
        if len(scs) >= 2:
            case["after_hook"] = True
            case["ff_cli"] = True
            case["conc_cli"] = None
            case["conc_builder"] = rng.choice([None, 2, 4])
            bad = rng.choice(scs)
            bad["fails"] = max(1, bad.get("fails", 0))
            bad["retry"] = None
    return case


def gen(rng, tier):
    n = 1500 if tier == "thorough" else 150
    return [gen_one(rng) for _ in range(n)]


def term(case, res):
    recs = res.get("worlds")
    if recs is None:
        raise ValueError("no World log in the result")
    one = lambda r: "(mk_wrec %s %s %s %s %s)" % tuple(cN(x) for x in r)
    return "(mk_wcase09 %s %s %s)" % (clist(recs, one), cbool(bool(res.get("terminated"))), cbool(bool(case.get("after_hook"))))
