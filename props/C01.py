"""C01 — run verdict. Engine `combinators` on the built-in statistics pipelines."""
import gens
import evgen
import statspipe
from statspipe import term, panic_result  # noqa: F401
import props.C12 as C12

id = "C01"
engine = "combinators"
coq_imports = ["Model.Base", "Model.Events", "Model.Gherkin", "Model.Combinators", "Model.Stats", "Model.Pipeline",
               "Model.StatsSpec", "Check.StatsCase", "Check.C01Check"]
also = ["C01b", "C01c", "C01d"]   # what the writers are given (parser errors reach the stream) and which attempts are final
case_type = "scase"
model_name = "Pipeline.qrun (qfailed)"
monitor_name = "C01Check.c01_ok (StatsSpec.spec_failed)"
sub_names = {1: "execution_has_failed and the six getters after every call"}
rule = ("cases = 1-2 generated features x a contract-abiding stream (as C12) x a built-in statistics pipeline: "
        "Summarize<Normalize<rec>>, Normalize<Libtest>, raw Libtest, Tee of the two, Or of the two with a constant predicate "
        "(as Libtest::or), each optionally under FailOnSkipped (default or custom predicate) and Repeat; the REAL writers run, "
        "the six getters and execution_has_failed are compared after every call and the final verdict is judged against the "
        "declarative one. Non-trivial = at least two scenarios and at least one of (retried failure, hook failure, skipped "
        "step, final failure, parser error); distinct = SHA-1 of the canonical case JSON.")
trusted_base = [
    "Coq 8.16.1 kernel; vm_compute for evaluating model, spec and known-class predicates on cases",
    "hand-written models coq/Model/{Stats,Normalize,Combinators,Pipeline}.v, tied by this differential check",
    "Rust harness /verif/harness (engine combinators, dynpipe.rs), python orchestrator /verif/lib",
    "Cucumber::run_and_exit panics iff execution_has_failed: hand-written model coq/Model/Exit.v of src/cucumber.rs:1199-1237, tied by the exit engine (C01d)",
]
assumptions = ["streams obey the Runner contract and carry exactly one ParsingFinished (Libtest counts nothing before it)",
               "known-finding class K01a (a hook failing in an attempt that is retried) is excluded by hypothesis and reported"]


def gen_pipe(rng, scen_ids):
    summ = {"summarize": {"normalize": statspipe.LEAF}}
    k = rng.randrange(6)
    if k == 0:
        p = summ
    elif k == 1:
        p = {"norm_libtest": None}
    elif k == 2:
        p = {"libtest": None}
    elif k == 3:
        p = {"tee": [summ, {"norm_libtest": None}]}
    elif k == 4:
        p = {"or": list(range(1, 400)) if rng.random() < 0.5 else [], "l": summ, "r": {"norm_libtest": None}}
    else:
        p = {"tee": [{"summarize": statspipe.LEAF}, {"libtest": None}]}
    if "or" in p or "libtest" in p or "norm_libtest" in p or ("tee" in p):
        pass
    if rng.random() < 0.4:
        p = {"fos": None if rng.random() < 0.6 else [s for s in scen_ids if rng.random() < 0.5], "p": p}
    if rng.random() < 0.25:
        p = {"repeat": rng.choice(["skipped", "failed"]), "p": p}
    return p


def gen_one(rng):
    feats = statspipe.stats_features(rng)
    events = evgen.contract_stream(rng, feats, fail_bias=rng.choice([0.0, 0.3, 0.6, 1.0]))
    scen_ids = [s["id"] for f in feats for _, s in gens.all_scenarios(f)]
    return dict(features=feats, pipe=gen_pipe(rng, scen_ids), events=events)


def gen(rng, tier):
    n = 6000 if tier == "thorough" else 600
    return [gen_one(rng) for _ in range(n)]


def nontrivial(case, res):
    n, retried, hookf, skipped, failed = C12.facts(case)
    perr = any(e["ev"][0] == "ParseErr" for e in case["events"])
    return n >= 2 and (retried or hookf or skipped or failed or perr)


def top(p):
    return next(iter(k for k in p if k in ("summarize", "fos", "repeat", "tee", "or", "libtest", "norm_libtest")))


def describe(case, res):
    keys = ["top=%s" % top(case["pipe"])]
    if res and res.get("stats_seq"):
        keys.append("verdict=%s" % ("failed" if res["stats_seq"][-1][6] else "ok"))
    return keys
