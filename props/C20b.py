"""C20 (second check on the same engine) — WHICH scenario a tracing event is attributed to. The protocol model of C20
(`Model/Tracing.v`) is handed the scenario of every message by its labels; here the attribution itself is modelled
(`Model/TracingAttr.v`: the span tree, `scope_lookup` = the id of the OUTERMOST span of the event's scope that carries
one, the collector's registry, the broadcast of unknown ids) and compared with what the real layers resolve for every
formatted event (hook 921cc91: trace points in `RecordScenarioId`, `AppendScenarioMsg::format_event`,
`Collector::start_scenarios` / `finish_scenario`)."""
import importlib
_C20 = importlib.import_module("props.C20")
from vcheck import cN, copt, clist
import evgen

id = "C20"
engine = "tracing"
harness_crate = "harness-tracing"
harness_binname = "vht"
harness_one_per_process = True
coq_imports = ["Model.Base", "Model.Events", "Model.TracingAttr", "Check.C20bCheck"]
case_type = "acase20"
model_name = "TracingAttr.scope_lookup / recipients (hand-written Gallina model of RecordScenarioId + AppendScenarioMsg::format_event + Collector registry)"
monitor_name = "TracingAttr.attr_ok clauses (b), (c): a message belongs to the scenario that emitted it and is delivered to it"
sub_names = {1: "span tree, resolved ids, registry and deliveries of one run with init_tracing()"}
rule = ("ALSO the attribution itself, on the same runs: every span the cucumber layer sees (with its parent and, if it carries one, "
        "its scenario id), the id the real format_event resolved for every formatted event, every registration / removal in the "
        "collector and every delivered Log event are replayed through the attribution model: the resolved id must equal the model's "
        "lookup (outermost id'd span of the scope; nested runs and user spans included), a message emitted by a step or hook of "
        "scenario s must resolve to a registered id that stands for s, and it must be delivered to that scenario with its retries.")
trusted_base = _C20.trusted_base + ["hand-written attribution model coq/Model/TracingAttr.v of src/tracing.rs (RecordScenarioId, AppendScenarioMsg, Collector::{start_scenarios, finish_scenario, emitted_logs}), tied by comparing the resolved id of every formatted event"]
assumptions = ["messages logged by a helper thread are formatted on that thread, whose trace points are not part of the history: their resolution is not compared (their delivery is)"]
gen_one = _C20.gen_one
gen = _C20.gen
panic_result = _C20.panic_result
describe = _C20.describe
nontrivial = _C20.nontrivial
known_of = "C20"


def term(case, res):
    if res.get("panicked") or res.get("events") != res.get("traced"):
        raise ValueError("run panicked or trace/event mismatch")
    recs = []
    pending_reg = None
    for r in res["history"]:
        k = r[0]
        if k == "newspan":
            recs.append("(ANewSpan %s %s)" % (cN(r[1]), copt(r[2])))
        elif k == "spansid":
            recs.append("(ASpanSid %s %s)" % (cN(r[1]), cN(r[2])))
        elif k == "emit" and len(r) == 4:        # (a 5th element marks a helper-thread message: formatted elsewhere)
            recs.append("(AEmit %s %s)" % (cN(r[1]), cN(r[2])))
        elif k == "fmt":
            recs.append("(AFmt %s %s)" % (copt(r[1]), copt(r[2])))
        elif k == "reg":
            pending_reg = (r[1], r[2])
        elif k == "regretry" and pending_reg and pending_reg[0] == r[1]:
            recs.append("(AReg %s %s %s)" % (cN(r[1]), cN(pending_reg[1]), evgen.cretr(r[2])))
            pending_reg = None
        elif k == "unreg":
            recs.append("(AUnreg %s)" % cN(r[1]))
        elif k == "ev":
            e = r[1]
            if e[0] == "Scen" and e[5][0] == "LogMsg":
                recs.append("(ADeliver %s %s %s)" % (cN(e[3]), evgen.cretr(e[4]), copt(e[5][1])))
    return "(mk_acase20 %s)" % clist(recs, lambda x: x)
