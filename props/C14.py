"""C14 — built-in reports, parsed back, state exactly the facts of the event stream. Engine `reporters`."""
import json
import re
import xml.etree.ElementTree as ET

from vcheck import cN, cbool, copt, clist, cpair
import gens
import evgen
import repgen

id = "C14"
engine = "reporters"
coq_imports = ["Model.Base", "Model.Events", "Model.Contract", "Model.Normalize", "Model.Stats", "Model.StatsSpec",
               "Model.Reporters", "Model.ReportersSpec", "Check.C14Check"]
case_type = "rcase14"
model_name = "Reporters.{libtest_lines,json_doc,junit_doc,basic_lines} over Normalize.nrun"
monitor_name = "ReportersSpec.c14_{libtest,json,junit,basic}_ok"
sub_names = {1: "the parsed-back report"}
rule = ("cases = 1-2 generated features (15% without a source path; names and step texts with quotes, <>&, non-ASCII, braces, "
        "backslashes; unique ids inside every name so that entries can be attributed) x a contract-abiding stream (any outcomes, "
        "hooks, retries, parser errors, logs) x one of the four REAL reporters (Libtest JSON lines, Cucumber JSON, JUnit XML, "
        "plain terminal), each behind Normalize as its constructor builds it; the output is parsed back by independent parsers "
        "(python json, xml.etree, a line grammar) into a flat list of facts which Coq compares with its model of the reporter and "
        "judges against the facts of the event stream. Non-trivial = at least two attempts and at least one of (failure, skip, hook "
        "failure, parser error, retry); distinct = SHA-1 of the canonical case JSON.")
trusted_base = [
    "Coq 8.16.1 kernel; vm_compute",
    "hand-written structural models coq/Model/Reporters.v of src/writer/{libtest,json,junit,basic}.rs over the Normalize model",
    "the parsers of lib (python json, xml.etree.ElementTree, regular expressions for names and terminal lines): they decide "
    "well-formedness and attribute entries to features / rules / scenarios / steps by the ids embedded in generated names",
    "serde_json, quick-xml / junit-report serialisation is third-party code: exercised, not modelled",
    "Rust harness /verif/harness (engine reporters), python orchestrator /verif/lib",
]
assumptions = ["streams obey the Runner contract and are retry-consistent",
               "known-finding classes K14a-K14d are excluded by hypothesis and reported"]

KW = {0: "Given ", 1: "When ", 2: "Then "}
WR = {"libtest": 0, "json": 1, "junit": 2, "basic": 3}


def gen(rng, tier):
    n = 4000 if tier == "thorough" else 400
    return [repgen.gen_one(rng) for _ in range(n)]


class Tables:
    def __init__(self, feats):
        self.f, self.r, self.s, self.st = {}, {}, {}, {}
        for f in feats:
            self.f[f["id"]] = f
            for st in f["bg"]:
                self.st[st["id"]] = st
            for r in f["rules"]:
                self.r[r["id"]] = (f, r)
                for st in r["bg"]:
                    self.st[st["id"]] = st
            for r, s in gens.all_scenarios(f):
                self.s[s["id"]] = (f, r, s)
                for st in s["steps"]:
                    self.st[st["id"]] = st
        self.ok = True

    def path(self, f):
        return "features/f%d.feature" % f["id"] if f.get("path") else None

    def check(self, cond):
        if not cond:
            self.ok = False


def idnum(text, prefix):
    m = re.match(r"^%s(\d+)\b" % prefix, text)
    return int(m.group(1)) if m else 0


# ------------------------------------------------------------------ libtest
def parse_libtest(out, T):
    rfs = []
    for line in out.split("\n"):
        line = line.strip()
        if not line:
            continue
        if not line.startswith("{"):
            # forwarded Log text may precede a JSON line
            k = line.find("{\"type\"")
            if k < 0:
                continue
            line = line[k:]
        d = json.loads(line)
        if d["type"] == "suite":
            if d["event"] == "started":
                rfs.append("(RSuiteStarted %s)" % cN(d["test_count"]))
            else:
                rfs.append("(RSuiteResult %s %s %s %s)" % (cbool(d["event"] == "ok"), cN(d["passed"]), cN(d["failed"]), cN(d["ignored"])))
            continue
        kind = {"started": 0, "ok": 1, "failed": 2, "ignored": 3}[d["event"]]
        rfs.append("(RTest %s %s)" % (cN(kind), clist(libtest_name(d["name"], T), cN)))
    return rfs


def libtest_name(name, T):
    m = re.match(r"^Feature: Parsing (\d+)$", name)
    if m:
        return [0, int(m.group(1)), 0, 0, 0, 0, 0, 0, 4, 0]
    parts = name.split("::")
    head = parts[0]
    fid, counter = 0, 0
    for f in T.f.values():
        pre = "Feature: %s " % f["name"]
        if head.startswith(pre):
            fid = f["id"]
            rest = head[len(pre):]
            if T.path(f):
                T.check(rest == T.path(f))
            else:
                T.check(rest.isdigit())
                counter = int(rest) if rest.isdigit() else 0
    T.check(fid != 0)
    rid = None
    if len(parts) == 4:
        m = re.match(r"^(\d+): Rule: (.*)$", parts[1], re.S)
        T.check(bool(m))
        if m:
            rid = int(m.group(1))
            T.check(rid in T.r and T.r[rid][1]["name"] == m.group(2))
    sc = parts[-2]
    m = re.match(r"^(\d+): Scenario: (.*?)(?: \| Retry attempt (\d+)/(\d+))?$", sc, re.S)
    T.check(bool(m))
    sid, cur, tot = 0, 0, 0
    if m:
        sid = int(m.group(1))
        T.check(sid in T.s and T.s[sid][2]["name"] == m.group(2))
        if m.group(3):
            cur, tot = int(m.group(3)), int(m.group(4))
    last = parts[-1]
    if last in ("Before hook", "After hook"):
        what, st = (2 if last.startswith("Before") else 3), 0
    else:
        m = re.match(r"^(\d+): (Background)? (.*)$", last, re.S)
        T.check(bool(m))
        what, st = 0, 0
        if m:
            st = int(m.group(1))
            what = 1 if m.group(2) else 0
            T.check(st in T.st and m.group(3) == KW[T.st[st]["ty"]] + T.st[st]["value"])
    return [fid, counter, 1 if rid is not None else 0, rid or 0, sid, 1 if cur > 0 else 0, cur, tot, what, st]


# ------------------------------------------------------------------ json
JST = {"passed": 0, "failed": 1, "skipped": 2, "undefined": 3, "ambiguous": 4}


def parse_json(out, T):
    if not out.strip():
        return []
    doc = json.loads(out)
    rfs = []
    for f in doc:
        fid = idnum(f["name"], "F")
        if f["name"]:
            T.check(fid in T.f and T.f[fid]["name"] == f["name"] and f["uri"] == T.path(T.f[fid]))
        rfs.append("(RJFeature %s %s)" % (cbool(f["uri"] is not None), cN(fid)))
        for el in f["elements"]:
            sid = el["line"]
            rid = None
            if fid:
                T.check(sid in T.s)
                if sid in T.s:
                    _, r, s = T.s[sid]
                    exp = ("%s %s" % (r["name"], s["name"])) if r else s["name"]
                    T.check(el["name"] == exp)
                    rid = r["id"] if r else None
            rfs.append("(RJElement %s %s %s)" % (copt(rid), cN(sid), cN(1 if el["type"] == "background" else 0)))
            for h in el.get("before", []):
                rfs.append("(RJHook true %s)" % cN(JST[h["result"]["status"]]))
            for st in el["steps"]:
                if fid:
                    T.check(st["line"] in T.st and st["name"] == T.st[st["line"]]["value"]
                            and st["keyword"] == KW[T.st[st["line"]]["ty"]])
                rfs.append("(RJStep %s %s)" % (cN(st["line"]), cN(JST[st["result"]["status"]])))
            for h in el.get("after", []):
                rfs.append("(RJHook false %s)" % cN(JST[h["result"]["status"]]))
    return rfs


# ------------------------------------------------------------------ terminal lines
STEP_RE = re.compile(r"(✔|✘|\?)(>?)\s+(Given |When |Then )(.*)$")
HOOK_RE = re.compile(r"✘\s+Scenario's (Before|After) hook failed (.*):(\d+):(\d+)$")
SCEN_RE = re.compile(r"Scenario: (.*?)(?: \| Retry attempt: (\d+)/(\d+))?$")


def parse_lines(text, T, listing=False):
    rfs = []
    cur_fid = 0
    for line in text.split("\n"):
        m = HOOK_RE.search(line)
        if m:
            rfs.append("(RLHookFailed %s %s)" % (cbool(m.group(1) == "Before"), cN(int(m.group(3)))))
            continue
        m = STEP_RE.search(line)
        if m:
            st = idnum(m.group(4), "st")
            T.check(st in T.st and m.group(3) + m.group(4) == KW[T.st[st]["ty"]] + T.st[st]["value"])
            rfs.append("(RLStep %s %s %s)" % (cN({"✔": 1, "✘": 2, "?": 3}[m.group(1)]), cbool(m.group(2) == ">"), cN(st)))
            continue
        if "Failed to parse: " in line:
            rfs.append("RLParseErr")
            continue
        m = re.search(r"(?:^|log\d+)Feature: (.*)$", line)
        if m and not listing:
            fid = idnum(m.group(1), "F")
            cur_fid = fid
            T.check(fid in T.f and T.f[fid]["name"] == m.group(1))
            rfs.append("(RLFeature %s)" % cN(fid))
            continue
        m = re.search(r"^(?:log\d+)*\s*Rule: (.*)$", line)
        if m and not listing:
            rid = idnum(m.group(1), "R")
            if m.group(1).strip() == "" and cur_fid in T.f:
                # a `Rule:` without a name carries no id: it is the (only) unnamed rule of the feature being listed
                unnamed = [r["id"] for r in T.f[cur_fid]["rules"] if r["name"] == ""]
                rid = unnamed[0] if len(unnamed) == 1 else 0
            T.check(rid in T.r and T.r[rid][1]["name"] == m.group(1).strip())
            rfs.append("(RLRule %s)" % cN(rid))
            continue
        m = re.search(r"^(?:log\d+)*(\s*)" + SCEN_RE.pattern, line)
        if m:
            indent, m = len(m.group(1)), re.search(SCEN_RE.pattern, line)
            sid = idnum(m.group(1), "S")
            T.check(sid in T.s and T.s[sid][2]["name"] == m.group(1))
            if not listing and sid in T.s:
                # the nesting level is the only thing that says under what a scenario is listed: 4 columns under a
                # `Rule:`, 2 directly under its feature
                T.check(indent == (4 if T.s[sid][1] else 2))
            retry = "None" if not m.group(2) else "(Some (%s, %s))" % (cN(int(m.group(2))), cN(int(m.group(3))))
            rfs.append("(RLScenario %s %s)" % (cN(sid), retry))
    return rfs


# ------------------------------------------------------------------ junit
def parse_junit(out, T):
    if not out.strip():
        return []
    root = ET.fromstring(out)
    rfs = []
    for suite in root.iter("testsuite"):
        name = suite.get("name")
        if name == "Errors":
            rfs.append("(RSuite true 0)")
            for c in suite.iter("testcase"):
                m = re.match(r"^Feature: (?:.*:)?(\d+):(\d+)$", c.get("name"))
                T.check(bool(m) and c.find("failure") is not None)
                rfs.append("(RCase None %s 1)" % cN(int(m.group(1)) if m else 0))
            continue
        m = re.match(r"^Feature: (.*?)(?:: (features/f\d+\.feature))?$", name, re.S)
        fid = idnum(m.group(1), "F") if m else 0
        T.check(fid in T.f and m.group(1) == T.f[fid]["name"] and m.group(2) == T.path(T.f[fid]))
        rfs.append("(RSuite false %s)" % cN(fid))
        for c in suite.iter("testcase"):
            m = re.match(r"^(?:Rule: (.*?): )?Scenario: (.*): (?:(features/f\d+\.feature):)?(\d+):(\d+)$", c.get("name"), re.S)
            T.check(bool(m))
            sid = int(m.group(4)) if m else 0
            rid = None
            if m and sid in T.s:
                _, r, s = T.s[sid]
                T.check(s["name"] == m.group(2) and (r["name"] if r else None) == m.group(1))
                rid = r["id"] if r else None
            status = 1 if c.find("failure") is not None else 2 if c.find("skipped") is not None else 0
            rfs.append("(RCase %s %s %s)" % (copt(rid), cN(sid), cN(status)))
            # junit-report puts the listing into <system-out> for a success and into the text of <failure>
            for tag in ("system-out", "failure"):
                el = c.find(tag)
                if el is not None and el.text:
                    rfs += parse_lines(el.text, T, listing=True)
    return rfs


def term(case, res):
    T = Tables(case["features"])
    out = res["out"]
    w = case["writer"]
    wellformed = True
    rfs = []
    try:
        if w == "libtest":
            rfs = parse_libtest(out, T)
        elif w == "json":
            rfs = parse_json(out, T)
        elif w == "junit":
            rfs = parse_junit(out, T)
        else:
            rfs = parse_lines(out, T)
    except (json.JSONDecodeError, ET.ParseError):
        wellformed = False
    # "nothing that did not happen appears ... any reporter CLI options": the World of a failed step or hook (its Debug output is
    # the marker WORLDDUMP#) is printed from the ShowWorld verbosity on, never at the default verbosity
    if w in ("basic", "junit") and not case.get("verbose"):
        T.check("WORLDDUMP#" not in out)
    texts = [f["name"] for f in case["features"]] + [r["name"] for f in case["features"] for r in f["rules"]] + \
            [s["name"] for f in case["features"] for _, s in gens.all_scenarios(f)] + [st["value"] for st in T.st.values()]
    cdata = any("]]>" in t for t in texts)
    pathless = [f["id"] for f in case["features"] if not f.get("path")]
    return "(mk_rcase14 %s %s %s %s %s %s %s)" % (
        clist(pathless, cN), evgen.cmevs(case["events"]), cN(WR[w]), cbool(wellformed), cbool(T.ok), cbool(cdata),
        "[" + "; ".join(rfs) + "]")


def panic_result(case):
    return dict(out="")


def nontrivial(case, res):
    evs = [e["ev"] for e in case["events"]]
    atts = {(e[3], tuple(e[4]) if e[4] else None) for e in evs if e[0] == "Scen"}
    interesting = any(e[0] == "ParseErr" for e in evs) or any(
        e[0] == "Scen" and ((e[5][0] in ("Bg", "Step") and e[5][2] != "Passed" and e[5][2] != "Started")
                            or (e[5][0] == "Hook" and isinstance(e[5][2], list)) or (e[4] and e[4][0] > 0)) for e in evs)
    return len(atts) >= 2 and interesting


def describe(case, res):
    return ["writer=%s" % case["writer"], "pathless=%s" % any(not f.get("path") for f in case["features"])]
also = ["C14b"]   # the [Summary] that closes the terminal report
