"""C05 (fourth engine) — retries on runs WITH the tracing integration on (`init_tracing()`): an attempt parks until
its span has closed before it emits Finished, and other attempts complete meanwhile. Engine `tracing` (one run per
process), the raw stream judged by the ordering contract and the retry chain."""
import importlib
_C20 = importlib.import_module("props.C20")

id = "C05"
engine = "tracing"
harness_crate = "harness-tracing"
harness_binname = "vht"
harness_one_per_process = True
coq_imports = ["Model.Base", "Model.Events", "Model.Contract", "Model.Tracing", "Check.C20Check", "Check.C05cCheck"]
case_type = "tcase"
model_name = _C20.model_name
monitor_name = "C05cCheck.c05c_ok (Contract.contract + retry chain on the raw stream)"
sub_names = {1: "raw event stream of one run with init_tracing()"}
rule = ("ALSO with the tracing integration on: cases = 3-9 scenarios (1-2 steps, yields 0-6, a few messages), a third to a half of "
        "them with @retry(1..2) failing their first attempts, concurrency 2..8 or unlimited, one run per process through the REAL "
        "Cucumber::init_tracing(); the raw stream must satisfy the ordering contract (attempts of one scenario never overlap) "
        "and every scenario's Started events must carry current = 0,1,2,.. with current+left constant.")
trusted_base = _C20.trusted_base
assumptions = []
term = _C20.term
panic_result = _C20.panic_result
describe = _C20.describe


def gen_one(rng):
    scs = []
    for i in range(rng.randrange(3, 10)):
        sid = 11 + i
        retry = rng.randrange(1, 3) if rng.random() < 0.45 else None
        steps = [dict(id=sid * 10 + j + 1, pre=rng.choice([0, 1]), yields=rng.choice([0, 1, 2, 3, 4, 6]), post=rng.choice([0, 1]),
                      inner=rng.random() < 0.2, under=False)
                 for j in range(rng.randrange(1, 3))]
        scs.append(dict(id=sid, retry=retry, fails=0 if retry is None else rng.choice([1, 1, 2, retry + 1]), steps=steps))
    return dict(concurrency=rng.choice([None, 2, 3, 4, 8]), outer=rng.random() < 0.3, scenarios=scs)


def gen(rng, tier):
    n = 240 if tier == "thorough" else 48
    return [gen_one(rng) for _ in range(n)]


def nontrivial(case, res):
    return any(sc["retry"] and sc["fails"] for sc in case["scenarios"])
