"""C05 (second engine) — the chain of attempts of ONE scenario incl. hooks, skipped steps and World creation, engine `attempt`."""
import attemptgen
from attemptgen import term, panic_result, nontrivial, describe, gen_one  # noqa: F401

id = "C05"
engine = "attempt"
coq_imports = ["Model.Base", "Model.Events", "Model.Attempt", "Model.AttemptSpec", "Check.AttemptCheck", "Check.C05aCheck"]
case_type = "acase"
model_name = "Attempt.run_attempt (chained over retries)"
monitor_name = "AttemptCheck.c05_ok (AttemptSpec.chain_ok + fresh World per attempt)"
sub_names = {1: "event stream and callback log of every attempt"}
rule = attemptgen.RULE
trusted_base = attemptgen.TRUSTED
assumptions = []


def gen(rng, tier):
    n = 3000 if tier == "thorough" else 300
    return [gen_one(rng) for _ in range(n)]
