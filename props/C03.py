"""C03 — engine `sched` (the real runner under the gated harness)."""
import schedgen
from schedgen import term, panic_result, nontrivial, describe, gen  # noqa: F401

id = "C03"
engine = "sched"
coq_imports = ["Model.Base", "Model.Events", "Model.Contract", "Model.Sched", "Model.SchedSpec", "Check.SchedCheck", "Check.C03Check"]
case_type = "sdcase"
model_name = "Sched.exec (trace validation)"
monitor_name = "SchedSpec.c03_ok"
sub_names = {1: "the ordered history of the run"}
rule = schedgen.RULE
trusted_base = schedgen.TRUSTED
assumptions = ["user futures are modelled by gates (they complete when the harness lets them)",
               "the hooked build differs from the shipped one only in where time comes from and in the trace records"]
harness_timeout = 600
coq_per_file = 20
also = ["C03c"]   # parser items that are equal by value
