"""C15 — filtering by name, tags or closure. Engine `filter`."""
from vcheck import cN, cstr, cbool, copt, clist, cpair, ctagop
import gens

id = "C15"
engine = "filter"
coq_imports = ["Model.Base", "Model.TagExpr", "Model.Gherkin", "Model.Filter", "Check.C15Check"]
case_type = "fcase"
model_name = "Filter.filter_feature"
monitor_name = "agreement with Filter.filter_feature (proved to keep exactly the accepted scenarios, in order)"
sub_names = {1: "features handed to the Runner by filter_run"}
rule = ("cases = 1-3 generated features (tags on feature/rule/scenario, 0-4 top-level scenarios, 0-2 rules, backgrounds, "
        "repeated and odd names) x one of the 8 combinations of (--name regex, --tags expression of depth <= 6, closure table); "
        "the real Cucumber::filter_run is driven with a vector parser and a recording Runner. Non-trivial = at least two "
        "scenarios and at least one removed or at least one kept; distinct = SHA-1 of the canonical case JSON.")
trusted_base = [
    "Coq 8.16.1 kernel; vm_compute for evaluating the model on cases",
    "hand-written model coq/Model/Filter.v of src/cucumber.rs:704-776, tied by this differential check",
    "oracle: regex::Regex::is_match for --name (observed table handed to the model); tag expressions are built as "
    "TagOperation trees, the gherkin tag-expression text parser is not exercised",
    "Rust harness /verif/harness (engine filter), python orchestrator /verif/lib",
]
assumptions = ["the closure's decision depends on the scenario only (what else it is shown is not compared)"]

REGEXES = ["a", "^a$", "log", "^$", ".*", "b|x1", "[<>]", "ü", "^(?:(?!))$" if False else "zzz", "\\s"]


def gen_one(rng):
    ids = gens.Ids(rng.randrange(1, 9) * 1000)
    feats = [gens.gen_feature(rng, ids) for _ in range(rng.randrange(1, 4))]
    mask = rng.randrange(8)
    re = rng.choice(REGEXES) if mask & 1 else None
    tags = gens.tagexpr(rng, rng.randrange(1, 7)) if mask & 2 else None
    user = []
    mode = rng.randrange(3) if mask & 4 else 0   # 0: reject-all default closure
    for f in feats:
        for _, s in gens.all_scenarios(f):
            if mode == 1:
                user.append([s["id"], True])
            elif mode == 2:
                user.append([s["id"], rng.random() < 0.5])
    return dict(features=feats, re=re, tags=tags, user=user)


def gen(rng, tier):
    n = 5000 if tier == "thorough" else 500
    return [gen_one(rng) for _ in range(n)]


def term(case, res):
    re = None
    if case["re"] is not None:
        re = res["re_table"]
    return "(mk_fcase %s %s %s %s %s)" % (
        clist(case["features"], gens.cfeature),
        copt(re, lambda t: clist(t, lambda kv: cpair(cstr(kv[0]), cbool(kv[1])))),
        copt(case["tags"], ctagop),
        clist(case["user"], lambda kv: cpair(cN(kv[0]), cbool(kv[1]))),
        clist(res["handed"], gens.cfeature))


def nscen(fs):
    return sum(len(gens.all_scenarios(f)) for f in fs)


def nontrivial(case, res):
    return nscen(case["features"]) >= 2


def describe(case, res):
    keys = ["filters=%s%s" % ("re" if case["re"] is not None else "", "+tags" if case["tags"] else "")]
    if res and "handed" in res:
        a, b = nscen(case["features"]), nscen(res["handed"])
        keys.append("kept=%s" % ("none" if b == 0 else "all" if a == b else "some"))
    return keys
