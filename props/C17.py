"""C17 — step matching. Engine `stepmatch`."""
from vcheck import cN, cstr, cbool, copt, clist, cpair

id = "C17"
engine = "stepmatch"
coq_imports = ["Model.Base", "Model.StepMatch", "Check.C17Check"]
case_type = "smcase"
model_name = "StepMatch.find / StepMatch.build"
monitor_name = "agreement with StepMatch.find (proved keyword-scoped, exact about 0/1/many, sorted, order independent)"
sub_names = {}
rule = ("cases = 0-8 registrations (keyword, regex from a pool with nested/optional/named/multi-byte groups, optional Location, "
        "function id; 20% of cases contain a re-registration of an identical (keyword, regex, location)) x 1-6 step texts; each "
        "collection is built twice, in the given and in a shuffled order (B), under fresh HashMap RandomStates. "
        "Non-trivial = at least two registrations and at least one step that is found or ambiguous; distinct = SHA-1 of case JSON.")
trusted_base = [
    "Coq 8.16.1 kernel; vm_compute for evaluating the model on cases",
    "hand-written model coq/Model/StepMatch.v of src/step.rs:101-212, tied by this differential check",
    "oracle: the regex crate (captures and capture_names observed per (regex, text) and handed to the model)",
    "Rust harness /verif/harness (engine stepmatch), python orchestrator /verif/lib",
]
assumptions = ["regex matching is an oracle; HashMap iteration order is abstracted (theorem: results do not depend on it)"]

REGEXES = ["foo", "^foo$", "^a (\\d+) b$", "(?P<n>x)?y", "((a)|(b))+", "é(.)", "^.*$", "(?i)FOO", "^(?P<who>\\w+) eats (?P<n>\\d+)( big)? (\\w+)$",
           "a", "^a", "(a)(?:b)?(c)?", "^$", "b|(c)", "^(é+)(?P<rest>.*)$",
           # unanchored, matching in the middle of the text, with (multi-byte) groups
           "eats (\\d+) (\\w+)", "(\\d+) (big )?apples?", "x (é+) (?P<t>\\w)", "(o+)b", "ü(n)(ï)?"]
TEXTS = ["foo", "a 12 b", "y", "xy", "ab", "éé x", "FOO", "bob eats 3 apples", "bob eats 3 big apples", "", "a", "abc", "ac", "c", "zzz",
         "ünï x éé z and more text", "foo bob eats 12 big apples today", "ünï foob"]


def gen_loc(rng):
    if rng.random() < 0.4:
        return None
    return [rng.randrange(5), rng.choice([1, 2, 10, 300]), rng.choice([1, 5, 80])]


def gen_one(rng):
    regs = []
    for _ in range(rng.randrange(9)):
        regs.append(dict(ty=rng.randrange(3), re=rng.choice(REGEXES), loc=gen_loc(rng), fn=rng.randrange(8)))
    if regs and rng.random() < 0.2:
        d = dict(rng.choice(regs))
        d["fn"] = rng.randrange(8)
        regs.insert(rng.randrange(len(regs) + 1), d)
    regs_b = list(regs)
    rng.shuffle(regs_b)
    steps = [dict(ty=rng.randrange(3), text=rng.choice(TEXTS)) for _ in range(rng.randrange(1, 7))]
    return dict(regs=regs, regs_b=regs_b, steps=steps)


def gen(rng, tier):
    n = 5000 if tier == "thorough" else 500
    return [gen_one(rng) for _ in range(n)]


def cloc(l, paths):
    if l is None:
        return "None"
    p = paths[l[0] % len(paths)] if isinstance(l[0], int) else l[0]
    return "(Some (mk_loc %s %s %s))" % (cstr(p), cN(l[1]), cN(l[2]))


def centry(r, paths):
    return "(mk_entry %s (%s, %s) %s)" % (cN(r["ty"]), cstr(r["re"]), cloc(r["loc"], paths), cN(r["fn"] % 8))


def cfound(f, paths):
    if f["k"] == "none":
        return "FNone"
    if f["k"] == "found":
        return "(FFound %s %s %s)" % (cN(f["fn"]), cloc(f["loc"], paths),
                                     clist(f["matches"], lambda m: cpair(copt(m[0], cstr), cstr(m[1]))))
    return "(FAmbiguous %s)" % clist(f["keys"], lambda k: cpair(cstr(k[0]), cloc(k[1], paths)))


def term(case, res):
    paths = res["paths"]
    rx = clist(sorted(res["rx"].items()), lambda kv: cpair(cstr(kv[0]), clist(sorted(kv[1].items()), lambda tv: cpair(
        cstr(tv[0]), copt(tv[1], lambda gs: clist(gs, lambda g: copt(g, cstr)))))))
    names = clist(sorted(res["names"].items()), lambda kv: cpair(cstr(kv[0]), clist(kv[1], lambda n: copt(n, cstr))))
    steps = clist(list(zip(case["steps"], res["results"])), lambda sr: "(%s, %s, %s, %s)" % (
        cN(sr[0]["ty"]), cstr(sr[0]["text"]), cfound(sr[1]["a"], paths), cfound(sr[1]["b"], paths)))
    return "(mk_smcase %s %s %s %s %s)" % (clist(case["regs"], lambda r: centry(r, paths)),
                                          clist(case["regs_b"], lambda r: centry(r, paths)), rx, names, steps)


def nontrivial(case, res):
    return len(case["regs"]) >= 2 and any(r["a"]["k"] != "none" for r in res.get("results", []))


def describe(case, res):
    keys = ["regs=%d" % min(len(case["regs"]), 8)]
    for r in (res or {}).get("results", []):
        keys.append("result=" + r["a"]["k"])
    return keys
