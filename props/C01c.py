"""C01 (third engine) — which attempts are FINAL: the retry decision of the real runner for every outcome (panic,
no match, ambiguous, World failure, hook failure), engine `attempt`."""
import attemptgen
from attemptgen import term, panic_result, nontrivial, describe, gen_one  # noqa: F401

id = "C01"
engine = "attempt"
coq_imports = ["Model.Base", "Model.Events", "Model.Attempt", "Model.AttemptSpec", "Check.AttemptCheck", "Check.C05aCheck"]
case_type = "acase"
model_name = "Attempt.run_attempt (chained over retries)"
monitor_name = "AttemptCheck.c05_ok (an attempt that failed with retries left is followed by another attempt)"
sub_names = {1: "event stream and callback log of every attempt"}
rule = "ALSO one scripted scenario through the real runner: " + attemptgen.RULE
trusted_base = attemptgen.TRUSTED
assumptions = []


def gen(rng, tier):
    n = 2000 if tier == "thorough" else 200
    return [gen_one(rng) for _ in range(n)]
