"""C04 on the REAL clock (engine `realclock`): the production path of retry delays — a helper thread sleeps for the smallest
deadline while the executor task is parked — which the virtual clock of the other engines replaces."""
import realgen
from realgen import term, panic_result, nontrivial, describe, gen_one  # noqa: F401

id = "C04"
engine = "realclock"
coq_imports = ["Model.Base", "Model.Events", "Model.Contract", "Check.RealClockCheck", "Check.C04dCheck"]
case_type = "rccase"
model_name = "none: a real-time observation, judged by the monitor only"
monitor_name = "RealClockCheck.c04d_ok"
sub_names = {1: "one run on the real clock"}
rule = "ALSO on the real clock: " + realgen.RULE
trusted_base = realgen.TRUSTED
assumptions = ["wall-clock thresholds (see trusted base); a machine stalled for more than 150 ms during each of three repetitions of one case would be reported as a violation"]
harness_timeout = 300


def gen(rng, tier):
    n = 48 if tier == "thorough" else 8
    return [gen_one(rng) for _ in range(n)]
