"""C01 (fourth engine) — the last link: `Cucumber::run_and_exit` / `filter_run_and_exit` panic (so the test binary exits
non-zero) iff the statistics writer says execution has failed. Engine `exit`: the REAL functions around a writer whose
Stats getters are scripted."""
import re
from vcheck import cN, cbool, copt, clist, cpair

id = "C01"
engine = "exit"
coq_imports = ["Model.Base", "Model.Events", "Model.Stats", "Model.Exit", "Check.C01dCheck"]
case_type = "ecase"
model_name = "Exit.run_and_exit"
monitor_name = "C01dCheck.c01d_ok (panics iff g_has_failed)"
sub_names = {1: "panic / normal return and the panic message"}
rule = ("ALSO the exit path: cases = six getter values (each 0 in 45%, else 1, 2, 3 or 17), plain or filtered variant; the REAL "
        "run_and_exit runs an empty feature set around a writer with these getters inside catch_unwind; the panic message is "
        "parsed back into (kind, count) parts.")
trusted_base = ["Coq 8.16.1 kernel; vm_compute", "hand-written model coq/Model/Exit.v of src/cucumber.rs:1199-1237, tied by this differential check",
                "Rust harness /verif/harness (engine exit), python orchestrator /verif/lib"]
assumptions = []

KEYS = ["passed", "skipped", "failed", "retried", "parsing", "hooks"]
PAT = [(0, re.compile(r"^(\d+) steps? failed$")), (1, re.compile(r"^(\d+) parsing errors?$")), (2, re.compile(r"^(\d+) hook errors?$"))]


def gen_one(rng):
    c = {k: (0 if rng.random() < 0.45 else rng.choice([1, 2, 3, 17])) for k in KEYS}
    c["filtered"] = rng.random() < 0.5
    return c


def gen(rng, tier):
    n = 600 if tier == "thorough" else 80
    return [gen_one(rng) for _ in range(n)]


def parse_msg(msg):
    if msg is None:
        return None
    parts = []
    for piece in msg.split(", "):
        for kind, pat in PAT:
            m = pat.match(piece)
            if m:
                n = int(m.group(1))
                # singular / plural must agree with the count
                if ("s " in piece or piece.endswith("s")) != (n > 1) and kind != 0:
                    return None
                if kind == 0 and (piece.startswith("%d steps " % n)) != (n > 1):
                    return None
                parts.append((kind, n))
                break
        else:
            return None
    return parts


def term(case, res):
    g = "(mk_getters %s)" % " ".join(cN(case[k]) for k in KEYS)
    parts = parse_msg(res.get("message")) if res.get("panicked") else None
    return "(mk_ecase %s %s %s)" % (g, cbool(bool(res.get("panicked"))),
                                    copt(parts, lambda ps: clist(ps, lambda p: cpair(cN(p[0]), cN(p[1])))))


def panic_result(case):
    return dict(panicked=True, message=None)


def nontrivial(case, res):
    return any(case[k] for k in ("failed", "parsing", "hooks"))


def describe(case, res):
    return ["fails=%s" % any(case[k] for k in ("failed", "parsing", "hooks")), "filtered=%s" % case["filtered"],
            "parts=%d" % sum(1 for k in ("failed", "parsing", "hooks") if case[k])]
