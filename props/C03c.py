"""C03 (second engine) — parser items that are EQUAL BY VALUE: the same feature delivered two or three times. Engine
`twins`: identity is by the pointer of the `Source` the events carry (as in the runner itself)."""
from vcheck import cN, cbool, clist
import evgen

id = "C03"
engine = "twins"
coq_imports = ["Model.Base", "Model.Events", "Model.Contract", "Check.C03cCheck"]
case_type = "twcase"
model_name = "none: judged by the monitor only (the scheduler model assumes distinct ids; instance ids are distinct)"
monitor_name = "C03cCheck.c03c_ok (contract on the instance-numbered stream, brackets and counts per copy)"
sub_names = {1: "event stream with instance ids"}
rule = ("ALSO value-equal parser items: cases = one feature (1-3 top-level scenarios, 0-2 scenarios in a rule, with or without "
        "a source path) delivered 2 or 3 times, eagerly, concurrency 1..6 or unlimited, steps suspending 0-3 times in a "
        "varying pattern; features, rules and scenarios are numbered by the pointer of the Source their events carry.")
trusted_base = ["Coq 8.16.1 kernel; vm_compute (monitor Check/C03cCheck.v over Model/Contract.v)",
                "Rust harness /verif/harness (engine twins: instance ids by Source pointer), python orchestrator /verif/lib"]
assumptions = []


def gen_one(rng):
    top = rng.randrange(1, 4)
    return dict(copies=rng.choice([2, 2, 3]), top=top, rule_scens=rng.choice([0, 1, 2]),
                concurrency=rng.choice([None, 1, 2, 3, 4, 6]), yields=[rng.choice([0, 0, 1, 2, 3]) for _ in range(rng.randrange(1, 6))],
                path=rng.random() < 0.5)


def gen(rng, tier):
    n = 400 if tier == "thorough" else 60
    return [gen_one(rng) for _ in range(n)]


def term(case, res):
    evs = clist(res.get("events", []), evgen.cev)
    return "(mk_twcase %s %s %s %s %s)" % (cN(case["copies"]), cN(case["top"] + case["rule_scens"]),
                                          cN(1 if case["rule_scens"] else 0), cbool(bool(res.get("panicked"))), evs)


def panic_result(case):
    return dict(panicked=True, events=[])


def nontrivial(case, res):
    return True


def describe(case, res):
    return ["copies=%d" % case["copies"], "K=%s" % case["concurrency"], "rule=%s" % bool(case["rule_scens"]), "path=%s" % case["path"]]
