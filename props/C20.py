"""C20 — tracing logs are attributed to the scenario and step that emitted them. Engine `tracing` (one run per process)."""
from vcheck import cN, cbool, copt, clist, cpair
import evgen

id = "C20"
engine = "tracing"
harness_crate = "harness-tracing"
harness_binname = "vht"
harness_one_per_process = True
coq_imports = ["Model.Base", "Model.Events", "Model.Tracing", "Check.C20Check"]
case_type = "tcase"
model_name = "Tracing.texec (the log-forwarding protocol)"
monitor_name = "C20Check.c20_ok"
also = ["C20b"]   # which scenario an event is attributed to: the lookup of the real layers vs the attribution model
sub_names = {1: "the ordered history of one run with init_tracing()"}
rule = ("cases = 1-5 scenarios (1-3 steps each, @retry(N) with failing first attempts or none) whose step bodies emit 0-3 tracing "
        "events before and 0-2 after an await point that yields 0-3 (a third of the steps: 9 or 14) times (30% of the cases have one chatty step with a burst of 26-89 "
        "messages; 25% of the steps emit inside a user span nested in the step's span; 20% of the steps emit messages whose text contains double underscores; 15% of the steps emit one more message from a helper thread that has no current span, with the step's span as explicit parent; 20% of the steps hold a clone of their span beyond their own end (it is dropped inside a step of another scenario, so the close arrives after the subscription); 40% of the runs are polled inside an "
        "application-level span; in 25% the cucumber layer sits behind LevelFilter::WARN and the messages are warnings; in 25% a which_scenario classifier is installed after init_tracing(); in 35% before and/or after hooks log 0-3 messages inside their own spans), concurrency 1..8 or unlimited; ONE run per process "
        "(the subscriber is global) through the REAL Cucumber::init_tracing() with a recording writer in front of which there is no "
        "Normalize. The trace points of the hook (forwarder calls, span closes, subscriptions), the harness's own records (step "
        "entry with its span, every emitted message) and the events form one totally ordered history; the Coq protocol model must "
        "replay it and regenerate the observed order of Log and step-result events. Non-trivial = at least two scenarios and at "
        "least three emitted messages; distinct = SHA-1 of the canonical case JSON.")
trusted_base = [
    "Coq 8.16.1 kernel; vm_compute",
    "hand-written protocol model coq/Model/Tracing.v of src/tracing.rs:150-290 + the forward_logs loop, tied by trace validation",
    "the verif hooks in /repo (trace points in the tracing collector), built with --cfg cucumber_rs_cucumber_verif and feature `tracing`",
    "the `tracing` / `tracing-subscriber` crates (span lifecycle, same-thread ordering of events and span close) are third-party",
    "Rust harness /verif/harness-tracing, python orchestrator /verif/lib",
]
assumptions = ["logs are emitted inside the span of the step or hook that emits them: on the runner's thread, or by a helper thread that is joined at once and names the step's span as explicit parent",
               "known-finding class K20a (messages logged inside an After hook) is excluded by hypothesis",
               "scenario registration (start_scenarios / finish_scenario) is not modelled: every log belongs to a running scenario"]


def gen_one(rng):
    scs = []
    for i in range(rng.randrange(1, 6)):
        sid = 11 + i
        retry = None if rng.random() < 0.5 else rng.randrange(0, 3)
        steps = [dict(id=sid * 10 + j + 1, pre=rng.choice([0, 1, 2, 3]), yields=rng.choice([0, 0, 1, 3, 9, 14]), post=rng.choice([0, 1, 2]),
                      inner=rng.random() < 0.25, under=rng.random() < 0.2, leak=rng.random() < 0.2, off_thread=rng.random() < 0.15, nested=rng.random() < 0.12, foreign=rng.random() < 0.12)
                 for j in range(rng.randrange(1, 4))]
        scs.append(dict(id=sid, retry=retry, fails=min(rng.choice([0, 0, 1, 2]), (retry or 0) + 1), steps=steps))
    if rng.random() < 0.3:          # a chatty step: a burst of messages between two await points
        st = rng.choice(rng.choice(scs)["steps"])
        st[rng.choice(["pre", "post"])] = rng.randrange(26, 90)
    case = dict(concurrency=rng.choice([None, 1, 2, 4, 8]), outer=rng.random() < 0.4, scenarios=scs)
    # 25%: the cucumber layer sits behind LevelFilter::WARN (messages are emitted as warnings, with an INFO line next to
    # each that must never show up); 25%: a `which_scenario` classifier is installed AFTER init_tracing()
    if rng.random() < 0.25:
        case["filter"] = "warn"
    if rng.random() < 0.25:
        case["which_after"] = True
    # 35%: before / after hooks that log inside their own spans (after-hook logs are the known class K20a)
    if rng.random() < 0.35:
        trip = lambda: [rng.choice([0, 1, 2]), rng.choice([0, 0, 1, 2]), rng.choice([0, 1])]
        k = rng.randrange(3)
        case["hooks"] = dict(before=trip() if k != 1 else None, after=trip() if k != 0 else None)
        # hooks of different scenarios suspend for different numbers of polls (a scenario then starts while the hook of
        # another one is suspended)
        case["hooks"]["stagger"] = rng.random() < 0.6
    return case


def directed(rng):
    """A case aimed at hooks whose spans stay open across awaits while other scenarios get their first poll: logging before hooks
    that suspend for different numbers of polls (`stagger`), several scenarios in flight."""
    case = gen_one(rng)
    while len(case["scenarios"]) < 3:
        case = gen_one(rng)
    case["concurrency"] = rng.choice([None, 4, 8])
    case["hooks"] = dict(before=[rng.choice([1, 2]), rng.choice([1, 2]), rng.choice([0, 1])], after=None, stagger=True)
    return case


def gen(rng, tier):
    n = 400 if tier == "thorough" else 48
    # the directed cases come from their own generator state, so that adding an option to `gen_one` does not reshuffle them
    cases = [gen_one(rng) for _ in range(n)]
    drng = __import__("random").Random(rng.randrange(1 << 30))
    return cases + [directed(drng) for _ in range(n // 4)]


ATTR_KINDS = ("newspan", "spansid", "fmt", "reg", "regretry", "unreg")


def is_foreign(r):
    return r[0] == "ev" and r[1][0] == "Scen" and r[1][5][0] == "LogForeign"


def c_rec(r):
    k = r[0]
    if k == "cb":
        return "(RCb %s %s %s %s)" % (cN(r[1]), cN(r[2]), cN(r[3]), cN(r[4]))
    if k == "emit":
        return "(REmit %s %s %s)" % (cN(r[1]), cN(r[2]), cN(r[3]))
    if k == "close":
        return "(RClose %s)" % cN(r[1])
    if k == "sub":
        return "(RSub %s)" % cN(r[1])
    if k == "fwd":
        return "RFwd"
    e = r[1]
    if e[0] == "Scen" and e[5][0] == "LogMsg":
        return "(RLogEv %s %s %s)" % (cN(e[3]), evgen.cretr(e[4]), copt(e[5][1]))
    return "(REv %s)" % evgen.cev(e)


def term(case, res):
    if res.get("panicked") or res.get("events") != res.get("traced"):
        raise ValueError("run panicked or trace/event mismatch")
    # the records of the attribution trace points (span tree, resolved ids, registry) are judged by C20b
    # (the broadcast copies of a FOREIGN line — a line logged under a scenario id no collector knows — are nobody's messages)
    return "(mk_tcase %s)" % clist([r for r in res["history"] if r[0] not in ATTR_KINDS and not is_foreign(r)], c_rec)


def panic_result(case):
    return dict(history=[["ev", ["Scen", 1, None, 1, None, ["LogMsg", None]]]], events=1, traced=1)


def nmsgs(case):
    return sum(1 for sc in case["scenarios"] for st in sc["steps"] if st.get("off_thread")) + sum(1 for sc in case["scenarios"] for st in sc["steps"] if st.get("nested")) + sum(sum(h[0] + h[2] for h in (case.get("hooks") or {}).values() if isinstance(h, list)) * len(case["scenarios"]) for _ in [0]) + sum(st["pre"] + st["post"] for sc in case["scenarios"] for st in sc["steps"])


def nontrivial(case, res):
    return len(case["scenarios"]) >= 2 and nmsgs(case) >= 3


def describe(case, res):
    return ["K=%s" % case["concurrency"], "scen=%d" % len(case["scenarios"]),
            "msgs=%s" % ("0" if nmsgs(case) == 0 else "<6" if nmsgs(case) < 6 else ">=6"),
            "retry=%s" % any(sc["retry"] for sc in case["scenarios"]), "outer_span=%s" % bool(case.get("outer")),
            "inner_span=%s" % any(st.get("inner") for sc in case["scenarios"] for st in sc["steps"]),
            "dunder=%s" % any(st.get("under") for sc in case["scenarios"] for st in sc["steps"]),
            "off_thread=%s" % any(st.get("off_thread") for sc in case["scenarios"] for st in sc["steps"]), "nested_run=%s" % any(st.get("nested") for sc in case["scenarios"] for st in sc["steps"]), "foreign_line=%s" % any(st.get("foreign") for sc in case["scenarios"] for st in sc["steps"]), "leak=%s" % any(st.get("leak") for sc in case["scenarios"] for st in sc["steps"]), "filter=%s" % case.get("filter", "info"), "hooks=%s" % ("none" if not case.get("hooks") else "+".join(k for k in ("before", "after", "stagger") if case["hooks"].get(k))), "which_after=%s" % bool(case.get("which_after")),
            "burst=%s" % any(st["pre"] > 8 or st["post"] > 8 for sc in case["scenarios"] for st in sc["steps"])]
