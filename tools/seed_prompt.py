#!/usr/bin/env python3
"""Prints the prompt handed to an independent sub-agent that seeds a property-breaking change."""
import json, sys
pid = sys.argv[1]
n = sys.argv[2] if len(sys.argv) > 2 else "2"
first = int(sys.argv[3]) if len(sys.argv) > 3 else 1
avoid = sys.argv[4] if len(sys.argv) > 4 else ""
last = first + int(n) - 1
avoid_txt = ("\n\nAn earlier round already produced the following changes for this property; yours must be DIFFERENT in kind (another code site, another clause of the property, another triggering condition), not variations of these:\n" + avoid + "\n") if avoid else ""
for l in open('/verif/properties.jsonl'):
    p = json.loads(l)
    if p['id'] == pid:
        break
print(f"""You are testing how robust a Rust library's behaviour is against subtle regressions. You work ONLY inside the scratch git worktree /tmp/seed-{pid} (a checkout of the crate cucumber-rs/cucumber, the Cucumber BDD framework for Rust). Do not read or write anything under /verif or /repo. There is no network: always pass --offline to cargo (CARGO_NET_OFFLINE=true); all dependencies are already in the local cargo registry. Use CARGO_TARGET_DIR=/tmp/seed-{pid}/target.

The property under study ({pid}: {p['title']}):

  {p['statement']}

  It must hold: {p['quantifier']['text']}.
{avoid_txt}
Your task: produce {n} DIFFERENT, independent source changes (each a separate small patch against the worktree's HEAD) to the crate (files under src/ or codegen/) such that, for each change:
  1. the crate still compiles, and the existing test suite still passes unchanged (`cargo test --workspace --offline` in the worktree; you may not edit, delete or ignore existing tests);
  2. the change BREAKS the property above for some inputs/schedules/histories;
  3. it is realistic (the kind of slip a maintainer could make in a refactor or 'optimisation': an off-by-one, a wrong branch order, a dropped case, a changed comparison, a state update moved across an await, two sites that each look fine alone ...), not sabotage that ordinary use would expose at once. Prefer changes that need something specific to manifest: a particular interleaving, a multi-step sequence of operations, an unusual input, a particular configuration combination, or two cooperating sites.
  4. you provide a demonstration: a small self-contained Rust program or test (e.g. a new file under tests/ or examples/ of the worktree, or a tiny separate crate depending on the worktree by path with an empty [workspace] table and a copy of the worktree's Cargo.lock) that FAILS (non-zero exit / failed assertion) with the change applied and PASSES on the unmodified HEAD. Actually run it both ways and report the outputs.

Deliver, for change k = {first}..{last}, a directory /tmp/seed-out/{pid}-k/ containing:
  - patch.diff   : `git diff` of the source change only (must apply with `git apply` to a clean HEAD; do NOT include the demo in it)
  - demo/        : the demonstration files plus a file RUN.md saying exactly where to put them and which command to run
  - notes.md     : which clause of the property breaks, what is needed for it to manifest, the output of the existing test suite with the change (summary lines), and the demo output with and without the change.
Leave the worktree clean (git checkout -- . and remove untracked demo files) when you are done, and delete /tmp/seed-{pid}/target at the very end to free disk space. Your final message should be a brief summary of the {n} changes (files/lines touched, what breaks, how it manifests).""")
