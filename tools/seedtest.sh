#!/bin/sh
# tools/seedtest.sh <patch.diff> <prop> [<prop>...] — applies a seeded change to /repo, runs the quick
# checks of the given properties, and restores /repo. Prints one line per property: DETECTED / MISSED.
patch="$1"; shift
cd /repo || exit 2
if [ -n "$(git status --porcelain --untracked-files=no)" ]; then echo "/repo not clean"; exit 2; fi
git apply "$patch" || { echo "patch does not apply"; exit 2; }
for p in "$@"; do
  out=$(cd /verif && ./check "$p" --tier quick 2>&1)
  rc=$?
  line=$(echo "$out" | grep "^VIOLATION" | head -1)
  if [ $rc -ne 0 ] && [ -n "$line" ]; then echo "DETECTED $p: $line"; else echo "MISSED $p (rc=$rc)"; echo "$out" | tail -3; fi
done
git -C /repo checkout -- .
