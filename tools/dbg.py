#!/usr/bin/env python3
"""tools/dbg.py Cxx [seed] — evaluates generated cases and dumps the non-ok ones (debugging aid)."""
import importlib, json, os, random, sys
HERE = os.path.dirname(os.path.dirname(os.path.abspath(__file__)))
sys.path.insert(0, os.path.join(HERE, "lib")); sys.path.insert(0, HERE)
import driver, vcheck as V
P = importlib.import_module("props." + sys.argv[1])
seed = int(sys.argv[2]) if len(sys.argv) > 2 else 0
rng = random.Random(seed * 1000003 + 17)
cases = P.gen(rng, "quick")[: int(os.environ.get("N", "300"))]
for i, c in enumerate(cases): c["id"] = i
hb = V.build_harness(crate=getattr(P, "harness_crate", "harness"), binname=getattr(P, "harness_binname", "vh"))
assert hb["ok"], hb["out"]
o = driver.evaluate(P, hb["bin"], cases)
print("problems", o.problems[:3])
known = {k["class"] for k in V.known_findings(P.id)}
n = 0
for c in cases:
    k, s, cls = driver.worst(o.rows.get(c["id"], []), known)
    if k not in ("ok", "known", "invalid"):
        n += 1
        if n <= int(os.environ.get("K", "3")):
            json.dump(dict(kind=k, rows=o.rows[c["id"]], case=c, observed=o.results.get(c["id"])), open("/tmp/dbg_%d.json" % n, "w"))
            print(k, o.rows[c["id"]], "-> /tmp/dbg_%d.json" % n, json.dumps(c.get("pipe"))[:200])
print("non-ok:", n, "of", len(cases))
