#!/usr/bin/env python3
"""Model-mutation analysis of the correspondence checks (how tight is the tie between the Gallina models and the code?).

A theorem about a model only says something about the code as far as the correspondence check would notice the
model and the code disagreeing. This tool measures that: it mutates the EXECUTABLE MODELS (coq/Model/*.v, one small
syntactic change at a time: a flipped boolean, `&&` for `||`, `<?` for `<=?`, a dropped `negb`, `existsb` for
`forallb`, ...), rebuilds only the models and the verdict functions (no proofs: most mutants break them, which is a
different question) in a scratch copy, and runs the quick checks of the properties that use the mutated model. A
mutant is KILLED when some check reports a violation or a model/implementation difference, STILLBORN when it does
not compile, and SURVIVES otherwise. Survivors are either equivalent mutants (dead or defensive model code, a
definition only theorems use) or gaps in what the generators exercise; they are listed for inspection.

usage: tools/modelmut.py [--per-file N] [--workers K] [--seed S] [--only File.v] [--out DIR]
Never part of a registered check; works in scratch copies under /tmp and removes them afterwards.
"""
import argparse, importlib, json, os, random, re, shutil, subprocess, sys, time
from concurrent.futures import ThreadPoolExecutor

VERIF = os.path.dirname(os.path.dirname(os.path.abspath(__file__)))

# model file -> properties whose quick checks evaluate it
MAP = {
    "Attempt.v": ["C02", "C09", "C10", "C05"],
    "Sched.v": ["C03", "C04", "C05", "C06", "C07", "C08", "C10"],
    "Normalize.v": ["C11", "C12"],
    "Stats.v": ["C12", "C01"],
    "Pipeline.v": ["C12", "C01", "C13"],
    "Combinators.v": ["C13", "C12"],
    "Reporters.v": ["C14"],
    "Filter.v": ["C15"],
    "TagExpr.v": ["C15", "C18"],
    "Outline.v": ["C16"],
    "StepMatch.v": ["C17"],
    "RetryOpts.v": ["C18", "C05"],
    "Glue.v": ["C19"],
    "Tracing.v": ["C20"],
    "TracingStart.v": ["C20"],
    "TracingAttr.v": ["C20"],
    "Exit.v": ["C01"],
}
# the monitors (executable specifications): a mutant is killed when the monitor REJECTS the unchanged code
SPEC_MAP = {
    "Contract.v": ["C03", "C11"],
    "AttemptSpec.v": ["C02", "C09", "C10", "C05"],
    "SchedSpec.v": ["C03", "C04", "C05", "C06", "C07", "C08"],
    "StatsSpec.v": ["C12", "C01"],
    "ReportersSpec.v": ["C14"],
    "RetryOptsSpec.v": ["C18"],
    "ReportersSpec2.v": ["C14"],
    "ReportersSpec3.v": ["C14"],
    "ReportersSpec4.v": ["C14"],
    "RetryOptsSpec2.v": ["C18"],
}

TOKEN = re.compile(r"<=\?|<\?|=\?|&&|\|\||\btrue\b|\bfalse\b|\bnegb |\bexistsb\b|\bforallb\b|\bN\.max\b|\bN\.min\b"
                   r"|\bfirstn\b|\bskipn\b|\+ 1\b|\bis_nil\b|\brev \b|\bhd_error\b| \+ | - | \+\+ \[\w+\]|\b\w+ :: (?=\w)")
# `if c then` -> `if negb (c) then` (the two branches swapped), numerals n -> n+1
IFRE = re.compile(r"\bif (?!negb \()([^\n]*?) then\b")
NUMRE = re.compile(r"(?<![\w.%])(\d+)(?![\w.%])")
REPL = {
    "<=?": ["<?"], "<?": ["<=?"], "=?": ["<?"], "&&": ["||"], "||": ["&&"], "true": ["false"], "false": ["true"],
    "negb ": [""], "existsb": ["forallb"], "forallb": ["existsb"], "N.max": ["N.min"], "N.min": ["N.max"],
    "firstn": ["skipn"], "skipn": ["firstn"], "+ 1": ["+ 2", ""], "is_nil": ["(fun l_ => negb (is_nil l_))"],
    "rev ": [""], "hd_error": ["(fun l_ => hd_error (rev l_))"], " + ": [" - "], " - ": [" + "],
}


def code_spans(text):
    """(start, end) ranges of text outside (* comments *) and outside "strings"."""
    out, depth, i, start = [], 0, 0, 0
    n = len(text)
    instr = False
    while i < n:
        if depth == 0 and text[i] == '"':
            if not instr:
                out.append((start, i)); instr = True
            else:
                instr = False; start = i + 1
            i += 1; continue
        if instr:
            i += 1; continue
        if text.startswith("(*", i):
            if depth == 0:
                out.append((start, i))
            depth += 1; i += 2; continue
        if text.startswith("*)", i) and depth > 0:
            depth -= 1; i += 2
            if depth == 0:
                start = i
            continue
        i += 1
    if depth == 0 and not instr:
        out.append((start, n))
    return out


def mutants_of(path):
    text = open(path).read()
    out = []
    for a, b in code_spans(text):
        for m in TOKEN.finditer(text, a, b):
            tok = m.group(0)
            # skip type-level / notation declarations
            line_start = text.rfind("\n", 0, m.start()) + 1
            line = text[line_start:text.find("\n", m.start())]
            if line.lstrip().startswith(("Notation", "Arguments", "From ", "Require", "Inductive", "Record")):
                continue
            if tok.startswith(" ++ ["):
                reps = [""]                      # the appended singleton is dropped
            elif tok.endswith(" :: "):
                reps = [""]                      # the consed element is dropped
            else:
                reps = REPL[tok]
            for r in reps:
                out.append(dict(pos=m.start(), old=tok, new=r, line=text.count("\n", 0, m.start()) + 1, text=line.strip()[:160]))
        for rx, fn in ((IFRE, lambda m: "if negb (%s) then" % m.group(1)), (NUMRE, lambda m: str(int(m.group(1)) + 1))):
            for m in rx.finditer(text, a, b):
                line_start = text.rfind("\n", 0, m.start()) + 1
                line = text[line_start:text.find("\n", m.start())]
                if line.lstrip().startswith(("Notation", "Arguments", "From ", "Require", "Inductive", "Record")):
                    continue
                out.append(dict(pos=m.start(), old=m.group(0), new=fn(m), line=text.count("\n", 0, m.start()) + 1, text=line.strip()[:160]))
    return text, out


def sh(cmd, cwd, env=None, timeout=2400):
    e = dict(os.environ)
    e.update(env or {})
    try:
        p = subprocess.run(cmd, cwd=cwd, env=e, stdout=subprocess.PIPE, stderr=subprocess.STDOUT, timeout=timeout)
        return p.returncode, p.stdout.decode("utf-8", "replace")
    except subprocess.TimeoutExpired:
        return 124, "timeout"


def targets_of(prop):
    sys.path.insert(0, os.path.join(VERIF, "lib")); sys.path.insert(0, VERIF)
    P = importlib.import_module("props." + prop)
    mods = list(P.coq_imports)
    for q in getattr(P, "also", []):
        mods += importlib.import_module("props." + q).coq_imports
    return sorted({m.replace(".", "/") + ".vo" for m in mods})


def strip_proofs(coq):
    """The verdict files of some checks import proof files for the informational `theorem_applies` rows: in the
    scratch copy those rows are switched off, so that only models and verdict functions are needed."""
    for fn in os.listdir(os.path.join(coq, "Check")):
        if not fn.endswith(".v"):
            continue
        p = os.path.join(coq, "Check", fn)
        s = open(p).read()
        if "Require Proofs." not in s:
            continue
        s = re.sub(r"From CV Require Proofs\.[^\n]*\n", "", s)
        s = re.sub(r"Definition theorem_applies \(c : (\w+)\) : bool :=.*?\.\n\n", r"Definition theorem_applies (c : \1) : bool := false.\n\n", s, flags=re.S)
        open(p, "w").write(s)


def setup_worker(w):
    root = "/tmp/modelmut/w%d" % w
    shutil.rmtree(root, ignore_errors=True)
    os.makedirs(root)
    for d in ("lib", "props", "tools", "known", "corpus"):
        shutil.copytree(os.path.join(VERIF, d), os.path.join(root, d))
    for f in ("check", "known-findings.txt", "properties.jsonl"):
        shutil.copy(os.path.join(VERIF, f), os.path.join(root, f))
    for d in ("harness", "harness-tracing"):
        os.symlink(os.path.join(VERIF, d), os.path.join(root, d))
    sh(["rsync", "-a", "--exclude", "cases*", os.path.join(VERIF, "coq") + "/", os.path.join(root, "coq") + "/"], cwd="/tmp")
    os.makedirs(os.path.join(root, "build")); os.makedirs(os.path.join(root, "evidence"))
    strip_proofs(os.path.join(root, "coq"))
    sh(["coq_makefile", "-f", "_CoqProject", "-o", "Makefile"], cwd=os.path.join(root, "coq"))
    return root


def run_mutant(root, fn, text, mu, props, is_spec):
    coq = os.path.join(root, "coq")
    path = os.path.join(coq, "Model", fn)
    mutated = text[:mu["pos"]] + mu["new"] + text[mu["pos"] + len(mu["old"]):]
    open(path, "w").write(mutated)
    res = dict(file=fn, line=mu["line"], old=mu["old"], new=mu["new"], text=mu["text"], spec=is_spec)
    try:
        tg = sorted({t for p in props for t in targets_of(p)})
        rc, out = sh(["timeout", "900", "make", "-j4"] + tg, cwd=coq)
        if rc != 0:
            res["outcome"] = "stillborn"
            return res
        env = {"VERIF_SKIP_PROOFS": "1", "VERIF_TARGET_BASE": os.path.join(VERIF, "build"), "VERIF_SEED": "1"}
        res["outcome"] = "survived"
        res["checks"] = {}
        for p in props:
            rc, out = sh(["./check", p, "--tier", "quick"], cwd=root, env=env)
            m = re.search(r"kinds=(\{[^}]*\})", out)
            res["checks"][p] = dict(rc=rc, kinds=m.group(1) if m else None)
            if rc != 0:
                res["outcome"] = "killed"
                res["killed_by"] = p
                break
        return res
    finally:
        open(path, "w").write(text)


def main():
    ap = argparse.ArgumentParser()
    ap.add_argument("--per-file", type=int, default=12)
    ap.add_argument("--workers", type=int, default=4)
    ap.add_argument("--seed", type=int, default=1)
    ap.add_argument("--only", default=None)
    ap.add_argument("--specs", action="store_true", help="mutate the monitors (*Spec.v) instead of the models")
    ap.add_argument("--out", default=os.path.join(VERIF, "build", "modelmut"))
    a = ap.parse_args()
    rng = random.Random(a.seed)
    table = SPEC_MAP if a.specs else MAP
    jobs = []
    for fn, props in sorted(table.items()):
        if a.only and fn != a.only:
            continue
        path = os.path.join(VERIF, "coq", "Model", fn)
        if not os.path.exists(path):
            continue
        text, mus = mutants_of(path)
        rng.shuffle(mus)
        for mu in mus[:a.per_file]:
            jobs.append((fn, text, mu, props))
    print("%d mutants over %d files" % (len(jobs), len({j[0] for j in jobs})), flush=True)
    os.makedirs(a.out, exist_ok=True)
    outp = os.path.join(a.out, "results_%s.jsonl" % ("specs" if a.specs else "models"))
    roots = [setup_worker(w) for w in range(a.workers)]
    t0 = time.time()
    results = []

    def work(w):
        mine = jobs[w::a.workers]
        for fn, text, mu, props in mine:
            r = run_mutant(roots[w], fn, text, mu, props, a.specs)
            results.append(r)
            with open(outp, "a") as f:
                f.write(json.dumps(r) + "\n")
            print("[%4.0fs] %-10s %s:%d  %r -> %r   %s" % (time.time() - t0, r["outcome"], fn, r["line"], r["old"], r["new"],
                                                          r.get("killed_by", "")), flush=True)
    open(outp, "w").close()
    with ThreadPoolExecutor(a.workers) as ex:
        list(ex.map(work, range(a.workers)))
    for r in roots:
        shutil.rmtree(r, ignore_errors=True)
    summary = {}
    for r in results:
        d = summary.setdefault(r["file"], dict(killed=0, survived=0, stillborn=0))
        d[r["outcome"]] += 1
    json.dump(dict(summary=summary, survivors=[r for r in results if r["outcome"] == "survived"]),
              open(os.path.join(a.out, "summary_%s.json" % ("specs" if a.specs else "models")), "w"), indent=1)
    print(json.dumps(summary, indent=1))


if __name__ == "__main__":
    main()
