#!/bin/sh
# tools/confirm_seed.sh <seed-dir> <property> <needs-text-file?>
# Confirms a seeded change in the scratch worktree /tmp/seed-confirm: demo passes at HEAD, fails with
# the change; the existing suite passes with the change. Then files it under /verif/seeded/<name>/.
sd="$1"; prop="$2"; name=$(basename "$sd")
W=/tmp/seed-confirm
export CARGO_NET_OFFLINE=true CARGO_TARGET_DIR=$W/target RUST_BACKTRACE=0
[ -d $W ] || git -C /repo worktree add -q --detach $W HEAD
cd $W && git checkout -q -- . && git clean -fdq -e target
if [ -d "$sd/demo/tests" ]; then
  # the demo comes as a tests/ subtree (test file plus feature files)
  demo=$(ls "$sd"/demo/tests/*.rs | head -1); t=$(basename "$demo" .rs)
  cp -r "$sd"/demo/tests/. tests/
else
  demo=$(ls "$sd"/demo/*.rs | head -1); t=$(basename "$demo" .rs)
  cp "$demo" tests/
  # feature directories next to the test file go next to it under tests/ as well
  for d in "$sd"/demo/*/; do [ -d "$d" ] && cp -r "$d" tests/; done
fi
cargo test --offline --all-features --test "$t" -- --test-threads=1 >/tmp/confirm_$name.head.log 2>&1; head_rc=$?
git apply "$sd/patch.diff" || { echo "$name: patch does not apply"; exit 1; }
cargo test --offline --all-features --test "$t" -- --test-threads=1 >/tmp/confirm_$name.patched.log 2>&1; patched_rc=$?
rm -f tests/"$t".rs; git clean -fdq -e target tests
cargo test --workspace --offline --no-fail-fast >/tmp/confirm_$name.suite.log 2>&1; suite_rc=$?
git checkout -q -- . && git clean -fdq -e target
echo "$name: demo@HEAD rc=$head_rc demo@patched rc=$patched_rc suite@patched rc=$suite_rc"
if [ $head_rc -eq 0 ] && [ $patched_rc -ne 0 ] && [ $suite_rc -eq 0 ]; then
  out=/verif/seeded/$name; mkdir -p $out/demo
  cp "$sd/patch.diff" $out/; cp -r "$sd"/demo/. $out/demo/ 2>/dev/null
  cp "$sd/notes.md" $out/notes.md 2>/dev/null
  python3 - "$name" "$prop" "$t" <<PY
import json,sys,re
name,prop,t=sys.argv[1:4]
notes=open('/verif/seeded/%s/notes.md'%name).read() if True else ''
json.dump(dict(id=name, property=prop, breaks=notes.split('\n')[0][:300],
  needs="see notes.md (written by the independent sub-agent that produced the change)",
  confirmed=dict(worktree="/tmp/seed-confirm (scratch git worktree of /repo HEAD, removed afterwards)",
    demo_at_head="cargo test --offline --test %s -> exit 0"%t,
    demo_with_change="cargo test --offline --test %s -> non-zero exit"%t,
    suite_with_change="cargo test --workspace --offline --no-fail-fast -> exit 0"),
  detected_by=None), open('/verif/seeded/%s/meta.json'%name,'w'), indent=1)
PY
  echo "$name: KEPT"
else
  echo "$name: REJECTED"
fi
