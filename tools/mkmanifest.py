#!/usr/bin/env python3
"""Regenerates /verif/MANIFEST.json from tools/claims.py and properties.jsonl."""
import json, os, sys
HERE = os.path.dirname(os.path.abspath(__file__))
sys.path.insert(0, HERE)
from claims import CLAIMS, ENGINES, HOOK_COMMITS, ADD_ONLY
V = os.path.dirname(HERE)
props = [json.loads(l) for l in open(os.path.join(V, 'properties.jsonl'))]
checks, na = [], []
for p in props:
    i = p['id']
    if i in CLAIMS:
        c = CLAIMS[i]
        checks.append(dict(property_id=i, quick_cmd="./check %s --tier quick" % i, thorough_cmd="./check %s --tier thorough" % i,
            evidence_file="/verif/evidence/%s.json" % i, replay_cmd_template="./check %s --replay {path}" % i, engine=c['engine'],
            level_claimed=dict(category="proof", text=c['text'], design_ref=c['design_ref']), level_note=c['note'], technique=c['technique']))
    else:
        na.append(dict(property_id=i, reason="not claimed yet: the Coq model and correspondence engine for this property are planned (DESIGN.md §5) but not built at this commit"))
engines = [dict(name="coq", path="/verif/coq", serves_properties=sorted(CLAIMS), kind_free_text="Coq 8.16.1 development: models, proofs, property theorems, verdict functions (vm_compute)")]
# which engines a property's check runs: its own and those of its further plug-ins (props/Cxx.py: `also`)
sys.path.insert(0, os.path.join(V, 'lib'))
sys.path.insert(0, V)
import importlib
def engines_of(pid):
    P = importlib.import_module('props.' + pid)
    return {P.engine} | {importlib.import_module('props.' + q).engine for q in getattr(P, 'also', [])}
USES = {k: engines_of(k) for k in CLAIMS}
for n, (path, txt) in ENGINES.items():
    engines.append(dict(name=n, path=path, serves_properties=sorted(k for k in CLAIMS if n in USES[k]), kind_free_text=txt))
m = dict(version=1, setup_cmd="./setup.sh",
  hooks=dict(guard="cucumber_rs_cucumber_verif", enable='RUSTFLAGS="--cfg cucumber_rs_cucumber_verif"',
     baseline_off_cmd="cd /repo && cargo test --workspace --no-fail-fast --offline", source_commits=HOOK_COMMITS, add_only=ADD_ONLY),
  engines=engines, checks=checks, not_applicable=na, notes="See DESIGN.md. Known findings and fixed defects: known-findings.txt.")
json.dump(m, open(os.path.join(V, 'MANIFEST.json'), 'w'), indent=1)
print("claimed:", sorted(CLAIMS), "not_applicable:", len(na))
