# Per-property claims rendered into MANIFEST.json by tools/mkmanifest.py
CLAIMS = {
 "C18": dict(
     text="Full for well-formed retry tags: the Gallina transcription of RetryOptions::parse_from_tags and of the CLI/builder merge is proved equal to an independent executable specification (nearest level, four tag forms, fall-backs) for all tag lists, CLIs and duration parsers outside known-finding class K18a; the model is tied to the code on every run by differential testing (direct calls and end-to-end through Basic::run).",
     design_ref="§5 C18", engine="retryopts",
     note="Trusted: Coq kernel, the hand-written model of src/runner/basic.rs:142-195,762-766 (validated, not verified), the harness and orchestrator; humantime::parse_duration is an oracle; K18a (prefix-only tags such as @retrying) excluded by hypothesis and reported as KNOWN-FINDING.",
     technique="Coq theorem (model = spec) + differential correspondence check of model vs code"),
 "C01": dict(
     text="Partial (being extended): the verdict of Summarize over ANY event list is proved to be exactly `a parser error, a final step failure or a final hook failure occurred` outside known-finding class K01a (with a refutation witness for the class); the whole family of built-in statistics pipelines (Summarize<Normalize<..>>, Libtest raw/normalized, Tee, Or, under FailOnSkipped / Repeat) is modelled (Pipeline.v) and tied to the REAL writers by comparing the six getters and execution_has_failed after every call, and the final verdict is judged against the declarative specification; the lift of the theorem to every pipeline is not yet proved.",
     design_ref="§5 C01", engine="combinators",
     note="Trusted: Coq kernel, hand-written models (Stats.v, Normalize.v, Combinators.v, Pipeline.v) validated by the differential check, harness, orchestrator. Streams obey the Runner contract, are retry-consistent and carry one ParsingFinished. K01a (hook failing in a retried attempt) excluded by hypothesis and reported as KNOWN-FINDING. run_and_exit's panic is by inspection of src/cucumber.rs:1208.",
     technique="Coq theorem (Summarize verdict = spec) + differential correspondence check of pipeline model vs code + Coq-defined monitor"),
 "C02": dict(
     text="Full for one attempt, interleaving deferred to the scheduler model: the Gallina transcription of Executor::run_scenario (before hook, the three try_folds, lazy World creation, after hook run before the deferred Failed event, Finished) is proved, for every shape, outcome assignment and hook presence, to emit exactly the canonical sequence recognised by an independent parser (wf_events): Started; before pair; declared steps in order, Started + one result, stopping after the first non-Passed; Failed before the after pair; Finished last; outcome mapping lemmas (no match = Skipped, ambiguity / panic / World failure = Failed with the payload). Tied to the REAL runner on scripted scenarios (events and callback log of every attempt).",
     design_ref="§5 C02", engine="attempt",
     note="Trusted: Coq kernel, hand-written model of src/runner/basic.rs:1165-1800 (validated by the differential check), harness (scripted World / hooks / steps), orchestrator. That every event of an attempt carries the same retries value is by construction of the model (one value per attempt) and checked on the real stream by grouping.",
     technique="Coq theorem (model events satisfy an independent recogniser) + differential correspondence check"),
 "C09": dict(
     text="Partial: on the model the after hook is proved to run exactly once iff set, as the last callback, with the final World and the reason the step phase ended; the full lifecycle contract (before hook first on a fresh World, every step sees all earlier mutations, one World per attempt created only if needed, no instance shared between attempts, true reason) is an executable Coq monitor (AttemptSpec.c09_ok) evaluated on the REAL callback log of every attempt (World instance ids and mutation logs recorded), and the model is compared callback for callback; that the model satisfies the whole monitor is not yet a theorem.",
     design_ref="§5 C09", engine="attempt",
     note="Trusted: as C02. The World is observed through an instance id and a mutation log kept by the harness's World type.",
     technique="Coq theorems on the callback log of the model + Coq-defined monitor on real callback logs + differential correspondence check"),
 "C10": dict(
     text="Partial: the logic is proved on the model (a panicking step, hook or World creation becomes the Failed event carrying exactly that payload; the attempt still gets its after-hook pair and Finished; the failed flag is exact); on the REAL runner payloads of type String, &str and u32 are recovered by downcast from the Failed events, a counting process panic hook must stay at 0 during the run and must be back in place after it, and the stream must close with Finished. What the process does with stderr and the global hook is observed, not proved.",
     design_ref="§5 C10", engine="attempt",
     note="Trusted: as C02, plus the harness's counting panic hook (installed before the run, probed by a marker panic on a scratch thread after it).",
     technique="Coq theorems on the model + differential correspondence check + runtime probe of the process panic hook"),
 "C11": dict(
     text="Partial (being extended): the nested-FIFO model of writer::Normalize is tied to the REAL Normalize after every handle_event call on contract-abiding linearisations (sequential, runner-like and wild), and an independent Coq-defined monitor checks the property text on the real outputs (lossless multiset, sequential recogniser, per-attempt order, pass-through at once, head-live, identity on sequential input); proved so far: pass-through events are forwarded first in the same call, everything is passed through after Finished; the lossless/sequential theorems are in progress.",
     design_ref="§5 C11", engine="combinators",
     note="Trusted: Coq kernel, hand-written model of src/writer/normalize.rs and the contract automaton Contract.v (validated by the differential check), harness, orchestrator. Inputs obey the Runner contract (the real Normalize panics otherwise).",
     technique="Coq model + theorems + differential correspondence check + Coq-defined monitor"),
 "C12": dict(
     text="Partial: for EVERY event list the eight stateless counters of the Summarize model (features, rules, passed/skipped/failed/retried steps, parsing errors, hook errors) are proved equal to the numbers of matching events before run-Finished, replayed events are proved inert, and the summary is proved to be written exactly once, right after run-Finished; the four scenario counters are judged on every run against a declarative per-scenario specification (StatsSpec.spec_counts) outside the known-finding classes K12a-K12d, but that equality is not yet a theorem. The model is tied to the REAL Summarize (alone, over Normalize, under FailOnSkipped / Repeat) after every call, including the parsed summary text.",
     design_ref="§5 C12", engine="combinators",
     note="Trusted: Coq kernel, hand-written model of src/writer/summarize.rs:163-445 (validated by the differential check), summary-text parser in lib/statspipe.py, harness, orchestrator. Step structural equality = id equality. K12a-K12d excluded by hypothesis and reported as KNOWN-FINDING.",
     technique="Coq theorems (stateless counters, replay inertness, write-once) + differential correspondence check + Coq-defined monitor for scenario counters"),
 "C13": dict(
     text="Full: the Gallina transcription of FailOnSkipped, Repeat, Tee, Or, discard::Arbitrary and discard::Stats as one pipeline grammar over recording leaves is proved transparent for arbitrary (not only contract-abiding) event lists and arbitrary nestings: FailOnSkipped rewrites exactly the Skipped step/background events of selected scenarios in place, Repeat forwards everything at once and re-delivers the selected events once, in order, right after Finished, Tee delivers everything to both sides, Or each event to exactly one side, Stats combine by max / sum; tied to the code by running the real wrappers around recording leaves and comparing deliveries after every handle_event call.",
     design_ref="§5 C13", engine="combinators",
     note="Trusted: Coq kernel, hand-written model of src/writer/{fail_on_skipped,repeat,tee,or,discard}.rs (validated by the differential check), harness (dynpipe.rs boxes the real wrappers), orchestrator. User predicates are tables (pure functions of scenario / event).",
     technique="Coq theorems about the model + differential correspondence check"),
 "C15": dict(
     text="Full: the Gallina model of the filter built in Cucumber::filter_run is proved to keep exactly the scenarios accepted by (--name regex, else --tags over feature+rule+scenario tags, else the closure), in original order, with rules/background/tags intact, and tag expressions are proved to be ordinary boolean formulas over tag membership; tied to the code by driving the real filter_run with a vector parser and a recording Runner.",
     design_ref="§5 C15", engine="filter",
     note="Trusted: Coq kernel, hand-written model of src/cucumber.rs:704-776 and src/tag.rs (validated by the differential check), harness, orchestrator. Regex::is_match is an oracle; TagOperation trees are built directly (the gherkin tag-expression text parser is not exercised).",
     technique="Coq theorems about the model + differential correspondence check"),
 "C16": dict(
     text="Full for the expansion algorithm, positions under a stated layout hypothesis: the Gallina model of expand_examples (incl. a one-pass scanner proved to be THE leftmost non-overlapping scan for <name>, verbatim substitution, first-error semantics, row order, tag order, positions) is tied to the code on hand-built features, on scanner probes that expose the real TEMPLATE_REGEX tokenisation, and on generated .feature texts run through the real gherkin parser.",
     design_ref="§5 C16", engine="outline",
     note="Trusted: Coq kernel, hand-written model of src/feature.rs:55-170 with the Unicode White_Space table written out, harness, orchestrator. Distinctness of positions is proved under the hypothesis that Examples tables are laid out one after another (a fact about the third-party gherkin parser, validated on the parsed stream).",
     technique="Coq theorems about the model + differential correspondence check"),
 "C17": dict(
     text="Full: the Gallina model of step::Collection (insert-or-replace per (keyword, regex text, location)) and find is proved keyword-scoped, exact about none/unique/ambiguous, to list all candidates sorted by the total order on (regex text, Option<Location>), and to be independent of HashMap iteration order and of registration order (for pairwise distinct keys); tied to the code by differential testing under two registration orders and fresh RandomStates.",
     design_ref="§5 C17", engine="stepmatch",
     note="Trusted: Coq kernel, hand-written model of src/step.rs:101-212 (validated by the differential check), harness, orchestrator. The regex engine (captures, capture_names) is an oracle whose observed answers are handed to the model.",
     technique="Coq theorems about the model + differential correspondence check"),
}
ENGINES = {
 "attempt": ("/verif/harness/src/engines/attempt.rs", "differential correspondence: one scripted scenario (all attempts) through the REAL runner::Basic; event stream + callback log vs Gallina model; Coq-defined monitors"),
 "combinators": ("/verif/harness/src/engines/combinators.rs", "differential correspondence: dynamically assembled REAL writer pipelines (FailOnSkipped/Repeat/Tee/Or/discard/Normalize/Summarize/Libtest around recording leaves) vs Gallina models, per handle_event call"),
 "filter": ("/verif/harness/src/engines/filter.rs", "differential correspondence: real Cucumber::filter_run (vector parser, recording Runner) vs Gallina model"),
 "outline": ("/verif/harness/src/engines/outline.rs", "differential correspondence: real Feature::expand_examples (hand-built, scanner probes, parsed texts) vs Gallina model"),
 "stepmatch": ("/verif/harness/src/engines/stepmatch.rs", "differential correspondence: real step::Collection::find under two registration orders vs Gallina model"),
 "retryopts": ("/verif/harness/src/engines/retryopts.rs", "differential correspondence: real parse_from_tags / Basic::run vs Gallina model evaluated by vm_compute"),
}
HOOK_COMMITS = []
ADD_ONLY = True
