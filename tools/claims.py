# Per-property claims rendered into MANIFEST.json by tools/mkmanifest.py
CLAIMS = {
 "C18": dict(
     text="Full for well-formed retry tags: the Gallina transcription of RetryOptions::parse_from_tags and of the CLI/builder merge is proved equal to an independent executable specification (nearest level, four tag forms, fall-backs) for all tag lists, CLIs and duration parsers outside known-finding class K18a; the model is tied to the code on every run by differential testing (direct calls and end-to-end through Basic::run).",
     design_ref="§5 C18", engine="retryopts",
     note="Trusted: Coq kernel, the hand-written model of src/runner/basic.rs:142-195,762-766 (validated, not verified), the harness and orchestrator; humantime::parse_duration is an oracle; K18a (prefix-only tags such as @retrying) excluded by hypothesis and reported as KNOWN-FINDING.",
     technique="Coq theorem (model = spec) + differential correspondence check of model vs code"),
}
ENGINES = {
 "retryopts": ("/verif/harness/src/engines/retryopts.rs", "differential correspondence: real parse_from_tags / Basic::run vs Gallina model evaluated by vm_compute"),
}
HOOK_COMMITS = []
ADD_ONLY = True
