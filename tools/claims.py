# Per-property claims rendered into MANIFEST.json by tools/mkmanifest.py
CLAIMS = {
 "C18": dict(
     text="Full for well-formed retry tags: the Gallina transcription of RetryOptions::parse_from_tags and of the CLI/builder merge is proved equal to an independent executable specification (nearest level, four tag forms, fall-backs) for all tag lists, CLIs and duration parsers outside known-finding class K18a; the model is tied to the code on every run by differential testing (direct calls and end-to-end through Basic::run).",
     design_ref="§5 C18", engine="retryopts",
     note="Trusted: Coq kernel, the hand-written model of src/runner/basic.rs:142-195,762-766 (validated, not verified), the harness and orchestrator; humantime::parse_duration is an oracle; K18a (prefix-only tags such as @retrying) excluded by hypothesis and reported as KNOWN-FINDING.",
     technique="Coq theorem (model = spec) + differential correspondence check of model vs code"),
 "C13": dict(
     text="Full: the Gallina transcription of FailOnSkipped, Repeat, Tee, Or, discard::Arbitrary and discard::Stats as one pipeline grammar over recording leaves is proved transparent for arbitrary (not only contract-abiding) event lists and arbitrary nestings: FailOnSkipped rewrites exactly the Skipped step/background events of selected scenarios in place, Repeat forwards everything at once and re-delivers the selected events once, in order, right after Finished, Tee delivers everything to both sides, Or each event to exactly one side, Stats combine by max / sum; tied to the code by running the real wrappers around recording leaves and comparing deliveries after every handle_event call.",
     design_ref="§5 C13", engine="combinators",
     note="Trusted: Coq kernel, hand-written model of src/writer/{fail_on_skipped,repeat,tee,or,discard}.rs (validated by the differential check), harness (dynpipe.rs boxes the real wrappers), orchestrator. User predicates are tables (pure functions of scenario / event).",
     technique="Coq theorems about the model + differential correspondence check"),
 "C15": dict(
     text="Full: the Gallina model of the filter built in Cucumber::filter_run is proved to keep exactly the scenarios accepted by (--name regex, else --tags over feature+rule+scenario tags, else the closure), in original order, with rules/background/tags intact, and tag expressions are proved to be ordinary boolean formulas over tag membership; tied to the code by driving the real filter_run with a vector parser and a recording Runner.",
     design_ref="§5 C15", engine="filter",
     note="Trusted: Coq kernel, hand-written model of src/cucumber.rs:704-776 and src/tag.rs (validated by the differential check), harness, orchestrator. Regex::is_match is an oracle; TagOperation trees are built directly (the gherkin tag-expression text parser is not exercised).",
     technique="Coq theorems about the model + differential correspondence check"),
 "C16": dict(
     text="Full for the expansion algorithm, positions under a stated layout hypothesis: the Gallina model of expand_examples (incl. a one-pass scanner proved to be THE leftmost non-overlapping scan for <name>, verbatim substitution, first-error semantics, row order, tag order, positions) is tied to the code on hand-built features, on scanner probes that expose the real TEMPLATE_REGEX tokenisation, and on generated .feature texts run through the real gherkin parser.",
     design_ref="§5 C16", engine="outline",
     note="Trusted: Coq kernel, hand-written model of src/feature.rs:55-170 with the Unicode White_Space table written out, harness, orchestrator. Distinctness of positions is proved under the hypothesis that Examples tables are laid out one after another (a fact about the third-party gherkin parser, validated on the parsed stream).",
     technique="Coq theorems about the model + differential correspondence check"),
 "C17": dict(
     text="Full: the Gallina model of step::Collection (insert-or-replace per (keyword, regex text, location)) and find is proved keyword-scoped, exact about none/unique/ambiguous, to list all candidates sorted by the total order on (regex text, Option<Location>), and to be independent of HashMap iteration order and of registration order (for pairwise distinct keys); tied to the code by differential testing under two registration orders and fresh RandomStates.",
     design_ref="§5 C17", engine="stepmatch",
     note="Trusted: Coq kernel, hand-written model of src/step.rs:101-212 (validated by the differential check), harness, orchestrator. The regex engine (captures, capture_names) is an oracle whose observed answers are handed to the model.",
     technique="Coq theorems about the model + differential correspondence check"),
}
ENGINES = {
 "combinators": ("/verif/harness/src/engines/combinators.rs", "differential correspondence: real FailOnSkipped/Repeat/Tee/Or/discard nestings around recording leaves vs Gallina model, per handle_event call"),
 "filter": ("/verif/harness/src/engines/filter.rs", "differential correspondence: real Cucumber::filter_run (vector parser, recording Runner) vs Gallina model"),
 "outline": ("/verif/harness/src/engines/outline.rs", "differential correspondence: real Feature::expand_examples (hand-built, scanner probes, parsed texts) vs Gallina model"),
 "stepmatch": ("/verif/harness/src/engines/stepmatch.rs", "differential correspondence: real step::Collection::find under two registration orders vs Gallina model"),
 "retryopts": ("/verif/harness/src/engines/retryopts.rs", "differential correspondence: real parse_from_tags / Basic::run vs Gallina model evaluated by vm_compute"),
}
HOOK_COMMITS = []
ADD_ONLY = True
