#!/usr/bin/env python3
"""tools/fill_meta.py <sweep.log> — records the outcome of a regression sweep (tools/seedtest.sh over every filed seeded
change; lines `<seed>: DETECTED <prop>: VIOLATION ...` or `<seed>: MISSED ...`) in seeded/<seed>/meta.json."""
import json, os, re, sys

root = os.path.join(os.path.dirname(os.path.abspath(__file__)), "..", "seeded")
n = {"DETECTED": 0, "MISSED": 0, "other": 0}
for line in open(sys.argv[1]):
    m = re.match(r"^(C\d\d-\d+): (DETECTED|MISSED) (C\d\d)(.*)$", line.strip())
    if not m:
        continue
    seed, what, prop, rest = m.groups()
    p = os.path.join(root, seed, "meta.json")
    if not os.path.exists(p):
        n["other"] += 1
        continue
    meta = json.load(open(p))
    meta["sweep_result"] = ("%s %s%s" % (what, prop, rest)).strip()
    meta["detected_by"] = ["%s quick tier" % prop] if what == "DETECTED" else []
    json.dump(meta, open(p, "w"), indent=1, ensure_ascii=False)
    n[what] += 1
print(n)
