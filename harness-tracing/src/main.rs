//! `vht`: ONE case per process (the tracing subscriber is global and can be installed once).
//! Reads a JSON case on stdin, runs the REAL `Cucumber` with `init_tracing()` on scripted scenarios whose
//! steps emit `tracing` events before and after await points, and prints the totally ordered history.
//!
//! Case: {"concurrency": null|k, "outer": bool (the whole run is polled inside an application span),
//!        "scenarios": [{"id": s, "retry": null|n, "fails": k,
//!        "filter": "warn" (the cucumber layer behind LevelFilter::WARN, messages emitted as warnings),
//!        "hooks": {"before": [pre, yields, post] | null, "after": [pre, yields, post] | null} (before / after hooks that log
//!                  inside their own spans; the "cb" record of a hook carries step id 90001 (before) / 90002 (after)),
//!        "which_after": bool (a `which_scenario` classifier installed AFTER init_tracing()),
//!         "steps": [{"id": st, "pre": n, "yields": n, "post": n, "inner": bool (messages are emitted inside a user
//!                    span nested in the step's span), "under": bool (the message text contains double underscores),
//!                    "off_thread": bool (one more message, emitted by a helper thread without a current span, with the
//!                    step's span as its explicit parent),
//!                    "nested": bool (one more message, logged by a step of a NESTED `runner::Basic` run that this step drives
//!                    to completion: two scenario spans are then nested, the outer one must win),
//!                    "foreign": bool (after each of its own messages the step logs one line inside a ROOT span that carries a scenario id
//!                    no collector knows — what a second Cucumber run in the same process produces; it is broadcast and must
//!                    neither be lost nor hold anything back; its Log events are marked ["LogForeign"]),
//!                    "leak": bool (a clone of the step's span is held beyond the step's end and dropped inside a step of
//!                    another scenario: the span outlives its future, the close arrives AFTER the subscription)}]}]}
//! History records: ["cb", scenario, step, attempt, span] ["emit", scenario, message id, span(, "off")] ["close", span] ["sub", span] ["fwd"]
//!                  ["newspan", span, parent|null] ["spansid", span, scenario id] ["fmt", innermost scope span|null, resolved scenario id|null]
//!                  ["reg", scenario id, scenario] ["regretry", scenario id, [current, left]|null] ["unreg", scenario id]
//!                  ["ev", <event>] where a Log event is ["Scen", f, r, s, retries, ["LogMsg", message id | null]]

#[path = "../../harness/src/events.rs"]
#[allow(dead_code)]
mod events;
#[path = "../../harness/src/util.rs"]
#[allow(dead_code)]
mod util;

use std::{
    cell::RefCell,
    collections::BTreeMap,
    io::Read as _,
    pin::Pin,
    task::{Context, Poll},
};

use cucumber::{
    Event, World, Writer, WriterExt as _, cli, event, parser,
    runner::basic::verif_trace,
    step, writer,
};
use futures::{FutureExt as _, future::LocalBoxFuture};
use serde_json::{Value, json};

#[derive(Debug, Default)]
struct W;
impl World for W {
    type Error = std::convert::Infallible;
    async fn new() -> Result<Self, Self::Error> {
        Ok(W)
    }
}

struct YieldN(u64);
impl Future for YieldN {
    type Output = ();
    fn poll(mut self: Pin<&mut Self>, cx: &mut Context<'_>) -> Poll<()> {
        if self.0 == 0 {
            Poll::Ready(())
        } else {
            self.0 -= 1;
            cx.waker().wake_by_ref();
            Poll::Pending
        }
    }
}

/// Like `YieldN`; every poll also ages the span clones other steps have leaked (see `leak` below) and drops those that
/// are `LEAK_AGE` polls old. While such a future has more than `LEAK_AGE` polls left it is counted in `St::yielders`: a
/// step leaks its span only when some other step is guaranteed to be polled often enough for the span to be closed.
const LEAK_AGE: u64 = 5;
struct DrainYield {
    left: u64,
    counted: bool,
}
impl DrainYield {
    fn new(n: u64) -> Self {
        let counted = n > LEAK_AGE;
        if counted {
            ST.with(|s| s.borrow_mut().yielders += 1);
        }
        DrainYield { left: n, counted }
    }
    fn uncount(&mut self) {
        if self.counted {
            self.counted = false;
            ST.with(|s| s.borrow_mut().yielders -= 1);
        }
    }
}
impl Drop for DrainYield {
    fn drop(&mut self) {
        self.uncount();
    }
}
impl Future for DrainYield {
    type Output = ();
    fn poll(mut self: Pin<&mut Self>, cx: &mut Context<'_>) -> Poll<()> {
        let old: Vec<tracing::Span> = ST.with(|s| {
            let mut s = s.borrow_mut();
            for l in &mut s.leaked {
                l.1 += 1;
            }
            let (old, young): (Vec<_>, Vec<_>) = std::mem::take(&mut s.leaked).into_iter().partition(|l| l.1 >= LEAK_AGE);
            s.leaked = young;
            old.into_iter().map(|l| l.0).collect()
        });
        drop(old); // these spans close here, inside another scenario's step, after their waiters have subscribed
        if self.left <= LEAK_AGE {
            self.uncount();
        }
        if self.left == 0 {
            Poll::Ready(())
        } else {
            self.left -= 1;
            cx.waker().wake_by_ref();
            Poll::Pending
        }
    }
}

#[derive(Default)]
struct St {
    steps: BTreeMap<u64, (u64, u64, u64, bool, bool)>, // step id -> pre, yields, post, inner, under
    leaky: std::collections::BTreeSet<u64>, // steps that hold a clone of their span beyond their own end
    foreign: std::collections::BTreeSet<u64>,  // steps that log one line under a scenario id nobody registered
    nested: std::collections::BTreeSet<u64>,   // steps that drive a nested run whose step logs one more message
    off_thread: std::collections::BTreeSet<u64>, // steps that also log from a helper thread (explicit parent span)
    leaked: Vec<(tracing::Span, u64)>,   // with the number of yield polls seen since
    yielders: u64,
    nsteps: BTreeMap<u64, u64>,
    fails: BTreeMap<u64, u64>,
    visits: BTreeMap<u64, u64>,
    step_no: BTreeMap<u64, u64>,
    next_msg: u64,
    warn: bool,
    hook_before: Option<(u64, u64, u64)>,
    stagger: bool,
    hook_after: Option<(u64, u64, u64)>,
    events: Vec<Value>,
}
thread_local! {
    static ST: RefCell<St> = RefCell::new(St::default());
}

fn emit(sid: u64, span: u64, under: bool) {
    let m = ST.with(|s| {
        let mut s = s.borrow_mut();
        s.next_msg += 1;
        s.next_msg
    });
    verif_trace::record("emit", sid * 1_000_000 + m, span);
    let warn = ST.with(|s| s.borrow().warn);
    if warn {
        // the run is filtered at WARN: harness messages are warnings, and an INFO line that must never show up
        if under {
            tracing::warn!("Foo.__init__ LOGMSG#{m}# snake__case");
        } else {
            tracing::warn!("LOGMSG#{m}#");
        }
        tracing::info!("filtered out");
    } else if under {
        // text with double underscores (the collector's own separator): `Foo.__init__(self)`, `snake__case`
        tracing::info!("Foo.__init__ LOGMSG#{m}# snake__case");
    } else {
        tracing::info!("LOGMSG#{m}#");
    }
}

/// A message emitted by a helper thread that has NO current span, with the step's span as its explicit parent (what a
/// blocking worker handed `Span::current()` does). The thread is joined at once, so the message is emitted at this
/// point of the step; the harness's own record is made here, on the runner's thread.
fn emit_off_thread(sid: u64, span: u64) {
    let m = ST.with(|s| {
        let mut s = s.borrow_mut();
        s.next_msg += 1;
        s.next_msg
    });
    // (own kind: the event is formatted on the helper thread, whose trace points are not part of this history)
    verif_trace::record("emitoff", sid * 1_000_000 + m, span);
    let warn = ST.with(|s| s.borrow().warn);
    let parent = tracing::Span::current();
    let dispatch = tracing::dispatcher::get_default(Clone::clone);
    std::thread::spawn(move || {
        tracing::dispatcher::with_default(&dispatch, || {
            if warn {
                tracing::warn!(parent: &parent, "LOGMSG#{m}#");
            } else {
                tracing::info!(parent: &parent, "LOGMSG#{m}#");
            }
        });
    })
    .join()
    .expect("helper thread");
}

thread_local! {
    static NESTED_MSG: std::cell::Cell<(u64, bool)> = const { std::cell::Cell::new((0, false)) };
}
fn nested_step(_: &mut W, _: step::Context) -> LocalBoxFuture<'_, ()> {
    async move {
        let (m, warn) = NESTED_MSG.with(std::cell::Cell::get);
        if warn {
            tracing::warn!("LOGMSG#{m}#");
        } else {
            tracing::info!("LOGMSG#{m}#");
        }
    }
    .boxed_local()
}

/// A message logged by a step of a NESTED run: the outer step drives a second `runner::Basic` (one feature, one scenario,
/// one step) to completion, the way crates built on top of `cucumber` test themselves. The nested runner has no logs
/// collector but does create its own `scenario` / `step` spans, as children of the outer step's span: the message is
/// logged inside TWO scenario spans and belongs to the OUTER scenario. The nested run is polled to completion right here
/// (a busy loop with a no-op waker), so nothing of the outer run happens in between; the trace points and events of the
/// nested runner are bracketed by "nb" / "ne" records and dropped from the history.
fn emit_nested(sid: u64, span: u64) {
    use cucumber::Runner as _;
    use futures::StreamExt as _;
    let m = ST.with(|s| {
        let mut s = s.borrow_mut();
        s.next_msg += 1;
        s.next_msg
    });
    verif_trace::record("emit", sid * 1_000_000 + m, span);
    NESTED_MSG.with(|c| c.set((m, ST.with(|s| s.borrow().warn))));
    let mut f = util::feature("nested feature", vec![]);
    f.position.line = 7001;
    let mut sc = util::scenario("nested scenario", vec![], 7002);
    sc.steps.push(util::step(gherkin::StepType::Given, "nested say", 7003));
    f.scenarios.push(sc);
    let r = cucumber::runner::Basic::<W>::default().given(regex::Regex::new("^nested say$").expect("re"), nested_step);
    verif_trace::record("nb", 0, 0);
    let mut fut = r
        .run(futures::stream::iter(vec![Ok(f)]), cucumber::runner::basic::Cli::default())
        .collect::<Vec<_>>()
        .boxed_local();
    let waker = futures::task::noop_waker();
    let mut cx = Context::from_waker(&waker);
    let mut polls = 0u32;
    while fut.as_mut().poll(&mut cx).is_pending() {
        polls += 1;
        assert!(polls < 100_000, "nested run does not end");
    }
    verif_trace::record("ne", 0, 0);
}

fn logging_step(_: &mut W, ctx: step::Context) -> LocalBoxFuture<'_, ()> {
    async move {
        let mut it = ctx.step.value.split(' ');
        let sid: u64 = it.nth(1).and_then(|n| n.parse().ok()).unwrap_or(0);
        let stid = ctx.step.position.line as u64;
        let (pre, yields, post, inner, under, last, k, nfail) = ST.with(|s| {
            let mut s = s.borrow_mut();
            let (pre, yields, post, inner, under) = s.steps.get(&stid).copied().unwrap_or((0, 0, 0, false, false));
            let n = s.nsteps.get(&sid).copied().unwrap_or(1);
            let no = s.step_no.entry(sid).or_insert(0);
            if *no == 0 {
                *s.visits.entry(sid).or_insert(0) += 1;
            }
            let no = s.step_no.get_mut(&sid).expect("no");
            *no += 1;
            let last = *no >= n;
            if last {
                *no = 0;
            }
            let k = s.visits.get(&sid).copied().unwrap_or(1) - 1;
            (pre, yields, post, inner, under, last, k, s.fails.get(&sid).copied().unwrap_or(0))
        });
        let span = tracing::Span::current().id().map_or(0, |i| i.into_u64());
        verif_trace::record("cbspan", sid * 1_000_000 + stid * 10 + k, span);
        // `span` is the step's span; with `inner` the message is emitted inside a user span nested in it
        let foreign = ST.with(|s| s.borrow().foreign.contains(&stid));
        let say = |n: u64| {
            for _ in 0..n {
                if inner {
                    let user = tracing::info_span!("user_inner");
                    let _g = user.enter();
                    emit(sid, span, under);
                } else {
                    emit(sid, span, under);
                }
                if foreign {
                    // after each of its own messages: a line logged inside a ROOT span carrying an UNREGISTERED scenario id
                    // (what a second runner in the same process produces, interleaved with this run's logs)
                    let warn = ST.with(|s| s.borrow().warn);
                    let sp = tracing::info_span!(parent: None, "scenario", __cucumber_scenario_id = 4_000_000_000u64);
                    sp.in_scope(|| {
                        if warn {
                            tracing::warn!("FOREIGN line");
                        } else {
                            tracing::info!("FOREIGN line");
                        }
                    });
                }
            }
        };
        say(pre);
        DrainYield::new(yields).await;
        say(post);
        if ST.with(|s| s.borrow().off_thread.contains(&stid)) {
            emit_off_thread(sid, span);
        }
        if ST.with(|s| s.borrow().nested.contains(&stid)) {
            emit_nested(sid, span);
        }
        // `leak`: the span outlives the step's future (as when a task spawned `.in_current_span()` is still alive): a
        // clone of it is parked until a step of another scenario is polled — only if one is certain to be
        let leak = ST.with(|s| {
            let s = s.borrow();
            s.leaky.contains(&stid) && s.yielders > 0
        });
        if leak {
            let sp = tracing::Span::current();
            ST.with(|s| s.borrow_mut().leaked.push((sp, 0)));
        }
        if last && k < nfail {
            std::panic::panic_any(format!("panic#{}", 1 + k));
        }
    }
    .boxed_local()
}

/// Body of a logging hook: `which` = 1 before, 2 after. Messages are emitted inside the hook's span.
async fn hook_body(sc: &gherkin::Scenario, which: u64) {
    let sid: u64 = sc.name.trim_start_matches('S').parse().unwrap_or(0);
    let (cfg, k) = ST.with(|s| {
        let s = s.borrow();
        let v = s.visits.get(&sid).copied().unwrap_or(0);
        // the before hook runs before the first step of the attempt (visits not yet bumped), the after hook after it
        (if which == 1 { s.hook_before } else { s.hook_after }, if which == 1 { v } else { v.saturating_sub(1) })
    });
    let Some((pre, yields, post)) = cfg else { return };
    // `stagger`: the hooks of different scenarios suspend for different numbers of polls, so that a scenario gets its
    // first poll while the hook of another one is suspended
    let yields = if ST.with(|s| s.borrow().stagger) { yields + (sid % 3) * 15 } else { yields };
    let span = tracing::Span::current().id().map_or(0, |i| i.into_u64());
    verif_trace::record("cbspan", sid * 1_000_000 + (90_000 + which) * 10 + k, span);
    for _ in 0..pre {
        emit(sid, span, false);
    }
    YieldN(yields).await;
    for _ in 0..post {
        emit(sid, span, false);
    }
}
fn before_hook<'a>(
    _: &'a gherkin::Feature,
    _: Option<&'a gherkin::Rule>,
    sc: &'a gherkin::Scenario,
    _: &'a mut W,
) -> LocalBoxFuture<'a, ()> {
    hook_body(sc, 1).boxed_local()
}
fn after_hook<'a>(
    _: &'a gherkin::Feature,
    _: Option<&'a gherkin::Rule>,
    sc: &'a gherkin::Scenario,
    _: &'a event::ScenarioFinished,
    _: Option<&'a mut W>,
) -> LocalBoxFuture<'a, ()> {
    hook_body(sc, 2).boxed_local()
}

struct Rec;
impl Writer<W> for Rec {
    type Cli = cli::Empty;
    async fn handle_event(&mut self, ev: parser::Result<Event<event::Cucumber<W>>>, _: &Self::Cli) {
        let mut j = events::ev_json(&ev)["ev"].clone();
        // Log payloads: keep only the id of the harness message
        if j[0] == "Scen" && j[5][0] == "Log" {
            let msg = j[5][1].as_str().map(str::to_owned).unwrap_or_default();
            let id = msg
                .split("LOGMSG#")
                .nth(1)
                .and_then(|r| r.split('#').next())
                .and_then(|n| n.parse::<u64>().ok());
            j[5] = if msg.contains("FOREIGN line") { json!(["LogForeign"]) } else { json!(["LogMsg", id]) };
        }
        ST.with(|s| s.borrow_mut().events.push(j));
    }
}
impl<V> writer::Arbitrary<W, V> for Rec {
    async fn write(&mut self, _: V) {}
}
impl writer::NonTransforming for Rec {}
impl writer::Normalized for Rec {} // the RAW stream is wanted: no Normalize in front of the recorder
impl writer::Stats<W> for Rec {
    fn passed_steps(&self) -> usize { 0 }
    fn skipped_steps(&self) -> usize { 0 }
    fn failed_steps(&self) -> usize { 0 }
    fn retried_steps(&self) -> usize { 0 }
    fn parsing_errors(&self) -> usize { 0 }
    fn hook_errors(&self) -> usize { 0 }
}

fn main() {
    let mut inp = String::new();
    std::io::stdin().read_to_string(&mut inp).expect("stdin");
    let case: Value = serde_json::from_str(inp.lines().next().unwrap_or("{}")).expect("json");
    // watchdog: a run that has not ended after 20 s (they take milliseconds) is reported as hanging
    {
        let id = case["id"].clone();
        std::thread::spawn(move || {
            std::thread::sleep(std::time::Duration::from_secs(20));
            println!("\n@@R {}", json!({"id": id, "hang": true}));
            std::process::exit(3);
        });
    }
    let mut f = util::feature("F", vec![]);
    f.position.line = 1;
    for sc in case["scenarios"].as_array().into_iter().flatten() {
        let sid = sc["id"].as_u64().unwrap_or(0);
        let tags = sc["retry"].as_u64().map(|n| vec![format!("retry({n})")]).unwrap_or_default();
        let mut s = util::scenario(&format!("S{sid}"), tags, sid as usize);
        for st in sc["steps"].as_array().into_iter().flatten() {
            let stid = st["id"].as_u64().unwrap_or(0);
            s.steps.push(util::step(gherkin::StepType::Given, &format!("log {sid}"), stid as usize));
            if st["off_thread"].as_bool().unwrap_or(false) {
                ST.with(|x| x.borrow_mut().off_thread.insert(stid));
            }
            if st["foreign"].as_bool().unwrap_or(false) {
                ST.with(|x| x.borrow_mut().foreign.insert(stid));
            }
            if st["nested"].as_bool().unwrap_or(false) {
                ST.with(|x| x.borrow_mut().nested.insert(stid));
            }
            if st["leak"].as_bool().unwrap_or(false) {
                ST.with(|x| x.borrow_mut().leaky.insert(stid));
            }
            ST.with(|x| {
                x.borrow_mut().steps.insert(
                    stid,
                    (
                        st["pre"].as_u64().unwrap_or(0),
                        st["yields"].as_u64().unwrap_or(0),
                        st["post"].as_u64().unwrap_or(0),
                        st["inner"].as_bool().unwrap_or(false),
                        st["under"].as_bool().unwrap_or(false),
                    ),
                );
            });
        }
        ST.with(|x| {
            let mut x = x.borrow_mut();
            x.nsteps.insert(sid, s.steps.len() as u64);
            x.fails.insert(sid, sc["fails"].as_u64().unwrap_or(0));
        });
        f.scenarios.push(s);
    }
    let _ = verif_trace::take();
    let outer = case["outer"].as_bool().unwrap_or(false);
    let warn = case["filter"].as_str() == Some("warn");
    ST.with(|x| x.borrow_mut().warn = warn);
    let which_after = case["which_after"].as_bool().unwrap_or(false);
    let triple = |v: &Value| v.as_array().map(|a| (a[0].as_u64().unwrap_or(0), a[1].as_u64().unwrap_or(0), a[2].as_u64().unwrap_or(0)));
    ST.with(|x| {
        let mut x = x.borrow_mut();
        x.hook_before = triple(&case["hooks"]["before"]);
        x.hook_after = triple(&case["hooks"]["after"]);
        x.stagger = case["hooks"]["stagger"].as_bool().unwrap_or(false);
    });
    let res = std::panic::catch_unwind(move || {
        use tracing::Instrument as _;
        use tracing_subscriber::{Layer as _, layer::SubscriberExt as _};
        // one expansion per runner type (hooks change the type of the runner)
        macro_rules! launch {
            ($runner:expr) => {{
                let cuke = cucumber::Cucumber::<W, _, _, _, _, cli::Empty>::custom(VecParser(vec![f]), $runner, Rec);
                // `filter: "warn"`: the cucumber layer sits behind a stricter level filter than the usual INFO
                let cuke = if warn {
                    cuke.configure_and_init_tracing(
                        tracing_subscriber::fmt::format::DefaultFields::new(),
                        tracing_subscriber::fmt::format::Format::default(),
                        |layer| {
                            tracing_subscriber::registry()
                                .with(tracing_subscriber::filter::LevelFilter::WARN.and_then(layer))
                        },
                    )
                } else {
                    cuke.init_tracing()
                };
                // `which_after`: the runner is customised AFTER the tracing integration has been switched on (a
                // classifier that classifies like the default one: no scenario here is tagged @serial)
                let run: futures::future::LocalBoxFuture<'static, ()> = if which_after {
                    cuke.which_scenario(|_, _, _| cucumber::runner::basic::ScenarioType::Concurrent)
                        .with_default_cli()
                        .run(())
                        .map(drop)
                        .boxed_local()
                } else {
                    cuke.with_default_cli().run(()).map(drop).boxed_local()
                };
                run
            }};
        }
        let base = cucumber::runner::Basic::default()
            .max_concurrent_scenarios(case["concurrency"].as_u64().map(|n| n as usize))
            .given(regex::Regex::new("^log ").expect("re"), logging_step);
        // `hooks`: before and after hooks that log inside their own spans
        let run = if case["hooks"].is_object() { launch!(base.before(before_hook).after(after_hook)) } else { launch!(base) };
        if outer {
            // the subscriber is installed above, so the span is created lazily inside
            futures::executor::block_on(async move {
                run.instrument(tracing::info_span!("application")).await;
            });
        } else {
            futures::executor::block_on(run);
        }
    });
    let trace = verif_trace::take();
    let evs = ST.with(|s| std::mem::take(&mut s.borrow_mut().events));
    let mut next = 0;
    let mut hist = Vec::new();
    let mut in_nested = false;
    for (kind, a, b, _) in trace {
        // everything the nested runner recorded (its loop turns, its events, the closing of its spans) is not part of
        // the outer run's history
        if kind == "nb" || kind == "ne" {
            in_nested = kind == "nb";
            continue;
        }
        // ... except what the tracing layers saw of it: its spans and the formatting of its message
        if in_nested && !matches!(kind, "newspan" | "spansid" | "fmt") {
            continue;
        }
        let opt = |x: u64| if x == 0 { Value::Null } else { json!(x) };
        match kind {
            "emitoff" => hist.push(json!(["emit", a / 1_000_000, a % 1_000_000, b, "off"])),
            "newspan" => hist.push(json!(["newspan", a, opt(b)])),
            "spansid" => hist.push(json!(["spansid", a, b])),
            "fmt" => hist.push(json!(["fmt", opt(a), if b == 0 { Value::Null } else { json!(b - 1) }])),
            "reg" => hist.push(json!(["reg", a, b])),
            "regretry" => hist.push(json!(["regretry", a, if b == 0 { Value::Null } else { json!([(b - 1) / 1000, (b - 1) % 1000]) }])),
            "unreg" => hist.push(json!(["unreg", a])),
            "ev" => {
                hist.push(json!(["ev", evs.get(next).cloned().unwrap_or(json!(["MISSING"]))]));
                next += 1;
            }
            "emit" => hist.push(json!(["emit", a / 1_000_000, a % 1_000_000, b])),
            "cbspan" => hist.push(json!(["cb", a / 1_000_000, (a % 1_000_000) / 10, a % 10, b])),
            "close" => hist.push(json!(["close", a])),
            "sub" => hist.push(json!(["sub", a])),
            "fwd" => hist.push(json!(["fwd"])),
            _ => {}
        }
    }
    let id = serde_json::from_str::<Value>(inp.lines().next().unwrap_or("{}")).map(|c| c["id"].clone()).unwrap_or(Value::Null);
    println!(
        "\n@@R {}",
        json!({"id": id, "history": hist, "events": evs.len(), "traced": next, "panicked": res.is_err()})
    );
}

struct VecParser(Vec<gherkin::Feature>);
impl cucumber::Parser<()> for VecParser {
    type Cli = cli::Empty;
    type Output = futures::stream::Iter<std::vec::IntoIter<parser::Result<gherkin::Feature>>>;
    fn parse(self, (): (), _: cli::Empty) -> Self::Output {
        futures::stream::iter(self.0.into_iter().map(Ok).collect::<Vec<_>>())
    }
}
