"""Statistics pipelines (Summarize / Libtest / Normalize / FailOnSkipped / Repeat / Tee / Or) for C01 and C12."""
import re
from vcheck import cN, cbool, clist, cpair
import gens
import evgen


def cspipe(p):
    if "leaf" in p:
        return "(QLeaf %s)" % cN(p["leaf"])
    if "summarize" in p:
        return "(QSumm %s)" % cspipe(p["summarize"])
    if "libtest" in p:
        return "QLibtest"
    if "norm_libtest" in p:
        return "(QNorm QLibtest)"
    if "normalize" in p:
        return "(QNorm %s)" % cspipe(p["normalize"])
    if "fos" in p:
        k = "FosDefault" if p["fos"] is None else "(FosCustom %s)" % clist(p["fos"], cN)
        return "(QFos %s %s)" % (k, cspipe(p["p"]))
    if "repeat" in p:
        f = p["repeat"]
        k = {"skipped": "FSkipped", "failed": "FFailed"}.get(f) if isinstance(f, str) else "(FCustom %s)" % clist(f, cN)
        return "(QRepeat %s %s)" % (k, cspipe(p["p"]))
    if "tee" in p:
        return "(QTee %s %s)" % (cspipe(p["tee"][0]), cspipe(p["tee"][1]))
    if "or" in p:
        return "(QOr %s %s %s)" % (clist(p["or"], cN), cspipe(p["l"]), cspipe(p["r"]))
    raise ValueError("spipe")


NUM = re.compile(r"(\d+) (feature|rule|scenario|step|parsing error|hook error)s?")
ST = re.compile(r"(\d+) (passed|skipped|failed|retr(?:y|ies))")


def parse_summary(text):
    """[features, rules, sc p/s/f/r, st p/s/f/r, parsing errors, hook errors] from the summary text."""
    if "[Summary]" not in text:
        raise ValueError("not a summary: %r" % text)
    out = {"feature": 0, "rule": 0, "parsing error": 0, "hook error": 0}
    sc = [0, 0, 0, 0]
    st = [0, 0, 0, 0]
    for line in text.split("\n"):
        for m in NUM.finditer(line):
            n, what = int(m.group(1)), m.group(2)
            if what in ("scenario", "step"):
                tgt = sc if what == "scenario" else st
                for m2 in ST.finditer(line[m.end():]):
                    k = m2.group(2)
                    idx = 0 if k == "passed" else 1 if k == "skipped" else 2 if k == "failed" else 3
                    tgt[idx] = int(m2.group(1))
                total = tgt[0] + tgt[1] + tgt[2]
                if total != n:
                    raise ValueError("summary total mismatch in %r" % line)
                break
            else:
                out[what] = n
    return [out["feature"], out["rule"]] + sc + st + [out["parsing error"], out["hook error"]]


def cdelivery(d):
    if "write" in d:
        return cpair(cN(d["leaf"]), "(QWrite %s)" % clist(parse_summary(d["write"]), cN))
    return cpair(cN(d["leaf"]), "(QEv %s)" % evgen.cmev(d))


def cgetters(row):
    return "(mk_getters %s, %s)" % (" ".join(cN(x) for x in row[:6]), cbool(row[6]))


def term(case, res):
    if any("unsupported_write" in d for call in res["calls"] for d in call):
        raise ValueError("pipeline does not support Arbitrary::write")
    return "(mk_scase %s %s %s %s %s)" % (
        clist(case["features"], gens.cfeature), cspipe(case["pipe"]), evgen.cmevs(case["events"]),
        clist(res["calls"], lambda call: clist(call, cdelivery)), clist(res["stats_seq"], cgetters))


LEAF = {"leaf": 0, "stats": [0] * 6}


def stats_features(rng):
    """Features for statistics cases; sometimes with a duplicated last own step or no own steps."""
    feats = evgen.small_features(rng, nmax=2, tags=["x", "allow.skipped", "y"])
    for f in feats:
        for r, s in gens.all_scenarios(f):
            x = rng.random()
            if x < 0.06:
                s["steps"] = []
            elif x < 0.12 and s["steps"]:
                pool = f["bg"] + (r["bg"] if r else []) + s["steps"][:-1]
                if pool:
                    s["steps"][-1] = dict(rng.choice(pool))
    return feats


def stats_stream(rng, feats):
    ev = evgen.contract_stream(rng, feats, fail_bias=rng.choice([0.3, 0.6, 1.0]), drop_tail=True)
    return ev


def panic_result(case):
    return dict(calls=[], writes=[], stats=[0] * 6, failed=False, stats_seq=[], extra_seq=[])
